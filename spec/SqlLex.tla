--------------------------------- MODULE SqlLex ---------------------------------
(* The lexical context automaton of MySQL statement text (properties C14, C17, C15).        *)
(*                                                                                          *)
(* A text is a sequence of SYMBOLS, one per byte.  Symbols with a lexical meaning have      *)
(* names: "SQ" ' , "DQ" " , "BQ" ` , "BS" \ , "DASH" - , "HASH" # , "SL" / , "ST" * ,         *)
(* "QM" ? , "SEMI" ; , "SP" space , "NL" newline , "TAB" tab; every other symbol (a letter,   *)
(* a digit, a comma ...) is an ordinary token character.  The automaton reads one symbol    *)
(* per step.  Decisions that need look-ahead in a hand-written scanner (--<space>, /*,       *)
(* doubled quotes) are expressed with "pending" contexts that are resolved by the next      *)
(* symbol or by the end of the text.                                                        *)
(*                                                                                          *)
(*   Markers(text)  = offsets of "?" read in context normal            (C14)                *)
(*   Pieces(text)   = maximal segments between ";" read in context normal, segments          *)
(*                    without any token (blank, or only comments) dropped (C17)             *)
(*                                                                                          *)
(* The TLC state graph of Spec is this automaton unrolled over every text that can be      *)
(* built by appending Words (symbol sequences; single symbols and spliced fragments) to    *)
(* Prefix, up to MaxLen symbols.                                                            *)
(* Not modelled: /*! version comments and /*+ hints (their content is code; "!" and "+"    *)
(* directly after /* are kept out of the alphabets), ANSI_QUOTES, charset introducers.      *)
EXTENDS Naturals, Sequences, FiniteSets, TLC

CONSTANTS Words,        \* set of symbol sequences that can be appended in one step
          Prefix,       \* symbol sequence every text starts with
          MaxLen,       \* bound on the number of symbols after the prefix
          MaxWords,     \* bound on the number of words appended
          NoBackslash   \* TRUE: sql_mode NO_BACKSLASH_ESCAPES (backslash is an ordinary character in strings)

IsSpace(c) == c \in {"SP", "NL", "TAB"}
IsQuote(c) == c \in {"SQ", "DQ"}

(* contexts:  N normal | D1 normal, one "-" pending | D2 normal, "--" pending | SL normal, "/" pending  *)
(*   SQ in '...' | SQE in '...' after backslash | SQQ in '...' just after a "'" (end or first of '')    *)
(*   DQ, DQE, DQQ likewise for "..." | BQ in `...` | BQQ in `...` just after a "`"                       *)
(*   LD in a -- comment | LH in a # comment | BC in /*...*/ | BCS in /*...*/ just after "*"              *)
Contexts == {"N", "D1", "D2", "SL", "SQ", "SQE", "SQQ", "DQ", "DQE", "DQQ", "BQ", "BQQ", "LD", "LH", "BC", "BCS"}
NormalLike == {"N", "D1", "D2", "SL", "SQQ", "DQQ", "BQQ"}       \* the next symbol is (or may be) read in context normal

L0 == [ctx |-> "N",
       pos |-> 0,            \* symbols read
       qs |-> <<>>,          \* every "?" read: [p |-> offset, c |-> context class, t |-> taint]
       seg |-> 0,            \* offset where the current segment starts
       tok |-> FALSE,        \* the current segment contains a token
       pieces |-> <<>>,      \* <<start, end>> of the non-blank segments closed so far
       seps |-> <<>>,        \* offsets of the ";" read in context normal
       esc |-> FALSE,        \* some string so far contained its own quote character escaped by a backslash
       bqq |-> FALSE,        \* some back-quoted identifier so far contained a ' or "
       cmq |-> FALSE]        \* some comment so far contained a ' or "

Taint(L) == (IF L.esc THEN <<"esc">> ELSE <<>>) \o (IF L.bqq THEN <<"bq">> ELSE <<>>) \o (IF L.cmq THEN <<"cm">> ELSE <<>>)

CtxClass(x) == CASE x \in {"SQ", "SQE"} -> "SQ"
                 [] x \in {"DQ", "DQE"} -> "DQ"
                 [] x = "BQ" -> "BQ"
                 [] x \in {"BC", "BCS"} -> "BC"
                 [] x = "LD" -> "LD"
                 [] x = "LH" -> "LH"
                 [] OTHER -> "N"

Q(L, cls) == [L EXCEPT !.qs = Append(@, [p |-> L.pos, c |-> cls, t |-> Taint(L)])]

(* symbol c read in context normal with nothing pending *)
Norm(L, c) ==
    CASE c = "QM"   -> [Q(L, "N") EXCEPT !.ctx = "N", !.tok = TRUE]
      [] c = "SQ"   -> [L EXCEPT !.ctx = "SQ", !.tok = TRUE]
      [] c = "DQ"   -> [L EXCEPT !.ctx = "DQ", !.tok = TRUE]
      [] c = "BQ"   -> [L EXCEPT !.ctx = "BQ", !.tok = TRUE]
      [] c = "DASH" -> [L EXCEPT !.ctx = "D1"]
      [] c = "SL"   -> [L EXCEPT !.ctx = "SL"]
      [] c = "HASH" -> [L EXCEPT !.ctx = "LH"]
      [] c = "SEMI" -> [L EXCEPT !.ctx = "N",
                                 !.pieces = IF L.tok THEN Append(@, <<L.seg, L.pos>>) ELSE @,
                                 !.seps = Append(@, L.pos),
                                 !.seg = L.pos + 1,
                                 !.tok = FALSE]
      [] IsSpace(c) -> [L EXCEPT !.ctx = "N"]
      [] OTHER      -> [L EXCEPT !.ctx = "N", !.tok = TRUE]

Tok(L) == [L EXCEPT !.tok = TRUE]

(* one symbol; the result still has the old pos, Step advances it *)
Step1(L, c) ==
    CASE L.ctx = "N"   -> Norm(L, c)
      [] L.ctx = "D1"  -> IF c = "DASH" THEN [L EXCEPT !.ctx = "D2"] ELSE Norm(Tok(L), c)
      [] L.ctx = "D2"  -> IF c = "NL" THEN [L EXCEPT !.ctx = "N"]
                          ELSE IF IsSpace(c) THEN [L EXCEPT !.ctx = "LD"]
                          ELSE IF c = "DASH" THEN Tok(L)              \* the first "-" was a token, "--" still pending
                          ELSE Norm(Tok(L), c)
      [] L.ctx = "SL"  -> IF c = "ST" THEN [L EXCEPT !.ctx = "BC"] ELSE Norm(Tok(L), c)
      [] L.ctx = "SQ"  -> IF c = "SQ" THEN [L EXCEPT !.ctx = "SQQ"]
                          ELSE IF c = "BS" /\ ~NoBackslash THEN [L EXCEPT !.ctx = "SQE"]
                          ELSE IF c = "QM" THEN Q(L, "SQ") ELSE L
      [] L.ctx = "SQE" -> IF c = "QM" THEN [Q(L, "SQ") EXCEPT !.ctx = "SQ"]
                          ELSE [L EXCEPT !.ctx = "SQ", !.esc = @ \/ c = "SQ"]
      [] L.ctx = "SQQ" -> IF c = "SQ" THEN [L EXCEPT !.ctx = "SQ"] ELSE Norm(L, c)
      [] L.ctx = "DQ"  -> IF c = "DQ" THEN [L EXCEPT !.ctx = "DQQ"]
                          ELSE IF c = "BS" /\ ~NoBackslash THEN [L EXCEPT !.ctx = "DQE"]
                          ELSE IF c = "QM" THEN Q(L, "DQ") ELSE L
      [] L.ctx = "DQE" -> IF c = "QM" THEN [Q(L, "DQ") EXCEPT !.ctx = "DQ"]
                          ELSE [L EXCEPT !.ctx = "DQ", !.esc = @ \/ c = "DQ"]
      [] L.ctx = "DQQ" -> IF c = "DQ" THEN [L EXCEPT !.ctx = "DQ"] ELSE Norm(L, c)
      [] L.ctx = "BQ"  -> IF c = "BQ" THEN [L EXCEPT !.ctx = "BQQ"]
                          ELSE IF c = "QM" THEN Q(L, "BQ")
                          ELSE [L EXCEPT !.bqq = @ \/ IsQuote(c)]
      [] L.ctx = "BQQ" -> IF c = "BQ" THEN [L EXCEPT !.ctx = "BQ"] ELSE Norm(L, c)
      [] L.ctx \in {"LD", "LH"} ->
                          IF c = "NL" THEN [L EXCEPT !.ctx = "N"]
                          ELSE IF c = "QM" THEN Q(L, L.ctx)
                          ELSE [L EXCEPT !.cmq = @ \/ IsQuote(c)]
      [] L.ctx = "BC"  -> IF c = "ST" THEN [L EXCEPT !.ctx = "BCS"]
                          ELSE IF c = "QM" THEN Q(L, "BC")
                          ELSE [L EXCEPT !.cmq = @ \/ IsQuote(c)]
      [] L.ctx = "BCS" -> IF c = "SL" THEN [L EXCEPT !.ctx = "N"]
                          ELSE IF c = "ST" THEN L
                          ELSE IF c = "QM" THEN [Q(L, "BC") EXCEPT !.ctx = "BC"]
                          ELSE [L EXCEPT !.ctx = "BC", !.cmq = @ \/ IsQuote(c)]

Step(L, c) == [Step1(L, c) EXCEPT !.pos = L.pos + 1]

RECURSIVE Run(_, _)
Run(L, w) == IF w = <<>> THEN L ELSE Run(Step(L, Head(w)), Tail(w))

Lex(text) == Run(L0, text)

(* end of text: resolve what is pending, close the last segment *)
Finish(L) ==
    LET tk == L.tok \/ L.ctx \in {"D1", "SL"}        \* a pending "-" or "/" is a token; "--" at the end is a comment
    IN [wf     |-> L.ctx \in {"N", "D1", "D2", "SL", "SQQ", "DQQ", "BQQ", "LD", "LH"},
        pieces |-> IF tk THEN Append(L.pieces, <<L.seg, L.pos>>) ELSE L.pieces,
        qs     |-> L.qs,
        seps   |-> L.seps]

MarkersOf(qs) == LET S == SelectSeq(qs, LAMBDA q : q.c = "N") IN [i \in 1..Len(S) |-> S[i].p]
Markers(text) == MarkersOf(Lex(text).qs)
Pieces(text)  == Finish(Lex(text)).pieces
WellFormed(text) == Finish(Lex(text)).wf

-----------------------------------------------------------------------------------
VARIABLES text, lx, nw
vars == <<text, lx, nw>>

Init == text = Prefix /\ lx = Lex(Prefix) /\ nw = 0

Next == \E w \in Words :
            /\ Len(text) + Len(w) <= Len(Prefix) + MaxLen
            /\ nw < MaxWords
            /\ text' = text \o w
            /\ lx' = Run(lx, w)
            /\ nw' = nw + 1

Spec == Init /\ [][Next]_vars

(* sanity properties of the automaton itself, checked on every enumerated text *)
TypeOK == /\ lx.ctx \in Contexts
          /\ lx.pos = Len(text)

Incremental == lx = Lex(text)       \* reading symbol by symbol = reading the whole text

MarkersAreQuestionMarks ==
    \A i \in 1..Len(lx.qs) : text[lx.qs[i].p + 1] = "QM"

EveryQuestionMarkClassified ==
    Cardinality({i \in 1..Len(text) : text[i] = "QM"}) = Len(lx.qs)

PiecesPartition ==    \* pieces are disjoint, ordered, contain no separator read in context normal, and lie between separators
    LET F == Finish(lx) IN
    /\ \A i \in 1..Len(F.pieces) : F.pieces[i][1] < F.pieces[i][2] /\ F.pieces[i][2] <= Len(text)
    /\ \A i \in 1..(Len(F.pieces) - 1) : F.pieces[i][2] < F.pieces[i + 1][1]
    /\ \A i \in 1..Len(F.pieces), j \in 1..Len(F.seps) :
           ~(F.pieces[i][1] <= F.seps[j] /\ F.seps[j] < F.pieces[i][2])
    /\ \A j \in 1..Len(F.seps) : text[F.seps[j] + 1] = "SEMI"
===================================================================================
