------------------------------ MODULE StmtLifecycle ------------------------------
(* The prepared-statement table of ONE client session of the proxy (property C16).          *)
(*                                                                                          *)
(* State: which statement handles are open and, per open handle and parameter, what is      *)
(* held for the next execution:  unset / long data (chunk tags in arrival order) / bound    *)
(* (a value tag taken from an execute packet).  One action per client command:              *)
(* COM_STMT_PREPARE, COM_STMT_SEND_LONG_DATA, COM_STMT_EXECUTE (well formed, truncated      *)
(* inside the value of parameter k, truncated inside the type array, unknown handle; with   *)
(* the parameter types sent (new-params-bound = 1) or re-used from the previous execution   *)
(* (new-params-bound = 0); succeeding or failing at the backend; with header fields - a    *)
(* cursor request in the flags byte, an iteration count other than 1 - that a server may    *)
(* refuse to serve), COM_STMT_RESET, COM_STMT_CLOSE.                                        *)
(*                                                                                          *)
(* Values are tags, not bytes: the inline value of parameter q in the n-th command of the   *)
(* behaviour is the tag <<n, q>>, the chunk sent by the n-th command is the tag n.  The      *)
(* conformance harness instantiates tags with concrete values of concrete wire types.       *)
(*                                                                                          *)
(* Execute is written the way a server binds a packet (walk the parameters, take the next   *)
(* inline value from the packet for every parameter that holds nothing); the properties     *)
(* are stated on the HISTORY only (what the client sent), so they constrain that algorithm. *)
(* KeepOnFailure = TRUE is the variant "a failed execute does not clear the statement"       *)
(* (what proxy/server/executor_stmt.go did before fix 02f5719: ResetParams was deferred     *)
(* only after a successful bind); TLC refutes UsedMatchesHistory for it, which shows that   *)
(* the property is not vacuous.  Expectations for conformance come from                     *)
(* KeepOnFailure = FALSE, which is also what the repaired code does.                        *)
EXTENDS Naturals, Sequences, FiniteSets, TLC

CONSTANTS MaxPrep,        \* number of handles that can be allocated (handle = ordinal of its PREPARE)
          NP,             \* parameters per statement
          MaxLen,         \* commands per behaviour
          MaxBad,         \* at most this many commands addressed to a handle that is not open
          MaxFault,       \* at most this many executions that fail at the backend
          AllowReuse,     \* TRUE: execute packets without types (new-params-bound = 0) are generated
          KeepOnFailure   \* FALSE: the specification; TRUE: the defective algorithm

Handles == 1..MaxPrep
Params  == 1..NP

VARIABLES nprep,   \* handles allocated so far
          open,    \* open handles
          par,     \* par[h][p]: what handle h holds for parameter p
          typed,   \* handles whose parameter types the server knows from a previous execution
          hist     \* the commands so far, each with its outcome
vars == <<nprep, open, par, typed, hist>>

Unset     == [k |-> "unset"]
Long(cs)  == [k |-> "long", chunks |-> cs]
Bound(t)  == [k |-> "bound", tag |-> t]
AllUnset  == [p \in Params |-> Unset]

(* values an execution used *)
UNull     == [k |-> "null"]
UVal(t)   == [k |-> "val", tag |-> t]
ULong(cs) == [k |-> "long", chunks |-> cs]

Init == /\ nprep = 0
        /\ open = {}
        /\ par = [h \in Handles |-> AllUnset]
        /\ typed = {}
        /\ hist = <<>>

N == Len(hist) + 1     \* index of the command being issued
NBad == Cardinality({i \in 1..Len(hist) : hist[i].res \in {"unknown"}})
NFault == Cardinality({i \in 1..Len(hist) : hist[i].res \in {"backend-error", "may-refuse"}})

-----------------------------------------------------------------------------------
(* What a conforming client puts into an execute packet for handle h: no inline value for a *)
(* parameter it has sent long data for (since the last execute/reset), otherwise an inline  *)
(* value or the NULL bit.                                                                   *)
Shapes(h) == IF h \in open
             THEN {pk \in [Params -> {"val", "null", "long"}] :
                       \A p \in Params : (pk[p] = "long") <=> (par[h][p].k = "long")}
             ELSE {[p \in Params |-> "val"]}

(* inline values of the packet, in parameter order; truncated before the value of parameter *)
(* mal when mal is a parameter                                                              *)
RECURSIVE InlineFrom(_, _, _, _)
InlineFrom(pk, n, p, mal) ==
    IF p > NP \/ p = mal THEN <<>>
    ELSE IF pk[p] = "val" THEN <<<<n, p>>>> \o InlineFrom(pk, n, p + 1, mal)
    ELSE InlineFrom(pk, n, p + 1, mal)

(* the binding walk: args = what the statement holds, i = cursor into the inline list *)
RECURSIVE Bind(_, _, _, _, _)
Bind(args, pk, inl, p, i) ==
    IF p > NP THEN [ok |-> TRUE, args |-> args]
    ELSE IF pk[p] = "null" THEN Bind([args EXCEPT ![p] = Unset], pk, inl, p + 1, i)
    ELSE IF args[p].k # "unset" THEN Bind(args, pk, inl, p + 1, i)
    ELSE IF i > Len(inl) THEN [ok |-> FALSE, args |-> args]
    ELSE Bind([args EXCEPT ![p] = Bound(inl[i])], pk, inl, p + 1, i + 1)

UsedOf(a) == IF a.k = "unset" THEN UNull
             ELSE IF a.k = "long" THEN ULong(a.chunks)
             ELSE UVal(a.tag)

-----------------------------------------------------------------------------------
Prepare ==
    /\ nprep < MaxPrep
    /\ nprep' = nprep + 1
    /\ open' = open \cup {nprep + 1}
    /\ par' = [par EXCEPT ![nprep + 1] = AllUnset]
    /\ hist' = Append(hist, [c |-> "prepare", h |-> nprep + 1, res |-> "ok"])
    /\ UNCHANGED typed

SendLongData(h, p) ==
    IF h \in open
    THEN /\ par' = [par EXCEPT ![h][p] = IF @.k = "long" THEN Long(Append(@.chunks, N)) ELSE Long(<<N>>)]
         /\ hist' = Append(hist, [c |-> "long", h |-> h, p |-> p, tag |-> N, res |-> "ok"])
         /\ UNCHANGED <<nprep, open, typed>>
    ELSE /\ NBad < MaxBad
         /\ hist' = Append(hist, [c |-> "long", h |-> h, p |-> p, tag |-> N, res |-> "unknown"])
         /\ UNCHANGED <<nprep, open, par, typed>>

(* mal: 0 = well formed, p \in Params = truncated inside the value of p, NP+1 = truncated   *)
(* inside the type array (nothing can be bound).                                            *)
(* ty: "sent" = the packet carries the parameter types (new-params-bound = 1); "reused" =   *)
(* it does not (new-params-bound = 0), which a client may do once an execution of this      *)
(* handle that carried the types has been processed.                                        *)
(* fault: the statement reaches the backend and fails there (duplicate key, lock wait ...). *)
(* hdr: "plain", or "special" = a well-formed packet whose header asks for something the    *)
(* server may not support (cursor flags, iteration count # 1).  The server may refuse it or *)
(* execute it (outcome "may-refuse": `used` is what it must use IF it executes); either way *)
(* it was an execution of the statement: nothing sent or bound for it survives.  In the     *)
(* KeepOnFailure variant the refusal happens before binding and leaves the statement as is. *)
Execute(h, pk, mal, ty, fault, hdr) ==
    IF h \notin open
    THEN /\ NBad < MaxBad
         /\ mal = 0 /\ ty = "sent" /\ ~fault /\ hdr = "plain"
         /\ hist' = Append(hist, [c |-> "exec", h |-> h, pk |-> pk, mal |-> mal, ty |-> ty, fault |-> fault, hdr |-> hdr,
                                  res |-> "unknown", used |-> <<>>])
         /\ UNCHANGED <<nprep, open, par, typed>>
    ELSE /\ mal \in Params => pk[mal] = "val"
         /\ ty = "reused" => (AllowReuse /\ h \in typed /\ mal # NP + 1)
         /\ fault => (mal = 0 /\ NFault < MaxFault)
         /\ hdr = "special" => (mal = 0 /\ ~fault /\ ty = "sent" /\ NFault < MaxFault)
         /\ LET inl == InlineFrom(pk, N, 1, mal)
                b   == IF mal = NP + 1 THEN [ok |-> FALSE, args |-> par[h]] ELSE Bind(par[h], pk, inl, 1, 1)
            IN IF b.ok
               THEN /\ par' = [par EXCEPT ![h] = IF KeepOnFailure /\ fault THEN b.args
                                                   ELSE IF KeepOnFailure /\ hdr = "special" THEN @
                                                   ELSE AllUnset]
                    /\ typed' = IF hdr = "special" THEN typed \ {h} ELSE typed \cup {h}  \* types are re-sent after a possible refusal
                    /\ hist' = Append(hist, [c |-> "exec", h |-> h, pk |-> pk, mal |-> mal, ty |-> ty, fault |-> fault, hdr |-> hdr,
                                             res |-> IF fault THEN "backend-error" ELSE IF hdr = "special" THEN "may-refuse" ELSE "ok",
                                             used |-> [p \in Params |-> UsedOf(b.args[p])]])
               ELSE /\ par' = [par EXCEPT ![h] = IF KeepOnFailure THEN b.args ELSE AllUnset]
                    /\ typed' = IF ty = "sent" THEN typed \ {h} ELSE typed   \* the client re-sends the types after a refused packet
                    /\ hist' = Append(hist, [c |-> "exec", h |-> h, pk |-> pk, mal |-> mal, ty |-> ty, fault |-> fault, hdr |-> hdr,
                                             res |-> "malformed", used |-> <<>>])
         /\ UNCHANGED <<nprep, open>>

Reset(h) ==
    IF h \in open
    THEN /\ par' = [par EXCEPT ![h] = AllUnset]
         /\ hist' = Append(hist, [c |-> "reset", h |-> h, res |-> "ok"])
         /\ UNCHANGED <<nprep, open, typed>>
    ELSE /\ NBad < MaxBad
         /\ hist' = Append(hist, [c |-> "reset", h |-> h, res |-> "unknown"])
         /\ UNCHANGED <<nprep, open, par, typed>>

(* COM_STMT_CLOSE has no reply; closing an unknown handle is not observable and not generated *)
Close(h) ==
    /\ h \in open
    /\ open' = open \ {h}
    /\ par' = [par EXCEPT ![h] = AllUnset]
    /\ typed' = typed \ {h}
    /\ hist' = Append(hist, [c |-> "close", h |-> h, res |-> "ok"])
    /\ UNCHANGED nprep

Next == /\ Len(hist) < MaxLen
        /\ \/ Prepare
           \/ \E h \in Handles, p \in Params : SendLongData(h, p)
           \/ \E h \in Handles : \E pk \in Shapes(h) : \E mal \in 0..(NP + 1) :
                  \E ty \in {"sent", "reused"} : \E fault \in BOOLEAN : \E hdr \in {"plain", "special"} :
                      Execute(h, pk, mal, ty, fault, hdr)
           \/ \E h \in Handles : Reset(h)
           \/ \E h \in Handles : Close(h)

Spec == Init /\ [][Next]_vars

-----------------------------------------------------------------------------------
(* Properties, stated on what the client sent (the history) *)

IsOpenAt(hs, h) ==      \* after the commands hs, is handle h open?
    /\ \E i \in 1..Len(hs) : hs[i].c = "prepare" /\ hs[i].h = h
    /\ ~ \E i \in 1..Len(hs) : hs[i].c = "close" /\ hs[i].h = h

Clears(e, h) == /\ e.h = h
                /\ \/ e.c = "prepare"
                   \/ e.c = "reset" /\ e.res = "ok"
                   \/ e.c = "exec" /\ e.res \in {"ok", "malformed", "backend-error", "may-refuse"}

LastClear(hs, h) == LET S == {i \in 1..Len(hs) : Clears(hs[i], h)}
                    IN IF S = {} THEN 0 ELSE CHOOSE i \in S : \A j \in S : j <= i

LongSince(hs, h, p) ==  \* chunk tags sent for (h, p) since h was last prepared / executed / reset
    LET lc == LastClear(hs, h)
        Sel(e) == e.c = "long" /\ e.h = h /\ e.res = "ok" /\ e.p = p
    IN [i \in 1..Len(SelectSeq(SubSeq(hs, lc + 1, Len(hs)), Sel)) |->
            SelectSeq(SubSeq(hs, lc + 1, Len(hs)), Sel)[i].tag]

TypeOK ==
    /\ nprep \in 0..MaxPrep
    /\ open \subseteq 1..nprep
    /\ \A h \in Handles, p \in Params : par[h][p].k \in {"unset", "long", "bound"}
    /\ typed \subseteq open
    /\ Len(hist) <= MaxLen

(* each execution uses exactly: the long data sent for it since the previous execution or   *)
(* reset of that statement, else the value (or NULL) supplied by this very packet           *)
UsedMatchesHistory ==
    \A n \in 1..Len(hist) :
        LET e == hist[n] IN
        (e.c = "exec" /\ e.res \in {"ok", "backend-error", "may-refuse"}) =>
            \A p \in Params :
                LET ls == LongSince(SubSeq(hist, 1, n - 1), e.h, p) IN
                e.used[p] = IF ls # <<>> THEN ULong(ls)
                            ELSE IF e.pk[p] = "null" THEN UNull
                            ELSE UVal(<<n, p>>)

(* statements never see each other's values: every tag an execution used was sent for it  *)
Isolated ==
    \A n \in 1..Len(hist) :
        LET e == hist[n] IN
        (e.c = "exec" /\ e.res \in {"ok", "backend-error", "may-refuse"}) =>
            \A p \in Params :
                /\ e.used[p].k = "val" => e.used[p].tag[1] = n
                /\ e.used[p].k = "long" =>
                       \A j \in 1..Len(e.used[p].chunks) :
                           LET s == hist[e.used[p].chunks[j]] IN s.c = "long" /\ s.h = e.h /\ s.p = p

(* commands on unknown or closed handles fail, commands on open handles do not fail for that reason *)
UnknownFails ==
    \A n \in 1..Len(hist) :
        LET e == hist[n] IN
        e.c \in {"long", "exec", "reset"} =>
            ((e.res = "unknown") <=> ~IsOpenAt(SubSeq(hist, 1, n - 1), e.h))

(* a well-formed packet of a conforming client is executed, a truncated one is refused *)
MalformedFails ==
    \A n \in 1..Len(hist) :
        LET e == hist[n] IN
        (e.c = "exec" /\ e.res # "unknown") => /\ ((e.res = "malformed") <=> (e.mal # 0))
                                                /\ ((e.res = "backend-error") <=> e.fault)
                                                /\ ((e.res = "may-refuse") <=> (e.hdr = "special"))

(* a failed execution - refused packet or failure at the backend - leaves nothing behind   *)
(* (state form; the history form is UsedMatchesHistory)                                     *)
FailedLeavesUnset ==
    (Len(hist) > 0 /\ hist[Len(hist)].c = "exec" /\ hist[Len(hist)].res \in {"malformed", "backend-error", "may-refuse"})
        => par[hist[Len(hist)].h] = AllUnset

(* nothing is ever left bound between commands; closed handles hold nothing *)
NoBoundBetweenCommands ==
    \A h \in Handles, p \in Params : /\ par[h][p].k # "bound"
                                     /\ h \notin open => par[h][p].k = "unset"
===================================================================================
