------------------------------- MODULE StmtPolicy -------------------------------
(* Statement policy of the Gaea proxy as decision tables over ABSTRACT STATEMENT DESCRIPTORS.    *)
(*                                                                                              *)
(* Part 1 (properties C21, C22): who may run what where.                                         *)
(*   descriptor = statement kind, lexical decorations (what precedes the first keyword, what     *)
(*   follows it, keyword letter case, what trails the statement), lock clause, master hint,      *)
(*   read_only probe, channel (plain query / piece of a multi-statement query / prepared          *)
(*   statement), user flags, check_select_lock, transaction state.                               *)
(*   MustReject(d), MustUseMaster(d), ReplicaAllowed(d) are written from the property texts;      *)
(*   TLC checks that they partition the descriptor space and that no decoration and no channel    *)
(*   changes the decision.                                                                       *)
(* Part 2 (property C06): the token pre-check must not short-cut a statement that the parser      *)
(*   based analysis plans as sharded.  descriptor = statement kind, session database present?,    *)
(*   list of table references (class, letter case, qualification, back-quotes, glued comment or   *)
(*   line break, syntactic position).                                                            *)
(* Part 3 (property C36): the SQL blacklist.  A statement text is a sequence of lexical items;    *)
(*   Skeleton(text) drops white space and comments, replaces literals by a placeholder and folds  *)
(*   keyword case.  Rejected(a) <=> \E b \in Blacklist : Skeleton(a) = Skeleton(b).               *)
(*                                                                                              *)
(* The implementation is NOT modelled here: these are the P-level decisions.  The real code is    *)
(* bound by StmtPolicy_gen (TLC emits every descriptor with the required decision; a Go harness   *)
(* renders the descriptor to SQL text and replays it on the real SessionExecutor).               *)
EXTENDS Integers, Sequences, FiniteSets

(* ============================================================================================ *)
(* Part 1: C21 / C22                                                                             *)
(* ============================================================================================ *)

WriteKinds   == {"insert", "replace", "update", "delete",                       \* data
                 "create", "alter", "drop", "truncate", "rename",               \* schema
                 "load"}                                                        \* LOAD DATA
ReadKinds    == {"select", "show"}
SessionKinds == {"set", "begin", "use"}          \* answered by the proxy itself
Kinds        == WriteKinds \cup ReadKinds \cup SessionKinds

LongLeads == {"pad_250", "pad_255", "pad_256", "pad_257", "pad_4096", "ws_300"}
               \* pad_N: a leading comment (e.g. a tracing comment) so long that the first keyword starts at byte N;
               \* ws_300: 300 blanks before the first keyword
Leads    == {"none", "space", "tab", "newline", "comment", "comment_glued", "dash", "version_wrap"} \cup LongLeads
Kwseps   == {"space", "tab", "newline", "comment", "spcomment",   \* between the first keyword and the rest
             "glued_bq",                                          \* nothing: keyword glued to a back-quoted identifier (update`t` set ..)
             "glued_punct"}                                       \* nothing: keyword glued to punctuation (select*from .., select(..) ..)
Cases    == {"lower", "upper", "mixed"}
Trails   == {"none", "semicolon", "newline", "comment", "comment_glued", "trace", "dash", "hash"}
Locks    == {"none", "for_update", "for_share", "lock_in_share_mode"}
LockOpts == {"none", "nowait", "skip_locked", "of", "of_nowait"}
Hints    == {"none", "lead", "lead_glued", "afterkw", "tail"}
SelectProbes == {"var", "gvar", "var_upper", "mixvar"}
ShowProbes   == {"show", "show_upper", "gshow"}
Probes   == {"none"} \cup SelectProbes \cup ShowProbes
Chans    == {"query", "multi_first", "multi_mid", "multi_last", "multi_after_read", "prepared"}
                                   \* multi_after_read: a plain read precedes the statement in the same multi-statement text
Intxs    == {"no", "begin", "ac0"}
Sessions == {"plain", "after_read", "ks", "ks_after_read"}
                                   \* ks: namespace in keep-session mode (the session keeps its backend connection);
                                   \* after_read: a plain read was executed earlier in the same session
Privs    == {"static", "reloaded"} \* reloaded: the namespace was reloaded after the session connected and the reload
                                   \* gave the user the rw flag the descriptor names (it had the opposite one at connect time)

PolDesc == [kind : Kinds, lead : Leads, kwsep : Kwseps, cs : Cases, trail : Trails,
            lock : Locks, lockopt : LockOpts, hint : Hints, probe : Probes,
            chan : Chans, intx : Intxs, ro : BOOLEAN, split : BOOLEAN, csl : BOOLEAN,
            sess : Sessions, priv : Privs]

OneWord(k) == k = "begin"

(* which descriptors denote a statement at all *)
PolWF(d) ==
    /\ d.lock # "none" => d.kind = "select" /\ d.probe = "none"
    /\ d.lockopt # "none" => d.lock # "none"
    /\ d.lock = "lock_in_share_mode" => d.lockopt \in {"none", "nowait", "skip_locked"}
    /\ d.probe \in SelectProbes => d.kind = "select"
    /\ d.probe \in ShowProbes => d.kind = "show"
    /\ d.hint # "none" => d.kind \in ReadKinds
    /\ d.lead = "version_wrap" => d.hint = "none"
    /\ d.kwsep # "space" => ~OneWord(d.kind)
    /\ d.kwsep = "glued_bq" => d.kind \in {"select", "update", "insert", "replace", "truncate"} /\ d.probe = "none" /\ d.hint # "afterkw"
    /\ d.kwsep = "glued_punct" => d.kind = "select" /\ d.probe = "none" /\ d.hint # "afterkw"

(* ---- the decisions, from the property texts ---- *)
Modifies(d)      == d.kind \in WriteKinds
InTx(d)          == d.intx # "no"
LockingRead(d)   == d.kind = "select" /\ d.lock # "none"
HasMasterHint(d) == d.hint # "none"
ReadOnlyProbe(d) == d.probe # "none"
PlainRead(d)     == d.kind \in ReadKinds /\ ~LockingRead(d) /\ ~HasMasterHint(d) /\ ~ReadOnlyProbe(d)

(* C21: a statement of a read-only user that could modify data or schema is rejected before any backend *)
MustReject(d) == d.ro /\ Modifies(d)

(* C22: what has to run on the master (if it reaches a backend at all).                          *)
(* check_select_lock is the namespace switch "send locking reads to the master"; with the switch  *)
(* off the operator has opted out of that clause.  A read-only user's reads are served by         *)
(* replicas by design of the read-only flag; the master obligations below are those of users      *)
(* that may write.                                                                               *)
MustUseMaster(d) ==
    /\ ~MustReject(d)
    /\ \/ InTx(d)
       \/ d.kind \notin ReadKinds
       \/ ~d.ro /\ ~d.split
       \/ ~d.ro /\ LockingRead(d) /\ d.csl
       \/ ~d.ro /\ HasMasterHint(d)
       \/ ~d.ro /\ ReadOnlyProbe(d)

(* C22, the permission: outside a transaction a split user's plain reads may run on replicas *)
ReplicaAllowed(d) ==
    /\ ~InTx(d)
    /\ d.kind \in ReadKinds
    /\ \/ d.ro
       \/ d.split /\ PlainRead(d)
       \/ d.split /\ LockingRead(d) /\ ~d.csl /\ ~HasMasterHint(d)

Decision(d) == IF MustReject(d) THEN "reject" ELSE IF MustUseMaster(d) THEN "master" ELSE "any"

(* ---- consistency of the table ---- *)
B2N(b) == IF b THEN 1 ELSE 0
PolPartition(d) == B2N(MustReject(d)) + B2N(MustUseMaster(d)) + B2N(ReplicaAllowed(d)) = 1
PolRejectNeverOnReplica(d) == MustReject(d) => ~ReplicaAllowed(d)
PolReplicaOnlyReads(d) == ReplicaAllowed(d) => d.kind \in ReadKinds /\ ~InTx(d) /\ (d.ro \/ d.split)
PolTotal(d) == Decision(d) \in {"reject", "master", "any"}

(* decorations and channel are irrelevant: "regardless of letter case, whitespace and comments", *)
(* "whether sent directly, inside a multi-statement query or through a prepared statement"; so is  *)
(* the history of the session: what it executed before, whether its backend connection is kept,    *)
(* and what the user's flags were before the configuration that is in force now: the properties    *)
(* speak about "a user configured read-only" / "a read/write-split user", i.e. the current flags.  *)
PolStrip(d) == [d EXCEPT !.lead = "none", !.kwsep = "space", !.cs = "lower", !.trail = "none", !.chan = "query",
                         !.sess = "plain", !.priv = "static"]
PolDecorationIrrelevant(d) == Decision(d) = Decision(PolStrip(d))

(* each ground for the master obligation stands by itself: taking one of several grounds away    *)
(* (lock clause, hint, probe) leaves the obligation in place                                     *)
PolGrounds(d) == {g \in {"lock", "hint", "probe"} :
                    \/ g = "lock" /\ LockingRead(d) /\ d.csl
                    \/ g = "hint" /\ HasMasterHint(d)
                    \/ g = "probe" /\ ReadOnlyProbe(d)}
PolDrop(d, g) == CASE g = "lock"  -> [d EXCEPT !.lock = "none", !.lockopt = "none"]
                   [] g = "hint"  -> [d EXCEPT !.hint = "none"]
                   [] g = "probe" -> [d EXCEPT !.probe = "none"]
PolGroundsIndependent(d) == \A g \in PolGrounds(d) :
                               PolGrounds(d) # {g} => Decision(PolDrop(d, g)) = Decision(d)
(* with check_select_lock off a lock clause is not a ground: removing it changes nothing *)
PolUncheckedLockIrrelevant(d) == ~d.csl => Decision([d EXCEPT !.lock = "none", !.lockopt = "none", !.csl = TRUE]) = Decision(d)

(* in a transaction nothing is replica-allowed, whatever else holds *)
PolTxPinsMaster(d) == InTx(d) /\ ~MustReject(d) => MustUseMaster(d)
(* ... and so do a user without read/write splitting and every statement that is not a read *)
PolNoSplitPinsMaster(d) == ~d.ro /\ ~d.split /\ ~MustReject(d) => MustUseMaster(d)
PolWritesPinMaster(d) == d.kind \notin ReadKinds /\ ~MustReject(d) => MustUseMaster(d)

(* defaults of the decoration / context fields: used to count how decorated a descriptor is *)
PolDefault == [lead |-> "none", kwsep |-> "space", cs |-> "lower", trail |-> "none",
               chan |-> "query", intx |-> "no", sess |-> "plain", priv |-> "static"]
PolDecoFields == {"lead", "kwsep", "cs", "trail", "chan", "intx", "sess", "priv"}
PolNFeat(d) == Cardinality({f \in PolDecoFields : d[f] # PolDefault[f]})

(* ============================================================================================ *)
(* Part 2: C06                                                                                   *)
(* ============================================================================================ *)

RefClasses     == {"sharded", "linked", "global", "plain"}
ShardedClasses == {"sharded", "linked", "global"}     \* tables that have a routing rule
Quals          == {"none", "db", "other"}             \* unqualified / rule database / another database
Glues          == {"none", "cmt_before", "cmt_after", "spcmt_before", "nl_before", "nl_after", "tab_before",
                   "paren_after"}                      \* INSERT INTO t(col, ...)
Positions      == {"first", "comma", "join", "subq", "from2"}
UKinds         == {"select", "delete", "update", "insert", "replace"}
SessionDbs     == {"rule", "other", "none"}           \* current database of the session: the one the routing rules are for /
                                                      \* another database (no rules) / none

URef == [cls : RefClasses, cs : Cases, qual : Quals, bq : BOOLEAN, glue : Glues, pos : Positions, alias : BOOLEAN]

PlainRef(q, p) == [cls |-> "plain", cs |-> "lower", qual |-> q, bq |-> FALSE, glue |-> "none", pos |-> p, alias |-> FALSE]

(* positions a further table reference can take, per statement kind *)
LaterPositions(k) == CASE k = "select" -> {"comma", "join", "subq", "from2"}
                       [] k = "delete" -> {"comma", "join", "subq"}
                       [] k = "update" -> {"comma", "join", "subq"}
                       [] OTHER        -> {"from2"}           \* INSERT ... SELECT

UWF(d) ==
    /\ d.kind \in UKinds
    /\ Len(d.refs) >= 1
    /\ d.refs[1].pos = "first"
    /\ \A i \in 2..Len(d.refs) : d.refs[i].pos \in LaterPositions(d.kind)
    /\ d.sdb \in SessionDbs
    /\ d.sdb = "none" => \A i \in DOMAIN d.refs : d.refs[i].qual # "none"   \* otherwise "no database selected"
    /\ d.sdb = "none" => ~(d.kind = "delete" /\ \E i \in 2..Len(d.refs) : d.refs[i].pos \in {"comma", "join"})
                                           \* multi-table DELETE names its target by an (unqualified) alias
    /\ \A i \in DOMAIN d.refs :
          /\ d.refs[i].glue = "paren_after" => d.kind \in {"insert", "replace"} /\ i = 1
          /\ d.refs[i].alias => ~(d.kind \in {"insert", "replace"} /\ i = 1)

(* the database a reference resolves in, and whether a routing rule exists for it *)
RefInRuleDb(r, d) == IF r.qual = "none" THEN d.sdb = "rule" ELSE r.qual = "db"
RefIsSharded(r, d) == r.cls \in ShardedClasses /\ RefInRuleDb(r, d)
ParserSaysSharded(d) == \E i \in DOMAIN d.refs : RefIsSharded(d.refs[i], d)

(* C06: ParserSaysSharded(d) => ~FastPath(d).  FastPath is an observation of the implementation;  *)
(* the specification's side is the permission:                                                   *)
FastPathAllowed(d) == ~ParserSaysSharded(d)

(* letter case, back-quotes, glued comments / line breaks and position do not change the analysis *)
UStripRef(r) == [r EXCEPT !.cs = "lower", !.bq = FALSE, !.glue = "none", !.alias = FALSE]
UStrip(d) == [d EXCEPT !.refs = [i \in DOMAIN d.refs |-> UStripRef(d.refs[i])]]
UDecorationIrrelevant(d) == ParserSaysSharded(d) = ParserSaysSharded(UStrip(d))
UOrderIrrelevant(d) == \A i, j \in DOMAIN d.refs :
                          LET sw == [d EXCEPT !.refs = [k \in DOMAIN d.refs |->
                                        IF k = i THEN [d.refs[j] EXCEPT !.pos = d.refs[i].pos]
                                        ELSE IF k = j THEN [d.refs[i] EXCEPT !.pos = d.refs[j].pos]
                                        ELSE d.refs[k]]]
                          IN ParserSaysSharded(sw) = ParserSaysSharded(d)

(* references to tables without a routing rule do not matter for the analysis: dropping one (the  *)
(* first remaining reference takes the first position) leaves ParserSaysSharded unchanged         *)
UDropRef(d, i) == LET rest == [k \in 1..(Len(d.refs) - 1) |-> IF k < i THEN d.refs[k] ELSE d.refs[k + 1]]
                  IN [d EXCEPT !.refs = [k \in DOMAIN rest |-> IF k = 1 THEN [rest[k] EXCEPT !.pos = "first"] ELSE rest[k]]]
UUnshardedRefsIrrelevant(d) == \A i \in DOMAIN d.refs :
                                  Len(d.refs) > 1 /\ ~RefIsSharded(d.refs[i], d)
                                     => ParserSaysSharded(UDropRef(d, i)) = ParserSaysSharded(d)

(* when every reference is qualified the session database does not matter *)
USessionDbIrrelevantWhenQualified(d) ==
    (\A i \in DOMAIN d.refs : d.refs[i].cls \in ShardedClasses => d.refs[i].qual # "none")
       => ParserSaysSharded([d EXCEPT !.sdb = "rule"]) = ParserSaysSharded(d)

URefNFeat(r) == B2N(r.cs # "lower") + B2N(r.bq) + B2N(r.glue # "none") + B2N(r.qual # "none") + B2N(r.alias)

(* ============================================================================================ *)
(* Part 3: C36                                                                                   *)
(* ============================================================================================ *)
(* A lexical item is a record [k, c, v]: k its class, v the spelling in the text, c the canonical *)
(* form that survives in the skeleton.                                                           *)
(*   k = "kw"  keyword            c = lower-case spelling                                         *)
(*   k = "id"  identifier         c = v                                                          *)
(*   k = "op"  operator           c = v                                                          *)
(*   k = "pun" punctuation        c = v                                                          *)
(*   k = "lit" literal            c = "?"                                                        *)
(*   k = "sp"  white space        dropped                                                        *)
(*   k = "cm"  comment            dropped                                                        *)
Gap(i) == i.k \in {"sp", "cm"}

Skeleton(items) == LET kept == SelectSeq(items, LAMBDA i : ~Gap(i))
                   IN [n \in DOMAIN kept |-> kept[n].c]

Text(items) == [n \in DOMAIN items |-> items[n].v]     \* the harness concatenates these

SameUpToLiteralsSpacingCaseComments(a, b) == Skeleton(a) = Skeleton(b)

SkeletonsOf(blacklist) == {Skeleton(b) : b \in blacklist}
RejectedBySkeletons(a, skels) == Skeleton(a) \in skels
Rejected(a, blacklist) == RejectedBySkeletons(a, SkeletonsOf(blacklist))
=================================================================================
