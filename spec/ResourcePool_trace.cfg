\* I-level validation of recorded step traces (trace.ndjson); constants must be those of the recorded runs
\* (checks/C24.py generates the configurations it runs from the same templates; measured sizes in DESIGN.md 5/C24 and evidence/C24.json)
SPECIFICATION TraceSpec
CONSTANTS
  Clients = {"c1","c2","c3"}
  MaxCap = 2
  InitCap = 1
  Rounds = 3
  Sweeps = 2
  Ticks = 0
  SetCapTo = 0
  WithClose = FALSE
  FactoryFails = TRUE
  PutNil = TRUE
  Timeouts = TRUE
POSTCONDITION TraceAccepted
CHECK_DEADLOCK FALSE
