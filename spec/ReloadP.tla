---------------------------------- MODULE ReloadP ----------------------------------
(* The property-level step relation of online reload (C31), as pure operators so that the    *)
(* model (Reload.tla) and the trace specifications (Reload_trace.tla, Reload_lin.tla) judge   *)
(* with literally the same formulas.                                                          *)
EXTENDS Integers, Sequences, FiniteSets

CONSTANTS NS,            \* namespace names
          NV             \* configuration versions 1..NV of every namespace

None    == 0
Version == 1..NV
Val     == Version \cup {None}

(* P-level: is outcome `out` of operation o permitted, and what is visible afterwards.        *)
(* PAfter is a function of the visible state before, plast, the operation and its outcome:    *)
(* it is the step relation the property text states, usable on any observed pair of states.   *)
PAllowed(pl, o, out) == (o.op = "commit" /\ out = "ok") => pl[o.n] # None
PAfter(act, pl, o, out) ==
    IF out # "ok" THEN act
    ELSE CASE o.op = "prepare" -> act
           [] o.op = "commit"  -> IF pl[o.n] # None THEN [act EXCEPT ![o.n] = pl[o.n]] ELSE act
           [] o.op = "delete"  -> [act EXCEPT ![o.n] = None]
PLastAfter(pl, o, out) == IF o.op = "prepare" /\ out = "ok" THEN [pl EXCEPT ![o.n] = o.v] ELSE pl
===================================================================================
