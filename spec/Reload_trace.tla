-------------------------------- MODULE Reload_trace --------------------------------
(* Trace validation (direction V) of sequential executions of the real Manager: every line   *)
(* is one operation with the outcome the code reported and the visible state (GetNamespace    *)
(* of every name) observed after it.  TLC evaluates the P-level step relation of ReloadP      *)
(* between consecutive observations; a step that violates it is printed as                    *)
(*   <<"REJECT", trace id, index of the step in its trace, 0-based>>                          *)
(* and validation continues from the observed state (so later steps of that execution and     *)
(* the other executions are still examined).  Many traces are concatenated; field t is the    *)
(* trace id.  The specification is deterministic: one state per line.                         *)
EXTENDS ReloadP, TLC, Json

Trace == ndJsonDeserialize("trace.ndjson")

VARIABLES l,      \* next line
          tid,    \* trace being consumed
          k,      \* index of the next step inside its trace
          vis,    \* visible state: what the implementation showed last
          pl      \* last prepared version per namespace

AsMap(e, arr) == [n \in NS |-> arr[CHOOSE i \in 1..Len(e.ns) : e.ns[i] = n]]
NoPrep == [n \in NS |-> None]

TraceInit == /\ l = 1 /\ tid = Trace[1].t /\ k = 0
             /\ vis = AsMap(Trace[1], Trace[1].init) /\ pl = NoPrep

Consume ==
    /\ l <= Len(Trace)
    /\ LET e     == Trace[l]
           fresh == e.t # tid
           v0    == IF fresh THEN AsMap(e, e.init) ELSE vis
           p0    == IF fresh THEN NoPrep ELSE pl
           k0    == IF fresh THEN 0 ELSE k
           o     == [op |-> e.ev, n |-> e.n, v |-> e.v]
           obs   == AsMap(e, e.obs)
           good  == PAllowed(p0, o, e.out) /\ obs = PAfter(v0, p0, o, e.out)
       IN /\ IF good THEN TRUE ELSE PrintT(<<"REJECT", e.t, k0>>)
          /\ vis' = obs
          /\ pl' = PLastAfter(p0, o, e.out)
          /\ tid' = e.t
          /\ k' = k0 + 1
    /\ l' = l + 1

TraceSpec == TraceInit /\ [][Consume]_<<l, tid, k, vis, pl>>

(* every line was consumed *)
TraceAccepted == LET d == TLCGet("stats").diameter IN
                 IF d - 1 = Len(Trace) THEN TRUE ELSE Print(<<"TRACE-REJECTED", d, Len(Trace), 0>>, FALSE)
===================================================================================
