---------------------------- MODULE StmtLifecycle_gen ----------------------------
(* Behaviour generation for conformance replay (C16): every behaviour of exactly GenLen    *)
(* commands is printed as one JSON line: the commands with the outcome the specification    *)
(* requires (error class, and for a successful execute the value tags it must use).         *)
EXTENDS StmtLifecycle, Json

CONSTANT GenLen

Emit == Len(hist) = GenLen =>
          PrintT(<<"CASE", ToJson([np |-> NP, cmds |-> hist])>>)
===================================================================================
