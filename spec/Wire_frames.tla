------------------------------- MODULE Wire_frames -------------------------------
(* Packet framing of Wire.tla part A as a writer / transport / reader state machine        *)
(* (property C11), shaped like mysql/conn.go:                                              *)
(*   writer  = the loop of Conn.WritePacket (one frame per iteration, then the empty       *)
(*             terminator when the last frame was full);                                   *)
(*   reader  = Conn.readPacket / ReadEphemeralPacket (read frames while they are full,     *)
(*             every header must carry the expected sequence id);                          *)
(*   transit = at most one frame gets its sequence id changed by d (bad = <<i, d>>).       *)
(* The writer and the reader run concurrently (the reader consumes what is on the wire).   *)
(*                                                                                        *)
(* With M = 4 TLC checks all L <= 3M+1 and all 256 starting ids.  With M = 2^24-1 (the Go   *)
(* constant MaxPacketSize cannot be shrunk) the same operators produce the expected frame  *)
(* list for the boundary lengths; Emit prints them for the conformance harness.            *)
EXTENDS Wire, TLC, Json

CONSTANTS M,          \* frame payload limit
          Lengths,    \* payload lengths
          Seqs,       \* starting sequence ids
          BadFrames,  \* frame positions that may be hit in transit (0 = none)
          Lengths2, Seqs2, BadFrames2,   \* a second group of initial states (may be empty): one TLC run covers both
          Deltas,     \* sequence id perturbations tried in the state machine and emitted
          PureDeltas, \* perturbations for which WrongSeqRejected is checked on the pure operators (1..255 = all)
          EmitCases

VARIABLES L, s, bad,
          wpc, wleft, woff, wseq, wire,      \* writer: "loop" | "term" | "done"
          rpc, ri, rseq, racc                \* reader: "read" | "done" | "rejected"
vars == <<L, s, bad, wpc, wleft, woff, wseq, wire, rpc, ri, rseq, racc>>

BadSet(bf) == {<<0, 0>>} \cup {<<i, d>> : i \in bf \ {0}, d \in Deltas}
Init == /\ \/ L \in Lengths /\ s \in Seqs /\ bad \in BadSet(BadFrames)
           \/ L \in Lengths2 /\ s \in Seqs2 /\ bad \in BadSet(BadFrames2)
        /\ wpc = "loop" /\ wleft = L /\ woff = 0 /\ wseq = s /\ wire = <<>>
        /\ rpc = "read" /\ ri = 0 /\ rseq = s /\ racc = 0

(* one iteration of the for-loop of WritePacket *)
WriteFrame == /\ wpc = "loop"
              /\ LET pl == IF wleft > M THEN M ELSE wleft IN
                 /\ wire' = Append(wire, [len |-> pl, seq |-> wseq, off |-> woff])
                 /\ wseq' = (wseq + 1) % 256
                 /\ wleft' = wleft - pl
                 /\ woff' = woff + pl
                 /\ wpc' = IF wleft - pl = 0 THEN (IF pl = M THEN "term" ELSE "done") ELSE "loop"
              /\ UNCHANGED <<L, s, bad, rpc, ri, rseq, racc>>
(* "the packet we just sent had exactly MaxPacketSize size, we need to send a zero-size packet too" *)
WriteTerm == /\ wpc = "term"
             /\ wire' = Append(wire, [len |-> 0, seq |-> wseq, off |-> woff])
             /\ wseq' = (wseq + 1) % 256
             /\ wpc' = "done"
             /\ UNCHANGED <<L, s, bad, wleft, woff, rpc, ri, rseq, racc>>

Seen(i) == IF bad[1] = i THEN [wire[i] EXCEPT !.seq = (wire[i].seq + bad[2]) % 256] ELSE wire[i]

(* readHeaderFrom + body of the next frame on the wire *)
ReadFrame == /\ rpc = "read" /\ ri < Len(wire)
             /\ LET f == Seen(ri + 1) IN
                IF f.seq # rseq
                THEN rpc' = "rejected" /\ UNCHANGED <<ri, rseq, racc>>
                ELSE /\ ri' = ri + 1
                     /\ rseq' = (rseq + 1) % 256
                     /\ racc' = racc + f.len
                     /\ rpc' = IF f.len < M THEN "done" ELSE "read"
             /\ UNCHANGED <<L, s, bad, wpc, wleft, woff, wseq, wire>>

Next == WriteFrame \/ WriteTerm \/ ReadFrame
Spec == Init /\ [][Next]_vars

-----------------------------------------------------------------------------------
TypeOK == /\ wpc \in {"loop", "term", "done"} /\ rpc \in {"read", "done", "rejected"}
          /\ wleft \in 0..L /\ woff \in 0..L /\ wseq \in 0..255 /\ rseq \in 0..255
          /\ ri \in 0..Len(wire) /\ racc \in 0..L

(* the closed-form / recursive definition has the stated properties *)
(* (a property of <<L, s>> only: evaluated once per <<L, s>>, in the initial state without a transit fault) *)
Framing == (bad = <<0, 0>> /\ Len(wire) = 0 /\ ri = 0) =>
              (FramingProps(L, s, M) /\ WrongSeqRejectedFor(L, s, M, PureDeltas))

(* the writer loop produces exactly Split, frame by frame *)
WriterConforms == /\ Len(wire) <= NFrames(L, M)
                  /\ wire = SubSeq(Split(L, s, M), 1, Len(wire))
                  /\ wpc = "done" => (wire = Split(L, s, M) /\ wseq = (s + NFrames(L, M)) % 256 /\ wleft = 0 /\ woff = L)
(* the reader returns the payload iff nothing was changed in transit, and then agrees with the writer on the next id *)
ReaderConforms == /\ rpc = "done" => /\ bad[1] = 0 \/ bad[1] > NFrames(L, M)
                                     /\ racc = L /\ ri = NFrames(L, M) /\ wpc = "done" /\ rseq = wseq
                  /\ rpc = "rejected" => (bad[1] = ri + 1 /\ bad[1] <= NFrames(L, M))
                  /\ rpc = "read" => racc = ri * M
(* the step machine agrees with Reassemble on complete wires *)
ReaderIsReassemble ==
    (wpc = "done" /\ rpc # "read") =>
        LET fs == [i \in 1..Len(wire) |-> Seen(i)]
            r  == Reassemble(fs, s, M)
        IN /\ r.ok = (rpc = "done")
           /\ r.ok => (r.len = racc /\ r.next = rseq)
           /\ ~r.ok => (r.why = "seq" /\ r.at = ri + 1)

(* expected reader outcome for a wire whose frame i carries seq + d *)
BadOut(i, d) == LET r == Reassemble(BadSeq(Split(L, s, M), i, d), s, M) IN
                [i |-> i, d |-> d, ok |-> r.ok, at |-> r.at, why |-> r.why]
Emit == (EmitCases /\ bad = <<0, 0>> /\ Len(wire) = 0 /\ ri = 0) =>
          LET fs == Split(L, s, M)
              r  == Reassemble(fs, s, M)
              RECURSIVE Bads(_, _)
              Bads(i, D) == IF i > Len(fs) THEN <<>>
                            ELSE IF D = {} THEN Bads(i + 1, Deltas)
                            ELSE LET d == CHOOSE x \in D : TRUE IN <<BadOut(i, d)>> \o Bads(i, D \ {d})
          IN PrintT(<<"CASE", ToJson([m |-> M, len |-> L, seq |-> s, frames |-> fs,
                                      ok |-> r.ok, rlen |-> r.len, next |-> r.next,
                                      bad |-> Bads(1, Deltas)])>>)
===================================================================================
