SPECIFICATION GenSpec
CONSTANTS
  NS = {"n1", "n2"}
  NV = 2
  Scenarios = {1}
  CredOf <- MCCredOf
  JoinKey <- MCJoinKey
  SplitUser <- MCSplitUser
  SplitPw <- MCSplitPw
  InitActive <- MCInit
  Paired = FALSE
  WithBad = TRUE
  Fixed = FALSE
  GenLen = 3
  EmitTriples = FALSE
INVARIANTS Emit
CHECK_DEADLOCK FALSE
