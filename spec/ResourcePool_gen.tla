----------------------------- MODULE ResourcePool_gen -----------------------------
(* Schedule generation for the gate scheduler (direction G).  Same actions as ResourcePool  *)
(* plus a history variable: the schedule <<process, label, choice>> with, per step, the     *)
(* projection the specification expects afterwards (channel length, capacity, available,    *)
(* inUse) and the wrapper the process has in hand (the resource a g12 hands out).           *)
(* BFS with VIEW vars: one shortest schedule per distinct state; EmitBad prints every       *)
(* reachable P-level bad state as a *candidate* (exploration stops behind it); EmitEnd      *)
(* prints terminal good states.  -simulate: random complete schedules.                      *)
EXTENDS ResourcePool, TLC, Json, SequencesExt

VARIABLE hist

Obs == <<Len(ch), capacity, available, inUse>>

GenInit == Init /\ hist = <<>>

GenNext == /\ ~Bad
           /\ \E p \in Procs, a \in 0..2 :
                /\ Step(p, a)
                /\ hist' = Append(hist, [p |-> p, l |-> pc[p], a |-> a, r |-> slot[p], o |-> Obs'])

GenSpec == GenInit /\ [][GenNext]_<<vars, hist>>
GenView == vars

BadKinds == (IF NoOverAllocation THEN {} ELSE {"over-allocation"})
       \cup (IF OneHolder THEN {} ELSE {"double-issue"})
       \cup (IF PutNeverFails THEN {} ELSE {"put-panic"})
       \cup (IF NoOtherPanic THEN {} ELSE {"other-panic"})
       \cup (IF QuiescentAccounting THEN {} ELSE {"quiescent-accounting"})

Config == [clients |-> SetToSeq(Clients), max |-> MaxCap, init |-> InitCap, rounds |-> Rounds, sweeps |-> Sweeps,
           ticks |-> Ticks, setcap |-> SetCapTo, close |-> WithClose]

AllEnded == /\ lateN = 0
            /\ \A p \in Procs : \/ pc[p] \in {"done", "dead", "off"}
                                \/ p = "factory"
                                \/ p = "tick" /\ pc[p] = "t0" /\ stopTick
                                \/ p = "sweep" /\ pc[p] = "i0" /\ stopSweep

Case(kind) == [kind |-> kind, cfg |-> Config, bad |-> SetToSeq(BadKinds), stale |-> stale,
               panic |-> panic, sched |-> hist, held |-> SetToSeq(held)]

EmitBad == Bad => PrintT(<<"CASE", ToJson(Case("candidate"))>>)
EmitEnd == (AllEnded /\ ~Bad) => PrintT(<<"CASE", ToJson(Case("ordinary"))>>)
===================================================================================
