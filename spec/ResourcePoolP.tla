------------------------------- MODULE ResourcePoolP -------------------------------
(* P-level specification of a resource pool (property C24): what clients of the pool may     *)
(* observe, nothing about how the pool works.  State: who holds which resource; the          *)
(* observations that the property forbids are recorded in flags so that every clause of      *)
(* the property is a separately named invariant.                                             *)
(*   Got(c, r)      get returned resource r to client c                                      *)
(*   PutBegin(c, r) client c calls Put for the resource it holds (the hold ends here)        *)
(*   PutEnd(c, ok)  that Put returned (ok) or panicked (~ok)                                 *)
(*   GetErr(c)      get returned an error (always allowed)                                   *)
(*   OpPanic        some other pool operation panicked                                       *)
(*   Quiet(idle, cap)  no operation in progress: idle slots and current capacity observed    *)
EXTENDS Integers, FiniteSets

VARIABLES maxcap,      \* maximum capacity of the pool under observation
          held,        \* set of <<client, resource>>
          putting,     \* set of <<client, resource>> whose Put has begun and not ended
          illegalPut,  \* a Put of a resource the client did not hold (driver error, not a pool fault)
          putFailed,   \* a Put of a legitimately obtained resource failed
          opPanic,     \* another pool operation panicked
          quietBad     \* a quiescent observation with idle + in-use # capacity

pvars == <<maxcap, held, putting, illegalPut, putFailed, opPanic, quietBad>>

PInit(m) == /\ maxcap = m /\ held = {} /\ putting = {}
            /\ illegalPut = FALSE /\ putFailed = FALSE /\ opPanic = FALSE /\ quietBad = FALSE

Got(c, r) == /\ held' = held \cup {<<c, r>>}
             /\ UNCHANGED <<maxcap, putting, illegalPut, putFailed, opPanic, quietBad>>

PutBegin(c, r) == /\ illegalPut' = (illegalPut \/ <<c, r>> \notin held)
                  /\ held' = held \ {<<c, r>>}
                  /\ putting' = putting \cup {<<c, r>>}
                  /\ UNCHANGED <<maxcap, putFailed, opPanic, quietBad>>

PutEnd(c, ok) == /\ \E x \in putting : x[1] = c
                 /\ putting' = {x \in putting : x[1] # c}
                 /\ putFailed' = (putFailed \/ ~ok)
                 /\ UNCHANGED <<maxcap, held, illegalPut, opPanic, quietBad>>

GetErr(c) == UNCHANGED pvars

OpPanic == opPanic' = TRUE /\ UNCHANGED <<maxcap, held, putting, illegalPut, putFailed, quietBad>>

Quiet(idle, cap) == /\ putting = {}
                    /\ quietBad' = (quietBad \/ idle + Cardinality(held) # cap)
                    /\ UNCHANGED <<maxcap, held, putting, illegalPut, putFailed, opPanic>>

-----------------------------------------------------------------------------------
(* Property C24, clause by clause *)
P_NoOverAllocation == Cardinality(held) <= maxcap
P_OneHolder == \A x, y \in held : x[2] = y[2] => x[1] = y[1]
P_PutNeverFails == ~putFailed
P_QuiescentAccounting == ~quietBad
(* not a clause of the property but never acceptable from a pool: a panic inside get / sweep / scaling *)
P_NoOtherPanic == ~opPanic
(* sanity of the driver itself *)
P_DriverDiscipline == ~illegalPut
===================================================================================
