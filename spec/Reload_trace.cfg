SPECIFICATION TraceSpec
CONSTANTS
  NS = {"n1", "n2"}
  NV = 2
POSTCONDITION TraceAccepted
CHECK_DEADLOCK FALSE
