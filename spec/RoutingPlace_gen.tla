---------------------------- MODULE RoutingPlace_gen ----------------------------
(******************************************************************************)
(* Case generation and self-check of RoutingPlace (C08, C09).                 *)
(*                                                                            *)
(* One state per (rule, time zone, item).  An item is                         *)
(*   - an INSTANT (local civil day + second of day): it yields the three      *)
(*     accepted spellings of that instant (unix timestamp, 'YYYY-MM-DD',      *)
(*     'YYYY-MM-DD hh:mm:ss'); SpellingsAgree says they are placed alike;      *)
(*   - a single KEY from the boundary universe of the rule;                   *)
(*   - the LAYOUT of the rule (listed tables, table -> slice, databases).     *)
(* There are no transitions: TLC enumerates the initial states, checks the    *)
(* invariants on each and the Emit invariant prints the case with the         *)
(* expected result computed by the specification.                             *)
(******************************************************************************)
EXTENDS RoutingPlace, RoutingPlaceExtra, TLC, Json

CONSTANTS Types,      \* the rule types to enumerate, e.g. {"range"}, {"date_year", "date_month", "date_day"}, {"mycat_murmur"}
          Wide,       \* BOOLEAN: thorough-tier universe
          TZs         \* time zones of the proxy (calendar rules only): seconds east of UTC PLUS 86400
                      \* (a cfg file cannot hold negative numbers)

VARIABLES rule, tz, item,
          memo       \* determined by rule: its layout and (mycat_murmur) its hash ring, computed once per rule
vars == <<rule, tz, item, memo>>

-----------------------------------------------------------------------------
IntKey(v) == [kind |-> "int", neg |-> v < 0, digits |-> DecOf(IF v < 0 THEN -v ELSE v)]
BigKey(neg, ds) == [kind |-> "int", neg |-> neg, digits |-> ds]
StrKey(cps) == [kind |-> "str", cps |-> cps]
StrOfInt(v) == StrKey(IntText(IntKey(v)))
SliceNames(n) == [i \in 1..n |-> "slice-" \o ToString(i - 1)]

(* all sequences over S of length lo..hi *)
SeqsOf(S, lo, hi) == UNION {[1..n -> S] : n \in lo..hi}

Edge64 == { BigKey(FALSE, Two63m1), BigKey(TRUE, Two63), BigKey(TRUE, Two63m1),
            BigKey(FALSE, <<9,2,2,3,3,7,2,0,3,6,8,5,4,7,7,5,8,0,6>>),
            BigKey(FALSE, <<2,1,4,7,4,8,3,6,4,7>>), BigKey(FALSE, <<2,1,4,7,4,8,3,6,4,8>>),
            BigKey(TRUE, <<2,1,4,7,4,8,3,6,4,8>>), BigKey(TRUE, <<2,1,4,7,4,8,3,6,4,9>>),
            BigKey(FALSE, <<4,2,9,4,9,6,7,2,9,6>>), BigKey(FALSE, <<1,2,3,4,5,6,7,8,9,0,1,2>>),
            BigKey(TRUE, <<1,2,3,4,5,6,7,8,9,0,1,2>>) }

(* "abc" etc. as code point tuples *)
T_abc == <<97, 98, 99>>
BadNumbers == { <<>>, T_abc, <<49, 50, 97>>, <<32, 53>>, <<53, 32>>, <<49, 46, 53>>, <<45, 45, 49>>, <<45>>,
                <<49, 101, 51>>, <<20116>>, <<128512>>,
                <<57,50,50,51,51,55,50,48,51,54,56,53,52,55,55,53,56,48,56>>,          \* "9223372036854775808"
                <<45,57,50,50,51,51,55,50,48,51,54,56,53,52,55,55,53,56,48,57>> }      \* "-9223372036854775809"

-----------------------------------------------------------------------------
(* RANGE *)
RangeLayouts == IF Wide THEN SeqsOf(1..3, 1, 3) \cup {<<4>>, <<1, 1, 1, 1>>, <<2, 3, 1, 2>>}
                ELSE {<<1>>, <<2>>, <<1, 1>>, <<2, 2>>, <<1, 3>>, <<2, 1, 1>>}
RangeLimits  == IF Wide THEN {1, 2, 3, 10, 100, 1000, 1000000} ELSE {1, 2, 10, 1000000}
RangeRules   == {[type |-> "range", locations |-> l, limit |-> lim, slices |-> SliceNames(Len(l))]
                   : l \in RangeLayouts, lim \in RangeLimits}

RangeVals(r) == LET n == TableCount(r)  L == r.limit
                IN UNION {{i * L - 1, i * L, i * L + 1} : i \in 0..n}
                   \cup {-2, 2, L \div 2, n * L + L, n * L + L - 1, (n * L) \div 2}
RangeKeys(r) == {IntKey(v) : v \in RangeVals(r)} \cup Edge64
                \cup {StrOfInt(v) : v \in RangeVals(r)}
                \cup {StrKey(<<48, 48>> \o IntText(IntKey(r.limit))),         \* "00<limit>"
                      StrKey(<<43>> \o IntText(IntKey(r.limit))),             \* "+<limit>"
                      StrKey(<<45, 48>>)}                                     \* "-0"
                \cup {StrKey(s) : s \in BadNumbers}
                \cup {BigKey(p[1], p[2]) : p \in ExtraInts}

-----------------------------------------------------------------------------
(* CALENDAR *)
R(a, b) == [lo |-> a, hi |-> b]
YearRangeSets  == {<<R(2016, 2016)>>, <<R(2016, 2018)>>, <<R(2018, 2016)>>, <<R(2015, 2016), R(2018, 2018)>>}
                  \cup (IF Wide THEN {<<R(1999, 2001), R(2004, 2004)>>, <<R(2099, 2101)>>, <<R(1969, 1971)>>,
                                      <<R(2037, 2039)>>, <<R(2016, 2016), R(2017, 2017), R(2018, 2018)>>} ELSE {})
MonthRangeSets == {<<R(201611, 201702)>>, <<R(201602, 201602)>>, <<R(201702, 201611)>>,
                   <<R(201512, 201601), R(201603, 201605)>>,
                   <<R(201411, 201602)>>}                                  \* one span over two year ends
                  \cup (IF Wide THEN {<<R(201612, 201801)>>, <<R(201401, 201701)>>, <<R(199912, 200003)>>, <<R(210002, 210003)>>,
                                      <<R(196912, 197001)>>, <<R(201701, 201712)>>,
                                      <<R(201610, 201612), R(201701, 201701), R(201702, 201703)>>} ELSE {})
DayRangeSets   == {<<R(20161230, 20170102)>>, <<R(20160228, 20160301)>>, <<R(20170102, 20161230)>>,
                   <<R(20170228, 20170301), R(20170302, 20170302)>>}
                  \cup (IF Wide THEN {<<R(20000228, 20000301)>>, <<R(21000228, 21000301)>>, <<R(19691231, 19700101)>>,
                                      <<R(20380118, 20380120)>>, <<R(20160229, 20160229)>>,
                                      <<R(20171130, 20171201), R(20171231, 20180101)>>} ELSE {})
DateRules == {[type |-> "date_year", ranges |-> rs, slices |-> SliceNames(Len(rs))] : rs \in YearRangeSets}
        \cup {[type |-> "date_month", ranges |-> rs, slices |-> SliceNames(Len(rs))] : rs \in MonthRangeSets}
        \cup {[type |-> "date_day", ranges |-> rs, slices |-> SliceNames(Len(rs))] : rs \in DayRangeSets}

(* first local day of period p, and of the period after p *)
PeriodStart(type, p) == IF type = "date_year" THEN DaysFromCivil(p, 1, 1)
                        ELSE IF type = "date_month" THEN DaysFromCivil(p \div 100, p % 100, 1)
                        ELSE DaysFromCivil(p \div 10000, (p \div 100) % 100, p % 100)
PeriodNext(type, p) ==  IF type = "date_year" THEN DaysFromCivil(p + 1, 1, 1)
                        ELSE IF type = "date_month"
                             THEN (IF p % 100 = 12 THEN DaysFromCivil(p \div 100 + 1, 1, 1)
                                   ELSE DaysFromCivil(p \div 100, (p % 100) + 1, 1))
                        ELSE PeriodStart(type, p) + 1

Inst(day, sod) == [i |-> "instant", day |-> day, sod |-> sod]
(* period boundaries +-1 s, a mid-period instant, and the boundaries of the neighbouring periods *)
BoundaryInstants(r) ==
    LET st == SubTables(r)
        ps == {st[i] : i \in 1..Len(st)}
        bs == UNION {{PeriodStart(r.type, p), PeriodNext(r.type, p)} : p \in ps}
    IN UNION {{Inst(b - 1, 86399), Inst(b - 1, 86398), Inst(b, 0), Inst(b, 1), Inst(b, 43200)} : b \in bs}
FixedInstants ==
    { Inst(DaysFromCivil(2016, 2, 29), 0), Inst(DaysFromCivil(2016, 2, 29), 86399),
      Inst(DaysFromCivil(2016, 12, 31), 86399), Inst(DaysFromCivil(2017, 1, 1), 0),
      Inst(0, 0), Inst(-1, 86399), Inst(DaysFromCivil(2038, 1, 19), 11647), Inst(DaysFromCivil(2038, 1, 19), 11648) }
    \cup (IF Wide THEN { Inst(DaysFromCivil(2000, 2, 29), 43200), Inst(DaysFromCivil(1900, 2, 28), 86399),
                         Inst(DaysFromCivil(1900, 3, 1), 0), Inst(DaysFromCivil(2100, 2, 28), 86399),
                         Inst(DaysFromCivil(2100, 3, 1), 0), Inst(DaysFromCivil(9999, 12, 31), 86399),
                         Inst(DaysFromCivil(1000, 1, 1), 0), Inst(DaysFromCivil(2017, 6, 15), 45296),
                         Inst(DaysFromCivil(1999, 12, 31), 86399), Inst(DaysFromCivil(2000, 1, 1), 0) } ELSE {})

(* the three spellings of a local instant *)
SpellingsOf(it, z) ==
    LET c == CivilFromDays(it.day)
    IN << TsKeyOf(c.y, c.m, c.d, it.sod, z),
          StrKey(DateText(c.y, c.m, c.d)),
          StrKey(DateTimeText(c.y, c.m, c.d, it.sod)) >>

(* strings: every prefix (length 0..19) of a date-time inside the rule, and malformed / lenient spellings *)
Prefixes(s) == {SubSeq(s, 1, n) : n \in 0..Len(s)}
BadDates ==
    { <<97, 98, 99, 100>>,                                                   \* "abcd"
      <<97,98,99,100,45,101,102,45,103,104>>,                                \* "abcd-ef-gh"
      <<50,48,97,55,45,48,54,45,48,49>>,                                     \* "20a7-06-01"
      <<50,48,49,55,45,48,97,45,48,49>>,                                     \* "2017-0a-01"
      <<50,48,49,55,45,48,54,45,48,97>>,                                     \* "2017-06-0a"
      <<50,48,49,55,45,49,51,45,48,49>>,                                     \* "2017-13-01"
      <<50,48,49,55,45,48,48,45,49,48>>,                                     \* "2017-00-10"
      <<50,48,49,55,45,48,50,45,51,48>>,                                     \* "2017-02-30"
      <<50,48,49,55,45,48,50,45,50,57>>,                                     \* "2017-02-29"
      <<50,48,49,54,45,48,50,45,50,57>>,                                     \* "2016-02-29" (valid)
      <<49,57,48,48,45,48,50,45,50,57>>,                                     \* "1900-02-29"
      <<50,48,49,55,45,48,52,45,51,49>>,                                     \* "2017-04-31"
      <<50,48,49,55,45,48,54,45,48,48>>,                                     \* "2017-06-00"
      <<50,48,49,55,45,48,54,45,51,50>>,                                     \* "2017-06-32"
      <<43,48,49,55,45,48,54,45,48,49>>,                                     \* "+017-06-01"
      <<45,48,49,55,45,48,54,45,48,49>>,                                     \* "-017-06-01"
      <<50,48,49,55,47,48,54,47,48,49>>,                                     \* "2017/06/01"
      <<50,48,49,55,45,48,54,45,48,49,84,49,48,58,48,48,58,48,48>>,          \* "2017-06-01T10:00:00"
      <<50,48,49,55,45,48,54,45,48,49,32,49,48,58,48,48,58,48,48,46,53>>,    \* "2017-06-01 10:00:00.5"
      <<50,48,49,55,45,48,54,45,48,49,32,50,52,58,48,48,58,48,48>>,          \* "2017-06-01 24:00:00"
      <<50,48,49,55,45,48,54,45,48,49,32,49,48,58,54,48,58,48,48>>,          \* "2017-06-01 10:60:00"
      <<50,48,49,55,45,48,54,45,51,49,32,49,48,58,48,48,58,48,48>>,          \* "2017-06-31 10:00:00"
      <<50,48,49,55,45,54,45,49>>,                                           \* "2017-6-1"
      <<49,53,48,48,48,48,48,48,48,48>>,                                     \* "1500000000"
      <<50,48,49,55,48,54,48,49>>,                                           \* "20170601"
      <<50,48,49,55,48,54,48,49,49,50>>,                                     \* "2017060112"
      <<20108,12295,19968,19971,24180,20845,26376,19968,26085,12290>>,       \* CJK date, 10 chars
      <<65298,65296,65297,65303,45,48,54,45,48,49>>,                         \* full-width "2017"-06-01
      <<128512,128512,128512,128512,45,48,54,45,48,49>>,                     \* 4 supplementary chars + "-06-01"
      <<50,48,49,55,45,48,54,45,48,26085>>,                                  \* "2017-06-0" + CJK
      <<50,48>>, <<50>>, <<50,48,49>> }                                      \* "20", "2", "201"
DateStrings(r) ==
    LET p == SubTables(r)[1]
        c == CivilFromDays(PeriodStart(r.type, p))
    IN Prefixes(DateTimeText(c.y, c.m, c.d, 43261)) \cup Prefixes(DateTimeText(2016, 12, 31, 86399)) \cup BadDates

DateItems(r) == BoundaryInstants(r) \cup FixedInstants \cup {Inst(p[1], p[2]) : p \in ExtraInstants}
                \cup {[i |-> "key", key |-> StrKey(s)] : s \in DateStrings(r) \cup ExtraStrings}

-----------------------------------------------------------------------------
(* MYCAT *)
DbRange(n) == [form |-> "range", prefix |-> "db_mycat_", lo |-> 0, hi |-> n - 1]
DbList(n)  == [form |-> "list", names |-> [i \in 1..n |-> "mdb" \o ToString(i * 7)]]
RealDatabases(dbs) == IF dbs.form = "list" THEN dbs.names
                      ELSE [i \in 1..(dbs.hi - dbs.lo + 1) |-> dbs.prefix \o ToString(dbs.lo + i - 1)]
(* n tables spread over 1 or 2 slices *)
Locs(n) == IF n >= 2 /\ n % 2 = 0 THEN <<n \div 2, n \div 2>> ELSE <<n>>
Dbs(n)  == IF n >= 2 /\ n % 3 # 0 THEN DbRange(n) ELSE DbList(n)
Base(type, n) == [type |-> type, locations |-> Locs(n), slices |-> SliceNames(Len(Locs(n))), databases |-> Dbs(n)]

ModCounts == IF Wide THEN 1..16 ELSE {1, 2, 3, 5, 8, 16}
MycatModRules == {Base("mycat_mod", n) : n \in ModCounts}

Partitions == { <<<<1>>, <<1024>>>>, <<<<2>>, <<512>>>>, <<<<4>>, <<256>>>>, <<<<2, 1>>, <<256, 512>>>>,
                <<<<1, 1, 4>>, <<512, 256, 64>>>> }
              \cup (IF Wide THEN { <<<<8>>, <<128>>>>, <<<<16>>, <<64>>>>, <<<<2, 2>>, <<256, 256>>>>,
                                   <<<<1, 2>>, <<1022, 1>>>>, <<<<3, 1>>, <<341, 1>>>> } ELSE {})
WithPart(b, p) == [type |-> b.type, locations |-> b.locations, slices |-> b.slices, databases |-> b.databases,
                   pcount |-> p[1], plength |-> p[2]]
MycatLongRules == {WithPart(Base("mycat_long", Sum(p[1])), p) : p \in Partitions}

Single(a)  == [form |-> "single", a |-> a, b |-> None]
Pair(a, b) == [form |-> "pair", a |-> a, b |-> b]
HashSlices == { Single(2), Single(-3), Single(0), Pair(0, 2), Pair(-2, None), Pair(None, -1), Pair(None, None), Pair(1, None) }
              \cup (IF Wide THEN { Single(-1), Single(1), Single(-100), Single(100), Pair(-3, -1), Pair(1, 3), Pair(2, 1), Pair(-100, 100),
                                   Pair(0, 5), Pair(None, 1) } ELSE {})
StringParts == IF Wide THEN Partitions ELSE {<<<<4>>, <<256>>>>, <<<<1, 1, 4>>, <<512, 256, 64>>>>}
WithHs(r, h) == [type |-> r.type, locations |-> r.locations, slices |-> r.slices, databases |-> r.databases,
                 pcount |-> r.pcount, plength |-> r.plength, hs |-> h]
MycatStringRules == {WithHs(WithPart(Base("mycat_string", Sum(p[1])), p), h) : p \in StringParts, h \in HashSlices}

MurmurParams == (IF Wide THEN {0, 1, -1, 2147483647} \X {1, 2, 4} \X {1, 2, 3, 4, 7, 16}
                         ELSE {0, 1, -1} \X {1, 4} \X {3, 16})
                \cup (IF Wide THEN {<<0, 160, 2>>, <<1, 160, 4>>} ELSE {<<0, 160, 2>>})   \* Mycat's default bucket count
                \cup ExtraMurmur
WithMur(b, s, v) == [type |-> b.type, locations |-> b.locations, slices |-> b.slices, databases |-> b.databases,
                     seed |-> s, vbt |-> v]
MycatMurmurRules == {WithMur(Base("mycat_murmur", p[3]), p[1], p[2]) : p \in MurmurParams}

MycatRules == MycatModRules \cup MycatLongRules \cup MycatStringRules \cup MycatMurmurRules

MycatIntVals(n) == {0, 1, -1, 2, 7, n - 1, n, n + 1, -n, 1023, 1024, 1025, -1023, -1024, -1025, 511, 512, 255, 256,
                    -50, -46, 12345, 1000000007}
MycatStrings ==
    { <<>>, <<97>>, <<97, 98>>, T_abc, <<97, 98, 99, 100>>, <<97, 98, 99, 100, 101>>,
      <<104,101,108,108,111,44,32,119,111,114,108,100>>,                     \* "hello, world"
      <<63,33,41,95,70,70,83,68>>,                                           \* "?!)_FFSD"
      <<20320>>, <<20320, 22909>>, <<20320, 22909, 21527>>,                  \* CJK 1..3 chars
      <<20320,22909,44,32,20013,22269>>,                                     \* "你好, 中国"
      <<97, 20320, 98>>, <<233>>, <<97, 233, 98, 99>>,                       \* mixed, latin-1
      <<128512>>, <<97, 128512>>, <<128512, 98>>, <<97, 128512, 98, 22909>>, \* supplementary plane
      <<131072>>, <<97, 98, 131072, 99>>, <<128512, 128512>>,
      <<65535>>, <<97, 65535, 98>>, <<55295, 57344>>,                        \* BMP edges around the surrogate range
      <<48>>, <<49, 55>>, <<45, 49, 55>>, <<48, 48, 55>>, <<45, 53, 48>>, <<32, 53>>, <<49, 50, 97>> }
MycatKeys(r) == {IntKey(v) : v \in MycatIntVals(TableCount(r))} \cup Edge64
                \cup {StrKey(s) : s \in MycatStrings \cup ExtraStrings}
                \cup {BigKey(p[1], p[2]) : p \in ExtraInts}
                \cup (IF r.type \in {"mycat_mod", "mycat_long"} THEN {StrOfInt(v) : v \in {0, 1, -1, 1023, 1024, -1025}} ELSE {})

-----------------------------------------------------------------------------
AllRules == RangeRules \cup DateRules \cup MycatRules
Rules == {r \in AllRules : r.type \in Types}
FamilyOf(r) == IF r.type = "range" THEN "range" ELSE IF IsDateRule(r) THEN "date" ELSE "mycat"
Layout == [i |-> "layout"]
Items(r) == {Layout} \cup
            (IF FamilyOf(r) = "range" THEN {[i |-> "key", key |-> k] : k \in RangeKeys(r)}
             ELSE IF FamilyOf(r) = "date" THEN DateItems(r)
             ELSE {[i |-> "key", key |-> k] : k \in MycatKeys(r)})
ZonesOf(r) == IF IsDateRule(r) THEN {z - 86400 : z \in TZs} ELSE {0}

MemoOf(r) == [st |-> SubTables(r), ts |-> TableToSlice(r),
               ring |-> IF r.type = "mycat_murmur" THEN Ring(r.seed, r.vbt, TableCount(r)) ELSE {}]
Init == rule \in Rules /\ memo = MemoOf(rule) /\ tz \in ZonesOf(rule) /\ item \in Items(rule)
Next == UNCHANGED vars
Spec == Init /\ [][Next]_vars

(* the generated range rules stay inside TLC integers *)
ASSUME \A r \in RangeRules : TableCount(r) * r.limit + r.limit < 1000000000

-----------------------------------------------------------------------------
KeysOfItem == IF item.i = "instant" THEN SpellingsOf(item, tz)
              ELSE IF item.i = "key" THEN <<item.key>> ELSE <<>>

SliceIdx(idx) == LET st == memo.st  ts == memo.ts
                     hit == {i \in 1..Len(st) : st[i] = idx}
                 IN IF hit = {} THEN -1 ELSE ts[CHOOSE i \in hit : TRUE]
PlaceG(k) == IF rule.type = "mycat_murmur" THEN MycatMurmurPlaceWith(memo.ring, rule, k)
             ELSE Place(rule, k, tz)

ClassOf(k) == IF IsDateRule(rule) /\ k.kind = "str"
              THEN (IF AcceptedSpelling(k.cps) THEN "accepted" ELSE FieldClass(rule.type, k.cps))
              ELSE k.kind
CaseOf(k) ==
    LET e == PlaceG(k)
        placed == e.t \in {"table", "lenient"}
    IN [key |-> k, exp |-> e, cls |-> ClassOf(k),
        slice |-> IF placed THEN SliceIdx(e.idx) ELSE -1,
        db |-> IF placed /\ "databases" \in DOMAIN rule THEN RealDatabases(rule.databases)[e.idx + 1] ELSE ""]

(* ---- properties of the specification itself, checked on every state ---- *)
PlaceTotal == \A i \in 1..Len(KeysOfItem) : ResultOK(rule, PlaceG(KeysOfItem[i]))

(* equal instants => equal placement, and it is the period of the local civil date *)
SpellingsAgree ==
    item.i = "instant" =>
        LET ks == KeysOfItem
            c  == CivilFromDays(item.day)
        IN /\ PlaceG(ks[1]) = PlaceG(ks[2]) /\ PlaceG(ks[2]) = PlaceG(ks[3])
           /\ PlaceG(ks[1]) = Table(PeriodOf(rule.type, c.y, c.m, c.d))
           /\ LocalDayOf(ks[1], tz) = item.day /\ LocalSecOf(ks[1], tz) = item.sod

(* the intervals of a range rule partition [0, n*limit): every value is in exactly one, outside in none *)
RangePartition ==
    (rule.type = "range" /\ item.i = "layout") =>
        LET n == TableCount(rule)  L == rule.limit
            probe == IF n * L <= 4000 THEN (-3)..(n * L + 3) ELSE RangeVals(rule)
        IN \A v \in probe :
             LET hits == {i \in 0..(n - 1) : InInterval(Interval(rule, i), v)}
             IN /\ Cardinality(hits) = (IF 0 <= v /\ v < n * L THEN 1 ELSE 0)
                /\ (hits # {} => RangePlaceVal(rule, v) = Table(v \div L))
                /\ (hits = {} => RangePlaceVal(rule, v) = Reject)

(* the layout: every listed table exactly once, ascending for calendar rules, one slice per table *)
LayoutSane ==
    item.i = "layout" =>
        LET st == memo.st  ts == memo.ts
        IN /\ Len(st) = Len(ts) /\ Len(st) > 0
           /\ \A i, j \in 1..Len(st) : i < j => st[i] # st[j] /\ ts[i] <= ts[j]
           /\ \A i \in 1..Len(ts) : ts[i] \in 0..(Len(rule.slices) - 1)
           /\ \A i \in 1..Len(st) : SliceIdx(st[i]) = ts[i]
           /\ (Len(st) <= 40 => \A i \in 1..Len(st) : SliceIndexOf(rule, st[i]) = ts[i])

(* Mycat partition tables cover 0..1023 with segments 0..n-1 in order *)
SegmentsPartition ==
    (rule.type \in {"mycat_long", "mycat_string"} /\ item.i = "layout") =>
        /\ ValidPartition(TableCount(rule), rule.pcount, rule.plength)
        /\ \A x \in 0..1023 : SegmentOf(rule.pcount, rule.plength, x) \in 0..(TableCount(rule) - 1)
        /\ \A x \in 0..1022 : SegmentOf(rule.pcount, rule.plength, x) <= SegmentOf(rule.pcount, rule.plength, x + 1)

(* carrying the string hash modulo 1024 equals reducing the full hash (checked where the full hash fits) *)
RECURSIVE FullHash(_, _, _, _)
FullHash(units, i, end, h) == IF i >= end THEN h ELSE FullHash(units, i + 1, end, 31 * h + units[i + 1])
HashCarryOK ==
    (rule.type = "mycat_string" /\ item.i = "key" /\ item.key.kind = "str") =>
        LET u == Utf16(item.key.cps)
        IN (Len(u) <= 4 /\ \A i \in 1..Len(u) : u[i] < 2048) =>
               StringHash1024(u, 0, Len(u)) = FullHash(u, 0, Len(u), 0) % 1024

(* ---- emission ---- *)
LayoutRec == [subtables |-> memo.st, t2s |-> memo.ts,
              dbs |-> IF "databases" \in DOMAIN rule THEN RealDatabases(rule.databases) ELSE <<>>]
Emit == PrintT(<<"CASE", ToJson([rule |-> rule, tz |-> tz, item |-> item.i,
                                 cases |-> [i \in 1..Len(KeysOfItem) |-> CaseOf(KeysOfItem[i])],
                                 layout |-> IF item.i = "layout" THEN LayoutRec ELSE [none |-> TRUE]])>>)
===================================================================================
