-------------------------------- MODULE TimeWheel --------------------------------
(* util.TimeWheel of XiaoMi/Gaea (util/time_wheel.go): the idle-session timer.            *)
(*                                                                                        *)
(* Implementation view (I-level): N buckets, a current index, per registered key the       *)
(* bucket it sits in and the remaining rounds; producers only append operations to a       *)
(* pipeline; the single wheel goroutine, once per tick, drains the pipeline in order and   *)
(* then handles the current bucket.                                                        *)
(* Reference view (P-level): per key the tick at which it is due, counted from its most    *)
(* recent registration; a key fires exactly at its due tick, exactly once, and a removed   *)
(* or re-registered key is never fired by an older registration.                           *)
(* Time unit: one wheel tick.  A delay of d ticks registered between tick k-1 and tick k    *)
(* (0-based) is due at tick k+d, i.e. after more than d and at most d+1 tick periods of     *)
(* real time -- property C37's window [timeout, timeout + one tick].                        *)
EXTENDS Integers, Sequences, FiniteSets, SequencesExt

CONSTANTS Keys,        \* registered items (sessions)
          N,           \* number of buckets
          MaxDelay,    \* delays are 0..MaxDelay ticks (0 = a timeout shorter than one tick)
          MaxOps,      \* bound on pipeline operations (model checking only)
          MaxTicks     \* bound on ticks (model checking only)

VARIABLES cur,       \* I: currentIndex
          bucket,    \* I: bucketIndexes: key -> bucket position or None
          round,     \* I: Task.round of the key's task
          queue,     \* pipelineC: sequence of pending operations
          now,       \* number of ticks handled so far
          due,       \* P: key -> tick at which it must fire, or None
          fired,     \* keys whose callback was started by the last tick
          nops

vars == <<cur, bucket, round, queue, now, due, fired, nops>>
None == -1

AddOp(k, d) == [op |-> "add", key |-> k, d |-> d]
DelOp(k)    == [op |-> "del", key |-> k, d |-> 0]

TypeOK == /\ cur \in 0..(N-1)
          /\ bucket \in [Keys -> {None} \cup 0..(N-1)]
          /\ round \in [Keys -> Nat]
          /\ now \in Nat
          /\ due \in [Keys -> {None} \cup Nat]
          /\ fired \subseteq Keys

Init == /\ cur = 0
        /\ bucket = [k \in Keys |-> None]
        /\ round = [k \in Keys |-> 0]
        /\ queue = <<>>
        /\ now = 0
        /\ due = [k \in Keys |-> None]
        /\ fired = {}
        /\ nops = 0

(* Producer side: Add / Remove only enqueue (TimeWheel.Add, TimeWheel.Remove). *)
Add(k, d) == /\ nops < MaxOps
             /\ queue' = Append(queue, AddOp(k, d))
             /\ nops' = nops + 1
             /\ UNCHANGED <<cur, bucket, round, now, due, fired>>

Del(k) == /\ nops < MaxOps
             /\ queue' = Append(queue, DelOp(k))
             /\ nops' = nops + 1
             /\ UNCHANGED <<cur, bucket, round, now, due, fired>>

(* I-level: TimeWheel.add / TimeWheel.remove applied to the pair <<bucket, round>>. *)
IApply(st, o) ==
    IF o.op = "add"
    THEN [b |-> [st.b EXCEPT ![o.key] = (cur + o.d) % N],
          r |-> [st.r EXCEPT ![o.key] = o.d \div N]]
    ELSE [b |-> [st.b EXCEPT ![o.key] = None], r |-> st.r]

(* P-level: what a registration / removal means. *)
PApply(dd, o) == IF o.op = "add" THEN [dd EXCEPT ![o.key] = now + o.d]
                 ELSE [dd EXCEPT ![o.key] = None]

Drained  == FoldLeft(IApply, [b |-> bucket, r |-> round], queue)
DueAfter == FoldLeft(PApply, due, queue)

(* What the implementation fires at this tick, and what the reference says is due. *)
IFires == {k \in Keys : Drained.b[k] = cur /\ Drained.r[k] = 0}
PFires == {k \in Keys : DueAfter[k] = now}

(* One iteration of TimeWheel.start: drain the pipeline in order, then handleTick. *)
Tick == /\ now < MaxTicks
        /\ LET st == Drained
               f  == IFires
           IN /\ fired' = f
              /\ bucket' = [k \in Keys |-> IF k \in f THEN None ELSE st.b[k]]
              /\ round' = [k \in Keys |-> IF st.b[k] = cur /\ st.r[k] > 0 THEN st.r[k] - 1 ELSE st.r[k]]
              /\ due' = [k \in Keys |-> IF DueAfter[k] = now THEN None ELSE DueAfter[k]]
        /\ queue' = <<>>
        /\ cur' = (cur + 1) % N
        /\ now' = now + 1
        /\ UNCHANGED nops

Next == \/ \E k \in Keys, d \in 0..MaxDelay : Add(k, d)
        \/ \E k \in Keys : Del(k)
        \/ Tick

Spec == Init /\ [][Next]_vars

-----------------------------------------------------------------------------------
(* Properties (C37). *)

(* The wheel fires exactly the keys that are due: never early, never late, never a       *)
(* removed or refreshed registration.  Evaluated in the state *before* each tick.         *)
FiresExactlyDue == IFires = PFires

(* A key is in the wheel iff the reference has a pending deadline for it: fired and       *)
(* removed keys are gone (exactly once), registered keys are not lost.                    *)
Registered == \A k \in Keys : (bucket[k] # None) <=> (due[k] # None)

(* The implementation's position encodes the deadline: remaining ticks until the key's    *)
(* bucket is reached with round 0 equals due - now.                                       *)
Remaining(k) == ((bucket[k] - cur) % N) + N * round[k]
PositionEncodesDue == \A k \in Keys : due[k] # None => /\ due[k] >= now
                                                      /\ Remaining(k) = due[k] - now

(* Action property: a pending deadline never moves except by draining an operation.       *)
DeadlineStable == [][\A k \in Keys : (due[k] # None /\ due'[k] # due[k]) =>
                        (\/ due'[k] = None /\ due[k] = now          \* fired on time
                         \/ \E i \in 1..Len(queue) : queue[i].key = k)]_vars
===================================================================================
