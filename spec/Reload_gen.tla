-------------------------------- MODULE Reload_gen --------------------------------
(* Behaviour generation for conformance replay (direction G): the actions of Reload with a  *)
(* history variable.  Every behaviour of GenLen operations is printed as one JSON line:      *)
(* per step the operation, the outcome the I-level predicts (out), whether the P-level        *)
(* permits a success here (allowed), the P-level's visible state after the step along the     *)
(* predicted outcomes (exp), the version a successful commit must activate (want), and the    *)
(* I-level's prediction of what the code will show (iact) -- exp # iact marks an I-level      *)
(* counterexample, i.e. a candidate defect to be confirmed on the real Manager.               *)
(* In Paired mode a reload (prepare+commit) counts as one operation.                          *)
EXTENDS Reload_mc, Json, SequencesExt

CONSTANTS GenLen,        \* operations per behaviour
          EmitTriples    \* TRUE: also print the reference user directory after every step
VARIABLES hist, units, start

GenInit == Init /\ hist = <<>> /\ units = 0 /\ start = pactive

NSSeq == SetToSeq(NS)
AsSeq(act) == [i \in 1..Len(NSSeq) |-> act[NSSeq[i]]]

(* compact: <<op, n, v, out, allowed, want, exp, iact, ptr, iauth>>, maps as tuples in the order of NSSeq;
   iauth = what the code-shaped directory is predicted to answer: <<namespace, user, password>> of every accepted pair *)
Entry(o) == <<o.op, o.n, o.v, OutOf(o), PAllowed(plast, o, "ok"),
              IF o.op = "commit" THEN plast[o.n] ELSE None,
              AsSeq(pactive'), AsSeq(Visible'),
              IF EmitTriples THEN SetToSeq(PTriples') ELSE <<>>,
              IF EmitTriples THEN SetToSeq({t \in {<<CAuth(c[1], c[2])', c[1], c[2]>> : c \in AuthUniverse} : t[1] # ""}) ELSE <<>> >>

GenTry(o) == /\ units < GenLen \/ (Paired /\ last.owed # "" /\ o.op = "commit")
             /\ Try(o)
             /\ hist' = Append(hist, Entry(o))
             /\ units' = units + (IF Paired /\ o.op = "commit" THEN 0 ELSE 1)
             /\ UNCHANGED start

GenNext == \/ \E n \in NS, v \in Version : GenTry(Op("prepare", n, v))
           \/ \E n \in NS : GenTry(Op("badprepare", n, None))
           \/ \E n \in NS : GenTry(Op("commit", n, None))
           \/ \E n \in NS : GenTry(Op("delete", n, None))

GenSpec == GenInit /\ [][GenNext]_<<vars, hist, units, start>>

Complete == units = GenLen /\ (Paired => last.owed = "")
Emit == Complete => PrintT(<<"CASE", ToJson([sc |-> sc, ns |-> NSSeq, init |-> AsSeq(start), steps |-> hist])>>)
===================================================================================
