\* all processes, 2 clients x 2 rounds; exploration is cut behind the recorded root-cause states (known findings); 4,314,774 distinct states (about 4 minutes with 16 otherwise idle cores; not part of the registered tiers, which use the 2x1-two-ticks and 3x1 variants)
\* (checks/C24.py generates the configurations it runs from the same templates; measured sizes in DESIGN.md 5/C24 and evidence/C24.json)
SPECIFICATION Spec
CONSTANTS
  Clients = {"c1","c2"}
  MaxCap = 2
  InitCap = 1
  Rounds = 2
  Sweeps = 1
  Ticks = 1
  SetCapTo = 2
  WithClose = TRUE
  FactoryFails = FALSE
  PutNil = FALSE
  Timeouts = FALSE
INVARIANTS TypeOK NoOverAllocation OneHolder PutNeverFails NoOtherPanic QuiescentAccounting CountersAgree SlotsConserved
CONSTRAINT NoRootCause
CHECK_DEADLOCK TRUE
