\* all processes, 2 clients x 2 rounds; exploration is cut behind the recorded root-cause states (known findings); ~4.3 million distinct states, several minutes; the registered tiers use the 2x1-two-ticks and 3x1 variants
\* (checks/C24.py generates the configurations it runs from the same templates; measured sizes are in evidence/C24.json)
SPECIFICATION Spec
CONSTANTS
  Clients = {"c1","c2"}
  MaxCap = 2
  InitCap = 1
  Rounds = 2
  Sweeps = 1
  Ticks = 1
  SetCapTo = 2
  WithClose = TRUE
  FactoryFails = FALSE
  PutNil = FALSE
  Timeouts = FALSE
INVARIANTS TypeOK NoOverAllocation OneHolder PutNeverFails NoOtherPanic QuiescentAccounting CountersAgree SlotsConserved RepairHolds
CONSTRAINT NoRootCause
CHECK_DEADLOCK TRUE
