----------------------------- MODULE SessionVars_trace -----------------------------
(* Trace validation for C20 at property level.  The trace is what really happened:             *)
(*   - the SET statements clients sent to the proxy (setnames / set),                          *)
(*   - what the fake backend saw: sessions opened (fresh), SET statements applied with their   *)
(*     parsed assignments (apply) or refused (reject), tagged queries (exec) with the settings  *)
(*     the backend session carried at that moment,                                             *)
(*   - statements that failed, with the settings the session tracks afterwards (failed).       *)
(* The specification recomputes the clients' requested settings and every backend session's    *)
(* actual settings from these raw events - nothing of the proxy's synchronisation algorithm is *)
(* assumed - and the property is the guard of every exec step (a trace that breaks it is        *)
(* rejected at that line):                                                                      *)
(*   NoLeakOnCleanConn  a statement on a backend session that never refused a SET runs with     *)
(*                      exactly its client's requested settings;                                *)
(*   (the unrestricted NoLeak is judged by the replay harness against the expectations TLC       *)
(*   generated, because on the unchanged tree it has a known counterexample).                    *)
(* Many traces are concatenated; field t is the trace id, a change of t resets the state.       *)
EXTENDS SessionVars, Json

Trace == ndJsonDeserialize("trace.ndjson")

VARIABLES l,      \* next trace line to consume
          tid     \* id of the trace being consumed

Boundary == l <= Len(Trace) /\ Trace[l].t # tid
InTrace  == l <= Len(Trace) /\ ~Boundary
IsEv(e)  == InTrace /\ Trace[l].ev = e /\ l' = l + 1

Others == <<believed, idle, held, intx, busy, nsets, nstmts, nfails>>

(* JSON objects arrive as records: turn the vars record into a function over Names.  A trace may have been *)
(* recorded with fewer names than the validating configuration knows: a name it does not mention is at its  *)
(* default; a name the configuration does not know is refused.                                             *)
VarsOf(r) == [n \in Names |-> IF n \in DOMAIN r THEN r[n] ELSE None]
SettingOf(r) == [cs |-> r.cs, vars |-> VarsOf(r.vars)]
HasExactlyNames(r) == DOMAIN r \subseteq Names

TSetNames == /\ IsEv("setnames")
             /\ LET e == Trace[l] IN
                  /\ e.c \in Clients /\ e.val \in CsVals
                  /\ tracked' = IF e.ok THEN [tracked EXCEPT ![e.c].cs = e.val] ELSE tracked
             /\ UNCHANGED <<actual, rejected, obs, Others>>

TSet == /\ IsEv("set")
        /\ LET e == Trace[l] IN
             /\ e.c \in Clients /\ e.name \in Names /\ e.val \in ValsN
             /\ tracked' = IF e.ok THEN [tracked EXCEPT ![e.c].vars[e.name] = e.val] ELSE tracked
        /\ UNCHANGED <<actual, rejected, obs, Others>>

TFresh == /\ IsEv("fresh")
          /\ LET e == Trace[l] IN
               /\ e.k \in Conns /\ e.cs \in CsVals
               /\ actual' = [actual EXCEPT ![e.k] = [cs |-> e.cs, vars |-> NoVars]]
               /\ rejected' = [rejected EXCEPT ![e.k] = FALSE]
          /\ UNCHANGED <<tracked, obs, Others>>

(* assignments are applied left to right, as MySQL does *)
RECURSIVE ApplyAssigns(_, _, _)
ApplyAssigns(v, as, i) ==
    IF i > Len(as) THEN v
    ELSE ApplyAssigns([v EXCEPT ![as[i].n] = as[i].v], as, i + 1)

TApply == /\ IsEv("apply")
          /\ LET e == Trace[l] IN
               /\ e.k \in Conns
               /\ \A i \in 1..Len(e.assigns) : e.assigns[i].n \in Names /\ e.assigns[i].v \in Vals \cup {None}
               /\ e.cs \in CsVals \cup {""}
               /\ actual' = [actual EXCEPT ![e.k] =
                                [cs |-> IF e.cs = "" THEN @.cs ELSE e.cs,
                                 vars |-> ApplyAssigns(@.vars, e.assigns, 1)]]
          /\ UNCHANGED <<tracked, rejected, obs, Others>>

TReject == /\ IsEv("reject")
           /\ Trace[l].k \in Conns
           /\ rejected' = [rejected EXCEPT ![Trace[l].k] = TRUE]
           /\ UNCHANGED <<tracked, actual, obs, Others>>

TExec == /\ IsEv("exec")
         /\ LET e == Trace[l] IN
              /\ e.c \in Clients /\ e.k \in Conns
              /\ HasExactlyNames(e.ran.vars)
              /\ SettingOf(e.ran) = actual[e.k]       \* the fake's own record agrees with the replayed SETs
              /\ (~rejected[e.k] => actual[e.k] = Effective(tracked[e.c]))     \* C20 (NoLeakOnCleanConn) as the step's guard
              /\ obs' = Ran(e.c, e.k, actual[e.k], tracked[e.c])
         /\ UNCHANGED <<tracked, actual, rejected, Others>>

(* a failed statement: the proxy may forget what SessionVariables.Reset may forget, nothing else *)
Forgettable == Resettable \cup SqlModeVars
TFailed == /\ IsEv("failed")
           /\ LET e == Trace[l]
                  t == tracked[e.c]
              IN /\ e.c \in Clients
                 /\ HasExactlyNames(e.after.vars)
                 /\ LET a == SettingOf(e.after) IN
                      /\ a.cs = t.cs
                      /\ \A n \in Names \ Forgettable : a.vars[n] = t.vars[n]
                      /\ \A n \in Forgettable : a.vars[n] \in {t.vars[n], None}
                      /\ tracked' = [tracked EXCEPT ![e.c] = a]
           /\ obs' = NoObs
           /\ UNCHANGED <<actual, rejected, Others>>

TNoop == /\ IsEv("noop")
         /\ UNCHANGED <<tracked, actual, rejected, obs, Others>>

TReset == /\ Boundary
          /\ tracked' = [c \in Clients |-> Setting0]
          /\ actual' = [k \in Conns |-> Setting0]
          /\ rejected' = [k \in Conns |-> FALSE]
          /\ obs' = NoObs
          /\ UNCHANGED Others
          /\ l' = l
          /\ tid' = Trace[l].t

TraceInit == Init /\ l = 1 /\ tid = Trace[1].t

TraceNext == \/ (TSetNames \/ TSet \/ TFresh \/ TApply \/ TReject \/ TExec \/ TFailed \/ TNoop) /\ UNCHANGED tid
             \/ TReset

TraceSpec == TraceInit /\ [][TraceNext]_<<vars, l, tid>>

TraceTypeOK == /\ tracked  \in [Clients -> [cs : CsVals, vars : [Names -> ValsN]]]
               /\ actual   \in [Conns -> [cs : CsVals, vars : [Names -> Vals \cup {None}]]]

NumResets == Cardinality({i \in 2..Len(Trace) : Trace[i].t # Trace[i-1].t})
TraceAccepted ==
    LET d == TLCGet("stats").diameter IN
    IF d - 1 = Len(Trace) + NumResets THEN TRUE
    ELSE Print(<<"TRACE-REJECTED", d, Len(Trace), NumResets>>, FALSE)
===================================================================================
