--------------------------- MODULE PlanIsolation_trace ---------------------------
(* Direction V: events recorded around real planning calls are judged by TLC.              *)
(*   ev = "load"  the namespace was (re)loaded through the real reload path; router = deep *)
(*                hash of the new router (all rules and the default rule's fields)         *)
(*   ev = "plan"  a planning call of session s with the router hash taken immediately      *)
(*                before and after the call, and the rendered plan; role "ref" = planned   *)
(*                alone right after the load (defines F), role "seq" = sequential workload *)
(*   ev = "cplan" a planning call made while 15 other sessions were planning (no hashes)   *)
(*   ev = "cend"  router hash before / after a concurrent phase                            *)
(*   ev = "sharedwrite"  a race-detector report located in proxy/router or proxy/plan      *)
(* Plan steps must satisfy the frame condition of PlanIsolation!Plan (router unchanged)    *)
(* and the plan must equal F(stmt, db, loaded router) as defined by the reference calls.   *)
(* There is no action for "sharedwrite": such a line never conforms.  After a step that    *)
(* breaks the frame condition the specification adopts the recorded router value, so one   *)
(* write is reported once and later steps are still judged.                                *)
EXTENDS PlanIsolation, Json

Trace == ndJsonDeserialize("trace.ndjson")

VARIABLES l,        \* next line
          loaded,   \* router value installed by the last load
          ftab,     \* F as defined by the reference (alone) planning calls: <<stmt, db, loaded>> -> plan
          verdict
tvars == <<vars, l, loaded, ftab, verdict>>

TraceInit == /\ router = "unloaded" /\ last = [s \in Sessions |-> None] /\ steps = 0
             /\ l = 1 /\ loaded = "unloaded" /\ ftab = <<>>
             /\ verdict = [t |-> "", ev |-> "init", ok |-> TRUE, frame |-> TRUE, fun |-> TRUE]

Line == Trace[l]
Is(e) == l <= Len(Trace) /\ Line.ev = e /\ l' = l + 1
Key(e) == <<e.stmt, e.db, loaded>>
Known(k) == k \in DOMAIN ftab

(* Manager.ReloadNamespacePrepare + Commit: PlanIsolation!Load *)
TLoad == /\ Is("load")
         /\ router' = Line.router /\ loaded' = Line.router /\ steps' = steps + 1
         /\ verdict' = [t |-> Line.t, ev |-> "load", ok |-> TRUE, frame |-> TRUE, fun |-> TRUE]
         /\ UNCHANGED <<last, ftab>>

(* a planning call with the router hash taken immediately before and after it: PlanIsolation!Plan. *)
(* role = "ref": the statement is planned alone and defines F; role = "seq": the plan must equal F *)
TPlan == /\ Is("plan")
         /\ LET frame == Line.before = router /\ Line.after = router
                fun   == IF Line.role = "ref" THEN ~Known(Key(Line)) \/ ftab[Key(Line)] = Line.plan
                                              ELSE Known(Key(Line)) /\ ftab[Key(Line)] = Line.plan
            IN /\ verdict' = [t |-> Line.t, ev |-> "plan", ok |-> frame /\ fun, frame |-> frame, fun |-> fun]
               /\ router' = Line.after                   \* = router when the call conforms (UNCHANGED router)
               /\ ftab' = IF Line.role = "ref" /\ ~Known(Key(Line)) THEN (Key(Line) :> Line.plan) @@ ftab ELSE ftab
         /\ last' = [last EXCEPT ![Line.s] = F(Line.stmt, Line.db, router)]
         /\ steps' = steps + 1
         /\ UNCHANGED loaded

(* a planning call made while the other sessions were planning *)
TCPlan == /\ Is("cplan")
          /\ LET fun == Known(Key(Line)) /\ ftab[Key(Line)] = Line.plan
             IN verdict' = [t |-> Line.t, ev |-> "cplan", ok |-> fun, frame |-> TRUE, fun |-> fun]
          /\ last' = [last EXCEPT ![Line.s] = F(Line.stmt, Line.db, router)]
          /\ steps' = steps + 1
          /\ UNCHANGED <<router, loaded, ftab>>

(* all sessions have finished a concurrent phase: the router must be what it was before the phase *)
TCEnd == /\ Is("cend")
         /\ LET frame == Line.before = router /\ Line.after = router
            IN verdict' = [t |-> Line.t, ev |-> "cend", ok |-> frame, frame |-> frame, fun |-> TRUE]
         /\ router' = Line.after
         /\ UNCHANGED <<last, steps, loaded, ftab>>

(* a race-detector report located in proxy/router or proxy/plan: the specification has no action that *)
(* writes shared routing state outside Load, so the line can never conform                             *)
TSharedWrite == /\ Is("sharedwrite")
                /\ verdict' = [t |-> Line.t, ev |-> "sharedwrite", ok |-> FALSE, frame |-> FALSE, fun |-> TRUE]
                /\ UNCHANGED <<router, last, steps, loaded, ftab>>

TraceNext == TLoad \/ TPlan \/ TCPlan \/ TCEnd \/ TSharedWrite
TraceSpec == TraceInit /\ [][TraceNext]_tvars

Emit == PrintT(<<"CASE", ToJson([l |-> l - 1, v |-> verdict])>>)
TraceAccepted ==
    LET d == TLCGet("stats").diameter IN
    IF d - 1 = Len(Trace) THEN TRUE ELSE Print(<<"TRACE-REJECTED", d, Len(Trace), 0>>, FALSE)
================================================================================
