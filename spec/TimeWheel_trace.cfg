SPECIFICATION TraceSpec
CONSTANTS
  Keys = {"k1", "k2"}
  N = 3
  MaxDelay = 1000
  MaxOps = 1000000
  MaxTicks = 1000000
INVARIANTS TypeOK Registered PositionEncodesDue
POSTCONDITION TraceAccepted
CHECK_DEADLOCK FALSE
