--------------------------- MODULE RoutingConfig_trace ---------------------------
(* C10, judging side: every line of records.ndjson is an observation of the real      *)
(* models.Namespace.Verify / router.NewRouter on one TLC-enumerated configuration     *)
(* (harness/proxy/router/routecfg_test.go).  TLC evaluates the property               *)
(*     VerifyAccepts(o) => Loads(o) /\ WellFormed(o.tables)                            *)
(* on every record (one state per record) and prints the verdict: the violated        *)
(* clauses with the features of the configuration.  Strict = TRUE turns the verdict   *)
(* into an invariant (used for the binding self-test and for replaying one record).   *)
EXTENDS RoutingConfig, TLC, Json

CONSTANT Strict
Recs == ndJsonDeserialize("records.ndjson")

VARIABLE i
Init == i \in 1..Len(Recs)
Next == UNCHANGED i
Spec == Init /\ [][Next]_i

O == Recs[i]
(* the -2^63 probe is reported separately: it is the one key whose absolute value overflows *)
MinKeyViolations(o) ==
    IF ~VerifyAccepts(o) \/ ~Loads(o) THEN {}
    ELSE IF \E k \in 1..Len(o.tables) : o.tables[k].type \in PlaceTypes
                 /\ ~(SeqToSet(o.tables[k].placed_min) \subseteq SeqToSet(o.tables[k].subtables))
         THEN {"place-outside-listed-for-key-min-int64"} ELSE {}
Bad == Violations(O) \cup MinKeyViolations(O)

RECURSIVE SeqOfSet(_)
SeqOfSet(S) == IF S = {} THEN <<>> ELSE LET x == CHOOSE y \in S : TRUE IN <<x>> \o SeqOfSet(S \ {x})

Verdict == PrintT(<<"CASE", ToJson([id |-> O.id, bad |-> SeqOfSet(Bad), features |-> SeqOfSet(Features(O.cfg)),
                                    inval |-> SeqOfSet(Features(O.cfg) \cap Invalidating),
                                    valid |-> SpecValid(O.cfg),
                                    types |-> [k \in 1..Len(O.cfg.rules) |-> O.cfg.rules[k].type]])>>)
SoundRecord == Strict => Bad = {}
===================================================================================
