-------------------------------- MODULE ConnPool_gen --------------------------------
(* Schedules for the backend-layer harness: every behaviour of ConnPool (complete runs, BFS with *)
(* the history hidden by the VIEW, or -simulate) as a sequence of <<process, label>> with the    *)
(* expected observation after each step (idle slots, inner capacity, who holds).                 *)
EXTENDS ConnPool, TLC, Json, SequencesExt

VARIABLE hist

CapNow == IF inner = "open" THEN Cap ELSE 0
GInit == CInit /\ hist = <<>>
GNext == /\ panic = <<>>
         /\ \E p \in Procs : /\ CStep(p)
                             /\ hist' = Append(hist, [p |-> p, l |-> pc[p], idle |-> idle', cap |-> CapNow',
                                                      nheld |-> Cardinality(held'), after |-> pc'[p]])
GSpec == GInit /\ [][GNext]_<<cvars, hist>>
GView == cvars

Ended == \A p \in Procs : pc[p] \in {"done", "dead"}
CEmit == (Ended \/ panic # <<>>) =>
           PrintT(<<"CASE", ToJson([kind |-> IF panic = <<>> THEN "ordinary" ELSE "candidate",
                                   clients |-> SetToSeq(Clients), cap |-> Cap, rounds |-> Rounds, sched |-> hist])>>)
===================================================================================
