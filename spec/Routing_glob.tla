----------------------------- MODULE Routing_glob -----------------------------
(* Case generation and design-level check for C04 (global tables).                           *)
(* One state = a layout and a statement form over one or two global tables of that layout.    *)
EXTENDS Routing, Json

CONSTANTS Layouts,   \* sequence of [id, ns, rs, locs, dbs]
          EmitCases

VARIABLES li, st
vars == <<li, st>>

Stmt(kind, two, qual, alias, cond) == [kind |-> kind, two |-> two, qual |-> qual, alias |-> alias, cond |-> cond]

Writes == {"insert", "insertset", "replace", "update", "delete"}
Conds == {"none", "eq", "in", "btw"}

Stmts ==
       {Stmt(k, FALSE, q, FALSE, "none") : k \in {"insert", "insertset", "replace"}, q \in BOOLEAN}
  \cup {Stmt(k, FALSE, q, a, c) : k \in {"update", "delete"}, q \in BOOLEAN, a \in BOOLEAN, c \in Conds}
  \cup {Stmt("select", two, q, a, c) : two \in BOOLEAN, q \in BOOLEAN, a \in BOOLEAN, c \in Conds}

Init == li \in DOMAIN Layouts /\ st \in Stmts
Next == UNCHANGED vars
Spec == Init /\ [][Next]_vars

Ly == Layouts[li]

(* I-level: where the planner sends the statement for copy n.  parseGlobalTableRuleSliceInfos  *)
(* numbers the copies through the rule's own slice list, NewRouter then replaces the slice    *)
(* names by the namespace's list: copy n goes to the namespace slice at the POSITION of its   *)
(* rule slice                                                                                  *)
CodeSent == [n \in 1..SumSeq(Ly.locs) |-> <<GSlicePos(Ly, n - 1), GDb(Ly, n - 1)>>]

TypeOK == li \in DOMAIN Layouts /\ st \in Stmts
CopiesExist == Copies(Ly) # {} /\ \A c \in Copies(Ly) : c[1] \in 1..Ly.ns
(* expected to FAIL for layouts with several implicit-database copies per slice or a rule     *)
(* slice list that is not a prefix of the namespace's (candidates, confirmed on real code)    *)
CodeWriteOK == WriteOK(Ly, CodeSent)

GlobRec == [kind |-> "glob", layout |-> Ly, stmt |-> st, write |-> (st.kind \in Writes),
            copies |-> Copies(Ly), dsound |-> WriteOK(Ly, CodeSent)]

Emit == EmitCases => PrintT(<<"CASE", ToJson(GlobRec)>>)
=============================================================================
