------------------------------ MODULE SessionVars_gen ------------------------------
(* Behaviour generation for conformance replay (C20): the actions of SessionVars with a       *)
(* history variable.  Every behaviour of exactly GenLen events is printed as one JSON line.   *)
(* A statement-start event carries                                                            *)
(*   want    - P-level expectation: the settings the statement must run with (the client's    *)
(*             requested settings), the oracle of property C20;                                *)
(*   model   - what the specification of the code as written predicts the backend session     *)
(*             carries (differs from want exactly where the design-level counterexamples are);*)
(*   conn, sent, tainted, after - which pooled connection (FIFO), whether a SET is written,    *)
(*             whether a SET was rejected on that backend session before, and the client's     *)
(*             tracked settings after the step (SessionVariables.Reset after a rejection).     *)
EXTENDS SessionVars, Json

CONSTANTS GenLen,       \* length of the generated behaviours
          NeedStmts     \* emit only behaviours with at least this many statement starts
VARIABLE hist

GenInit == Init /\ hist = <<>>

Log(e) == hist' = Append(hist, e)

(* number of SET statements the backend receives during the step, and which of them is refused *)
B2I(b) == IF b THEN 1 ELSE 0
NSets(name, c, k, f1) ==
    IF name # "txfirst" THEN B2I(Plan(believed[k], tracked[c], TRUE).send)
    ELSE LET p == Plan(believed[k], tracked[c], FALSE)
         IN IF p.send /\ f1 # "none" THEN 1
            ELSE LET b1 == IF p.send THEN Written(p.b, TRUE) ELSE p.b
                 IN B2I(p.send) + B2I(Plan(b1, tracked[c], TRUE).send)
RejNth(name, c, k, f1, f2) ==
    IF f1 # "none" THEN 1
    ELSE IF f2 = "none" THEN 0
    ELSE IF name = "txfirst" THEN 1 + B2I(Plan(believed[k], tracked[c], FALSE).send)
    ELSE 1

StartEv(name, c, k, f1, f2) ==
    [ev |-> name, c |-> c, fail |-> f2, txfail |-> f1, conn |-> k,
     nset |-> NSets(name, c, k, f1), rejnth |-> RejNth(name, c, k, f1, f2),
     tainted |-> rejected[k],
     outcome |-> obs'.kind,
     want |-> Effective(tracked[c]),
     model |-> IF obs'.kind = "ran" THEN obs'.ran ELSE Effective(tracked[c]),
     after |-> tracked'[c]]

GenNext ==
    /\ Len(hist) < GenLen
    /\ \/ \E c \in Clients, v \in CsVals :
             SetNamesCollate(c, v) /\ Log([ev |-> "setnames", c |-> c, val |-> v, form |-> "collate"])
       \/ \E c \in Clients, ch \in Charsets :
             SetNamesPlain(c, ch) /\ Log([ev |-> "setnames", c |-> c, val |-> ch, form |-> "plain"])
       \/ \E c \in Clients, n \in Names :
             \E v \in ValsOf(n) \cup (IF n \in UserVars THEN {} ELSE {None}) :
                SetVar(c, n, v) /\ Log([ev |-> "set", c |-> c, name |-> n, val |-> v])
       \/ \E c \in Clients, f \in Fails :
             StmtStart(c, f) /\ Log(StartEv("start", c, Head(idle), "none", f))
       \/ \E c \in Clients : StmtEnd(c) /\ Log([ev |-> "end", c |-> c])
       \/ \E c \in Clients : Begin(c) /\ Log([ev |-> "begin", c |-> c])
       \/ \E c \in Clients, f1 \in Fails, f2 \in Fails :
             TxFirst(c, f1, f2) /\ Log(StartEv("txfirst", c, Head(idle), f1, f2))
       \/ \E c \in Clients, f \in Fails :
             TxStmt(c, f) /\ Log(StartEv("txstmt", c, held[c], "none", f))
       \/ \E c \in Clients : TxStmtEnd(c) /\ Log([ev |-> "end", c |-> c])
       \/ \E c \in Clients : Commit(c) /\ Log([ev |-> "commit", c |-> c])

GenSpec == GenInit /\ [][GenNext]_<<vars, hist>>

NStarts == Cardinality({i \in 1..Len(hist) : hist[i].ev \in {"start", "txfirst", "txstmt"}})

Emit == (Len(hist) = GenLen /\ NStarts >= NeedStmts) =>
          PrintT(<<"CASE", ToJson([nconns |-> NConns, events |-> hist])>>)
===================================================================================
