-------------------------------- MODULE Relational --------------------------------
(* Single-database semantics of the SQL subset the proxy claims to support on sharded    *)
(* tables (properties C02 and C05), the placement of rows on physical tables, and the     *)
(* finite query grammar from which conformance cases are generated.                       *)
(*                                                                                        *)
(* Schema: t(id, g, v).  id is the sharding key (a non-negative integer), g is a nullable  *)
(* string column, v is a nullable value column whose type is a configuration dimension:    *)
(* numeric (DECIMAL or DOUBLE on the backend), string (VARCHAR), or BIGINT with values of   *)
(* extreme magnitude (represented by rank, like strings).                                 *)
(*                                                                                        *)
(* Every SQL value is a TLC integer:                                                       *)
(*   NULL            the reserved integer NULL (smaller than every other value, which is   *)
(*                   exactly MySQL's "NULL first in ascending order" rule),                *)
(*   numbers         fixed point, in tenths (15 = 1.5, -10 = -1, 30 = the id 3);           *)
(*                   COUNT results are in tenths too (20 = two rows),                      *)
(*   strings         the 1-based rank of the string in StrU, which lists the string        *)
(*                   universe in byte order ("collation = byte order"); the universe       *)
(*                   contains '', the literal string 'NULL', and strings with the '+'      *)
(*                   character the proxy uses as key separator.                            *)
(* Columns are typed, so a string rank is never compared with a number.                    *)
(*                                                                                        *)
(* A table is a bag of rows, represented as a sequence (duplicates allowed, no keys).      *)
(* Answer(q, rows) is what one database holding all rows returns, in the form              *)
(*   pool   the result rows before LIMIT, as a sequence (a bag: the order is irrelevant),   *)
(*   cls    per pool row its dense rank under ORDER BY (all 1 without ORDER BY),            *)
(*   win    the ranks at positions off+1 .. off+cnt of the sorted result.                   *)
(* A result R conforms (Conforms) iff Len(R) = Len(win) and for every rank c the bag of      *)
(* rows R puts at the positions of rank c is a sub-bag of the pool rows of rank c: equal as  *)
(* a bag, equal as a sequence wherever ORDER BY determines the order, and free where MySQL   *)
(* itself is free (ties, LIMIT without a total order).                                       *)
(*                                                                                        *)
(* Not modelled: joins, subqueries, HAVING, column aliases, positional ORDER BY, computed   *)
(* expressions, WHERE beyond two comparisons joined by AND / OR, unique keys, collations     *)
(* other than byte order, numbers that are not exact tenths, rules other than mod / hash /   *)
(* range.  Effect / Affected / Rejected give the meaning of UPDATE, DELETE and INSERT .. ON   *)
(* DUPLICATE KEY UPDATE for property C05.                                                     *)
EXTENDS Integers, Sequences, FiniteSets, TLC

CONSTANTS Fams,     \* query families to enumerate: subset of AllFams
          Seed,     \* 0..8999: salt for data generation and for the sampling hash
          Mod,      \* sampling: keep an index tuple iff Mix(tuple, Seed) % Mod = 0  (1 = keep all)
          Reps,     \* table contents / configurations tried per kept query
          NGen      \* number of pseudo-random table contents (besides the hand-made ones)

VARIABLES fam, a, b, c, d, e, f, rep

AllFams == {"plain", "agg", "group", "union", "update", "delete", "insdup"}

NULL == -99999

(***************************************************************************************)
(* Value universes                                                                     *)
(***************************************************************************************)
StrU == <<"", "+b", "NULL", "a", "a+", "b">>          \* byte order; value = index
NumU == <<NULL, -10, 0, 10, 15>>                       \* tenths
StrV == <<NULL, 1, 2, 3, 4, 5, 6>>                     \* NULL and the six string ranks
\* BIGINT values far apart (their pairwise differences do not fit 64 bits), by rank like the strings: the
\* specification only needs their order, never their sum (SUM is not generated on such a column)
BigU == <<"-9000000000000000000", "-7", "0", "7", "9000000000000000000">>
BigV == <<NULL, 1, 2, 3, 4, 5>>
NIds == 8                                              \* ids 0..7

Cols == <<"id", "g", "v">>
ColIdx(col) == CASE col = "id" -> 1 [] col = "g" -> 2 [] col = "v" -> 3

Range(s) == {s[i] : i \in DOMAIN s}

RECURSIVE SumSeq(_)
SumSeq(s) == IF s = <<>> THEN 0 ELSE Head(s) + SumSeq(Tail(s))
RECURSIVE SumSet(_)
SumSet(S) == IF S = {} THEN 0 ELSE LET x == CHOOSE y \in S : TRUE IN x + SumSet(S \ {x})
MaxSet(S) == CHOOSE x \in S : \A y \in S : y <= x
MinSet(S) == CHOOSE x \in S : \A y \in S : x <= y
Count(x, s) == Cardinality({i \in DOMAIN s : s[i] = x})
SameBag(s, t) == /\ Len(s) = Len(t)
                 /\ \A x \in Range(s) \cup Range(t) : Count(x, s) = Count(x, t)
SubBag(s, t) == \A x \in Range(s) : Count(x, s) <= Count(x, t)
\* keep the first occurrence of every element
Dedup(s) == LET keep == {i \in DOMAIN s : \A j \in 1..(i-1) : s[j] # s[i]}
                RECURSIVE Build(_)
                Build(i) == IF i > Len(s) THEN <<>>
                            ELSE IF i \in keep THEN <<s[i]>> \o Build(i+1) ELSE Build(i+1)
            IN Build(1)
\* Dedup on a projection: keep the first element for every distinct P(element)
DedupBy(s, P(_)) == LET keep == {i \in DOMAIN s : \A j \in 1..(i-1) : P(s[j]) # P(s[i])}
                        RECURSIVE Build(_)
                        Build(i) == IF i > Len(s) THEN <<>>
                                    ELSE IF i \in keep THEN <<s[i]>> \o Build(i+1) ELSE Build(i+1)
                    IN Build(1)
RECURSIVE Flatten(_)
Flatten(ss) == IF ss = <<>> THEN <<>> ELSE Head(ss) \o Flatten(Tail(ss))

(***************************************************************************************)
(* Configurations: rule type, tables per slice, physical type of column v              *)
(***************************************************************************************)
Layouts == << <<2>>, <<1, 1>>, <<3>>, <<2, 1>>, <<4>>, <<2, 2>>, <<1, 3>> >>
RuleTypes == <<"mod", "hash", "range">>
VTypes == <<"decimal", "double", "varchar", "bigint">>
NCfg == Len(Layouts) * Len(RuleTypes) * Len(VTypes)
NTables(lay) == SumSeq(lay)
Cfg(i) == LET k == i - 1
              lay == Layouts[(k % Len(Layouts)) + 1]
              rt == RuleTypes[((k \div Len(Layouts)) % Len(RuleTypes)) + 1]
              vt == VTypes[((k \div (Len(Layouts) * Len(RuleTypes))) % Len(VTypes)) + 1]
              nt == NTables(lay)
          IN [type |-> rt, loc |-> lay, vt |-> vt, nt |-> nt,
              \* range rule: table_row_limit, chosen so that every id of the universe is in range
              rowlimit |-> (NIds + nt - 1) \div nt]

\* placement of a key on a physical table (0-based), the rule's own placement function
Place(cfg, idTenths) == LET k == idTenths \div 10 IN
    IF cfg.type = "range" THEN k \div cfg.rowlimit ELSE k % cfg.nt

(***************************************************************************************)
(* WHERE: at most two leaves joined by AND / OR; three-valued logic                     *)
(***************************************************************************************)
Leaf(col, op, x) == [c |-> col, op |-> op, x |-> x, y |-> 0]
\* two-operand leaves: col [NOT] IN (x, y), col [NOT] BETWEEN x AND y  (operands are never NULL)
Leaf2(col, op, x, y) == [c |-> col, op |-> op, x |-> x, y |-> y]
NoLeaf == Leaf("id", "=", 0)
W0 == [j |-> "none", a |-> NoLeaf, b |-> NoLeaf]
W1(l) == [j |-> "one", a |-> l, b |-> NoLeaf]
WAnd(l, r) == [j |-> "and", a |-> l, b |-> r]
WOr(l, r) == [j |-> "or", a |-> l, b |-> r]

LeafVal(l, row) ==
    LET x == row[ColIdx(l.c)] IN
    CASE l.op = "isnull"  -> IF x = NULL THEN "T" ELSE "F"
      [] l.op = "notnull" -> IF x = NULL THEN "F" ELSE "T"
      [] l.op = "in"         -> IF x = NULL THEN "U" ELSE IF x = l.x \/ x = l.y THEN "T" ELSE "F"
      [] l.op = "notin"      -> IF x = NULL THEN "U" ELSE IF x = l.x \/ x = l.y THEN "F" ELSE "T"
      [] l.op = "between"    -> IF x = NULL THEN "U" ELSE IF l.x <= x /\ x <= l.y THEN "T" ELSE "F"
      [] l.op = "notbetween" -> IF x = NULL THEN "U" ELSE IF l.x <= x /\ x <= l.y THEN "F" ELSE "T"
      [] OTHER -> IF x = NULL \/ l.x = NULL THEN "U"
                  ELSE IF (CASE l.op = "="  -> x = l.x
                             [] l.op = "<>" -> x # l.x
                             [] l.op = "<"  -> x < l.x
                             [] l.op = "<=" -> x <= l.x
                             [] l.op = ">"  -> x > l.x
                             [] l.op = ">=" -> x >= l.x) THEN "T" ELSE "F"
And3(x, y) == IF x = "F" \/ y = "F" THEN "F" ELSE IF x = "T" /\ y = "T" THEN "T" ELSE "U"
Or3(x, y) == IF x = "T" \/ y = "T" THEN "T" ELSE IF x = "F" /\ y = "F" THEN "F" ELSE "U"
Matches(w, row) ==
    (CASE w.j = "none" -> "T"
       [] w.j = "one"  -> LeafVal(w.a, row)
       [] w.j = "and"  -> And3(LeafVal(w.a, row), LeafVal(w.b, row))
       [] w.j = "or"   -> Or3(LeafVal(w.a, row), LeafVal(w.b, row))) = "T"
Filter(w, rows) == SelectSeq(rows, LAMBDA r : Matches(w, r))

(***************************************************************************************)
(* Select items and aggregates                                                         *)
(***************************************************************************************)
Item(fn, col, dist) == [f |-> fn, c |-> col, d |-> dist]
Col(col) == Item("col", col, FALSE)
CountStar == Item("count", "*", FALSE)
IsAggItem(it) == it.f # "col"

\* value of a select / order item on a group of rows (for f = "col" the column is a grouping
\* column, hence constant on the group)
AggVal(it, grp) ==
    IF it.f = "col" THEN grp[1][ColIdx(it.c)]
    ELSE IF it.c = "*" THEN 10 * Len(grp)
    ELSE LET ci == ColIdx(it.c)
             nn == {i \in DOMAIN grp : grp[i][ci] # NULL}
             vals == {grp[i][ci] : i \in nn}
         IN CASE it.f = "count" -> 10 * (IF it.d THEN Cardinality(vals) ELSE Cardinality(nn))
              [] it.f = "sum"   -> IF nn = {} THEN NULL
                                   ELSE IF it.d THEN SumSet(vals)
                                   ELSE SumSeq([i \in 1..Len(grp) |-> IF i \in nn THEN grp[i][ci] ELSE 0])
              [] it.f = "max"   -> IF nn = {} THEN NULL ELSE MaxSet(vals)
              [] it.f = "min"   -> IF nn = {} THEN NULL ELSE MinSet(vals)

(***************************************************************************************)
(* SELECT.  q = [kind, distinct, sel, where, group, order, off, cnt] ; cnt = -1: no LIMIT *)
(* An "extended row" carries the projected row and its ORDER BY key.                      *)
(***************************************************************************************)
OrdItem(it, desc) == [e |-> it, desc |-> desc]
HasAgg(q) == (\E i \in DOMAIN q.sel : IsAggItem(q.sel[i])) \/ (\E i \in DOMAIN q.order : IsAggItem(q.order[i].e))
Grouped(q) == q.group # <<>> \/ HasAgg(q)

GroupKey(q, r) == [i \in DOMAIN q.group |-> r[ColIdx(q.group[i])]]
\* the groups of a grouped query: one sequence of rows per distinct group key; without GROUP BY the
\* single group of all rows, even when there is none
Groups(q, rows) ==
    IF q.group = <<>> THEN <<rows>>
    ELSE LET keys == Dedup([i \in DOMAIN rows |-> GroupKey(q, rows[i])])
         IN [k \in DOMAIN keys |-> SelectSeq(rows, LAMBDA r : GroupKey(q, r) = keys[k])]

ExtRows(q, rows) ==
    LET fr == Filter(q.where, rows) IN
    IF Grouped(q)
    THEN LET gs == Groups(q, fr)
         IN [k \in DOMAIN gs |-> [out |-> [i \in DOMAIN q.sel |-> AggVal(q.sel[i], gs[k])],
                                  key |-> [i \in DOMAIN q.order |-> AggVal(q.order[i].e, gs[k])]]]
    ELSE [k \in DOMAIN fr |-> [out |-> [i \in DOMAIN q.sel |-> fr[k][ColIdx(q.sel[i].c)]],
                               key |-> [i \in DOMAIN q.order |-> fr[k][ColIdx(q.order[i].e.c)]]]]

\* position of a column item in a select list (0 = absent)
SelPos(sel, it) == IF \E i \in DOMAIN sel : sel[i] = it THEN CHOOSE i \in DOMAIN sel : sel[i] = it ELSE 0

\* strict ORDER BY comparison of two keys; NULL is the smallest integer, so it sorts first in
\* ascending and last in descending order
KeyLess(ord, k1, k2) ==
    \E j \in DOMAIN ord : /\ \A i \in 1..(j-1) : k1[i] = k2[i]
                          /\ IF ord[j].desc THEN k1[j] > k2[j] ELSE k1[j] < k2[j]

Ranked(ord, ext, off, cnt) ==
    LET keys == {ext[i].key : i \in DOMAIN ext}
        rank(k) == 1 + Cardinality({k2 \in keys : KeyLess(ord, k2, k)})
        cls == [i \in DOMAIN ext |-> rank(ext[i].key)]
        sorted == SortSeq(cls, LAMBDA x, y : x < y)
        n == Len(ext)
        lo == IF off < n THEN off + 1 ELSE n + 1
        hi == IF cnt < 0 THEN n ELSE IF off + cnt < n THEN off + cnt ELSE n
    IN [pool |-> [i \in DOMAIN ext |-> ext[i].out], cls |-> cls, win |-> SubSeq(sorted, lo, hi)]

SelectExt(q, rows) == LET ext == ExtRows(q, rows) IN IF q.distinct THEN DedupBy(ext, LAMBDA x : x.out) ELSE ext

\* UNION chain: q = [kind |-> "union", br, alls, order, off, cnt]; br = the SELECT branches (two or three),
\* alls[i] = the connector in front of branch i+1 is UNION ALL (FALSE: UNION [DISTINCT]).  MySQL evaluates the
\* chain from the left: a DISTINCT union de-duplicates everything that stands to its left together with its own
\* branch; a later UNION ALL appends its rows, duplicates included.  ORDER BY names result columns of br[1].
RECURSIVE UnionOuts(_, _, _)
UnionOuts(q, rows, n) ==
    LET ext == SelectExt(q.br[n], rows)
        mine == [i \in DOMAIN ext |-> ext[i].out]
    IN IF n = 1 THEN mine
       ELSE LET sofar == UnionOuts(q, rows, n - 1) \o mine
            IN IF q.alls[n - 1] THEN sofar ELSE Dedup(sofar)
UnionExt(q, rows) ==
    LET u == UnionOuts(q, rows, Len(q.br))
    IN [k \in DOMAIN u |-> [out |-> u[k], key |-> [i \in DOMAIN q.order |-> u[k][SelPos(q.br[1].sel, q.order[i].e)]]]]

Answer(q, rows) ==
    IF q.kind = "union" THEN Ranked(q.order, UnionExt(q, rows), q.off, q.cnt)
    ELSE Ranked(q.order, SelectExt(q, rows), q.off, q.cnt)

\* Does the row sequence R conform to the answer A?
Conforms(R, A) ==
    /\ Len(R) = Len(A.win)
    /\ \A cl \in Range(A.win) :
          SubBag(SelectSeq([i \in DOMAIN R |-> <<A.win[i], R[i]>>], LAMBDA p : p[1] = cl),
                 SelectSeq([i \in DOMAIN A.pool |-> <<A.cls[i], A.pool[i]>>], LAMBDA p : p[1] = cl))

\* Property C02, for the outcome of the sharded execution of q (Rejected, or the row sequence R it returned):
\*     Rejected  \/  Conforms(R, Answer(q, AllRows))
\* Without LIMIT, Conforms is  SameBag(R, pool)  /\  "R is ordered wherever ORDER BY determines the order".
C02Holds(q, rows, rejected, R) == rejected \/ Conforms(R, Answer(q, rows))

(***************************************************************************************)
(* The decomposition the proxy relies on, as a design-level statement that TLC checks:    *)
(* a query can be answered table by table and merged.                                      *)
(*   plain queries   every table returns its first off+cnt rows under ORDER BY; the union   *)
(*                   is de-duplicated (DISTINCT), sorted and cut;                           *)
(*   grouped queries every table returns its groups with partial aggregates, for the        *)
(*                   select list AND for the ORDER BY items; partial rows of one group are  *)
(*                   combined (COUNT, SUM: add; MAX, MIN: max / min; NULL-aware), then the   *)
(*                   merged groups are sorted and cut.  Sound only without COUNT / SUM       *)
(*                   (DISTINCT) and only when the per-table results are not cut by LIMIT.    *)
(* MergePlain / MergeGrouped are the recipe; RecipeSound (below) is the theorem.             *)
(***************************************************************************************)
TopK(ord, ext, k) ==
    LET A == Ranked(ord, ext, 0, k)
        idx == SortSeq([i \in DOMAIN ext |-> i], LAMBDA x, y : A.cls[x] < A.cls[y] \/ (A.cls[x] = A.cls[y] /\ x < y))
    IN [i \in 1..Len(A.win) |-> ext[idx[i]]]

MergePlain(q, per) ==
    LET k == IF q.cnt < 0 THEN -1 ELSE q.off + q.cnt
        parts == [t \in DOMAIN per |-> TopK(q.order, SelectExt(q, per[t]), k)]
        all == Flatten(parts)
    IN Ranked(q.order, IF q.distinct THEN DedupBy(all, LAMBDA x : x.out) ELSE all, q.off, q.cnt)

Combine(it, x, y) ==
    CASE it.f = "col" -> x
      [] it.f = "count" -> x + y
      [] OTHER -> IF x = NULL THEN y ELSE IF y = NULL THEN x
                  ELSE CASE it.f = "sum" -> x + y
                         [] it.f = "max" -> IF x > y THEN x ELSE y
                         [] it.f = "min" -> IF x < y THEN x ELSE y

GroupExt(q, rows) ==
    LET gs == Groups(q, Filter(q.where, rows))
    IN [k \in DOMAIN gs |-> [gk |-> IF gs[k] = <<>> THEN <<>> ELSE GroupKey(q, gs[k][1]),
                             out |-> [i \in DOMAIN q.sel |-> AggVal(q.sel[i], gs[k])],
                             key |-> [i \in DOMAIN q.order |-> AggVal(q.order[i].e, gs[k])]]]

RECURSIVE FoldRows(_, _, _)
FoldRows(q, acc, rs) ==
    IF rs = <<>> THEN acc
    ELSE LET r == Head(rs) IN
         FoldRows(q, [gk |-> acc.gk,
                      out |-> [i \in DOMAIN q.sel |-> Combine(q.sel[i], acc.out[i], r.out[i])],
                      key |-> [i \in DOMAIN q.order |-> Combine(q.order[i].e, acc.key[i], r.key[i])]], Tail(rs))

MergeGrouped(q, per) ==
    LET all == Flatten([t \in DOMAIN per |-> GroupExt(q, per[t])])
        keys == Dedup([i \in DOMAIN all |-> all[i].gk])
        merged == [k \in DOMAIN keys |->
                      LET rs == SelectSeq(all, LAMBDA r : r.gk = keys[k]) IN FoldRows(q, Head(rs), Tail(rs))]
    IN Ranked(q.order, [k \in DOMAIN merged |-> [out |-> merged[k].out, key |-> merged[k].key]], q.off, q.cnt)

HasDistinctCountSum(q) == \/ \E i \in DOMAIN q.sel : q.sel[i].d /\ q.sel[i].f \in {"count", "sum"}
                          \/ \E i \in DOMAIN q.order : q.order[i].e.d /\ q.order[i].e.f \in {"count", "sum"}
\* two answers are the same answer: same rows with the same ranks, same window
SameAnswer(A, B) == /\ SameBag([i \in DOMAIN A.pool |-> <<A.pool[i], A.cls[i]>>], [i \in DOMAIN B.pool |-> <<B.pool[i], B.cls[i]>>])
                    /\ A.win = B.win

(***************************************************************************************)
(* UPDATE / DELETE / INSERT .. ON DUPLICATE KEY UPDATE                                  *)
(*   q = [kind, set, where, ins];  set = sequence of [c, x]; ins = rows to insert         *)
(***************************************************************************************)
Assign(col, x) == [c |-> col, x |-> x]
Apply(set, r) == [ci \in 1..3 |-> IF \E k \in DOMAIN set : ColIdx(set[k].c) = ci
                                  THEN set[CHOOSE k \in DOMAIN set : ColIdx(set[k].c) = ci /\ \A k2 \in DOMAIN set : ColIdx(set[k2].c) = ci => k2 <= k].x
                                  ELSE r[ci]]
\* an assignment to the sharding column must be rejected
Rejected(q) == q.kind \in {"update", "insdup"} /\ \E k \in DOMAIN q.set : q.set[k].c = "id"

Effect(q, rows) ==
    CASE q.kind = "delete" -> SelectSeq(rows, LAMBDA r : ~Matches(q.where, r))
      [] q.kind = "update" -> [i \in DOMAIN rows |-> IF Matches(q.where, rows[i]) THEN Apply(q.set, rows[i]) ELSE rows[i]]
      [] q.kind = "insdup" -> rows \o q.ins          \* no unique key in the schema: never a duplicate
\* MySQL reports the rows actually changed (a matched row whose new values equal the old ones is not counted)
Affected(q, rows) ==
    CASE q.kind = "delete" -> Len(Filter(q.where, rows))
      [] q.kind = "update" -> Cardinality({i \in DOMAIN rows : Matches(q.where, rows[i]) /\ Apply(q.set, rows[i]) # rows[i]})
      [] q.kind = "insdup" -> Len(q.ins)

TableRows(cfg, rows, t) == SelectSeq(rows, LAMBDA r : Place(cfg, r[1]) = t)
Sharded(cfg, rows) == [t \in 1..cfg.nt |-> TableRows(cfg, rows, t - 1)]

\* Property C05, for the outcome of the sharded execution of a DML statement q: it was refused at planning time
\* (accepted = FALSE), or the physical tables hold `tables` afterwards and `n` affected rows were reported.
\* A statement assigning the sharding column must be refused; any other must leave on every table exactly the
\* rows a single database would leave, placed by the rule (so no row has moved), and report the number changed.
C05Holds(q, cfg, rows, accepted, tables, n) ==
    IF Rejected(q) THEN ~accepted
    ELSE accepted => /\ \A t \in 1..cfg.nt : SameBag(tables[t], TableRows(cfg, Effect(q, rows), t - 1))
                     /\ n = Affected(q, rows)

(***************************************************************************************)
(* Query grammar: finite catalogues indexed by small integers                          *)
(***************************************************************************************)
\* value universe of column v by physical type
VU(vt) == CASE vt = "varchar" -> StrV [] vt = "bigint" -> BigV [] OTHER -> NumU

\* literals for column v by physical type: (numeric, string rank)
VLit(vt, k) == CASE vt = "varchar" -> <<4, 5, 2, 3, 6>>[k]
                 [] vt = "bigint" -> <<3, 4, 2, 5, 1>>[k]
                 [] OTHER -> <<0, 10, -10, 15, 5>>[k]

Wheres(vt) == <<
    W0,
    W1(Leaf("id", "=", 10)), W1(Leaf("id", "=", 40)), W1(Leaf("id", "<>", 10)), W1(Leaf("id", "<", 20)),
    W1(Leaf("id", ">=", 30)), W1(Leaf("id", "<=", 40)), W1(Leaf("id", ">", 50)),
    W1(Leaf("g", "=", 3)), W1(Leaf("g", "=", 1)), W1(Leaf("g", "<>", 5)), W1(Leaf("g", "isnull", 0)),
    W1(Leaf("g", "notnull", 0)), W1(Leaf("g", ">", 4)), W1(Leaf("g", "<=", 3)), W1(Leaf("g", "=", NULL)),
    W1(Leaf("v", "=", VLit(vt, 1))), W1(Leaf("v", ">", VLit(vt, 1))), W1(Leaf("v", "<=", VLit(vt, 3))),
    W1(Leaf("v", "<", VLit(vt, 4))), W1(Leaf("v", "isnull", 0)), W1(Leaf("v", "<>", VLit(vt, 2))),
    W1(Leaf("v", "notnull", 0)), W1(Leaf("v", ">=", VLit(vt, 5))),
    WOr(Leaf("id", "=", 10), Leaf("id", "=", 20)), WAnd(Leaf("id", "=", 10), Leaf("id", "=", 20)),
    WOr(Leaf("g", "isnull", 0), Leaf("g", "=", 3)), WAnd(Leaf("id", ">=", 20), Leaf("v", ">", VLit(vt, 1))),
    WOr(Leaf("id", "=", 0), Leaf("g", "=", 4)), WAnd(Leaf("g", "notnull", 0), Leaf("v", "isnull", 0)),
    WOr(Leaf("id", "<", 20), Leaf("id", ">", 50)), WAnd(Leaf("id", ">", 10), Leaf("id", "<=", 50)),
    WOr(Leaf("g", "<>", 5), Leaf("v", "<=", VLit(vt, 3))), WAnd(Leaf("id", "=", 30), Leaf("g", "<>", 1)),
    W1(Leaf2("id", "in", 0, 30)), W1(Leaf2("id", "notin", 10, 20)), W1(Leaf2("id", "between", 10, 50)),
    W1(Leaf2("id", "notbetween", 20, 40)), W1(Leaf2("g", "in", 3, 4)), W1(Leaf2("g", "notin", 1, 5)),
    W1(Leaf2("v", "between", VLit(vt, 3), VLit(vt, 1))), W1(Leaf2("v", "notin", VLit(vt, 1), VLit(vt, 2))),
    \* a route with a gap on one side of OR and a route inside the gap on the other, both ways round
    WOr(Leaf("id", "=", 10), Leaf2("id", "in", 0, 30)), WOr(Leaf2("id", "in", 0, 30), Leaf("id", "=", 20)),
    WOr(Leaf("id", "=", 30), Leaf2("id", "notbetween", 20, 50)), WOr(Leaf2("id", "in", 10, 60), Leaf2("id", "in", 20, 50)),
    WAnd(Leaf2("id", "between", 10, 60), Leaf("g", "notnull", 0)), WAnd(Leaf2("id", "in", 20, 50), Leaf2("id", "notin", 20, 30)),
    WOr(Leaf2("g", "in", 3, 4), Leaf("v", "isnull", 0)), WAnd(Leaf2("id", "notbetween", 30, 40), Leaf("v", "notnull", 0)) >>
NWhere == 50

SelPlain == << <<Col("id"), Col("g"), Col("v")>>, <<Col("g")>>, <<Col("v")>>, <<Col("g"), Col("v")>>,
               <<Col("id")>>, <<Col("v"), Col("g")>>, <<Col("id"), Col("g")>>, <<Col("v"), Col("id")>> >>

\* aggregate lists (used alone, and after the grouping columns of a GROUP BY query)
SelAgg == << <<CountStar>>, <<Item("count", "g", FALSE)>>, <<Item("count", "g", TRUE)>>,
             <<Item("sum", "v", FALSE)>>, <<Item("sum", "v", TRUE)>>, <<Item("max", "v", FALSE)>>,
             <<Item("min", "v", FALSE)>>, <<Item("max", "g", FALSE)>>, <<Item("min", "g", FALSE)>>,
             <<CountStar, Item("sum", "v", FALSE), Item("max", "v", FALSE), Item("min", "v", FALSE)>>,
             <<Item("count", "v", FALSE), Item("count", "v", TRUE)>>, <<Item("sum", "id", FALSE)>>,
             <<Item("max", "v", TRUE), Item("min", "g", TRUE)>>, <<Item("count", "id", TRUE), Item("sum", "id", TRUE)>>,
             <<Item("min", "id", FALSE), Item("max", "id", FALSE), Item("count", "v", FALSE)>>,
             <<>> >>      \* the last one (no aggregate) is only meaningful with GROUP BY
NSelAgg == 16

GroupBys == << <<"g">>, <<"v">>, <<"g", "v">>, <<"v", "g">>, <<"id">> >>
\* which grouping columns are projected, in front of the aggregates: all / none / the first / the last
GroupPrefix(gb, k) == CASE k = 1 -> [i \in DOMAIN gb |-> Col(gb[i])]
                        [] k = 2 -> <<>>
                        [] k = 3 -> <<Col(gb[1])>>
                        [] k = 4 -> <<Col(gb[Len(gb)])>>

\* ORDER BY catalogue, resolved against the select list (0 = no ORDER BY)
Orders(sel) == <<
    <<>>,
    IF sel # <<>> THEN <<OrdItem(sel[1], FALSE)>> ELSE <<>>,
    IF sel # <<>> THEN <<OrdItem(sel[1], TRUE)>> ELSE <<>>,
    IF sel # <<>> THEN <<OrdItem(sel[Len(sel)], TRUE)>> ELSE <<>>,
    <<OrdItem(Col("g"), FALSE)>>, <<OrdItem(Col("g"), TRUE)>>, <<OrdItem(Col("v"), TRUE)>>, <<OrdItem(Col("v"), FALSE)>>,
    <<OrdItem(Col("v"), FALSE), OrdItem(Col("g"), TRUE)>>, <<OrdItem(Col("id"), FALSE)>>,
    <<OrdItem(Col("g"), FALSE), OrdItem(Col("v"), FALSE), OrdItem(Col("id"), FALSE)>>,
    <<OrdItem(Col("id"), TRUE), OrdItem(Col("g"), FALSE)>>,
    <<OrdItem(CountStar, TRUE)>>, <<OrdItem(Item("sum", "v", FALSE), FALSE)>>,
    <<OrdItem(CountStar, TRUE), OrdItem(Col("g"), FALSE)>>, <<OrdItem(Item("max", "v", FALSE), TRUE)>>,
    <<OrdItem(Item("min", "g", FALSE), FALSE), OrdItem(CountStar, FALSE)>> >>
NOrder == 17

Limits == << <<0, -1>>, <<0, 1>>, <<0, 2>>, <<1, 1>>, <<1, 2>>, <<2, 3>>, <<0, 0>>, <<3, 1>>, <<0, 4>> >>
NLimit == 9

Sets(vt) == << <<Assign("v", VLit(vt, 1))>>, <<Assign("v", NULL)>>, <<Assign("g", 3)>>, <<Assign("g", NULL)>>,
               <<Assign("g", 5), Assign("v", VLit(vt, 4))>>, <<Assign("v", VLit(vt, 2)), Assign("g", 1)>>,
               <<Assign("id", 10)>>, <<Assign("g", 4), Assign("id", 50)>>, <<Assign("id", 20), Assign("v", VLit(vt, 1))>> >>
NSet == 9
NSpell == 4      \* renderer spellings: plain / table alias / schema-qualified / star + order by on DML

InsRow(vt, k) == <<10 * (k % NIds), StrV[(k % 7) + 1], VU(vt)[(k % Len(VU(vt))) + 1]>>

Select(dist, sel, wh, gb, ord, lim) ==
    [kind |-> "select", distinct |-> dist, sel |-> sel, where |-> wh, group |-> gb, order |-> ord,
     off |-> lim[1], cnt |-> lim[2]]

\* connectors of a union chain: every DISTINCT / ALL combination of two- and three-branch chains
UnionAlls == << <<FALSE>>, <<TRUE>>, <<FALSE, FALSE>>, <<FALSE, TRUE>>, <<TRUE, FALSE>>, <<TRUE, TRUE>> >>

MkQuery(fm, vt, i1, i2, i3, i4, i5, i6, i7) ==
    CASE fm = "plain" -> Select(i2 = 2, SelPlain[i1], Wheres(vt)[i3], <<>>, Orders(SelPlain[i1])[i4], Limits[i5])
      [] fm = "agg"   -> Select(FALSE, SelAgg[i1], Wheres(vt)[i3], <<>>, <<>>, Limits[i5])
      [] fm = "group" -> LET sel == GroupPrefix(GroupBys[i1], i2) \o SelAgg[i6]
                         IN Select(FALSE, sel, Wheres(vt)[i3], GroupBys[i1], Orders(sel)[i4], Limits[i5])
      [] fm = "union" -> [kind |-> "union", alls |-> UnionAlls[i2],
                          br |-> LET ws == <<i3, i6, i7>>
                                 IN [n \in 1..(Len(UnionAlls[i2]) + 1) |->
                                        Select(FALSE, SelPlain[i1], Wheres(vt)[ws[n]], <<>>, <<>>, <<0, -1>>)],
                          order |-> Orders(SelPlain[i1])[i4], off |-> Limits[i5][1], cnt |-> Limits[i5][2]]
      [] fm = "update" -> [kind |-> "update", set |-> Sets(vt)[i1], where |-> Wheres(vt)[i3], ins |-> <<>>]
      [] fm = "delete" -> [kind |-> "delete", set |-> <<>>, where |-> Wheres(vt)[i3], ins |-> <<>>]
      [] fm = "insdup" -> [kind |-> "insdup", set |-> Sets(vt)[i1], where |-> W0,
                           \* one row, or (i3 > 6) two rows that may fall on two tables of one slice
                           ins |-> IF i3 <= 6 THEN <<InsRow(vt, i3)>> ELSE <<InsRow(vt, i3), InsRow(vt, i3 + 3)>>]

\* Enumerated index ranges.  For the SELECT families the WHERE clause (index 3, and index 6 of a union) is not
\* enumerated but drawn per repetition by the sampling hash, like the table content and the configuration.
Dim(fm) ==
    CASE fm = "plain" -> <<Len(SelPlain), 2, 1, 12, NLimit, 1>>
      [] fm = "agg"   -> <<NSelAgg - 1, 1, 1, 1, 4, 1>>
      [] fm = "group" -> <<Len(GroupBys), 4, 1, NOrder, NLimit, NSelAgg>>
      [] fm = "union" -> <<Len(SelPlain), Len(UnionAlls), 1, 4, 5, 1>>
      [] fm = "update" -> <<NSet, 1, NWhere, 1, 1, 1>>
      [] fm = "delete" -> <<1, 1, NWhere, 1, 1, 1>>
      [] fm = "insdup" -> <<NSet, 1, 12, 1, 1, 1>>

\* Which generated queries are legal SQL with a determined meaning on the modelled schema
ItemOK(vt, it) == ~(it.f = "sum" /\ it.c = "v" /\ vt \in {"varchar", "bigint"}) /\ ~(it.f = "sum" /\ it.c = "g")
SelectOK(vt, q) ==
    /\ q.sel # <<>>
    /\ \A i \in DOMAIN q.sel : ItemOK(vt, q.sel[i])
    /\ \A i \in DOMAIN q.order : ItemOK(vt, q.order[i].e)
    /\ \A i, j \in DOMAIN q.order : i # j => q.order[i].e # q.order[j].e
    \* grouped: plain columns (projected or ordered by) must be grouping columns
    /\ Grouped(q) => /\ \A i \in DOMAIN q.sel : q.sel[i].f = "col" => q.sel[i].c \in Range(q.group)
                     /\ \A i \in DOMAIN q.order : q.order[i].e.f = "col" => q.order[i].e.c \in Range(q.group)
    \* not grouped: no aggregate anywhere (implied by Grouped), ORDER BY plain columns
    /\ q.distinct => \A i \in DOMAIN q.order : SelPos(q.sel, q.order[i].e) # 0
WellFormed(vt, q) ==
    CASE q.kind = "select" -> SelectOK(vt, q)
      [] q.kind = "union" -> /\ \A n \in DOMAIN q.br : SelectOK(vt, q.br[n])
                             /\ \A i \in DOMAIN q.order : SelPos(q.br[1].sel, q.order[i].e) # 0
                             /\ \A i, j \in DOMAIN q.order : i # j => q.order[i].e # q.order[j].e
      [] OTHER -> TRUE

(***************************************************************************************)
(* Table contents: hand-made ones aimed at merge errors, plus pseudo-random ones         *)
(***************************************************************************************)
H(i, j, k) == ((((i * 7919) + (j * 1543) + (k * 389) + (Seed * 17)) % 10007) * 31) % 10007

GenRows(vt, i) ==
    LET n == <<0, 1, 2, 3, 3, 4, 4, 5, 5, 6, 6, 7, 8>>[(H(i, 0, 0) % 13) + 1]
        gN == 2 + (H(i, 0, 2) % 3)
        vN == 2 + (H(i, 0, 4) % 3)
        base(j) == << 10 * (H(i, j, 3) % NIds),
                      StrV[((H(i, 0, 1) + (H(i, j, 1) % gN)) % 7) + 1],
                      VU(vt)[((H(i, 0, 3) + (H(i, j, 2) % vN)) % Len(VU(vt))) + 1] >>
        row(j) == LET m == H(i, j, 5) % 5 IN
                  IF j > 1 /\ m = 0 THEN base(j - 1)                                   \* exact duplicate
                  ELSE IF j > 1 /\ m = 1 THEN <<base(j)[1], base(j-1)[2], base(j-1)[3]>> \* same g, v on another id
                  ELSE base(j)
    IN [j \in 1..n |-> row(j)]

\* hand-made contents <<id, index into StrV, index into VU(vt)>> (index 1 = NULL), so that they exist
\* for numeric and for string value columns
HandSpec == <<
    <<>>,
    << <<0, 1, 2>> >>,
    \* NULL group next to the 'NULL' string group, on the same and on different tables
    << <<0, 1, 3>>, <<10, 4, 3>>, <<20, 1, 4>>, <<30, 4, 2>>, <<10, 1, 1>> >>,
    \* separator strings: (a+ , b) against (a , +b) when v is a string column
    << <<0, 6, 7>>, <<10, 5, 3>>, <<20, 6, 3>>, <<30, 5, 7>>, <<0, 5, 3>> >>,
    \* the same value on several tables (COUNT/SUM DISTINCT), negative values only (MAX), duplicates
    << <<0, 5, 2>>, <<10, 5, 2>>, <<20, 5, 2>>, <<30, 2, 2>>, <<10, 5, 2>>, <<50, 2, 5>> >>,
    << <<0, 1, 2>>, <<10, 3, 2>>, <<20, 2, 1>>, <<70, 7, 2>>, <<60, 2, 4>>, <<50, 3, 1>> >>,
    \* one group ranked first on one table but not globally
    << <<0, 5, 4>>, <<0, 5, 4>>, <<0, 5, 4>>, <<20, 7, 4>>, <<10, 7, 5>>, <<10, 7, 5>>, <<30, 7, 3>>, <<10, 3, 3>> >>,
    << <<10, 2, 5>>, <<20, 3, 4>>, <<30, 4, 3>>, <<40, 5, 2>>, <<50, 6, 1>>, <<60, 7, 5>>, <<70, 1, 4>>, <<0, 1, 1>> >>,
    \* two groups, each the first group of one table and the second of the other (per-table LIMIT cuts a different one)
    << <<0, 5, 3>>, <<20, 7, 3>>, <<10, 7, 3>>, <<30, 5, 3>> >>,
    << <<0, 5, 3>>, <<20, 7, 4>>, <<10, 7, 3>>, <<30, 5, 4>>, <<40, 2, 3>>, <<50, 2, 4>> >> >>
NHand == 10
HandRows(vt, i) == [j \in DOMAIN HandSpec[i] |->
                      <<HandSpec[i][j][1], StrV[((HandSpec[i][j][2] - 1) % 7) + 1],
                        VU(vt)[((HandSpec[i][j][3] - 1) % Len(VU(vt))) + 1]>>]
NData == NHand + NGen
Data(vt, i) == IF i <= NHand THEN HandRows(vt, i) ELSE GenRows(vt, i - NHand)

(***************************************************************************************)
(* Case enumeration.  A case is (family, six grammar indexes, repetition); configuration,   *)
(* table content and spelling are derived from it by a hash, so that TLC enumerates the     *)
(* grammar and every kept query meets Reps different (configuration, content) pairs.        *)
(* Two steps (family and the first two indexes, then the rest) so that TLC's workers share   *)
(* the enumeration.                                                                          *)
(***************************************************************************************)
FamNo(fm) == CASE fm = "plain" -> 1 [] fm = "agg" -> 2 [] fm = "group" -> 3 [] fm = "union" -> 4
               [] fm = "update" -> 5 [] fm = "delete" -> 6 [] fm = "insdup" -> 7
P == 46337
Mix(fm, i1, i2, i3, i4, i5, i6, salt) ==
    LET h1 == ((FamNo(fm) * 7) + (i1 * 131) + (i2 * 1031) + (i3 * 8209) + (i4 * 32771) + (i5 * 104729) + (i6 * 1299709) + salt) % P
        h2 == ((h1 * h1) + salt) % P
        h3 == ((h2 * h2) + h1) % P
    IN ((h3 * h3) + h2) % P

Keep(fm, i1, i2, i3, i4, i5, i6) == (Mix(fm, i1, i2, i3, i4, i5, i6, Seed) % Mod) = 0

IsSelectFam(fm) == fm \in {"plain", "agg", "group", "union"}

CaseOf(fm, i1, i2, i3, i4, i5, i6, r) ==
    LET ci == (Mix(fm, i1, i2, i3, i4, i5, i6, Seed + (101 * r) + 7) % NCfg) + 1
        cfg == Cfg(ci)
        di == (Mix(fm, i1, i2, i3, i4, i5, i6, Seed + (13 * r) + 1) % NData) + 1
        w1 == IF IsSelectFam(fm) THEN (Mix(fm, i1, i2, i3, i4, i5, i6, Seed + (31 * r) + 11) % NWhere) + 1 ELSE i3
        w2 == IF fm = "union" THEN (Mix(fm, i1, i2, i3, i4, i5, i6, Seed + (37 * r) + 5) % NWhere) + 1 ELSE i6
        \* third branch of a union chain: every other repetition repeats the first branch's condition, so that the
        \* last branch contributes rows the chain already has
        w3 == IF r % 2 = 0 THEN w1 ELSE (Mix(fm, i1, i2, i3, i4, i5, i6, Seed + (41 * r) + 17) % NWhere) + 1
    IN [fam |-> fm, ix |-> <<i1, i2, w1, i4, i5, w2, r, di, ci, w3>>, cfg |-> cfg, rows |-> Data(cfg.vt, di),
        sp |-> Mix(fm, i1, i2, i3, i4, i5, i6, Seed + (977 * r) + 3) % NSpell,
        q |-> MkQuery(fm, cfg.vt, i1, i2, w1, i4, i5, w2, w3)]

VARIABLES ph
allvars == <<fam, a, b, c, d, e, f, rep, ph>>

Init == /\ ph = 0
        /\ fam \in Fams
        /\ a \in 1..Dim(fam)[1] /\ b \in 1..Dim(fam)[2]
        /\ c = 0 /\ d = 0 /\ e = 0 /\ f = 0 /\ rep = 0
Next == /\ ph = 0 /\ ph' = 1
        /\ UNCHANGED <<fam, a, b>>
        /\ c' \in 1..Dim(fam)[3] /\ d' \in 1..Dim(fam)[4] /\ e' \in 1..Dim(fam)[5] /\ f' \in 1..Dim(fam)[6]
        /\ Keep(fam, a, b, c', d', e', f')
        /\ rep' \in 1..Reps
        /\ LET cs == CaseOf(fam, a, b, c', d', e', f', rep') IN WellFormed(cs.cfg.vt, cs.q)
Spec == Init /\ [][Next]_allvars

TheCase == CaseOf(fam, a, b, c, d, e, f, rep)

(***************************************************************************************)
(* Properties of the specification itself, checked by TLC on every enumerated case        *)
(***************************************************************************************)
\* a canonical result (pool sorted by rank, cut by LIMIT) conforms to the answer
CanonicalResult(q, A) ==
    LET idx == SortSeq([i \in DOMAIN A.pool |-> i], LAMBDA x, y : A.cls[x] < A.cls[y] \/ (A.cls[x] = A.cls[y] /\ x < y))
        sorted == [i \in DOMAIN idx |-> A.pool[idx[i]]]
        n == Len(sorted)
        lo == IF q.off < n THEN q.off + 1 ELSE n + 1
    IN SubSeq(sorted, lo, lo + Len(A.win) - 1)

SelectProps(cs, A) ==
    LET q == cs.q
        rows == cs.rows
        per == Sharded(cs.cfg, rows)
    IN /\ SameBag(Flatten(per), rows)                                  \* PlacementPartitions
       /\ Conforms(CanonicalResult(q, A), A)                           \* AnswerSelfConforms (C02Holds of the canonical result)
       /\ (q.cnt >= 0 => Len(A.win) <= q.cnt)                          \* LimitBound
       /\ Len(A.win) <= Len(A.pool)
       /\ (q.cnt < 0 /\ q.off = 0 => Len(A.win) = Len(A.pool))
       /\ ((cs.fam = "plain" /\ q.distinct) \/ (cs.fam = "union" /\ ~q.alls[Len(q.alls)])
              => \A x \in Range(A.pool) : Count(x, A.pool) = 1)          \* DistinctNoDup
       /\ (cs.fam = "agg" => Len(A.pool) = 1)                          \* AggregateOneRow
       \* FilterDecomposes: a pure filter query is answered table by table
       /\ (cs.fam = "plain" /\ ~q.distinct =>
              SameBag(Flatten([t \in DOMAIN per |-> Answer([q EXCEPT !.off = 0, !.cnt = -1], per[t]).pool]), A.pool))
       \* RecipeSound: the table-by-table decomposition (MergePlain / MergeGrouped) gives the answer
       /\ (cs.fam = "plain" => Conforms(CanonicalResult(q, MergePlain(q, per)), A))
       /\ (cs.fam \in {"agg", "group"} /\ ~HasDistinctCountSum(q) => SameAnswer(MergeGrouped(q, per), A))
       \* GroupRowsUnique: one row per group key
       /\ (cs.fam = "group" =>
              Len(A.pool) = Cardinality({GroupKey(q, r) : r \in Range(Filter(q.where, rows))}))

DmlProps(cs) ==
    LET q == cs.q
        rows == cs.rows
        cfg == cs.cfg
        per == Sharded(cfg, rows)
        after == Effect(q, rows)
    IN /\ SameBag(Flatten(per), rows)
       \* the single-database outcome, placed by the rule, satisfies C05 (and a refusal satisfies it when required)
       /\ C05Holds(q, cfg, rows, ~Rejected(q), Sharded(cfg, after), Affected(q, rows))
       /\ (~Rejected(q) /\ cs.fam # "insdup" =>
             \* DmlDecomposes: the statement applied table by table gives the placement of the global effect
             /\ \A t \in DOMAIN per : SameBag(Effect(q, per[t]), TableRows(cfg, after, t - 1))
             /\ SumSeq([t \in DOMAIN per |-> Affected(q, per[t])]) = Affected(q, rows)
             /\ Affected(q, rows) <= Len(Filter(q.where, rows)))
       \* NeverMoves: an accepted UPDATE leaves every row on its table
       /\ (cs.fam = "update" /\ ~Rejected(q) => \A i \in DOMAIN rows : Place(cfg, after[i][1]) = Place(cfg, rows[i][1]))

SpecProps == ph = 1 => LET cs == TheCase IN
                          IF IsSelectFam(cs.fam) THEN SelectProps(cs, Answer(cs.q, cs.rows)) ELSE DmlProps(cs)
===================================================================================
