SPECIFICATION Spec
CONSTANTS
  Words <- McWords
  Prefix <- McPrefix
  MaxLen = 3
  MaxWords = 3
  NoBackslash = FALSE
INVARIANTS TypeOK Incremental MarkersAreQuestionMarks EveryQuestionMarkClassified PiecesPartition
CHECK_DEADLOCK FALSE
