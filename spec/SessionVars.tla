-------------------------------- MODULE SessionVars --------------------------------
(* Session settings of XiaoMi/Gaea clients on shared pooled backend connections (C20).     *)
(*                                                                                        *)
(* Code modelled (re-derived from the sources, one operator per function):                 *)
(*   proxy/server/executor_handle.go  handleSetVariable  -> SetNames / SetVar (lazy: only   *)
(*                                    the session's requested settings change)             *)
(*   proxy/server/executor.go         InitializeSessionVariables -> Sync                    *)
(*                                    (SetCharset, SetSessionVariables, WriteSetStatement,  *)
(*                                    SessionVariables.Reset after a rejected SET)          *)
(*                                    getTransactionConn -> TxSync (SyncSessionVariables,   *)
(*                                    connection closed when the SET is rejected)           *)
(*   mysql/variables.go               SetEqualsWith (three cases), Reset                    *)
(*   backend/direct_connection.go     SetCharset, WriteSetStatement (SET NAMES + every      *)
(*                                    believed variable + every "unused" variable = DEFAULT,*)
(*                                    the unused list is cleared before the SET is sent)    *)
(*   util.ResourcePool                idle connections form a FIFO queue                    *)
(*                                                                                        *)
(* Three views per name (character set/collation pair "cs", session variables, user        *)
(* variables): what the client requested (tracked by its SessionExecutor), what the proxy  *)
(* believes the pooled connection carries (DirectConnection.charset/collation/             *)
(* sessionVariables), and what the backend session really carries (actual).                *)
(*                                                                                        *)
(* P-level property (C20): whenever a statement of client c is executed on connection k,   *)
(* actual[k] equals the effective requested settings of c on every name, defaults          *)
(* elsewhere - also after the backend rejected a SET.                                      *)
EXTENDS Integers, Sequences, FiniteSets, TLC

CONSTANTS Clients,      \* client sessions
          NConns,       \* pool capacity (1..4); connections are "k1", "k2", ... in initial FIFO order
          SysVars,      \* session variables the proxy knows (mysql.variableVerifyFuncMap)
          ExtVars,      \* session variables allowed by handleSetVariable/namespace but unknown to Reset
          UserVars,     \* user variables (@x)
          SqlModeVars,  \* subset of SysVars dropped by Reset after an sql_mode error ({} or {"sql_mode"})
          CsVals,       \* (charset, collation) pairs, opaque; DefCs is the namespace/pool default
          DefCs,
          Vals,         \* concrete values
          UserNull,     \* TRUE: clients may also issue SET @x = NULL (stored by the proxy as a value)
          FailKinds,    \* subset of {"reject", "sqlmode"}: how the backend may refuse a SET
          TxOn,         \* TRUE: clients may also run statements inside BEGIN ... COMMIT
          Repaired,     \* FALSE: the code as written.  TRUE: the proposed repair (out/proposed_fixes/C20-1.diff):
                        \* a refused SET marks the bookkeeping "unsynced" and keeps the unused list, the next
                        \* synchronisation writes the SET again
          MaxSets, MaxStmts, MaxFails   \* bounds (model checking only)

None   == "d"       \* not set / server default
Null   == "null"    \* SET @x = NULL: a stored value whose effect is the default
NoConn == "-"
Names  == SysVars \cup ExtVars \cup UserVars
ConnSeq == SubSeq(<<"k1", "k2", "k3", "k4">>, 1, NConns)
Conns  == {ConnSeq[i] : i \in 1..NConns}
(* names SessionVariables.Reset deletes after any rejected SET: everything without a verify function *)
Resettable == ExtVars \cup UserVars

ValsOf(n) == IF n \in UserVars /\ UserNull THEN Vals \cup {Null} ELSE Vals
Norm(v)   == IF v = Null THEN None ELSE v

VARIABLES tracked,    \* client -> [cs, vars]: SessionExecutor.charset/collation + sessionVariables ("requested")
          believed,   \* conn -> [cs, vars, unused]: DirectConnection bookkeeping
          actual,     \* conn -> [cs, vars]: the backend session
          idle,       \* FIFO queue of idle connections (util.ResourcePool channel)
          held,       \* client -> connection its running statement / open transaction uses, or NoConn
          intx,       \* client -> "no" | "begun" (BEGIN seen, no backend connection yet) | "open"
          busy,       \* client -> TRUE while a statement is being executed by the backend
          rejected,   \* ghost: conn -> a SET was rejected on this backend session since it was opened
          obs,        \* last statement start: what ran where (observation the property talks about)
          nsets, nstmts, nfails

vars == <<tracked, believed, actual, idle, held, intx, busy, rejected, obs, nsets, nstmts, nfails>>

NoVars    == [n \in Names |-> None]
Setting0  == [cs |-> DefCs, vars |-> NoVars]
Believed0 == [cs |-> DefCs, vars |-> NoVars, unused |-> {}, unsynced |-> FALSE]
NoObs     == [kind |-> "none"]

ValsN == Vals \cup {None, Null}
TypeOK == /\ tracked  \in [Clients -> [cs : CsVals, vars : [Names -> ValsN]]]
          /\ believed \in [Conns -> [cs : CsVals, vars : [Names -> ValsN], unused : SUBSET Names, unsynced : BOOLEAN]]
          /\ actual   \in [Conns -> [cs : CsVals, vars : [Names -> Vals \cup {None}]]]
          /\ held \in [Clients -> Conns \cup {NoConn}]
          /\ intx \in [Clients -> {"no", "begun", "open"}]
          /\ busy \in [Clients -> BOOLEAN]
          /\ rejected \in [Conns -> BOOLEAN]

Init == /\ tracked  = [c \in Clients |-> Setting0]
        /\ believed = [k \in Conns |-> Believed0]
        /\ actual   = [k \in Conns |-> Setting0]
        /\ idle = ConnSeq
        /\ held = [c \in Clients |-> NoConn]
        /\ intx = [c \in Clients |-> "no"]
        /\ busy = [c \in Clients |-> FALSE]
        /\ rejected = [k \in Conns |-> FALSE]
        /\ obs = NoObs
        /\ nsets = 0 /\ nstmts = 0 /\ nfails = 0

-----------------------------------------------------------------------------------
(* What the client asked for, as the backend would show it. *)
Effective(t) == [cs |-> t.cs, vars |-> [n \in Names |-> Norm(t.vars[n])]]

(* ---- mysql/variables.go: SetEqualsWith(s = believed variables, dst = requested) ---- *)
Empty(vs) == \A n \in Names : vs[n] = None
SetEqualsWith(bv, bu, tv) ==
    IF Empty(bv) /\ ~Empty(tv)
    THEN (* case 1: copy everything *)
         [vars |-> tv, unused |-> bu, changed |-> TRUE]
    ELSE IF ~Empty(bv) /\ Empty(tv)
    THEN (* case 2: everything becomes unused *)
         [vars |-> NoVars, unused |-> bu \cup {n \in Names : bv[n] # None}, changed |-> TRUE]
    ELSE (* case 3: update / add what dst has, move what dst lacks to unused *)
         LET upd  == {n \in Names : tv[n] # None /\ bv[n] # tv[n]}
             gone == {n \in Names : bv[n] # None /\ tv[n] = None}
         IN [vars |-> [n \in Names |-> tv[n]], unused |-> bu \cup gone,
             changed |-> (upd # {} \/ gone # {})]

(* ---- backend/direct_connection.go: WriteSetStatement: the text, as its effect on a backend   *)
(* session when accepted: SET NAMES cs, every believed variable, then every unused = DEFAULT.   *)
(* (the repair leaves out "n = DEFAULT" for an unused name that has been set again meanwhile)     *)
ApplySet(a, b) ==
    [cs |-> b.cs,
     vars |-> [n \in Names |-> IF n \in b.unused /\ (~Repaired \/ b.vars[n] = None) THEN None
                               ELSE IF b.vars[n] # None THEN Norm(b.vars[n])
                               ELSE a.vars[n]]]

(* bookkeeping after WriteSetStatement: the unused list is taken before the SET is sent; as written it is  *)
(* gone whatever the backend answers; repaired, a refusal puts it back and marks the state unsynced        *)
Written(b, accepted) ==
    IF accepted THEN [b EXCEPT !.unused = {}, !.unsynced = FALSE]
    ELSE IF Repaired THEN [b EXCEPT !.unsynced = TRUE]
    ELSE [b EXCEPT !.unused = {}]

(* ---- mysql/variables.go: Reset(err) applied to the *session's* variables after a rejected SET *)
ResetAfter(t, kind) ==
    [t EXCEPT !.vars = [n \in Names |->
        IF n \in Resettable THEN None
        ELSE IF kind = "sqlmode" /\ n \in SqlModeVars THEN None
        ELSE t.vars[n]]]

(* believed state after SetCharset + SetSessionVariables, and whether a SET must be written *)
Plan(b, t, withCharset) ==
    LET sew == SetEqualsWith(b.vars, b.unused, t.vars)
        csChanged == withCharset /\ b.cs # t.cs
    IN [b |-> [cs |-> IF withCharset THEN t.cs ELSE b.cs, vars |-> sew.vars, unused |-> sew.unused, unsynced |-> b.unsynced],
        send |-> (csChanged \/ sew.changed \/ (Repaired /\ b.unsynced))]

KindOK(kind, b) == /\ kind \in FailKinds
                   /\ kind = "sqlmode" => \E n \in SqlModeVars : b.vars[n] # None

-----------------------------------------------------------------------------------
(* Client SET statements: handled inside the proxy, nothing is sent to a backend. *)
CanSet(c) == ~busy[c] /\ nsets < MaxSets

(* A cs value is a (charset, collation) pair.  "d" and "b" are two charsets with their default collation, *)
(* "a" is charset d with a non-default collation, "c" is charset b with a non-default collation.           *)
(* The collation is a requested setting of its own: SET NAMES x COLLATE y requests exactly (x, y);          *)
(* SET NAMES x without COLLATE requests x with x's DEFAULT collation - also when the session currently      *)
(* uses x with another collation.                                                                           *)
CharsetOf(v) == IF v \in {"d", "a"} THEN "d" ELSE "b"     \* a charset is named by its default pair
Charsets == {CharsetOf(v) : v \in CsVals}

SetNames(c, v) == /\ CanSet(c)
                  /\ tracked' = [tracked EXCEPT ![c].cs = v]
                  /\ nsets' = nsets + 1
                  /\ UNCHANGED <<believed, actual, idle, held, intx, busy, rejected, obs, nstmts, nfails>>
SetNamesCollate(c, v) == SetNames(c, v)                  \* SET NAMES charset COLLATE collation
SetNamesPlain(c, ch)  == ch \in CsVals /\ SetNames(c, ch) \* SET NAMES charset: the charset's default collation

(* v = None is SET n = DEFAULT for session variables (Delete); user variables keep Null as a value *)
SetVar(c, n, v) == /\ CanSet(c)
                   /\ tracked' = [tracked EXCEPT ![c].vars[n] = v]
                   /\ nsets' = nsets + 1
                   /\ UNCHANGED <<believed, actual, idle, held, intx, busy, rejected, obs, nstmts, nfails>>

(* One ordinary statement outside a transaction: executeSingleSQLInSlice on a pooled connection.  *)
(* Start: Get (FIFO head), initBackendConn, then the query reaches the backend (obs) - or the SET  *)
(* is rejected: Reset on the session, error to the client, connection recycled as it is.          *)
Ran(c, k, a, t)  == [kind |-> "ran", client |-> c, conn |-> k, ran |-> a, want |-> Effective(t), tainted |-> rejected[k]]
Failed(c, k)     == [kind |-> "rejected", client |-> c, conn |-> k]

SyncAndRun(c, k, fail) ==
    LET t == tracked[c]
        p == Plan(believed[k], t, TRUE)
    IN IF ~p.send
       THEN /\ fail = "none"
            /\ believed' = [believed EXCEPT ![k] = p.b]
            /\ obs' = Ran(c, k, actual[k], t)
            /\ busy' = [busy EXCEPT ![c] = TRUE]
            /\ UNCHANGED <<actual, tracked, rejected, nfails>>
       ELSE IF fail = "none"
       THEN /\ believed' = [believed EXCEPT ![k] = Written(p.b, TRUE)]
            /\ actual' = [actual EXCEPT ![k] = ApplySet(actual[k], p.b)]
            /\ obs' = Ran(c, k, actual'[k], t)
            /\ busy' = [busy EXCEPT ![c] = TRUE]
            /\ UNCHANGED <<tracked, rejected, nfails>>
       ELSE /\ KindOK(fail, p.b) /\ nfails < MaxFails
            /\ believed' = [believed EXCEPT ![k] = Written(p.b, FALSE)]   \* as written: bookkeeping stays ahead of the backend
            /\ tracked' = [tracked EXCEPT ![c] = ResetAfter(t, fail)]
            /\ rejected' = [rejected EXCEPT ![k] = TRUE]
            /\ obs' = Failed(c, k)
            /\ nfails' = nfails + 1
            /\ UNCHANGED <<actual, busy>>

StmtStart(c, fail) ==
    /\ ~busy[c] /\ intx[c] = "no" /\ held[c] = NoConn /\ idle # <<>> /\ nstmts < MaxStmts
    /\ LET k == Head(idle)
       IN /\ SyncAndRun(c, k, fail)
          /\ IF fail = "none"
             THEN idle' = Tail(idle) /\ held' = [held EXCEPT ![c] = k]
             ELSE idle' = Append(Tail(idle), k) /\ held' = held      \* recycleBackendConn: back to the pool
    /\ nstmts' = nstmts + 1
    /\ UNCHANGED <<intx, nsets>>

StmtEnd(c) ==
    /\ busy[c] /\ intx[c] = "no"
    /\ busy' = [busy EXCEPT ![c] = FALSE]
    /\ idle' = Append(idle, held[c])
    /\ held' = [held EXCEPT ![c] = NoConn]
    /\ UNCHANGED <<tracked, believed, actual, intx, rejected, obs, nsets, nstmts, nfails>>

(* ---- transactions: BEGIN is lazy; the first statement fetches the transaction connection:      *)
(* getTransactionConn = Get, SyncSessionVariables (variables only, not the charset; when the SET   *)
(* is rejected the connection is closed and its pool slot reopens a fresh session), BEGIN; then    *)
(* every statement of the transaction runs initBackendConn on that connection.                     *)
Begin(c) == /\ TxOn /\ ~busy[c] /\ intx[c] = "no" /\ nsets < MaxSets
            /\ intx' = [intx EXCEPT ![c] = "begun"]
            /\ nsets' = nsets + 1
            /\ UNCHANGED <<tracked, believed, actual, idle, held, busy, rejected, obs, nstmts, nfails>>

(* first statement of the transaction; txfail = outcome of the SET of SyncSessionVariables,       *)
(* fail = outcome of the SET of initBackendConn                                                   *)
TxFirst(c, txfail, fail) ==
    /\ TxOn /\ ~busy[c] /\ intx[c] = "begun" /\ idle # <<>> /\ nstmts < MaxStmts
    /\ LET k == Head(idle)
           t == tracked[c]
           p == Plan(believed[k], t, FALSE)
       IN IF p.send /\ txfail # "none"
          THEN (* rejected: pc.Close(); pc.Recycle() -> the slot gets a new backend session; the   *)
               (* session keeps its settings (no Reset on this path) and stays in "begun"          *)
               /\ KindOK(txfail, p.b) /\ nfails < MaxFails /\ fail = "none"
               /\ believed' = [believed EXCEPT ![k] = Believed0]
               /\ actual' = [actual EXCEPT ![k] = Setting0]
               /\ rejected' = [rejected EXCEPT ![k] = FALSE]
               /\ idle' = Append(Tail(idle), k)
               /\ obs' = Failed(c, k)
               /\ nfails' = nfails + 1
               /\ UNCHANGED <<tracked, held, intx, busy>>
          ELSE /\ txfail = "none"
               /\ LET bel1 == [believed EXCEPT ![k] = IF p.send THEN Written(p.b, TRUE) ELSE p.b]
                      act1 == [actual EXCEPT ![k] = IF p.send THEN ApplySet(actual[k], p.b) ELSE actual[k]]
                      q  == Plan(bel1[k], t, TRUE)
                  IN IF ~q.send
                     THEN /\ fail = "none"
                          /\ believed' = [bel1 EXCEPT ![k] = q.b]
                          /\ actual' = act1
                          /\ obs' = Ran(c, k, act1[k], t)
                          /\ busy' = [busy EXCEPT ![c] = TRUE]
                          /\ UNCHANGED <<tracked, rejected, nfails>>
                     ELSE IF fail = "none"
                     THEN /\ believed' = [bel1 EXCEPT ![k] = Written(q.b, TRUE)]
                          /\ actual' = [act1 EXCEPT ![k] = ApplySet(act1[k], q.b)]
                          /\ obs' = Ran(c, k, actual'[k], t)
                          /\ busy' = [busy EXCEPT ![c] = TRUE]
                          /\ UNCHANGED <<tracked, rejected, nfails>>
                     ELSE /\ KindOK(fail, q.b) /\ nfails < MaxFails
                          /\ believed' = [bel1 EXCEPT ![k] = Written(q.b, FALSE)]
                          /\ actual' = act1
                          /\ tracked' = [tracked EXCEPT ![c] = ResetAfter(t, fail)]
                          /\ rejected' = [rejected EXCEPT ![k] = TRUE]
                          /\ obs' = Failed(c, k)
                          /\ nfails' = nfails + 1
                          /\ UNCHANGED busy
               /\ idle' = Tail(idle)
               /\ held' = [held EXCEPT ![c] = k]           \* txConns[slice] = pc, also when initBackendConn failed
               /\ intx' = [intx EXCEPT ![c] = "open"]
    /\ nstmts' = nstmts + 1
    /\ UNCHANGED nsets

(* a later statement of the open transaction: same connection, initBackendConn again *)
TxStmt(c, fail) ==
    /\ TxOn /\ ~busy[c] /\ intx[c] = "open" /\ nstmts < MaxStmts
    /\ SyncAndRun(c, held[c], fail)
    /\ nstmts' = nstmts + 1
    /\ UNCHANGED <<idle, held, intx, nsets>>

TxStmtEnd(c) ==
    /\ busy[c] /\ intx[c] = "open"
    /\ busy' = [busy EXCEPT ![c] = FALSE]
    /\ UNCHANGED <<tracked, believed, actual, idle, held, intx, rejected, obs, nsets, nstmts, nfails>>

(* COMMIT: the transaction connection (if any) goes back to the pool *)
Commit(c) ==
    /\ TxOn /\ ~busy[c] /\ intx[c] # "no"
    /\ intx' = [intx EXCEPT ![c] = "no"]
    /\ IF held[c] # NoConn
       THEN idle' = Append(idle, held[c]) /\ held' = [held EXCEPT ![c] = NoConn]
       ELSE UNCHANGED <<idle, held>>
    /\ UNCHANGED <<tracked, believed, actual, busy, rejected, obs, nsets, nstmts, nfails>>

Fails == {"none"} \cup FailKinds

Next == \/ \E c \in Clients, v \in CsVals : SetNamesCollate(c, v)
        \/ \E c \in Clients, ch \in Charsets : SetNamesPlain(c, ch)
        \/ \E c \in Clients, n \in Names :
              \E v \in ValsOf(n) \cup (IF n \in UserVars THEN {} ELSE {None}) : SetVar(c, n, v)
        \/ \E c \in Clients, f \in Fails : StmtStart(c, f)
        \/ \E c \in Clients : StmtEnd(c)
        \/ \E c \in Clients : Begin(c)
        \/ \E c \in Clients, f1 \in Fails, f2 \in Fails : TxFirst(c, f1, f2)
        \/ \E c \in Clients, f \in Fails : TxStmt(c, f)
        \/ \E c \in Clients : TxStmtEnd(c)
        \/ \E c \in Clients : Commit(c)

Spec == Init /\ [][Next]_vars

ClientSym == Permutations(Clients)

-----------------------------------------------------------------------------------
(* Properties. *)

(* C20: every executed statement ran with exactly its client's requested settings. *)
NoLeak == obs.kind = "ran" => obs.ran = obs.want

(* The same, restricted to backend sessions on which no SET was ever rejected: the sync algorithm *)
(* itself (three-case SetEqualsWith, full SET text, unused -> DEFAULT) is right.                    *)
NoLeakOnCleanConn == (obs.kind = "ran" /\ ~obs.tainted) => obs.ran = obs.want

(* The proxy's belief describes the backend session, on sessions without a rejected SET. *)
BelievedView(b) == [cs |-> b.cs, vars |-> [n \in Names |-> IF n \in b.unused THEN None ELSE Norm(b.vars[n])]]
BelievedIsActual == \A k \in Conns : ~rejected[k] => BelievedView(believed[k]) = actual[k]

(* the unused list never survives a synchronisation *)
UnusedDrained == \A k \in Conns : believed[k].unsynced \/ believed[k].unused = {}

(* a connection is idle or held by exactly one client *)
PoolSound == /\ \A i, j \in 1..Len(idle) : i # j => idle[i] # idle[j]
             /\ \A c \in Clients : held[c] # NoConn => \A i \in 1..Len(idle) : idle[i] # held[c]
             /\ \A c1, c2 \in Clients : (c1 # c2 /\ held[c1] # NoConn) => held[c1] # held[c2]
===================================================================================
