------------------------------- MODULE Auth_allow -------------------------------
(* The allow-list of Auth.tla part 2 (property C35) as a configuration machine: entries    *)
(* are added one by one to a namespace's list; after every step every client address is     *)
(* judged.                                                                                 *)
(*   small widths (W4 = 2, W6 = 5): all entries over all bit strings, lists up to           *)
(*      MaxEntries, all client addresses of both widths inside the invariants;              *)
(*   real widths (32 / 128, mapped = 80 zeros + 16 ones): entries from the given base       *)
(*      addresses x prefix lengths, client addresses at the prefix boundaries of the        *)
(*      entries (+-1 bit) in IPv4, IPv4-mapped and IPv6 presentation; Emit prints every      *)
(*      list with the verdict of each client for the conformance harness.                   *)
EXTENDS Auth, TLC, Json, SequencesExt

CONSTANTS Bases4, Bases6,    \* address bit strings entries are made from
          PLens4, PLens6,    \* prefix lengths
          PairLens4, PairLens6,  \* prefix lengths of the entries that are combined into lists of several entries
          MaxEntries,
          CheckAll,          \* TRUE: evaluate the properties for all bit strings of both widths (small widths only)
          EmitCases

AllBits(w) == [1..w -> {0, 1}]
All4 == AllBits(W4)
All6 == AllBits(W6)

BlankEntry == [fam |-> 0, bits |-> <<>>, plen |-> 0, cidr |-> FALSE]
E4 == {[fam |-> 4, bits |-> b, plen |-> p, cidr |-> TRUE] : b \in Bases4, p \in PLens4}
        \cup {[fam |-> 4, bits |-> b, plen |-> W4, cidr |-> FALSE] : b \in Bases4}
E6 == {[fam |-> 6, bits |-> b, plen |-> p, cidr |-> TRUE] : b \in Bases6, p \in PLens6}
        \cup {[fam |-> 6, bits |-> b, plen |-> W6, cidr |-> FALSE] : b \in Bases6}
EntrySet == E4 \cup E6 \cup {BlankEntry}

SeqOfSet(S) == SetToSeq(S)
EntrySeq == SeqOfSet(EntrySet)      \* a fixed order: lists are built in increasing index (order is irrelevant to the property)

VARIABLES list, last
vars == <<list, last>>

Init == list = <<>> /\ last = 0
(* every entry forms a list of its own; lists of several entries are built from the entries with a prefix length in PairLens *)
Combinable(e) == Blank(e) \/ ~e.cidr \/ e.plen \in (IF e.fam = 4 THEN PairLens4 ELSE PairLens6)
AddEntry == /\ Len(list) < MaxEntries
            /\ \E k \in (last + 1)..Len(EntrySeq) :
                  /\ Len(list) >= 1 => (Combinable(EntrySeq[k]) /\ \A i \in 1..Len(list) : Combinable(list[i]))
                  /\ list' = Append(list, EntrySeq[k])
                  /\ last' = k
Next == AddEntry
Spec == Init /\ [][Next]_vars

-----------------------------------------------------------------------------------
Flip(a, i) == [a EXCEPT ![i] = 1 - a[i]]
Strip(a6) == SubSeq(a6, W6 - W4 + 1, W6)

(* client addresses around the prefix boundary of entry e, in every presentation *)
Around(e) == IF Blank(e) THEN {}
             ELSE LET w == Width(e)
                      raw == {e.bits, Flip(e.bits, w)}
                               \cup (IF e.plen >= 1 THEN {Flip(e.bits, e.plen)} ELSE {})
                               \cup (IF e.plen < w THEN {Flip(e.bits, e.plen + 1)} ELSE {})
                  IN raw \cup (IF e.fam = 4 THEN {Mapped(a) : a \in raw} ELSE {})
                         \cup {Strip(a) : a \in {x \in raw : e.fam = 6 /\ IsMapped(x)}}
Clients == IF CheckAll THEN All4 \cup All6
           ELSE UNION {Around(list[i]) : i \in 1..Len(list)} \cup {[i \in 1..W4 |-> 0], [i \in 1..W6 |-> i % 2]}

TypeOK == /\ Len(list) <= MaxEntries
          /\ \A i \in 1..Len(list) : list[i] \in EntrySet

(* C35: IPv4 addresses are judged the same way in both presentations *)
PresentationIndependent ==
    \A a \in {c \in Clients : Len(c) = W4} : AllowVerdict(list, a) = AllowVerdict(list, Mapped(a))
EmptyAllowsAll == Entries(list) = {} => \A a \in Clients : AllowVerdict(list, a) = "allow"
(* a list of IPv4 entries never admits a genuine IPv6 client *)
FamilySeparation ==
    (Entries(list) # {} /\ \A i \in Entries(list) : list[i].fam = 4) =>
        \A a \in {c \in Clients : Len(c) = W6 /\ ~IsMapped(c)} : AllowVerdict(list, a) = "deny"
(* a single address admits exactly itself; host bits of a block do not matter; shorter prefixes admit more *)
EntryLaws ==
    Len(list) = 1 =>       \* laws of a single entry: checked once per entry, not again in every longer list
    \A i \in Entries(list) :
        LET e == list[i] IN
        /\ e.plen = Width(e) => \A a \in Clients : Match(e, a) <=> Canon(a) = ECanon(e).bits
        /\ \A a \in Clients :
              /\ \A q \in 0..e.plen : Match(e, a) => Match([e EXCEPT !.plen = q], a)
              /\ Match(e, a) <=> Match([e EXCEPT !.bits = [j \in 1..Width(e) |-> IF j <= e.plen THEN e.bits[j] ELSE 0]], a)
        /\ e.plen = 0 => \A a \in Clients : Match(e, a) <=> (e.fam = 6 \/ IsMapped(Canon(a)))
(* adding an entry to a non-empty list never locks out a client *)
Monotone == [][Entries(list) # {} => \A a \in Clients : Allowed(list, a) => Allowed(list', a)]_vars

-----------------------------------------------------------------------------------
(* emission: bits as bytes *)
ByteAt(bits, k) == LET b(i) == bits[8 * (k - 1) + i] IN
                   128 * b(1) + 64 * b(2) + 32 * b(3) + 16 * b(4) + 8 * b(5) + 4 * b(6) + 2 * b(7) + b(8)
BytesOf(bits) == [k \in 1..(Len(bits) \div 8) |-> ByteAt(bits, k)]
EntryOut(e) == [fam |-> e.fam, ip |-> BytesOf(e.bits), plen |-> e.plen, cidr |-> e.cidr,
                lead |-> e.plen % 3, trail |-> (e.plen + e.fam) % 2]
ClientOut(a) == [ip |-> BytesOf(a), verdict |-> AllowVerdict(list, a)]
Emit == EmitCases =>
          LET cs == SeqOfSet(Clients) IN
          PrintT(<<"CASE", ToJson([list |-> [i \in 1..Len(list) |-> EntryOut(list[i])],
                                  clients |-> [j \in 1..Len(cs) |-> ClientOut(cs[j])]])>>)
===================================================================================
