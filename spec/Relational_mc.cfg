\* Properties of the specification itself on a slice of the query grammar (the checks generate their own
\* configurations from checks/_relational.py; this one is for running TLC by hand).
SPECIFICATION Spec
CONSTANTS
  Fams = {"plain", "agg", "group", "union", "update", "delete", "insdup"}
  Seed = 1
  Mod = 16
  Reps = 1
  NGen = 30
INVARIANTS SpecProps
CHECK_DEADLOCK FALSE
