---------------------------- MODULE SessionConn_trace ----------------------------
(* Trace validation for SessionConn: the ledger recorded by the fake connection pools while   *)
(* the real SessionExecutor / Session ran (harness/proxy/server/sessionconn_test.go) must be   *)
(* a behaviour of the event level below, with the P-level invariants of SessionConn checked    *)
(* at every command boundary.                                                                  *)
(*                                                                                             *)
(* Event level = P-level monitor: one action per ledger event; an event is enabled exactly     *)
(* when the property texts allow it.  Nothing here prescribes how many events a command        *)
(* produces or in which order the slices are visited:                                          *)
(*   get    only a connection that is not handed out                  (one holder)             *)
(*   op     only on a connection the session holds; a statement inside a transaction only on   *)
(*          the master connection the transaction owns for that slice (C18); with keep-session *)
(*          only on the pinned connection of the slice (C23); no statement on a connection     *)
(*          that already received this command's COMMIT / ROLLBACK (order)                     *)
(*   close  only a connection the session holds                                                 *)
(*   put    only a connection the session holds (exactly one return); never alive with an open *)
(*          backend transaction                                                                 *)
(*   reply  status flags as the protocol defines them for the command and its outcome          *)
(* The maps tx / ks are the connections of record: set when the session, inside a transaction  *)
(* (resp. with keep-session), takes a connection for a slice, cleared when it returns it.      *)
EXTENDS SessionConn, Json

Trace == ndJsonDeserialize("trace.ndjson")

VARIABLES l,      \* next trace line to consume
          tid     \* id of the trace being consumed

tvars == <<vars, l, tid>>

TraceInit == Init /\ l = 1

Boundary == l <= Len(Trace) /\ Trace[l].t # tid
InTrace  == l <= Len(Trace) /\ ~Boundary
E == Trace[l]
IsEv(e)  == InTrace /\ E.ev = e /\ l' = l + 1

Set(seq) == {seq[i] : i \in 1..Len(seq)}

(* first line of every trace: the mode *)
TStart ==
    /\ IsEv("start") /\ phase = "idle" /\ nc = 0
    /\ KS' = E.ks /\ User' = E.user
    /\ UNCHANGED <<cs, ac, intx, tx, ks, alive, stale, phase, last, used, ended, reply, nc, nf, nn>>

TCmd ==
    /\ IsEv("cmd") /\ phase = "idle" /\ alive
    /\ phase' = "busy"
    /\ last' = [NoLast EXCEPT !.k = E.k, !.sl = Set(E.sl), !.wasTx = InTx, !.wasStale = stale,
                              !.pre = IF KS THEN ks ELSE tx]
    /\ used' = {} /\ ended' = {} /\ reply' = "none"
    /\ nc' = nc + 1
    /\ UNCHANGED <<KS, User, cs, ac, intx, tx, ks, alive, stale, nf, nn>>

TGet ==
    /\ IsEv("get") /\ phase = "busy"
    /\ LET c == E.c sl == SliceOf(E.c) IN
       /\ c \in Conns
       /\ cs[c].st \in {"none", "pool"}                                  \* not handed out: one holder
       /\ cs' = [cs EXCEPT ![c] = [st |-> "held", bad |-> "ok", tx |-> FALSE, ac0 |-> FALSE]]
       /\ IF KS THEN /\ ks[sl] = NoConn                                  \* one pinned connection per slice
                     /\ ks' = [ks EXCEPT ![sl] = c] /\ tx' = tx
          ELSE IF InTx /\ RoleOf(c) = M
               THEN /\ tx[sl] = NoConn                                   \* one transaction connection per slice
                    /\ tx' = [tx EXCEPT ![sl] = c] /\ ks' = ks
          ELSE UNCHANGED <<tx, ks>>
    /\ UNCHANGED <<KS, User, ac, intx, alive, stale, phase, last, used, ended, reply, nc, nf, nn>>

TGetErr ==                                            \* a pool refused to hand out a connection
    /\ IsEv("geterr") /\ phase = "busy"
    /\ UNCHANGED vars

TOp ==
    /\ IsEv("op") /\ phase = "busy"
    /\ LET c == E.c sl == SliceOf(E.c) op == E.op IN
       /\ c \in Conns
       /\ cs[c].st = "held"                                              \* only on a connection the session holds
       /\ op = "exec" =>
            /\ c \notin ended                                            \* not after this command's COMMIT / ROLLBACK
            /\ KS => ks[sl] = c                                          \* C23: the pinned connection
            /\ (~KS /\ InTx) => (RoleOf(c) = M /\ tx[sl] = c)            \* C18: the transaction's master connection
       /\ used' = IF op = "exec" THEN used \cup {<<sl, c, InTx>>} ELSE used
       /\ ended' = IF op \in {"commit", "rollback", "setac1"} THEN ended \cup {c} ELSE ended
       /\ cs' = [cs EXCEPT ![c] =
                    IF E.ok THEN Effect(op, @)
                    ELSE IF E.bad # "ok" THEN [@ EXCEPT !.bad = E.bad, !.tx = FALSE]
                    ELSE IF op \in {"commit", "rollback"} THEN [@ EXCEPT !.tx = FALSE] ELSE @]
       /\ nf' = IF ~E.ok /\ cs[c].bad = "ok" THEN nf + 1 ELSE nf
    /\ UNCHANGED <<KS, User, ac, intx, tx, ks, alive, stale, phase, last, reply, nc, nn>>

TClose ==
    /\ IsEv("close") /\ phase = "busy"
    /\ E.c \in Conns
    /\ cs[E.c].st = "held"
    /\ cs' = [cs EXCEPT ![E.c].bad = "closed", ![E.c].tx = FALSE]
    /\ UNCHANGED <<KS, User, ac, intx, tx, ks, alive, stale, phase, last, used, ended, reply, nc, nf, nn>>

TPut ==
    /\ IsEv("put") /\ phase = "busy"
    /\ LET c == E.c sl == SliceOf(E.c) IN
       /\ c \in Conns
       /\ cs[c].st = "held"                                              \* returned exactly once, only by its holder
       /\ cs' = [cs EXCEPT ![c].st = IF cs[c].bad = "ok" THEN "pool" ELSE "gone"]
       /\ tx' = IF tx[sl] = c THEN [tx EXCEPT ![sl] = NoConn] ELSE tx
       /\ ks' = IF ks[sl] = c THEN [ks EXCEPT ![sl] = NoConn] ELSE ks
    /\ UNCHANGED <<KS, User, ac, intx, alive, stale, phase, last, used, ended, reply, nc, nf, nn>>

(* what the protocol says about the status flags after a command *)
FlagsAfter(k, ok) ==
    CASE k = "begin"    -> [ac |-> ac, intx |-> IF ok THEN TRUE ELSE intx]
      [] k \in {"commit", "rollback", "quit"} -> [ac |-> ac, intx |-> FALSE]
      [] k = "setac1"   -> [ac |-> TRUE, intx |-> FALSE]
      [] k = "setac0"   -> [ac |-> FALSE, intx |-> intx]
      [] OTHER          -> [ac |-> ac, intx |-> intx]

TReply ==
    /\ IsEv("reply") /\ phase = "busy"
    /\ LET refused == KS /\ last.wasStale /\ last.wasTx
           fl == IF refused \/ last.k = "disconnect"
                 THEN [ac |-> ac, intx |-> IF E.alive THEN intx ELSE FALSE]
                 ELSE FlagsAfter(last.k, E.ok)
       IN /\ E.ac = fl.ac /\ (E.alive => E.intx = fl.intx)                 \* status flags follow the protocol
          /\ ac' = fl.ac /\ intx' = IF E.alive THEN fl.intx ELSE FALSE
    /\ alive' = E.alive
    /\ reply' = IF last.k = "disconnect" THEN "none" ELSE IF E.ok THEN "ok" ELSE "err"
    /\ phase' = "idle" /\ stale' = last.mid         \* a reload during the command concerns the next one
    /\ UNCHANGED <<KS, User, cs, tx, ks, last, used, ended, nc, nf, nn>>

TNsChange ==
    /\ IsEv("nschange") /\ phase = "idle" /\ alive
    /\ stale' = TRUE /\ nn' = nn + 1
    /\ last' = [NoLast EXCEPT !.k = "nschange", !.wasTx = InTx, !.pre = IF KS THEN ks ELSE tx]
    /\ used' = {} /\ ended' = {} /\ reply' = "none"
    /\ UNCHANGED <<KS, User, cs, ac, intx, tx, ks, alive, phase, nc, nf>>

TNsChangeBusy ==                                      \* the namespace is reloaded while a command executes
    /\ IsEv("nschange") /\ phase = "busy"
    /\ last' = [last EXCEPT !.mid = TRUE]
    /\ nn' = nn + 1
    /\ UNCHANGED <<KS, User, cs, ac, intx, tx, ks, alive, stale, phase, used, ended, reply, nc, nf>>

TReset ==
    /\ Boundary
    /\ cs' = [c \in Conns |-> FreshConn]
    /\ ac' = TRUE /\ intx' = FALSE /\ tx' = NoMap /\ ks' = NoMap
    /\ alive' = TRUE /\ stale' = FALSE /\ phase' = "idle"
    /\ last' = NoLast /\ used' = {} /\ ended' = {} /\ reply' = "none"
    /\ nc' = 0 /\ nf' = 0 /\ nn' = 0
    /\ UNCHANGED <<KS, User, sps>>
    /\ l' = l
    /\ tid' = Trace[l].t

TraceNext == \/ (TStart \/ TCmd \/ TGet \/ TGetErr \/ TOp \/ TClose \/ TPut \/ TReply \/ TNsChange \/ TNsChangeBusy) /\ UNCHANGED <<tid, sps>>
             \/ TReset

TraceSpec == TraceInit /\ tid = Trace[1].t /\ [][TraceNext]_tvars

(* a trace must end with the session over (the harness always disconnects) *)
EndsClosed == (Boundary \/ l > Len(Trace)) => (~alive /\ phase = "idle")

NumResets == Cardinality({i \in 2..Len(Trace) : Trace[i].t # Trace[i-1].t})
TraceAccepted ==
    LET d == TLCGet("stats").diameter IN
    IF d - 1 = Len(Trace) + NumResets THEN TRUE
    ELSE Print(<<"TRACE-REJECTED", d, Len(Trace), NumResets>>, FALSE)
===================================================================================
