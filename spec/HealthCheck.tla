------------------------------- MODULE HealthCheck -------------------------------
(* Periodic health checks of XiaoMi/Gaea (backend/slice.go checkBackendMasterStatus,          *)
(* TryRecover -> checkWith{No,Hard,Gradual}Recovery, checkInstanceStatus, checkSlaveSyncStatus; *)
(* backend/node.go ShouldDownAfterNoAlive), composed with the circuit breaker of module Fuse.   *)
(*                                                                                            *)
(* One master and one replica (replicas do not interact: a replica round reads its own state   *)
(* and the master's status).  One action per probe round, one per connection error, one per     *)
(* clock advance.                                                                              *)
(*                                                                                            *)
(* Each round is described twice:                                                              *)
(*   I-level  IReplicaRound / IMasterRound: the steps of the code, in the code's order;          *)
(*   P-level  PReplicaRound / PMasterRound: the rules of properties C28 and C27 -- the set of     *)
(*            statuses the node may have after the round, and which rule decided.               *)
(* TLC checks  I-level status \in P-level allowed set  on every transition.  (Until the fix       *)
(* commits d0d67dd / d1c5174 the master-down branch of the no-recovery and hard rounds marked a    *)
(* down replica up without a passed probe / inside the cool-down; the I-level below is the         *)
(* repaired code.)                                                                               *)
EXTENDS Fuse

CONSTANTS DownAfter,   \* seconds without a passed probe after which a node is marked down (> 0)
          SBM,         \* seconds_behind_master limit; 0 = replication state is not checked
          HealthSQL,   \* BOOLEAN: a health-check statement is configured
          HasMaster    \* BOOLEAN: the slice has a master node (FALSE: GetMasterStatus fails)

VARIABLES m,     \* master: [st, lc]
          lc     \* replica pool's lastChecked

hvars == <<fvars, m, lc>>

----------------------------------------------------------------------------------
(* Inputs of one round *)

HsKinds == {"hs_ok", "hs_shutdown", "hs_tsmissing", "hs_tsdiscarded", "hs_timeout"}
ProbeKinds == (IF HealthSQL THEN HsKinds ELSE {}) \cup {"ping_fail", "sel_fail"}

(* checkInstanceStatus: GetCheck, then up to CheckRepeat+1 = 4 iterations of                    *)
(*   [health SQL: ok => passed | server-shutdown/tablespace/timeout => failed | other error =>   *)
(*    continue] ; ping (error => failed) ; select 1 (error => failed);  four clean iterations     *)
(*   => passed.  k = first iteration that is not clean, kind = what happens there.               *)
Probes == {[gc |-> "err", k |-> 0, kind |-> "none"], [gc |-> "nil", k |-> 0, kind |-> "none"],
           [gc |-> "ok", k |-> 4, kind |-> "allpass"]}
          \cup {[gc |-> "ok", k |-> i, kind |-> kd] : i \in 0..3, kd \in ProbeKinds}

(* P-level: the probe passed *)
Passes(pr) == pr.gc = "ok" /\ pr.kind \in {"hs_ok", "allpass"}

(* I-level: the loop of checkInstanceStatus, statement by statement *)
RECURSIVE IProbeLoop(_, _)
IProbeLoop(pr, i) ==
    IF i > 3 THEN TRUE                                            \* SetLastChecked; return pc
    ELSE LET hs == IF ~HealthSQL THEN "skipped"
                   ELSE IF i = pr.k /\ pr.kind \in HsKinds THEN pr.kind ELSE "other-error"
         IN IF hs = "hs_ok" THEN TRUE                             \* SetLastChecked; return pc
            ELSE IF hs \in HsKinds THEN FALSE                     \* shutdown / tablespace / timeout: close, fail
            ELSE IF i = pr.k /\ pr.kind = "ping_fail" THEN FALSE  \* close, fail
            ELSE IF i = pr.k /\ pr.kind = "sel_fail" THEN FALSE   \* close, fail
            ELSE IProbeLoop(pr, i + 1)
IProbe(pr) == pr.gc = "ok" /\ IProbeLoop(pr, 0)

ASSUME ProbeLoopIsPasses == \A pr \in Probes : IProbe(pr) = Passes(pr)

(* alphabets of the round actions (a configuration may substitute smaller ones) *)
HProbes == Probes
McProbes == {[gc |-> "ok", k |-> 4, kind |-> "allpass"], [gc |-> "err", k |-> 0, kind |-> "none"],
             [gc |-> "ok", k |-> 2, kind |-> "ping_fail"]}

(* what "show slave status" says *)
Syncs == {"ok", "lag_eq", "lag_over", "lag_null", "io_stopped", "io_connecting", "io_null",
          "sql_stopped", "priv", "empty", "qerr"}
HSyncs  == Syncs            \* alphabet of the replica-round action (a configuration may substitute McSyncs)
McSyncs == {"ok", "priv", "lag_over", "sql_stopped", "qerr"}
(* I-level: checkSlaveSyncStatus returns alive = FALSE *)
SyncDead(sy)     == sy \in {"lag_over", "io_stopped", "io_connecting", "io_null", "sql_stopped", "qerr"}
(* P-level: lag over the limit or a replication thread not running *)
SyncMustDown(sy) == sy \in {"lag_over", "io_stopped", "io_connecting", "io_null", "sql_stopped"}
(* P-level: replication state could not be read (not a privilege problem): the property neither   *)
(* demands nor forbids marking the replica down                                                  *)
SyncUnknown(sy)  == sy = "qerr"

MasterSt == IF HasMaster THEN m.st ELSE Down     \* GetMasterStatus error is handled like a down master

----------------------------------------------------------------------------------
(* I-level *)

IMasterRound(mm, t, pr) ==
    LET l1 == IF Passes(pr) THEN t ELSE mm.lc
    IN IF t - l1 >= DownAfter THEN [st |-> Down, lc |-> l1]
       ELSE IF Passes(pr) /\ mm.st = Down THEN [st |-> Up, lc |-> l1]
       ELSE [st |-> mm.st, lc |-> l1]

IReplicaRound(nn, l0, mst, t, pr, sy) ==
    LET ok == Passes(pr)
        l1 == IF ok THEN t ELSE l0
        n1 == IF ok THEN nn ELSE IProbeFailed(nn)
    IN IF t - l1 >= DownAfter THEN [n |-> [n1 EXCEPT !.st = Down], lc |-> l1]
       ELSE IF mst = Down
            \* no-recovery: conn != nil && down => up; hard: conn != nil && down && AllowRecovery() => up;
            \* gradual: returns without touching the status
            THEN [n |-> IF Policy = "gradual" \/ ~ok \/ n1.st = Up THEN n1
                        ELSE IF Policy = "hard" /\ ~(t >= n1.lastFuse + Cool) THEN n1
                        ELSE [n1 EXCEPT !.st = Up],
                  lc |-> l1]
       ELSE IF SBM # 0 /\ ok /\ SyncDead(sy) THEN [n |-> [n1 EXCEPT !.st = Down], lc |-> l1]
       ELSE IF ok THEN [n |-> IRecover(n1, t), lc |-> l1]
       ELSE [n |-> n1, lc |-> l1]

----------------------------------------------------------------------------------
(* P-level: allowed statuses after the round + the deciding rule *)

PMasterRound(mm, t, pr) ==
    LET l1 == IF Passes(pr) THEN t ELSE mm.lc
    IN IF t - l1 >= DownAfter THEN [al |-> {Down}, why |-> "no-probe-passed-for-down-after"]
       ELSE IF Passes(pr) /\ mm.st = Down THEN [al |-> {Up}, why |-> "probe-passed"]
       ELSE [al |-> {mm.st}, why |-> "no-rule-applies"]

RecoverWhy(gg, t) ==
    CASE Policy = "hard"    -> IF PMayRecover(gg, t) THEN "cooldown-over" ELSE "cooling-down"
      [] Policy = "gradual" -> IF PMayRecover(gg, t) THEN "penalty-served" ELSE "penalty-pending"
      [] OTHER              -> "probe-passed"

PReplicaRound(st, gg, l0, mst, t, pr, sy) ==
    LET ok == Passes(pr)
        l1 == IF ok THEN t ELSE l0
        g1 == IF ok THEN gg ELSE PProbeFailed(st, gg)
    IN IF t - l1 >= DownAfter
       THEN [al |-> {Down}, g |-> g1, why |-> "no-probe-passed-for-down-after"]
       ELSE IF mst = Down
            THEN IF st = Up THEN [al |-> {Up}, g |-> g1, why |-> "master-down/no-rule-applies"]
                 \* C28: no passed probe in this round => the replica stays down;
                 \* C27: recovery condition not met => it stays down
                 ELSE IF ~ok THEN [al |-> {Down}, g |-> g1, why |-> "master-down/probe-failed"]
                 ELSE IF ~PMayRecover(g1, t)
                      THEN [al |-> {Down}, g |-> g1, why |-> "master-down/" \o RecoverWhy(g1, t)]
                 ELSE IF Policy = "gradual"
                      \* the replication check cannot be made while the master is down: the text does
                      \* not say whether such a round counts as a successful probe; both are accepted
                      THEN [al |-> {Down, Up}, g |-> g1, why |-> "master-down/probe-passed"]
                      ELSE [al |-> {Up}, g |-> g1, why |-> "master-down/probe-passed"]
       ELSE IF SBM # 0 /\ ok /\ SyncMustDown(sy) THEN [al |-> {Down}, g |-> g1, why |-> "replication-" \o sy]
       ELSE IF SBM # 0 /\ ok /\ SyncUnknown(sy) THEN [al |-> {Down, st}, g |-> g1, why |-> "replication-unreadable"]
       ELSE IF ok /\ st = Down
            THEN LET r == PRecover(st, g1, t) IN [al |-> {r.st}, g |-> r.g, why |-> RecoverWhy(g1, t)]
       ELSE [al |-> {st}, g |-> g1, why |-> IF ok THEN "no-rule-applies" ELSE "probe-failed/no-rule-applies"]

----------------------------------------------------------------------------------
(* Behaviours *)

HInit == /\ FInit
         /\ m = [st |-> Up, lc |-> T0]
         /\ lc = T0

MasterRound(pr) ==
    LET i == IMasterRound(m, now, pr)
        p == PMasterRound(m, now, pr)
    IN /\ HasMaster
       /\ m' = i
       /\ last' = [ev |-> "mround", pr |-> pr, t |-> now, i |-> i.st, al |-> p.al, why |-> p.why, other |-> n.st]
       /\ UNCHANGED <<now, n, g, lc>>

ReplicaRound(pr, sy) ==
    LET i == IReplicaRound(n, lc, MasterSt, now, pr, sy)
        p == PReplicaRound(n.st, g, lc, MasterSt, now, pr, sy)
    IN /\ n' = i.n
       /\ lc' = i.lc
       /\ g' = p.g
       /\ last' = [ev |-> "rround", pr |-> pr, sy |-> sy, t |-> now, i |-> i.n.st, al |-> p.al, why |-> p.why,
                   other |-> m.st, pre |-> n.st, mst |-> MasterSt,
                   may |-> PMayRecover(IF Passes(pr) THEN g ELSE PProbeFailed(n.st, g), now)]
       /\ UNCHANGED <<now, m>>

HConnErr(k) == ConnErr(k) /\ UNCHANGED <<m, lc>>
HTick(d)    == Tick(d) /\ UNCHANGED <<m, lc>>

HNext == \/ \E pr \in HProbes : MasterRound(pr)
         \/ \E pr \in HProbes, sy \in HSyncs : ReplicaRound(pr, sy)
         \/ \E k \in ErrKinds : HConnErr(k)
         \/ \E d \in 1..MaxTick : HTick(d)

HSpec == HInit /\ [][HNext]_hvars

----------------------------------------------------------------------------------
(* Properties *)

RoundIsAllowed ==
    [][last'.ev \in {"rround", "mround"} => last'.i \in last'.al]_hvars

(* connection errors inside the composed system: the breaker decision is the property-level one *)
ErrIsP == [][last'.ev = "err" => last'.i = last'.p]_hvars

(* The properties below are action properties; last' names the event of the transition.       *)
IsR == last'.ev = "rround"
IsM == last'.ev = "mround"

(* C28 frame: a master round never touches the replica and vice versa; a clock advance or an      *)
(* error that does not fire the breaker changes nothing                                           *)
Frame == [][/\ IsM => n' = n /\ lc' = lc
            /\ IsR => m' = m
            /\ last'.ev = "tick" => (n' = n /\ m' = m /\ lc' = lc)
            /\ last'.ev = "err" => (m' = m /\ lc' = lc /\ (n'.st # n.st => (n'.st = Down /\ PFires(g'.hist))))]_hvars

(* C28: down once no probe has passed for DownAfter seconds; lastChecked is the time of the last   *)
(* passed probe                                                                                   *)
DownAfterRule ==
    [][/\ IsR => /\ lc' = (IF Passes(last'.pr) THEN now ELSE lc)
                 /\ (now - lc' >= DownAfter => n'.st = Down)
       /\ IsM => /\ m'.lc = (IF Passes(last'.pr) THEN now ELSE m.lc)
                 /\ (now - m'.lc >= DownAfter => m'.st = Down)]_hvars

(* C28: a node only comes up in a round whose probe passed *)
UpOnlyAfterProbe ==
    [][/\ (IsR /\ n.st = Down /\ n'.st = Up) => Passes(last'.pr)
       /\ (IsM /\ m.st = Down /\ m'.st = Up) => Passes(last'.pr)
       /\ (n.st = Down /\ n'.st = Up) => IsR
       /\ (m.st = Down /\ m'.st = Up) => IsM]_hvars

(* C27 inside the rounds: no recovery before the policy allows it *)
NoEarlyRecoveryH ==
    [][(IsR /\ n.st = Down /\ n'.st = Up) =>
          PMayRecover(IF Passes(last'.pr) THEN g ELSE PProbeFailed(n.st, g), now)]_hvars

(* C27 / C28: a passing round with a healthy replication state and an up master brings a down      *)
(* replica up as soon as the policy allows it                                                     *)
RecoversWhenDueH ==
    [][(IsR /\ n.st = Down /\ Passes(last'.pr) /\ MasterSt = Up /\ now - lc' < DownAfter
            /\ (SBM = 0 \/ ~SyncDead(last'.sy)) /\ PMayRecover(g, now)) => n'.st = Up]_hvars

(* C28: a replica goes down in a round only by the down-after rule or the replication rule *)
DownOnlyByRule ==
    [][/\ (IsR /\ n.st = Up /\ n'.st = Down) =>
              \/ now - lc' >= DownAfter
              \/ (SBM # 0 /\ Passes(last'.pr) /\ MasterSt = Up
                    /\ (SyncMustDown(last'.sy) \/ SyncUnknown(last'.sy)))
       /\ (IsM /\ m.st = Up /\ m'.st = Down) => now - m'.lc >= DownAfter]_hvars

HView == <<now, n, [g EXCEPT !.hist = InWindow(g.hist, now)], m, lc>>
==================================================================================
