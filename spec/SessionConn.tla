------------------------------- MODULE SessionConn -------------------------------
(* One client session of the Gaea proxy and the backend connections it takes from the      *)
(* per-slice master / replica pools  (proxy/server/executor.go, executor_handle.go,         *)
(* session.go, backend/slice.go).  Properties C18, C19, C23.                                *)
(*                                                                                          *)
(* The module has three layers.                                                             *)
(*  1. Ground state shared by everything: per connection {st, bad, tx, ac0}, the session's   *)
(*     status flags and its two connection maps (tx: slice -> connection of the open         *)
(*     transaction, ks: slice -> pinned keep-session connection), plus observation           *)
(*     variables describing the last command (which connection each statement ran on,        *)
(*     which connections received COMMIT / ROLLBACK, the reply).                             *)
(*  2. P-level properties over that state, phrased as the texts of C18 / C19 / C23 phrase    *)
(*     them: who may hold a connection, which connection a statement must run on, when a     *)
(*     connection must be back in its pool.  Nothing about *how*.                            *)
(*  3. Command level: one action per command path of the executor (BEGIN, COMMIT, ROLLBACK,  *)
(*     SET autocommit, unsharded read / write / locking read, sharded statement over a set   *)
(*     of slices, PING, QUIT, client disconnect, namespace change), each with an optional    *)
(*     backend fault.  A command is one atomic step (the session serialises its commands);   *)
(*     its effect is written as a function on a "world" record so that the step order of     *)
(*     the code (Appendix A.2 of DESIGN.md) is kept.  Where the code is suspected to break   *)
(*     the P-level (DESIGN section 6) this layer describes the *repaired* behaviour, so that *)
(*     TLC can prove the P-level for the design and the conformance harness can tell the     *)
(*     implementation's deviation.                                                           *)
(* SessionConn_trace.tla adds the event level (one action per ledger event of the fake      *)
(* pools) on the same variables and the same properties.                                     *)
EXTENDS Integers, Sequences, FiniteSets, TLC

CONSTANTS KSModes,     \* keep-session modes explored (subset of BOOLEAN)
          Users,       \* users explored: "rw" (no read/write splitting), "rws" (read/write splitting), "ro" (read-only)
          MaxCmds,     \* bound on commands per behaviour (model checking / generation)
          MaxFaults,   \* bound on injected backend faults per behaviour
          MaxNs,       \* bound on namespace changes per behaviour
          MaxPerPool,  \* connections per pool the model may create
          FOps         \* backend operations a fault may hit: subset of FaultOps below

Slices == {0, 1}
M == 0   \* role master
R == 1   \* role replica
Cid(sl, ro, n) == sl * 100 + ro * 10 + n          \* connection id: slice, role, ordinal in its pool
SliceOf(c) == c \div 100
RoleOf(c)  == (c \div 10) % 10
PoolConns(sl, ro) == {Cid(sl, ro, n) : n \in 1..MaxPerPool}
Conns == UNION {PoolConns(sl, ro) : sl \in Slices, ro \in {M, R}}
NoConn == 0

VARIABLES
    KS,       \* keep-session mode of the namespace (fixed per behaviour)
    User,     \* the session's user (fixed per behaviour)
    cs,       \* ground truth per connection: [st, bad, tx, ac0]
              \*   st  "none" not created | "pool" idle in its pool | "held" handed out to the session | "gone" discarded
              \*   bad "ok" | "broken" (protocol error: Recycle will discard it) | "closed" (closed under the session)
              \*   tx  backend transaction open;  ac0 backend autocommit switched off
    ac,       \* session status flag: autocommit
    intx,     \* session status flag: in transaction (explicit BEGIN)
    tx,       \* slice -> connection of the open transaction (0 = none)       [SessionExecutor.txConns]
    ks,       \* slice -> pinned keep-session connection (0 = none)           [SessionExecutor.ksConns]
    alive,    \* session not closed
    sps,      \* 1 when the session has a recorded savepoint (SessionExecutor.savepoints non-empty), else 0: a connection
              \*   that joins the transaction later is sent "savepoint <name>" right after its BEGIN (getTransactionConn)
    stale,    \* the namespace configuration changed since the session last looked
    phase,    \* "idle" between commands, "busy" inside one (event level only)
    \* ---- observation of the last command
    last,     \* the last command: [k, sl, kind, first, fl, mid] kind of command, slices addressed, statement kind, slice
              \*   visited first, fault that fired, namespace reloaded while the command was executing;
              \*   [wasTx, wasStale, pre] InTx / stale / connection map before it
    used,     \* set of <<slice, conn, inTxAtThatTime>>: statements sent during the last command
    ended,    \* connections that received COMMIT / ROLLBACK / SET autocommit=1 during the last command
    reply,    \* "ok" | "err" | "none"
    \* ---- bounds
    nc, nf, nn

vars == <<KS, User, cs, ac, intx, tx, ks, alive, sps, stale, phase, last, used, ended, reply, nc, nf, nn>>

InTx == intx \/ ~ac                       \* SessionExecutor.isInTransaction
Rng(f) == {f[s] : s \in Slices} \ {NoConn}
Held == {c \in Conns : cs[c].st = "held"}
Gone == {c \in Conns : cs[c].st = "gone"}
FreshConn == [st |-> "none", bad |-> "ok", tx |-> FALSE, ac0 |-> FALSE]
NoMap == [s \in Slices |-> NoConn]
NoFault == [op |-> "none", sl |-> 0, kind |-> "none"]
NoLast == [k |-> "none", sl |-> {}, kind |-> "none", first |-> 0, fl |-> NoFault, mid |-> FALSE,
           wasTx |-> FALSE, wasStale |-> FALSE, pre |-> NoMap]

TypeOK ==
    /\ KS \in BOOLEAN /\ User \in {"rw", "rws", "ro"}
    /\ DOMAIN cs = Conns
    /\ \A c \in Conns : /\ cs[c].st \in {"none", "pool", "held", "gone"}
                        /\ cs[c].bad \in {"ok", "broken", "closed"}
                        /\ cs[c].tx \in BOOLEAN /\ cs[c].ac0 \in BOOLEAN
    /\ ac \in BOOLEAN /\ intx \in BOOLEAN /\ alive \in BOOLEAN /\ stale \in BOOLEAN
    /\ DOMAIN tx = Slices /\ DOMAIN ks = Slices
    /\ \A s \in Slices : tx[s] \in Conns \cup {NoConn} /\ ks[s] \in Conns \cup {NoConn}
    /\ phase \in {"idle", "busy"} /\ sps \in {0, 1}
    /\ reply \in {"ok", "err", "none"}

Init ==
    /\ KS \in KSModes /\ User \in Users
    /\ cs = [c \in Conns |-> FreshConn]
    /\ ac = TRUE /\ intx = FALSE
    /\ tx = NoMap /\ ks = NoMap
    /\ alive = TRUE /\ sps = 0 /\ stale = FALSE /\ phase = "idle"
    /\ last = NoLast /\ used = {} /\ ended = {} /\ reply = "none"
    /\ nc = 0 /\ nf = 0 /\ nn = 0

-----------------------------------------------------------------------------------
(* P-level properties.  All of them are evaluated at command boundaries (phase = "idle");   *)
(* the event level adds guards on single events.                                            *)

Idle == phase = "idle"

(* ---- C18: a transaction stays on one master connection per slice ---------------------- *)

(* Every statement sent while the session was in a transaction went to the transaction's    *)
(* connection of that slice, which is a master connection.  (Keep-session sessions are       *)
(* pinned by C23; for them C18 asks for the master role only - except for a read-only user,  *)
(* whom getBackendKsConn pins to a replica by design: such a user cannot write, and C18's     *)
(* master clause is not applied to it; see level_note of the checks.)                        *)
C18_TxStatementOnTxMaster ==
    Idle => \A u \in used : u[3] =>
               (/\ (RoleOf(u[2]) = M \/ (KS /\ User = "ro"))
                /\ (~KS /\ last.pre[u[1]] # NoConn) => u[2] = last.pre[u[1]])

(* ... the same connection for all statements of one command on one slice *)
C18_OneConnPerSlice ==
    Idle => \A u, v \in used : (u[3] /\ v[3] /\ u[1] = v[1]) => u[2] = v[2]

(* COMMIT and ROLLBACK reach exactly the connections of the transaction *)
C18_EndReachesExactlyTx ==
    (Idle /\ last.k \in {"commit", "rollback"} /\ ~KS) =>
               /\ ended \subseteq Rng(last.pre)
               /\ \A c \in Rng(last.pre) : cs[c].st # "gone" => c \in ended

(* SAVEPOINT / ROLLBACK TO / RELEASE go to exactly the connections of the transaction and take or release nothing *)
C18_SavepointOnTxOnly ==
    (Idle /\ last.k = "savepoint" /\ ~KS) =>
               /\ {u[2] : u \in used} = Rng(last.pre)
               /\ tx = last.pre
               /\ Held = Rng(last.pre)

(* ... after which those connections are released *)
C18_ReleasedAfterEnd ==
    (Idle /\ last.k \in {"commit", "rollback", "setac1"} /\ ~KS) =>
               /\ Rng(last.pre) \cap Held = {}
               /\ tx = NoMap

(* ---- C19: returned exactly once, never leaked ------------------------------------------ *)

(* What the session still needs: the connections of its open transaction and its pinned      *)
(* keep-session connections.  Anything else it holds at a command boundary can never be      *)
(* returned any more (nothing refers to it): a leak.                                         *)
C19_NoLeak == Idle => Held \subseteq (Rng(tx) \cup Rng(ks))

(* A connection the session refers to is one it holds (otherwise it was returned while still *)
(* referenced: the next use runs on a connection somebody else may own, the next release is  *)
(* a second return).                                                                         *)
C19_NoDangling == Idle => (Rng(tx) \cup Rng(ks)) \subseteq Held

(* without keep-session and outside a transaction the session needs nothing *)
C19_NothingHeldOutsideTx == (Idle /\ ~KS /\ ~InTx) => Held = {}

(* a live connection is never put back into its pool with a backend transaction open *)
C19_NoOpenTxInPool == \A c \in Conns : cs[c].st = "pool" => ~cs[c].tx

(* session end: nothing held *)
C19_EndClean == (Idle /\ ~alive) => (Held = {} /\ tx = NoMap /\ ks = NoMap)

(* ---- C23: keep-session clients stay pinned --------------------------------------------- *)

(* every statement runs on the pinned connection of its slice (pinned before the command, or *)
(* pinned by it) *)
C23_Pinned ==
    (Idle /\ KS) => \A u \in used :
               /\ (last.pre[u[1]] # NoConn /\ ~last.wasStale) => u[2] = last.pre[u[1]]
               /\ \A v \in used : u[1] = v[1] => u[2] = v[2]

(* the pinned connections are master connections unless the user is read-only *)
C23_PinnedRole == KS => \A s \in Slices : ks[s] # NoConn => (RoleOf(ks[s]) = M \/ User = "ro")

(* after a configuration change: outside a transaction the old pinned connections are        *)
(* dropped by the next command; inside a transaction the client gets an error and is         *)
(* disconnected *)
C23_NsChange ==
    (Idle /\ KS /\ last.wasStale /\ last.k # "nschange") =>
               IF last.wasTx THEN ~alive /\ (last.k # "disconnect" => reply = "err")
               ELSE Rng(last.pre) \cap Held = {}

(* the proxy ends a session only on COM_QUIT, when the client is gone, when it refuses a      *)
(* keep-session transaction after a configuration change, or after a failed keep-session ping *)
(* (ErrBadConn)                                                                               *)
C23_NoSpuriousClose ==
    (Idle /\ ~alive /\ last.k \notin {"quit", "disconnect"}) =>
        (KS /\ ((last.wasStale /\ last.wasTx) \/ (last.k = "ping" /\ reply = "err")))

(* no keep-session bookkeeping without keep-session, no transaction map with it *)
ModeSeparation == (KS => tx = NoMap) /\ (~KS => ks = NoMap)

-----------------------------------------------------------------------------------
(* Command level.  A world record carries the part of the state a command changes.          *)

FaultOps == {"get", "sync", "begin", "setac", "init", "exec", "commit", "rollback", "ping"}
Faults == {[op |-> "exec", sl |-> s, kind |-> k] : s \in Slices, k \in {"err", "broken", "closed"}}
          \cup {[op |-> o, sl |-> s, kind |-> "broken"] : o \in FaultOps \ {"exec", "get"}, s \in Slices}
          \cup {[op |-> "get", sl |-> s, kind |-> "err"] : s \in Slices}

World(f, m) == [cs |-> cs, ac |-> ac, intx |-> intx, tx |-> tx, ks |-> ks, alive |-> alive, sps |-> sps,
             fl |-> f, mid |-> m, fired |-> FALSE, used |-> {}, ended |-> {}, err |-> FALSE, over |-> FALSE]

WInTx(w) == w.intx \/ ~w.ac
Fire(w, op, sl) == w.fl.op = op /\ w.fl.sl = sl
Consume(w) == [w EXCEPT !.fl = NoFault, !.fired = TRUE]
SetErr(w) == [w EXCEPT !.err = TRUE]

MinOf(S) == CHOOSE x \in S : \A y \in S : x <= y

(* The fake pool's policy (the harness implements the same): lowest idle connection, else    *)
(* the next new one.  A connection taken from the pool is reset by the pool.                 *)
PoolGet(w, sl, ro) ==
    LET idle == {c \in PoolConns(sl, ro) : w.cs[c].st = "pool"}
        new  == {c \in PoolConns(sl, ro) : w.cs[c].st = "none"}
    IN IF Fire(w, "get", sl) THEN [w |-> Consume(w), c |-> NoConn]
       ELSE IF idle # {} THEN
            LET c == MinOf(idle) IN
            [w |-> [w EXCEPT !.cs[c] = [st |-> "held", bad |-> "ok", tx |-> FALSE, ac0 |-> FALSE]], c |-> c]
       ELSE IF new # {} THEN
            LET c == MinOf(new) IN
            [w |-> [w EXCEPT !.cs[c] = [st |-> "held", bad |-> "ok", tx |-> FALSE, ac0 |-> FALSE]], c |-> c]
       ELSE [w |-> [w EXCEPT !.over = TRUE], c |-> NoConn]

(* replica first, master when the replica pool fails (Slice.handleSlaveWithFallback) *)
PoolGetRole(w, sl, fromSlave) ==
    IF fromSlave
    THEN LET g == PoolGet(w, sl, R) IN IF g.c # NoConn \/ g.w.over THEN g ELSE PoolGet(g.w, sl, M)
    ELSE PoolGet(w, sl, M)

(* One backend operation on connection c.  Returns [w, ok]. *)
Effect(op, conn) ==
    CASE op = "begin"    -> [conn EXCEPT !.tx = TRUE]
      [] op = "commit"   -> [conn EXCEPT !.tx = FALSE]
      [] op = "rollback" -> [conn EXCEPT !.tx = FALSE]
      [] op = "setac0"   -> [conn EXCEPT !.ac0 = TRUE]
      [] op = "setac1"   -> [conn EXCEPT !.ac0 = FALSE, !.tx = FALSE]
      [] op = "exec"     -> [conn EXCEPT !.tx = @ \/ conn.ac0]
      [] OTHER           -> conn
FaultOpOf(op) == IF op \in {"setac0", "setac1"} THEN "setac" ELSE op
Damage(kind, op, conn) ==
    CASE kind = "broken" -> [conn EXCEPT !.bad = "broken", !.tx = FALSE]
      [] kind = "closed" -> [conn EXCEPT !.bad = "closed", !.tx = FALSE]
      [] OTHER           -> IF op \in {"commit", "rollback"} THEN [conn EXCEPT !.tx = FALSE] ELSE conn

Op(w0, op, c) ==
    LET w == IF op = "exec" THEN [w0 EXCEPT !.used = @ \cup {<<SliceOf(c), c, WInTx(w0)>>}]
             ELSE IF op \in {"commit", "rollback", "setac1"} THEN [w0 EXCEPT !.ended = @ \cup {c}]
             ELSE w0
    IN IF w.cs[c].bad # "ok" THEN [w |-> w, ok |-> FALSE]
       ELSE IF Fire(w, FaultOpOf(op), SliceOf(c))
            THEN [w |-> [Consume(w) EXCEPT !.cs[c] = Damage(w.fl.kind, op, w.cs[c])], ok |-> FALSE]
       ELSE [w |-> [w EXCEPT !.cs[c] = Effect(op, w.cs[c])], ok |-> TRUE]

CloseConn(w, c) == [w EXCEPT !.cs[c].bad = "closed", !.cs[c].tx = FALSE]
PutConn(w, c) == [w EXCEPT !.cs[c].st = IF w.cs[c].bad = "ok" THEN "pool" ELSE "gone"]
ClosePut(w, c) == PutConn(CloseConn(w, c), c)

(* apply F(w, s) for the slices of S in ascending order (two slices) *)
Over2(F(_, _), w, S) ==
    LET w1 == IF 0 \in S THEN F(w, 0) ELSE w IN IF 1 \in S THEN F(w1, 1) ELSE w1
Dom(f) == {s \in Slices : f[s] # NoConn}

(* ---- obtaining a connection (getBackendConn) *)
FailGot(w, c) == [w |-> ClosePut(w, c), c |-> NoConn]

GetTxConn(w, sl) ==                                   \* getTransactionConn
    IF w.tx[sl] # NoConn THEN [w |-> w, c |-> w.tx[sl]]
    ELSE LET g == PoolGet(w, sl, M) IN
         IF g.c = NoConn THEN g
         ELSE LET s1 == Op(g.w, "sync", g.c) IN
              IF ~s1.ok THEN FailGot(s1.w, g.c)
              ELSE LET s2 == IF s1.w.ac THEN Op(s1.w, "begin", g.c) ELSE Op(s1.w, "setac0", g.c) IN
                   IF ~s2.ok THEN FailGot(s2.w, g.c)
                   ELSE \* the recorded savepoints are replayed on the new connection; the outcome is ignored
                        LET s3 == IF s2.w.sps = 1 THEN Op(s2.w, "exec", g.c).w ELSE s2.w IN
                        [w |-> [s3 EXCEPT !.tx[sl] = g.c], c |-> g.c]

GetKsConn(w, sl) ==                                   \* getBackendKsConn
    IF w.ks[sl] # NoConn THEN [w |-> w, c |-> w.ks[sl]]
    ELSE LET g == PoolGetRole(w, sl, User = "ro") IN
         IF g.c = NoConn THEN g
         ELSE LET s1 == IF ~g.w.ac THEN Op(g.w, "setac0", g.c) ELSE [w |-> g.w, ok |-> TRUE] IN
              IF ~s1.ok THEN FailGot(s1.w, g.c)
              ELSE LET s2 == IF WInTx(s1.w) THEN Op(s1.w, "begin", g.c) ELSE [w |-> s1.w, ok |-> TRUE] IN
                   IF ~s2.ok THEN FailGot(s2.w, g.c)
                   ELSE [w |-> [s2.w EXCEPT !.ks[sl] = g.c], c |-> g.c]

GetConn(w, sl, fromSlave) ==
    IF KS THEN GetKsConn(w, sl)
    ELSE IF WInTx(w) THEN GetTxConn(w, sl)
    ELSE PoolGetRole(w, sl, fromSlave)

(* ---- running one statement on a connection (initBackendConn + Execute) *)
RunStmt(w, c) ==
    LET i == Op(w, "init", c) IN
    IF ~i.ok THEN SetErr(i.w)
    ELSE LET e == Op(i.w, "exec", c) IN IF e.ok THEN e.w ELSE SetErr(e.w)

(* abandon the whole transaction: every transaction connection is rolled back (when it is    *)
(* still usable) and returned, the map is emptied.  [repaired recycleTx] *)
AbortTx(w) ==
    LET one(v, s) == IF v.tx[s] = NoConn THEN v
                     ELSE IF v.cs[v.tx[s]].bad = "closed" THEN PutConn(v, v.tx[s])
                     ELSE PutConn(Op(v, "rollback", v.tx[s]).w, v.tx[s])
    IN [Over2(one, w, Slices) EXCEPT !.tx = NoMap]

(* ---- keep-session housekeeping *)
DropKs(w) ==                                          \* handleKsQuit / clearKsConns: close, return, forget
    LET k(v, s) == IF v.ks[s] = NoConn THEN v ELSE ClosePut(v, v.ks[s])
    IN [Over2(k, w, Slices) EXCEPT !.ks = NoMap]

(* recycleBackendConn after an unsharded statement *)
RecycleOne(w, c) ==
    IF w.cs[c].bad = "closed"
    THEN IF KS THEN PutConn([w EXCEPT !.ks[SliceOf(c)] = NoConn], c)      \* [repaired: unpin the dead connection]
         ELSE IF WInTx(w) THEN AbortTx(w)                                  \* [repaired: the others are returned too]
         ELSE PutConn(w, c)
    ELSE IF KS THEN (IF (stale \/ w.mid) /\ ~WInTx(w) THEN DropKs(w) ELSE w)   \* clearKsConns(nsChangeIndexOld) after the statement
    ELSE IF WInTx(w) THEN w
    ELSE PutConn(w, c)

FromSlave(kind) == CASE User = "ro"  -> TRUE
                     [] User = "rws" -> kind \in {"read", "stream"}
                     [] OTHER        -> FALSE

ExecUnshard(w, kind) ==                               \* ExecuteSQL on the default slice
    IF User = "ro" /\ kind = "write" THEN SetErr(w)
    ELSE LET g == GetConn(w, 0, FromSlave(kind)) IN
         IF g.c = NoConn THEN SetErr(g.w)
         ELSE RecycleOne(RunStmt(g.w, g.c), g.c)

(* ExecuteSQLs: one connection per slice first (in the order the Go map yields: `first`),    *)
(* then the statements; outside a transaction / keep-session everything taken is returned.   *)
ExecShard(w, S, kind, first) ==
    IF User = "ro" /\ kind = "write" THEN SetErr(w)
    ELSE
    LET ord == IF first \in S /\ Cardinality(S) = 2 THEN <<first, 1 - first>>
               ELSE IF Cardinality(S) = 2 THEN <<0, 1>> ELSE <<CHOOSE s \in S : TRUE>>
        acq(a, s) == IF a.failed THEN a
                     ELSE LET g == GetConn(a.w, s, FromSlave(kind)) IN
                          IF g.c = NoConn THEN [w |-> g.w, got |-> a.got, failed |-> TRUE]
                          ELSE [w |-> g.w, got |-> a.got \cup {g.c}, failed |-> FALSE]
        a0 == [w |-> w, got |-> {}, failed |-> FALSE]
        a1 == acq(a0, ord[1])
        a2 == IF Len(ord) = 2 THEN acq(a1, ord[2]) ELSE a1
        keep == KS \/ WInTx(w)
        putAll(v, got) ==
            LET p(x, s) == LET cc == {c \in got : SliceOf(c) = s} IN
                           IF cc = {} THEN x ELSE PutConn(x, CHOOSE c \in cc : TRUE)
            IN Over2(p, v, Slices)
        run(v, s) == LET cc == {c \in a2.got : SliceOf(c) = s} IN
                     IF cc = {} THEN v ELSE RunStmt(v, CHOOSE c \in cc : TRUE)
    IN IF a2.failed THEN SetErr(IF keep THEN a2.w ELSE putAll(a2.w, a2.got))
       ELSE LET r == Over2(run, a2.w, Slices) IN IF keep THEN r ELSE putAll(r, a2.got)

(* ---- transaction control *)
CmdBegin(w) ==                                        \* handleBegin
    LET one(v, c) == IF v.err \/ c = NoConn THEN v
                     ELSE LET b == Op(v, "begin", c) IN IF b.ok THEN b.w ELSE SetErr(b.w)
        t(v, s) == one(v, v.tx[s])
        k(v, s) == one(v, v.ks[s])
        r == Over2(k, Over2(t, w, Slices), Slices)
    IN IF r.err THEN r ELSE [r EXCEPT !.intx = TRUE, !.sps = 0]

EndTx(w, op) ==                                       \* commit / rollback / set autocommit=1
    \* rollback() skips closed connections [repaired: a closed transaction connection is still returned]
    LET skip(v, c) == op = "rollback" /\ v.cs[c].bad = "closed"
        t(v, s) == IF v.tx[s] = NoConn THEN v
                   ELSE IF skip(v, v.tx[s]) THEN PutConn(v, v.tx[s])
                   ELSE LET o == Op(v, op, v.tx[s]) IN
                        PutConn(IF o.ok THEN o.w ELSE SetErr(o.w), v.tx[s])
        k(v, s) == IF v.ks[s] = NoConn \/ skip(v, v.ks[s]) THEN v
                   ELSE LET o == Op(v, op, v.ks[s]) IN IF o.ok THEN o.w ELSE SetErr(o.w)
        r == Over2(k, Over2(t, [w EXCEPT !.intx = FALSE], Slices), Slices)
    IN [r EXCEPT !.tx = NoMap, !.sps = IF op = "setac1" THEN @ ELSE 0]     \* handleSetAutoCommit keeps the savepoint list

(* SAVEPOINT sp / ROLLBACK TO sp / RELEASE SAVEPOINT sp (handleSavepoint, rollbackSavepoint): the statement goes to  *)
(* every connection of the open transaction (ROLLBACK TO also to the pinned ones); nothing is taken or returned.   *)
(* The list of recorded savepoints follows the code as written: SAVEPOINT records the name, ROLLBACK TO forgets it, *)
(* RELEASE keeps it (one name is modelled).  The reply is the outcome on the connection visited last; the action     *)
(* below is only enabled when every connection involved is usable, so the outcome does not depend on the map order. *)
CmdSavepoint(w, kind) ==
    LET t(v, s) == IF v.tx[s] = NoConn THEN v ELSE Op(v, "exec", v.tx[s]).w
        k(v, s) == IF v.ks[s] = NoConn \/ kind # "rollbackto" THEN v ELSE Op(v, "exec", v.ks[s]).w
        r == Over2(k, Over2(t, w, Slices), Slices)
    IN IF ~WInTx(r) THEN r
       ELSE [r EXCEPT !.sps = CASE kind = "sp" -> 1 [] kind = "rollbackto" -> 0 [] OTHER -> @]

CmdSetAc1(w) == EndTx([w EXCEPT !.ac = TRUE], "setac1")       \* handleSetAutoCommit(true)

CmdSetAc0(w) ==                                       \* handleSetAutoCommit(false)
    LET k(v, s) == IF v.ks[s] = NoConn THEN v
                   ELSE LET o == Op(v, "setac0", v.ks[s]) IN IF o.ok THEN o.w ELSE SetErr(o.w)
    IN [Over2(k, w, Slices) EXCEPT !.ac = FALSE]

CloseSession(w) ==                                    \* Session.Close: rollback(), handleKsQuit()
    [DropKs(EndTx(w, "rollback")) EXCEPT !.alive = FALSE]


(* ---- keep-session ping *)
CmdPing(w) ==                                         \* handleKeepSessionPing
    \* [repaired: on a failed ping every pinned connection is closed, returned and forgotten, as   ]
    \* [handleKsQuit / clearKsConns do; the code returns them alive outside a transaction, keeps   ]
    \* [the map, and Session.Close then closes and returns them a second time                      ]
    IF ~KS THEN w
    ELSE LET p(v, s) == IF v.err \/ v.ks[s] = NoConn THEN v
                        ELSE LET o == Op(v, "ping", v.ks[s]) IN
                             IF o.ok THEN o.w ELSE SetErr(CloseConn(o.w, v.ks[s]))
             r == Over2(p, w, Slices)
         IN IF r.err THEN CloseSession(DropKs(r)) ELSE r       \* ErrBadConn closes the session

-----------------------------------------------------------------------------------
(* One command = one step.  `body` is the command proper; the session loop (Session.Run)     *)
(* wraps it: refresh the namespace, drop pinned connections after a configuration change     *)
(* outside a transaction, refuse and disconnect inside one.                                  *)

Commit(w, k, S, kind, first, f, wasTx) ==
    /\ Assert(~w.over, "MaxPerPool is too small for this behaviour")
    /\ (w.mid => w.used # {})             \* the reload is triggered by the command's first statement on a backend
    /\ w.fl = NoFault                               \* an armed fault must have fired (no silent no-op faults)
    /\ cs' = w.cs /\ ac' = w.ac /\ intx' = w.intx /\ tx' = w.tx /\ ks' = w.ks /\ alive' = w.alive /\ sps' = w.sps
    /\ used' = w.used /\ ended' = w.ended
    /\ reply' = IF k = "disconnect" THEN "none" ELSE IF w.err THEN "err" ELSE "ok"
    /\ last' = [k |-> k, sl |-> S, kind |-> kind, first |-> first, fl |-> f, mid |-> w.mid,
                wasTx |-> wasTx, wasStale |-> stale, pre |-> IF KS THEN ks ELSE tx]
    /\ stale' = w.mid                     \* a reload during the command is noticed by the next one
    /\ nc' = nc + 1
    /\ nf' = IF w.fired THEN nf + 1 ELSE nf
    /\ nn' = IF w.mid THEN nn + 1 ELSE nn
    /\ UNCHANGED <<KS, User, phase>>

(* loop head of Session.Run applied to world w; returns [w, refused] *)
LoopHead(w) ==
    IF KS /\ stale /\ ~WInTx(w) THEN [w |-> DropKs(w), refused |-> FALSE]
    ELSE IF KS /\ stale /\ WInTx(w) THEN [w |-> SetErr(w), refused |-> TRUE]
    ELSE [w |-> w, refused |-> FALSE]

Body(w, k, S, kind, first) ==
    CASE k = "begin"     -> CmdBegin(w)
      [] k = "commit"    -> EndTx(w, "commit")
      [] k = "rollback"  -> EndTx(w, "rollback")
      [] k = "setac0"    -> CmdSetAc0(w)
      [] k = "setac1"    -> CmdSetAc1(w)
      [] k = "unshard"   -> ExecUnshard(w, kind)
      [] k = "shard"     -> ExecShard(w, S, kind, first)
      [] k = "ping"      -> CmdPing(w)
      [] k = "savepoint" -> CmdSavepoint(w, kind)
      [] k = "quit"      -> [CloseSession(EndTx(w, "rollback")) EXCEPT !.err = FALSE]   \* COM_QUIT has no reply
      [] OTHER           -> w

(* mid: the namespace is reloaded while the command executes (the reload commits during the   *)
(* command's first backend statement).  The command itself still runs with the namespace it    *)
(* started with; clearKsConns after an unsharded statement already sees the new generation;    *)
(* the next command must notice the change.  Only generated for keep-session sessions, the     *)
(* only ones a namespace change matters to.                                                     *)
Command(k, S, kind, first, f, mid) ==
    /\ alive /\ nc < MaxCmds
    /\ f # NoFault => nf < MaxFaults
    /\ mid => (KS /\ nn < MaxNs /\ k \in {"unshard", "shard"})
    /\ LET h == LoopHead(World(f, mid))
           r == IF h.refused THEN CloseSession(h.w) ELSE Body(h.w, k, S, kind, first)
       IN Commit(r, k, S, kind, first, f, InTx)

Disconnect ==                                         \* read error: clearKsConns, Close
    /\ alive /\ nc < MaxCmds
    /\ LET h == LoopHead(World(NoFault, FALSE))
       IN Commit(CloseSession([h.w EXCEPT !.err = FALSE]), "disconnect", {}, "none", 0, NoFault, InTx)

NsChange ==                                           \* the namespace is reloaded (environment)
    /\ alive /\ nn < MaxNs /\ nc < MaxCmds /\ ~stale
    /\ stale' = TRUE
    /\ nn' = nn + 1 /\ nc' = nc + 1
    /\ last' = [NoLast EXCEPT !.k = "nschange", !.wasTx = InTx, !.pre = IF KS THEN ks ELSE tx]
    /\ used' = {} /\ ended' = {} /\ reply' = "none"
    /\ UNCHANGED <<KS, User, cs, ac, intx, tx, ks, alive, sps, phase, nf>>

(* Faults that can fire at all in a command (a fault that does not fire is not a different   *)
(* behaviour): the operation must be one the command path issues, on a slice it addresses.   *)
FaultsFor(ops, S) == {NoFault} \cup {f \in Faults : f.op \in ops /\ f.op \in FOps /\ f.sl \in S}
StmtOps == {"get", "sync", "begin", "setac", "init", "exec"}
SliceSets == {{0}, {1}, {0, 1}}

Begin(f)            == Command("begin", {}, "none", 0, f, FALSE)
CommitCmd(f)        == Command("commit", {}, "none", 0, f, FALSE)
Rollback(f)         == Command("rollback", {}, "none", 0, f, FALSE)
SetAutocommit0(f)   == Command("setac0", {}, "none", 0, f, FALSE)
SetAutocommit1(f)   == Command("setac1", {}, "none", 0, f, FALSE)
Unsharded(kind, f, mid) == Command("unshard", {0}, kind, 0, f, mid)
(* The slice visited first matters only when acquiring a connection fails half way while the  *)
(* session keeps what it already took (transaction / keep-session); otherwise first = 0.      *)
ShardOutcome(S, kind, first, f) ==
    LET h == LoopHead(World(f, FALSE)) r == IF h.refused THEN h.w ELSE Body(h.w, "shard", S, kind, first)
    IN <<r.cs, r.tx, r.ks, r.err, r.fired>>
OrderMatters(S, kind, f) ==
    /\ Cardinality(S) = 2 /\ f.op \in {"get", "sync", "begin", "setac"} /\ (KS \/ InTx)
    /\ ShardOutcome(S, kind, 0, f) # ShardOutcome(S, kind, 1, f)
Sharded(S, kind, first, f, mid) == /\ alive /\ nc < MaxCmds
                                   /\ (first = 1 => OrderMatters(S, kind, f))
                                   /\ Command("shard", S, kind, first, f, mid)

(* statement kinds that differ for the user: a user without read/write splitting sends        *)
(* everything to the master; only a read-only user distinguishes a locking read from a write. *)
StmtKinds == CASE User = "rw" -> {"write"} [] User = "rws" -> {"read", "write"} [] OTHER -> {"read", "write", "lockread"}
ShardKinds == StmtKinds \ {"lockread"}
(* "stream": an unsharded read whose result is streamed to the client in several chunks: the     *)
(* connection stays with the session (Session.continueConn) until the response is written and is *)
(* then released by recycleContinueConn under the same rules as after any other statement.       *)
UnshardKinds == StmtKinds \cup {"stream"}
Ping(f)             == Command("ping", {}, "none", 0, f, FALSE)
Quit(f)             == Command("quit", {}, "none", 0, f, FALSE)

(* savepoint statements: sessions without keep-session only (with it SAVEPOINT / RELEASE never reach the pinned   *)
(* connections - outside this model, DESIGN 10.7), fault-free, every transaction connection usable                 *)
SavepointKinds == {"sp", "rollbackto", "release"}
Savepoint(kind)     == /\ ~KS /\ \A s \in Slices : tx[s] # NoConn => cs[tx[s]].bad = "ok"
                       /\ Command("savepoint", {}, kind, 0, NoFault, FALSE)

Ending == Disconnect \/ \E f \in FaultsFor({"rollback"}, Slices) : Quit(f)

Next ==
    \/ \E f \in FaultsFor({"begin"}, Slices) : Begin(f)
    \/ \E f \in FaultsFor({"commit"}, Slices) : CommitCmd(f)
    \/ \E f \in FaultsFor({"rollback"}, Slices) : Rollback(f)
    \/ \E f \in FaultsFor({"setac"}, Slices) : SetAutocommit0(f)
    \/ \E f \in FaultsFor({"setac"}, Slices) : SetAutocommit1(f)
    \/ \E kind \in UnshardKinds, f \in FaultsFor(StmtOps, {0}), mid \in BOOLEAN : Unsharded(kind, f, mid)
    \/ \E S \in SliceSets, kind \in ShardKinds, first \in Slices :
          \E f \in FaultsFor(StmtOps, S), mid \in BOOLEAN : Sharded(S, kind, first, f, mid)
    \/ \E f \in FaultsFor({"ping"}, Slices) : Ping(f)
    \/ \E kind \in SavepointKinds : Savepoint(kind)
    \/ \E f \in FaultsFor({"rollback"}, Slices) : Quit(f)
    \/ Disconnect
    \/ NsChange

Spec == Init /\ [][Next]_vars

(* the view hides the observation variables and the counters that do not bound anything *)
View == <<KS, User, cs, ac, intx, tx, ks, alive, sps, stale, nc, nf, nn>>
===================================================================================
