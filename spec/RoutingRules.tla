----------------------------- MODULE RoutingRules -----------------------------
(* Catalogue of rule instances used by the routing checks (C01, C03).  A rule instance is     *)
(* data: type, tables per slice (locs), table_row_limit, calendar spans per slice.            *)
EXTENDS Integers, Sequences

Rule(id, type, locs, limit, spans, desc) ==
  [id |-> id, type |-> type, locs |-> locs, limit |-> limit, spans |-> spans, desc |-> desc]

HashA  == Rule("hash-a", "hash", <<2, 1>>, 0, <<>>, FALSE)
HashB  == Rule("hash-b", "hash", <<1, 1, 2>>, 0, <<>>, FALSE)
ModA   == Rule("mod-a", "mod", <<1, 2>>, 0, <<>>, FALSE)
ModB   == Rule("mod-b", "mod", <<4>>, 0, <<>>, FALSE)
RangeA == Rule("range-a", "range", <<2, 1>>, 4, <<>>, FALSE)
RangeB == Rule("range-b", "range", <<1, 1, 1, 1>>, 3, <<>>, FALSE)
\* years: three consecutive years on two slices; a layout with an unconfigured year in between
YearA  == Rule("year-a", "date_year", <<>>, 0, << <<2016, 2017>>, <<2018, 2018>> >>, FALSE)
YearB  == Rule("year-b", "date_year", <<>>, 0, << <<2016, 2016>>, <<2018, 2019>> >>, FALSE)
\* months: a span crossing a year end (28-day February); a descending span with a leap February
MonthA == Rule("month-a", "date_month", <<>>, 0, << <<201611, 201612>>, <<201701, 201702>> >>, FALSE)
MonthB == Rule("month-b", "date_month", <<>>, 0, << <<201912, 202002>>, <<202003, 202003>> >>, TRUE)
\* days: a span crossing a year end; a span over a leap day on one slice
DayA   == Rule("day-a", "date_day", <<>>, 0, << <<20161230, 20161231>>, <<20170101, 20170102>> >>, FALSE)
DayB   == Rule("day-b", "date_day", <<>>, 0, << <<20200228, 20200301>> >>, FALSE)

QuickRules    == <<HashA, ModA, RangeA, YearA, MonthA, DayA>>
\* C03 quick: the quick catalogue plus layouts with an unconfigured period between configured ones
MonthGap == Rule("month-gap", "date_month", <<>>, 0, << <<201611, 201611>>, <<201701, 201702>> >>, FALSE)
DayGap   == Rule("day-gap", "date_day", <<>>, 0, << <<20161230, 20161230>>, <<20170101, 20170102>> >>, FALSE)
InsQuickRules    == <<HashA, ModA, RangeA, YearA, YearB, MonthA, MonthGap, DayA>>
InsThoroughRules == <<HashA, HashB, ModA, ModB, RangeA, RangeB, YearA, YearB, MonthA, MonthB, MonthGap, DayA, DayB, DayGap>>
ThoroughRules == <<HashA, HashB, ModA, ModB, RangeA, RangeB, YearA, YearB, MonthA, MonthB, DayA, DayB>>
\* families for the design-level check of the pruning algebra as written
PlainRules    == <<HashA, HashB, ModA, ModB>>
OrderedRules  == <<RangeA, RangeB, YearA, YearB, MonthA, MonthB, DayA, DayB>>

(* global-table layouts (C04): ns namespace slices; rs = the rule's slice list as positions   *)
(* in the namespace list; locs = copies per rule slice; dbs = physical database list          *)
Layout(id, ns, rs, locs, dbs) == [id |-> id, ns |-> ns, rs |-> rs, locs |-> locs, dbs |-> dbs]
G1 == Layout("g1-one", 1, <<1>>, <<1>>, "implicit")
G2 == Layout("g2-two-slices", 2, <<1, 2>>, <<1, 1>>, "implicit")
G3 == Layout("g3-explicit-2x2", 2, <<1, 2>>, <<2, 2>>, "explicit")
G4 == Layout("g4-implicit-2x2", 2, <<1, 2>>, <<2, 2>>, "implicit")     \* the documentation's kingshard example
G5 == Layout("g5-explicit-121", 3, <<1, 2, 3>>, <<1, 2, 1>>, "explicit")
G6 == Layout("g6-subset-slices", 3, <<2, 3>>, <<1, 1>>, "implicit")
G7 == Layout("g7-three-slices", 3, <<1, 2, 3>>, <<1, 1, 1>>, "implicit")
G8 == Layout("g8-reordered-slices", 2, <<2, 1>>, <<1, 1>>, "explicit")
G9 == Layout("g9-explicit-one-slice", 1, <<1>>, <<2>>, "explicit")
QuickLayouts    == <<G1, G2, G3, G4, G6>>
ThoroughLayouts == <<G1, G2, G3, G4, G5, G6, G7, G8, G9>>
=============================================================================
