---------------------------------- MODULE Auth ----------------------------------
(* Who may talk to a namespace of XiaoMi/Gaea.                                            *)
(*                                                                                        *)
(*  Part 1  the password check of the client handshake (property C30):                    *)
(*          mysql/util.go (CalcPassword, CheckHashPassword, CalcCachingSha2Password),      *)
(*          proxy/server/manager.go (UserManager.CheckXxx), session.go                     *)
(*          (handleHandshakeResponse's choice of the check).                               *)
(*  Part 2  the client address allow-list (property C35): util/ip.go,                      *)
(*          proxy/server/namespace.go (parseAllowIps, IsClientIPAllowed).                  *)
(*                                                                                        *)
(* The one-way functions are abstract: a proof is a token naming the function, the salt,   *)
(* the password and what was done to the bytes afterwards.  Tokens are equal only when     *)
(* all components are equal (no collisions, modified bytes never form another proof); the *)
(* conformance harness instantiates them with crypto/sha1 and crypto/sha256.               *)
EXTENDS Integers, Sequences, FiniteSets

-----------------------------------------------------------------------------------
(* Part 1.  Passwords are strings: "" is the empty password, "p.." a configured clear     *)
(* text, and "*p" stands for the 41-character text '*' + HEX(SHA1(SHA1(p))) used AS IF it   *)
(* were a password (somebody who read the configuration).  "s:short", "s:long", "s:nonhex" *)
(* are CLEAR-TEXT passwords that merely look like the hash form: '*' followed by fewer     *)
(* than 40, more than 40, or 40 not-all-hexadecimal characters; only '*' + 40 hexadecimal  *)
(* digits is a SHA1 hash, so these are verified like any other clear text.                 *)

Methods == {"native", "sha2"}
Mods    == {"none", "bitflip", "trunc", "ext21", "extnul", "ext32"}   \* extnul: one 0x00 byte appended

(* the empty response: what both protocols send for the empty password, independent of the salt *)
Empty == [m |-> "empty", salt |-> "", pw |-> "", mod |-> "none"]
Tok(m, salt, pw, mod) == IF pw = "" /\ mod = "none" THEN Empty ELSE [m |-> m, salt |-> salt, pw |-> pw, mod |-> mod]
Native(salt, pw) == Tok("native", salt, pw, "none")     \* SHA1(pw) XOR SHA1(salt ++ SHA1(SHA1(pw))), 20 bytes
Sha2(salt, pw)   == Tok("sha2", salt, pw, "none")       \* SHA256(pw) XOR SHA256(SHA256(SHA256(pw)) ++ salt), 32 bytes

(* a stored credential: the clear text, or the '*'-hash SHA1(SHA1(pw)) of it *)
Clear(p)  == [form |-> "clear", pw |-> p]
Hashed(p) == [form |-> "hash", pw |-> p]

(* which method the response has to be a proof for, given the plugin field the check sees: *)
(* "" = the client did not go through an auth switch: either protocol                       *)
MethodsOf(plugin) == IF plugin = "mysql_native_password" THEN {"native"}
                     ELSE IF plugin = "caching_sha2_password" THEN {"sha2"}
                     ELSE Methods

(* a server holding only SHA1(SHA1(pw)) can verify a native proof, not a sha2 proof *)
Verifiable(st, m) == st.form = "clear" \/ m = "native"
Proof(m, salt, pw) == IF m = "native" THEN Native(salt, pw) ELSE Sha2(salt, pw)

(* MySQL's rule: the response is the proof, for this connection's salt, of a password configured for the user *)
Accept(stored, plugin, salt, r) ==
    \E i \in 1..Len(stored) : \E m \in MethodsOf(plugin) :
        Verifiable(stored[i], m) /\ r = Proof(m, salt, stored[i].pw)
(* a correct sha2 proof of a password stored only as a SHA1 hash cannot be decided by any server: unconstrained *)
Undecidable(stored, plugin, salt, r) ==
    /\ ~Accept(stored, plugin, salt, r)
    /\ \E i \in 1..Len(stored) : stored[i].form = "hash" /\ "sha2" \in MethodsOf(plugin) /\ r = Sha2(salt, stored[i].pw)
Verdict(stored, plugin, salt, r) == IF Accept(stored, plugin, salt, r) THEN "accept"
                                    ELSE IF Undecidable(stored, plugin, salt, r) THEN "either" ELSE "reject"

-----------------------------------------------------------------------------------
(* Part 2.  Addresses are bit sequences of width W4 or W6; an IPv4 address presented as     *)
(* IPv6 is MapZeros zero bits, W6-W4-MapZeros one bits, then the IPv4 bits.                  *)
CONSTANTS W4, W6, MapZeros

MapPrefix == [i \in 1..(W6 - W4) |-> IF i <= MapZeros THEN 0 ELSE 1]
Mapped(a4) == MapPrefix \o a4
IsMapped(a6) == Len(a6) = W6 /\ SubSeq(a6, 1, W6 - W4) = MapPrefix
Canon(a) == IF Len(a) = W4 THEN Mapped(a) ELSE a

(* an allow-list entry: family 4 or 6, the address bits, the prefix length (the full width for a single     *)
(* address), whether it is written with "/plen", spaces around it; family 0 = an entry of spaces only        *)
Blank(e) == e.fam = 0
Width(e) == IF e.fam = 4 THEN W4 ELSE W6
ECanon(e) == IF e.fam = 4 THEN [bits |-> Mapped(e.bits), plen |-> (W6 - W4) + e.plen]
             ELSE [bits |-> e.bits, plen |-> e.plen]
PrefixMatch(e, x) == LET c == ECanon(e) IN \A i \in 1..c.plen : c.bits[i] = x[i]
Match(e, a) == ~Blank(e) /\ PrefixMatch(e, Canon(a))
(* whether an IPv4 client "lies in" an IPv6 block that is wider than the mapped range is not settled by   *)
(* the property text (::/0 and IPv4 clients): both answers are tolerated                                   *)
Ambiguous(e, a) == e.fam = 6 /\ e.plen < W6 - W4 /\ IsMapped(Canon(a))

Entries(list) == {i \in 1..Len(list) : ~Blank(list[i])}
Allowed(list, a) == Entries(list) = {} \/ \E i \in Entries(list) : Match(list[i], a) /\ ~Ambiguous(list[i], a)
MaybeAllowed(list, a) == \E i \in Entries(list) : Match(list[i], a)
AllowVerdict(list, a) == IF Allowed(list, a) THEN "allow" ELSE IF MaybeAllowed(list, a) THEN "either" ELSE "deny"
===================================================================================
