----------------------------- MODULE Balancer_trace -----------------------------
(* Trace validation for C25: selections recorded from the real balancer / Slice.GetSlaveConn      *)
(* (harness/backend/balancer_test.go) are judged with the property-level rules of Balancer         *)
(* (Judge / RunAfter): eligibility of every selected node and exact counts in every window of       *)
(* consecutive selections while all replicas are up.  The implementation's queue order and           *)
(* counter are not part of the trace: they are its freedom.                                        *)
(* Lines: cfg (replica list and statuses), set (status change), picks (groups of consecutive         *)
(* selections, one policy per group), cpicks (selections made concurrently by several goroutines: per-node totals).  *)
(* Field t is the trace id; a change of t resets the state (one extra step).                        *)
EXTENDS Balancer, TLC, Json

Trace == ndJsonDeserialize("trace.ndjson")

VARIABLES l, tid, verdict,
          k       \* KInfo(c), computed when the configuration line is read

tvars == <<c, st, run, verdict, k, l, tid>>

EmptyCfg == [n |-> 0, w |-> <<>>, dc |-> <<>>]

TraceInit == /\ c = EmptyCfg /\ st = <<>> /\ run = EmptyRun /\ verdict = "ok" /\ k = KInfo(EmptyCfg)
             /\ q = <<>> /\ ctr = <<>> /\ last = <<>>        \* I-level variables of Balancer: unused here
             /\ l = 1

Boundary == l <= Len(Trace) /\ Trace[l].t # tid
InTrace  == l <= Len(Trace) /\ ~Boundary
IsEv(e)  == InTrace /\ Trace[l].ev = e /\ l' = l + 1

TCfg == /\ IsEv("cfg")
        /\ c' = [n |-> Trace[l].n, w |-> Trace[l].w, dc |-> Trace[l].dc]
        /\ st' = Trace[l].st
        /\ run' = EmptyRun
        /\ verdict' = "ok"
        /\ k' = KInfo([n |-> Trace[l].n, w |-> Trace[l].w, dc |-> Trace[l].dc])

TSet == /\ IsEv("set")
        /\ st' = [st EXCEPT ![Trace[l].node] = Trace[l].st]
        /\ verdict' = "ok"
        /\ UNCHANGED <<c, run, k>>

(* consecutive selections with one policy under unchanged statuses *)
RECURSIVE JudgeSeq(_, _, _, _)
JudgeSeq(r, pol, nodes, i) ==
    IF i > Len(nodes) THEN [run |-> r, verdict |-> "ok"]
    ELSE LET v == Judge(c, k, st, r, pol, nodes[i])
         IN IF v # "ok" THEN [run |-> r, verdict |-> v]
            ELSE JudgeSeq(RunAfter(c, k, st, r, pol, nodes[i]), pol, nodes, i + 1)

(* a picks line carries groups of consecutive selections, one policy per group *)
RECURSIVE JudgeGroups(_, _, _)
JudgeGroups(r, gs, i) ==
    IF i > Len(gs) THEN [run |-> r, verdict |-> "ok"]
    ELSE LET j == JudgeSeq(r, gs[i].pol, gs[i].nodes, 1)
         IN IF j.verdict # "ok" THEN j ELSE JudgeGroups(j.run, gs, i + 1)

(* a line whose selections break a rule is not accepted; the rule is printed for the driver *)
Accept(v) == IF v = "ok" THEN TRUE ELSE PrintT(<<"REJECT", l, v>>) /\ FALSE

TPicks == /\ IsEv("picks")
          /\ LET j == JudgeGroups(run, Trace[l].groups, 1)
             IN Accept(j.verdict) /\ run' = j.run /\ verdict' = j.verdict
          /\ UNCHANGED <<c, st, k>>

(* total selections by concurrent goroutines: n consecutive counter values of the serving class *)
JudgeCounts(pol, counts, errors) ==
    LET cls == ServingClass(k, st, pol)
        el  == Eligible(k, st, pol)
        tot == SumOver(counts, Nodes(c))
        L   == k[cls].len
    IN IF \E i \in Nodes(c) : counts[i] > 0 /\ i \notin el THEN "ineligible-picked"
       ELSE IF el # {} /\ errors > 0 THEN "no-pick-although-eligible-up"
       ELSE IF AllNodesUp(c, st) /\ el # {}
               /\ \E i \in k[cls].mem :
                     \/ counts[i] < k[cls].norm[i] * (tot \div L)
                     \/ counts[i] > k[cls].norm[i] * ((tot + L - 1) \div L)
            THEN "concurrent-window-count"
       ELSE "ok"

TCPicks == /\ IsEv("cpicks")
           /\ Accept(JudgeCounts(Trace[l].pol, Trace[l].counts, Trace[l].errors))
           /\ verdict' = "ok"
           /\ run' = [run EXCEPT ![ServingClass(k, st, Trace[l].pol)] = <<>>]
           /\ UNCHANGED <<c, st, k>>

TReset == /\ Boundary
          /\ c' = EmptyCfg /\ st' = <<>> /\ run' = EmptyRun /\ verdict' = "ok" /\ k' = KInfo(EmptyCfg)
          /\ l' = l
          /\ tid' = Trace[l].t

TraceNext == \/ (TCfg \/ TSet \/ TPicks \/ TCPicks) /\ UNCHANGED <<tid, q, ctr, last>>
             \/ TReset /\ UNCHANGED <<q, ctr, last>>

TraceSpec == TraceInit /\ tid = Trace[1].t /\ [][TraceNext]_<<tvars, q, ctr, last>>

(* every accepted line satisfied every rule *)
AllRulesHeld == verdict = "ok"

NumResets == Cardinality({i \in 2..Len(Trace) : Trace[i].t # Trace[i-1].t})
TraceAccepted ==
    LET d == TLCGet("stats").diameter IN
    IF d - 1 = Len(Trace) + NumResets THEN TRUE
    ELSE Print(<<"TRACE-REJECTED", d, Len(Trace), NumResets>>, FALSE)
==================================================================================
