------------------------------ MODULE Protocol_gen ------------------------------
(* Case generation from Protocol: every terminal state of the result-delivery part and    *)
(* every composed malformed packet is printed as one JSON line with the specification's   *)
(* expectation (Expected / CaseClass) and, for results, what the selected design variant  *)
(* ends with (outcome, sent).                                                              *)
EXTENDS Protocol, Json

EmitResult ==
    RDone => PrintT(<<"CASE", ToJson([limit |-> rcfg.limit, mode |-> rcfg.mode, proto |-> rcfg.proto,
                                      rowlen |-> rcfg.rowlen, n |-> rcfg.n,
                                      expect |-> Expected, total |-> Total, crosses |-> CrossesThreshold,
                                      pred |-> [outcome |-> outcome, sent |-> sent]])>>)

EmitMalform ==
    mphase = "sent" =>
        PrintT(<<"CASE", ToJson([kind |-> mkind, ops |-> mops, class |-> CaseClass(mkind, mops),
                                 paylen |-> PayloadLen(mkind, mops),
                                 lens |-> [i \in 1..Len(Layout(mkind)) |-> Mutated(mkind, mops)[i].len],
                                 seedlens |-> [i \in 1..Len(Layout(mkind)) |-> Layout(mkind)[i].len],
                                 names |-> [i \in 1..Len(Layout(mkind)) |-> Layout(mkind)[i].name],
                                 minlen |-> MinLen(Mutated(mkind, mops)),
                                 expseq |-> ExpectedSeq(mkind)])>>)
================================================================================
