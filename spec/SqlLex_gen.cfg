SPECIFICATION Spec
CONSTANTS
  Words = {<<"a">>, <<"QM">>, <<"SQ">>, <<"DQ">>, <<"BQ">>, <<"BS">>, <<"DASH">>, <<"SP">>, <<"HASH">>, <<"SL">>, <<"ST">>, <<"NL">>, <<"SEMI">>}
  Prefix = <<>>
  MaxLen = 4
  MinLen = 0
  NoBackslash = FALSE
INVARIANTS Emit TypeOK Incremental MarkersAreQuestionMarks EveryQuestionMarkClassified PiecesPartition
CHECK_DEADLOCK FALSE
