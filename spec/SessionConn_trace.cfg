SPECIFICATION TraceSpec
CONSTANTS
  KSModes = {FALSE, TRUE}
  Users = {"rw", "rws", "ro"}
  MaxCmds = 100000
  MaxFaults = 100000
  MaxNs = 100000
  MaxPerPool = 12
  FOps = {}
INVARIANTS TypeOK C18_TxStatementOnTxMaster C18_OneConnPerSlice C18_EndReachesExactlyTx C18_ReleasedAfterEnd
  C19_NoLeak C19_NoDangling C19_NothingHeldOutsideTx C19_NoOpenTxInPool C19_EndClean
  C23_Pinned C23_PinnedRole C23_NsChange C23_NoSpuriousClose ModeSeparation EndsClosed
POSTCONDITION TraceAccepted
CHECK_DEADLOCK FALSE
