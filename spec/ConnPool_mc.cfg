\* backend wrapper (connectionPoolImpl + Recycle) over an abstract pool: 3 clients x 2 rounds, capacity 2, one Close; 2,670 distinct states
\* (checks/C24.py generates the configurations it runs from the same templates; measured sizes are in evidence/C24.json)
SPECIFICATION CSpec
CONSTANTS
  Clients = {"c1","c2","c3"}
  Cap = 2
  Rounds = 2
INVARIANTS C_TypeOK C_PutNeverFails C_NoOverAllocation C_Quiescent C_CloseWaits
CHECK_DEADLOCK TRUE
