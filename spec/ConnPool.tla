---------------------------------- MODULE ConnPool ----------------------------------
(* backend.connectionPoolImpl (backend/connection_pool.go) + pooledConnectImpl.Recycle          *)
(* (backend/pooled_connection.go): the layer through which the proxy uses util.ResourcePool;    *)
(* property C24 at that layer.  The wrapper holds a pointer to the resource pool (cp.connections, *)
(* guarded by cp.mu); Get / Put / Close read it through cp.pool(); Close clears it.              *)
(* The inner pool is abstract here (its own steps are the subject of ResourcePool.tla): Cap      *)
(* slots, idle of them in the channel, Close = capacity swapped to 0, then one slot drained at   *)
(* a time (blocking while none is idle), then the channel closed.  No scale-out (Cap = max).     *)
(* One action per stretch of wrapper code between two steps of the inner pool - the points at    *)
(* which the harness can park a goroutine (inner hook labels g1, p2, k1, s3):                    *)
(*   get1  cp.Get: p := cp.pool()            nil => ErrConnectionPoolClosed                     *)
(*   get2  p.Get(ctx)                         (blocks while no slot is idle and not closed)       *)
(*   put1  Recycle -> cp.Put: p := cp.pool()  nil => panic(ErrConnectionPoolClosed); tryReuse    *)
(*   put2  p.Put(pc)                                                                            *)
(*   cl1   cp.Close: p := cp.pool()           nil => return                                      *)
(*   cl2   p.Close(): capacity := 0                                                            *)
(*   cl3   one slot drained (repeated Cap times)                                                 *)
(*   cl4   close(channel); cp.connections = nil                                                  *)
EXTENDS Integers, FiniteSets, Sequences

CONSTANTS Clients, Cap, Rounds

Procs == Clients \cup {"closer"}

VARIABLES pc, ptr, seen, idle, inner, drained, rnd,
          held,      \* P: clients holding a connection
          panic      \* P: <<>> or <<process, label, what>>

cvars == <<pc, ptr, seen, idle, inner, drained, rnd, held, panic>>

CInit == /\ pc = [p \in Procs |-> IF p = "closer" THEN "cl1" ELSE "get1"]
         /\ ptr = "set" /\ seen = [p \in Procs |-> "set"]
         /\ idle = Cap /\ inner = "open" /\ drained = 0
         /\ rnd = [c \in Clients |-> Rounds]
         /\ held = {} /\ panic = <<>>

To(p, l) == pc' = [pc EXCEPT ![p] = l]
EndRound(c) == /\ rnd' = [rnd EXCEPT ![c] = @ - 1]
               /\ To(c, IF rnd[c] > 1 THEN "get1" ELSE "done")

Get1(c) == /\ pc[c] = "get1"
           /\ IF ptr = "nil" THEN EndRound(c) ELSE To(c, "get2") /\ UNCHANGED rnd
           /\ UNCHANGED <<ptr, seen, idle, inner, drained, held, panic>>

Get2(c) == /\ pc[c] = "get2"
           /\ \/ /\ idle > 0 /\ inner # "closed"
                 /\ idle' = idle - 1 /\ held' = held \cup {c} /\ To(c, "put1") /\ UNCHANGED rnd
              \/ /\ inner = "closed"
                 /\ EndRound(c) /\ UNCHANGED <<idle, held>>
           /\ UNCHANGED <<ptr, seen, inner, drained, panic>>

Put1(c) == /\ pc[c] = "put1"
           /\ held' = held \ {c}
           /\ IF ptr = "nil"
              THEN panic' = <<c, "put1", "connection pool is closed">> /\ To(c, "dead")
              ELSE To(c, "put2") /\ UNCHANGED panic
           /\ UNCHANGED <<ptr, seen, idle, inner, drained, rnd>>

Put2(c) == /\ pc[c] = "put2"
           /\ IF inner = "closed"
              THEN panic' = <<c, "put2", "send on closed channel">> /\ To(c, "dead") /\ UNCHANGED <<idle, rnd>>
              ELSE idle' = idle + 1 /\ EndRound(c) /\ UNCHANGED panic
           /\ UNCHANGED <<ptr, seen, inner, drained, held>>

Cl1 == /\ pc["closer"] = "cl1"
       /\ To("closer", IF ptr = "nil" THEN "done" ELSE "cl2")
       /\ UNCHANGED <<ptr, seen, idle, inner, drained, rnd, held, panic>>

Cl2 == /\ pc["closer"] = "cl2"
       /\ inner' = "closing" /\ To("closer", "cl3")
       /\ UNCHANGED <<ptr, seen, idle, drained, rnd, held, panic>>

Cl3 == /\ pc["closer"] = "cl3" /\ idle > 0
       /\ idle' = idle - 1 /\ drained' = drained + 1
       /\ To("closer", IF drained + 1 = Cap THEN "cl4" ELSE "cl3")
       /\ UNCHANGED <<ptr, seen, inner, rnd, held, panic>>

Cl4 == /\ pc["closer"] = "cl4"
       /\ inner' = "closed" /\ ptr' = "nil" /\ To("closer", "done")
       /\ UNCHANGED <<seen, idle, drained, rnd, held, panic>>

CStep(p) == IF p = "closer" THEN Cl1 \/ Cl2 \/ Cl3 \/ Cl4
            ELSE Get1(p) \/ Get2(p) \/ Put1(p) \/ Put2(p)

CDone == (\A p \in Procs : pc[p] \in {"done", "dead"}) /\ UNCHANGED cvars
CNext == (\E p \in Procs : CStep(p)) \/ CDone
CSpec == CInit /\ [][CNext]_cvars

-----------------------------------------------------------------------------------
(* C24 at the wrapper layer *)
C_PutNeverFails == panic = <<>>
C_NoOverAllocation == Cardinality(held) <= Cap
C_Quiescent == (\A p \in Procs : pc[p] \in {"done", "dead", "get1", "cl1"}) /\ panic = <<>>
                 => idle + Cardinality(held) = (IF inner = "open" THEN Cap ELSE 0)
C_CloseWaits == inner = "closed" => held = {}
C_TypeOK == idle \in 0..Cap /\ drained \in 0..Cap
===================================================================================
