SPECIFICATION Spec
CONSTANTS
  NS = {"n1", "n2", "n3"}
  NV = 2
  Level = "P"
  Admins = {0, 1, 2, 3}
INVARIANTS Mark
CHECK_DEADLOCK FALSE
