--------------------------- MODULE RoutingPlaceExtra ---------------------------
(* Seed-dependent additions to the key universe of RoutingPlace_gen.  This file *)
(* holds the empty default; a check run overwrites it in its scratch copy with  *)
(* keys drawn from VERIF_SEED (data only: the expected placement of every key   *)
(* is still computed by the specification).                                     *)
EXTENDS Integers
ExtraStrings == {}        \* code point tuples
ExtraInts    == {}        \* <<neg, digits>> pairs
ExtraInstants == {}       \* <<local day, second of day>> pairs (calendar rules)
ExtraMurmur  == {}        \* <<seed, virtual buckets, node count>> triples
================================================================================
