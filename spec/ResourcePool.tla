------------------------------- MODULE ResourcePool -------------------------------
(* util.ResourcePool of XiaoMi/Gaea (util/resource_pool.go), property C24.               *)
(*                                                                                        *)
(* I-level: one action per atomic step of the code; the label of an action is the name     *)
(* of the verifStep hook placed immediately before that step in resource_pool.go, so a     *)
(* behaviour of this module is a schedule (sequence of <<process, label, choice>>) which   *)
(* the gate scheduler of harness/util/resourcepool_test.go imposes on real goroutines.     *)
(* P-level: the ghost variables held / panic and the invariants at the end (what a client  *)
(* of the pool may observe); spec/ResourcePoolP.tla states the same on recorded events.    *)
(*                                                                                        *)
(* Processes: clients (Rounds x get/Put), "sweep" (closeIdleResources run by the idle      *)
(* timer), "tick" (scaleInResources run by the capacity timer), "worker" (the goroutine    *)
(* spawned by a tick: ScaleCapacity(capacity-1)), "setcap" (SetCapacity(SetCapTo)),        *)
(* "closer" (Close).  timer.Timer.Stop waits for a running callback and prevents further   *)
(* ones (util/timer/timer.go): k1/k2 are enabled only while sweep/tick are between runs.   *)
(* Not modelled: the statistics counters active/waitCount/idleClosed (nothing reads them), *)
(* wall-clock (idle expiry and the 60 s scale-in cool-down are choices of the environment).*)
EXTENDS Integers, Sequences, FiniteSets

CONSTANTS Clients,      \* set of client process names
          MaxCap,       \* maxCapacity = cap(resources)
          InitCap,      \* initial capacity = baseCapacity
          Rounds,       \* get/Put rounds per client
          Sweeps,       \* number of idle sweeps
          Ticks,        \* number of scale-in ticks
          SetCapTo,     \* argument of the one SetCapacity call; 0 = no such call
          WithClose,    \* BOOLEAN: a Close call
          FactoryFails, \* BOOLEAN: the factory may fail
          PutNil,       \* BOOLEAN: a client may return nil (it closed the resource itself)
          Timeouts      \* BOOLEAN: a blocked get may time out

Procs == Clients \cup {"sweep", "tick", "worker", "setcap", "closer", "factory"}
Scalers == {"worker", "setcap", "closer"}

VARIABLES pc,         \* label of the next step of every process
          ch,         \* rp.resources: sequence of slots, 0 = empty wrapper, r > 0 = resource r
          closed,     \* rp.resources has been closed
          capacity, available, inUse, baseCap,   \* the atomic counters
          lock,       \* holder of rp.lock or "none"
          todo,       \* scaleInTodo holds its token
          nextRes,    \* id the factory gives to the next resource
          slot,       \* per process: wrapper in hand (-1 none)
          old, tgt, cnt,   \* per process: oldcap / requested capacity / remaining loop iterations
          rnd,        \* per client: rounds left
          sweepsLeft, ticksLeft, expire, stopSweep, stopTick,
          lateN,      \* factory calls still in flight whose get already gave up (context expired)
          held,       \* P: set of <<client, resource>> handed out and not yet returned
          panic,      \* P: <<>> or <<process, label, what>> of the first panic
          stale       \* ghost: "" or the first root cause (stale scale-out / overlapping ScaleCapacity) that occurred

vars == <<pc, ch, closed, capacity, available, inUse, baseCap, lock, todo, nextRes, slot, old, tgt, cnt,
          rnd, sweepsLeft, ticksLeft, expire, stopSweep, stopTick, lateN, held, panic, stale>>

InitPc == [p \in Procs |->
                   IF p \in Clients THEN (IF Rounds > 0 THEN "g1" ELSE "done")
                   ELSE IF p = "sweep" THEN (IF Sweeps > 0 THEN "i0" ELSE "done")
                   ELSE IF p = "tick" THEN (IF Ticks > 0 THEN "t0" ELSE "done")
                   ELSE IF p = "worker" THEN "off"
                   ELSE IF p = "factory" THEN "f1"
                   ELSE IF p = "setcap" THEN (IF SetCapTo > 0 THEN "c1" ELSE "done")
                   ELSE (IF WithClose THEN "k1" ELSE "done")]

Init == /\ pc = InitPc
        /\ ch = [i \in 1..InitCap |-> 0]
        /\ closed = FALSE
        /\ capacity = InitCap /\ available = InitCap /\ inUse = 0 /\ baseCap = InitCap
        /\ lock = "none" /\ todo = FALSE /\ nextRes = 1
        /\ slot = [p \in Procs |-> -1]
        /\ old = [p \in Procs |-> 0] /\ tgt = [p \in Procs |-> 0] /\ cnt = [p \in Procs |-> 0]
        /\ rnd = [c \in Clients |-> Rounds]
        /\ sweepsLeft = Sweeps /\ ticksLeft = Ticks /\ expire = FALSE
        /\ stopSweep = FALSE /\ stopTick = FALSE /\ lateN = 0
        /\ held = {} /\ panic = <<>> /\ stale = ""

Goto(p, l) == pc' = [pc EXCEPT ![p] = l]
Panic(p, what) == /\ panic' = (IF panic = <<>> THEN <<p, pc[p], what>> ELSE panic)
                  /\ Goto(p, "dead")

(* unchanged groups *)
uCtr   == UNCHANGED <<capacity, available, inUse, baseCap>>
uScale == UNCHANGED <<old, tgt, cnt>>
uEnv   == UNCHANGED <<sweepsLeft, ticksLeft, expire, stopSweep, stopTick, lateN>>
uGhost == UNCHANGED <<held, panic, stale>>

(* end of one client round (get returned an error, or Put finished) *)
EndRound(c) == /\ rnd' = [rnd EXCEPT ![c] = @ - 1]
               /\ Goto(c, IF rnd[c] > 1 THEN "g1" ELSE "done")

-----------------------------------------------------------------------------------
(* get *)

(* g1: select { case wrapper, ok = <-rp.resources: ... default: } *)
G1(c, a) ==
  /\ pc[c] = "g1" /\ a = 0
  /\ IF Len(ch) > 0
     THEN /\ slot' = [slot EXCEPT ![c] = Head(ch)] /\ ch' = Tail(ch)
          /\ Goto(c, IF Head(ch) = 0 THEN "g9" ELSE "g12") /\ UNCHANGED rnd
     ELSE IF closed THEN EndRound(c) /\ UNCHANGED <<slot, ch>>                \* ErrClosed
     ELSE Goto(c, "g2") /\ UNCHANGED <<slot, ch, rnd>>
  /\ UNCHANGED <<closed, lock, todo, nextRes>> /\ uCtr /\ uScale /\ uEnv /\ uGhost

(* g2: scaleOutResources: rp.lock.Lock() *)
G2(c, a) ==
  /\ pc[c] = "g2" /\ a = 0 /\ lock = "none"
  /\ lock' = c /\ Goto(c, "g3")
  /\ UNCHANGED <<ch, closed, todo, nextRes, slot, rnd>> /\ uCtr /\ uScale /\ uEnv /\ uGhost

(* g3: if rp.capacity.Get() < rp.maxCapacity.Get()  (else return, unlocking) *)
G3(c, a) ==
  /\ pc[c] = "g3" /\ a = 0
  /\ IF capacity < MaxCap THEN Goto(c, "g4") /\ UNCHANGED lock
     ELSE Goto(c, "g7") /\ lock' = "none"
  /\ UNCHANGED <<ch, closed, todo, nextRes, slot, rnd>> /\ uCtr /\ uScale /\ uEnv /\ uGhost

(* g4: AddCapacityResource (as repaired by fix commit 98e158f): for { capacity := rp.capacity.Get();              *)
(*     if capacity <= 0 || capacity >= max return false  (returning unlocks)                                     *)
G4(c, a) ==
  /\ pc[c] = "g4" /\ a = 0
  /\ old' = [old EXCEPT ![c] = capacity]
  /\ IF capacity <= 0 \/ capacity >= MaxCap THEN Goto(c, "g7") /\ lock' = "none"
     ELSE Goto(c, "g5") /\ UNCHANGED lock
  /\ UNCHANGED <<ch, closed, todo, nextRes, slot, rnd, tgt, cnt>> /\ uCtr /\ uEnv /\ uGhost

(* g5: if rp.capacity.CompareAndSwap(capacity, capacity+1) break  -- else back to g4 *)
G5(c, a) ==
  /\ pc[c] = "g5" /\ a = 0
  /\ IF capacity = old[c]
     THEN /\ capacity' = capacity + 1
          /\ stale' = IF stale # "" THEN stale
                      ELSE IF capacity = 0 /\ old[c] = 0 THEN "admitted-at-0"      \* unreachable since the repair
                      ELSE IF capacity = 0 THEN "raced-to-0"                       \* unreachable since the repair
                      ELSE IF capacity >= MaxCap THEN "raced-to-max"               \* unreachable since the repair
                      ELSE IF \E q \in Scalers : pc[q] = "s3" THEN "shrink-pending"
                      ELSE ""
          /\ Goto(c, "g6")
     ELSE Goto(c, "g4") /\ UNCHANGED <<capacity, stale>>
  /\ UNCHANGED <<ch, closed, available, inUse, baseCap, lock, todo, nextRes, slot, rnd, held, panic>> /\ uScale /\ uEnv

(* g6: rp.available.Add(1); scaleOutTime = now; return wrapper{}, true (unlocking) *)
G6(c, a) ==
  /\ pc[c] = "g6" /\ a = 0
  /\ available' = available + 1 /\ lock' = "none"
  /\ slot' = [slot EXCEPT ![c] = 0] /\ Goto(c, "g9")
  /\ UNCHANGED <<ch, closed, capacity, inUse, baseCap, todo, nextRes, rnd>> /\ uScale /\ uEnv /\ uGhost

(* g7: select { case wrapper, ok = <-rp.resources: case <-ctx.Done(): }   a = 1: the context expires *)
G7(c, a) ==
  /\ pc[c] = "g7"
  /\ \/ /\ a = 0 /\ Len(ch) > 0
        /\ slot' = [slot EXCEPT ![c] = Head(ch)] /\ ch' = Tail(ch)
        /\ Goto(c, IF Head(ch) = 0 THEN "g9" ELSE "g12") /\ UNCHANGED rnd
     \/ /\ a = 0 /\ Len(ch) = 0 /\ closed
        /\ EndRound(c) /\ UNCHANGED <<slot, ch>>                               \* ErrClosed
     \/ /\ a = 1 /\ Timeouts /\ Len(ch) = 0 /\ ~closed
        /\ EndRound(c) /\ UNCHANGED <<slot, ch>>                               \* ErrTimeout
  /\ UNCHANGED <<closed, lock, todo, nextRes>> /\ uCtr /\ uScale /\ uEnv /\ uGhost

(* g9: wrapper.resource, err = rp.createResourceWithRetry(ctx)   a = 1: the factory fails;                    *)
(*     a = 2: the caller's context expires while the factory call is still running: get gives up (g10) and the  *)
(*     factory completes later as a step of the environment (f1); its late result belongs to nobody.            *)
G9(c, a) ==
  /\ pc[c] = "g9"
  /\ \/ /\ a = 0 /\ slot' = [slot EXCEPT ![c] = nextRes] /\ nextRes' = nextRes + 1 /\ Goto(c, "g12") /\ UNCHANGED lateN
     \/ /\ a = 1 /\ FactoryFails /\ UNCHANGED <<slot, nextRes, lateN>> /\ Goto(c, "g10")
     \/ /\ a = 2 /\ Timeouts /\ lateN' = lateN + 1 /\ UNCHANGED <<slot, nextRes>> /\ Goto(c, "g10")
  /\ UNCHANGED <<ch, closed, lock, todo, rnd, sweepsLeft, ticksLeft, expire, stopSweep, stopTick>> /\ uCtr /\ uScale /\ uGhost

(* f1: a factory call whose get has given up returns its resource: nobody waits for it, the pool is unaffected *)
F1(p, a) ==
  /\ p = "factory" /\ pc[p] = "f1" /\ a = 0 /\ lateN > 0
  /\ lateN' = lateN - 1 /\ nextRes' = nextRes + 1
  /\ UNCHANGED <<pc, ch, closed, lock, todo, slot, rnd, sweepsLeft, ticksLeft, expire, stopSweep, stopTick>> /\ uCtr /\ uScale /\ uGhost

(* g10: rp.resources <- resourceWrapper{}; return nil, err *)
G10(c, a) ==
  /\ pc[c] = "g10" /\ a = 0
  /\ IF closed
     THEN Panic(c, "send on closed channel") /\ UNCHANGED <<ch, slot, rnd>>
     ELSE /\ Len(ch) < MaxCap
          /\ ch' = Append(ch, 0) /\ slot' = [slot EXCEPT ![c] = -1] /\ EndRound(c) /\ UNCHANGED panic
  /\ UNCHANGED <<closed, lock, todo, nextRes, held, stale>> /\ uCtr /\ uScale /\ uEnv

(* g12: rp.available.Add(-1); rp.inUse.Add(1); return wrapper.resource *)
G12(c, a) ==
  /\ pc[c] = "g12" /\ a = 0
  /\ available' = available - 1 /\ inUse' = inUse + 1
  /\ held' = held \cup {<<c, slot[c]>>}
  /\ Goto(c, "p2")
  /\ UNCHANGED <<ch, closed, capacity, baseCap, lock, todo, nextRes, slot, rnd, panic, stale>> /\ uScale /\ uEnv

-----------------------------------------------------------------------------------
(* Put *)

(* p2: select { case rp.resources <- wrapper: default: panic }     a = 1: Put(nil) *)
P2(c, a) ==
  /\ pc[c] = "p2" /\ (a = 0 \/ (a = 1 /\ PutNil))
  /\ held' = held \ {<<c, slot[c]>>}
  /\ IF closed THEN Panic(c, "send on closed channel") /\ UNCHANGED ch
     ELSE IF Len(ch) >= MaxCap THEN Panic(c, "attempt to Put into a full ResourcePool") /\ UNCHANGED ch
     ELSE ch' = Append(ch, IF a = 1 THEN 0 ELSE slot[c]) /\ Goto(c, "p3") /\ UNCHANGED panic
  /\ slot' = [slot EXCEPT ![c] = -1]
  /\ UNCHANGED <<closed, lock, todo, nextRes, rnd, stale>> /\ uCtr /\ uScale /\ uEnv

(* p3: rp.inUse.Add(-1); rp.available.Add(1) *)
P3(c, a) ==
  /\ pc[c] = "p3" /\ a = 0
  /\ inUse' = inUse - 1 /\ available' = available + 1
  /\ EndRound(c)
  /\ UNCHANGED <<ch, closed, capacity, baseCap, lock, todo, nextRes, slot>> /\ uScale /\ uEnv /\ uGhost

-----------------------------------------------------------------------------------
(* ScaleCapacity(tgt[p]) executed by setcap / worker / closer *)

Ret(p) == IF p = "worker" THEN "w2" ELSE "done"

(* s1: oldcap = rp.capacity.Get(); 0 => ErrClosed; = capacity => nil *)
S1(p, a) ==
  /\ pc[p] = "s1" /\ a = 0
  /\ IF capacity = 0 \/ capacity = tgt[p] THEN Goto(p, Ret(p)) /\ UNCHANGED old
     ELSE old' = [old EXCEPT ![p] = capacity] /\ Goto(p, "s2")
  /\ UNCHANGED <<ch, closed, lock, todo, nextRes, slot, tgt, cnt, rnd>> /\ uCtr /\ uEnv /\ uGhost

(* s2: rp.capacity.CompareAndSwap(oldcap, capacity) *)
S2(p, a) ==
  /\ pc[p] = "s2" /\ a = 0
  /\ IF capacity = old[p]
     THEN /\ capacity' = tgt[p]
          /\ cnt' = [cnt EXCEPT ![p] = IF tgt[p] < old[p] THEN old[p] - tgt[p] ELSE tgt[p] - old[p]]
          /\ Goto(p, IF tgt[p] < old[p] THEN "s3" ELSE "s4")
          /\ stale' = IF stale # "" THEN stale
                      ELSE IF p = "worker" /\ tgt[p] < baseCap THEN "scale-in-below-base"
                      ELSE IF \E q \in Scalers \ {p} : pc[q] = "s3"
                      THEN (IF tgt[p] = 0 THEN "close-during-pending-shrink"
                            ELSE IF tgt[p] > old[p] THEN "grow-during-pending-shrink" ELSE stale)
                      ELSE stale
     ELSE Goto(p, "s1") /\ UNCHANGED <<capacity, cnt, stale>>
  /\ UNCHANGED <<ch, closed, available, inUse, baseCap, lock, todo, nextRes, slot, old, tgt, rnd, held, panic>> /\ uEnv

(* s3: wrapper := <-rp.resources; close it; rp.available.Add(-1) *)
S3(p, a) ==
  /\ pc[p] = "s3" /\ a = 0
  /\ Len(ch) > 0 \/ closed
  /\ ch' = IF Len(ch) > 0 THEN Tail(ch) ELSE ch
  /\ available' = available - 1
  /\ cnt' = [cnt EXCEPT ![p] = @ - 1]
  /\ Goto(p, IF cnt[p] > 1 THEN "s3" ELSE IF tgt[p] = 0 THEN "s5" ELSE Ret(p))
  /\ UNCHANGED <<closed, capacity, inUse, baseCap, lock, todo, nextRes, slot, old, tgt, rnd>> /\ uEnv /\ uGhost

(* s4: rp.resources <- resourceWrapper{}; rp.available.Add(1) *)
S4(p, a) ==
  /\ pc[p] = "s4" /\ a = 0
  /\ IF closed
     THEN Panic(p, "send on closed channel") /\ UNCHANGED <<ch, available, cnt>>
     ELSE /\ Len(ch) < MaxCap
          /\ ch' = Append(ch, 0) /\ available' = available + 1
          /\ cnt' = [cnt EXCEPT ![p] = @ - 1]
          /\ Goto(p, IF cnt[p] > 1 THEN "s4" ELSE Ret(p)) /\ UNCHANGED panic
  /\ UNCHANGED <<closed, capacity, inUse, baseCap, lock, todo, nextRes, slot, old, tgt, rnd, held, stale>> /\ uEnv

(* s5: close(rp.resources) *)
S5(p, a) ==
  /\ pc[p] = "s5" /\ a = 0
  /\ IF closed THEN Panic(p, "close of closed channel") /\ UNCHANGED closed
     ELSE closed' = TRUE /\ Goto(p, Ret(p)) /\ UNCHANGED panic
  /\ UNCHANGED <<ch, lock, todo, nextRes, slot, rnd, held, stale>> /\ uCtr /\ uScale /\ uEnv

-----------------------------------------------------------------------------------
(* SetCapacity(SetCapTo) *)

(* c1: oldcap := rp.baseCapacity.Get() *)
C1(p, a) ==
  /\ p = "setcap" /\ pc[p] = "c1" /\ a = 0
  /\ old' = [old EXCEPT ![p] = baseCap] /\ Goto(p, "c2")
  /\ UNCHANGED <<ch, closed, lock, todo, nextRes, slot, tgt, cnt, rnd>> /\ uCtr /\ uEnv /\ uGhost

(* c2: rp.baseCapacity.CompareAndSwap(oldcap, capacity); if oldcap < capacity { ScaleCapacity(capacity) } *)
C2(p, a) ==
  /\ p = "setcap" /\ pc[p] = "c2" /\ a = 0
  /\ baseCap' = IF baseCap = old[p] THEN SetCapTo ELSE baseCap
  /\ tgt' = [tgt EXCEPT ![p] = SetCapTo]
  /\ Goto(p, IF old[p] < SetCapTo THEN "s1" ELSE "done")
  /\ UNCHANGED <<ch, closed, capacity, available, inUse, lock, todo, nextRes, slot, old, cnt, rnd>> /\ uEnv /\ uGhost

-----------------------------------------------------------------------------------
(* scaleInResources (capacity timer) and the goroutine it spawns *)

(* t0: the timer calls scaleInResources (no step of the pool) *)
T0(p, a) ==
  /\ p = "tick" /\ pc[p] = "t0" /\ a = 0 /\ ~stopTick
  /\ Goto(p, "t1")
  /\ UNCHANGED <<ch, closed, lock, todo, nextRes, slot, rnd>> /\ uCtr /\ uScale /\ uEnv /\ uGhost

EndTick(p) == /\ ticksLeft' = ticksLeft - 1
              /\ lock' = "none"

(* t1: rp.lock.Lock() *)
T1(p, a) ==
  /\ p = "tick" /\ pc[p] = "t1" /\ a = 0 /\ lock = "none"
  /\ lock' = p /\ Goto(p, "t2")
  /\ UNCHANGED <<ch, closed, todo, nextRes, slot, rnd>> /\ uCtr /\ uScale /\ uEnv /\ uGhost

(* t2: if capacity > baseCapacity && now - scaleOutTime > 60      a = 1: cooled down *)
T2(p, a) ==
  /\ p = "tick" /\ pc[p] = "t2"
  /\ IF capacity > baseCap
     THEN \/ a = 1 /\ Goto(p, "t3") /\ UNCHANGED <<lock, ticksLeft>>
          \/ a = 0 /\ EndTick(p) /\ Goto(p, IF ticksLeft > 1 THEN "t0" ELSE "done")
     ELSE a = 0 /\ EndTick(p) /\ Goto(p, IF ticksLeft > 1 THEN "t0" ELSE "done")
  /\ UNCHANGED <<ch, closed, todo, nextRes, slot, rnd, sweepsLeft, expire, stopSweep, stopTick>> /\ uCtr /\ uScale /\ uGhost
  /\ UNCHANGED lateN

(* t3: select { case rp.scaleInTodo <- 0: go worker  default: return }  (returning unlocks) *)
T3(p, a) ==
  /\ p = "tick" /\ pc[p] = "t3" /\ a = 0
  /\ EndTick(p)
  /\ IF ~todo THEN todo' = TRUE /\ pc' = [pc EXCEPT ![p] = IF ticksLeft > 1 THEN "t0" ELSE "done", !["worker"] = "w1"]
     ELSE UNCHANGED todo /\ Goto(p, IF ticksLeft > 1 THEN "t0" ELSE "done")
  /\ UNCHANGED <<ch, closed, nextRes, slot, rnd, sweepsLeft, expire, stopSweep, stopTick>> /\ uCtr /\ uScale /\ uGhost
  /\ UNCHANGED lateN

(* w1: rp.ScaleCapacity(int(rp.capacity.Get()) - 1)  (argument evaluation + range check) *)
W1(p, a) ==
  /\ p = "worker" /\ pc[p] = "w1" /\ a = 0
  /\ tgt' = [tgt EXCEPT ![p] = capacity - 1]
  /\ Goto(p, IF capacity - 1 < 0 \/ capacity - 1 > MaxCap THEN "w2" ELSE "s1")
  /\ UNCHANGED <<ch, closed, lock, todo, nextRes, slot, old, cnt, rnd>> /\ uCtr /\ uEnv /\ uGhost

(* w2: <-rp.scaleInTodo *)
W2(p, a) ==
  /\ p = "worker" /\ pc[p] = "w2" /\ a = 0
  /\ todo' = FALSE /\ Goto(p, "off")
  /\ UNCHANGED <<ch, closed, lock, nextRes, slot, rnd>> /\ uCtr /\ uScale /\ uEnv /\ uGhost

-----------------------------------------------------------------------------------
(* closeIdleResources (idle timer) *)

EndSweep(p) == /\ sweepsLeft' = sweepsLeft - 1
               /\ Goto(p, IF sweepsLeft > 1 THEN "i0" ELSE "done")

(* i0: the timer calls closeIdleResources     a = 1: idle resources have expired during this run *)
I0(p, a) ==
  /\ p = "sweep" /\ pc[p] = "i0" /\ ~stopSweep
  /\ expire' = (a = 1) /\ Goto(p, "i1")
  /\ UNCHANGED <<ch, closed, lock, todo, nextRes, slot, rnd, sweepsLeft, ticksLeft, stopSweep, stopTick>> /\ uCtr /\ uScale /\ uGhost
  /\ UNCHANGED lateN

(* i1: available := int(rp.Available()) *)
I1(p, a) ==
  /\ p = "sweep" /\ pc[p] = "i1" /\ a = 0
  /\ cnt' = [cnt EXCEPT ![p] = available]
  /\ IF available > 0 THEN Goto(p, "i2") /\ UNCHANGED sweepsLeft ELSE EndSweep(p)
  /\ UNCHANGED <<ch, closed, lock, todo, nextRes, slot, old, tgt, rnd, ticksLeft, expire, stopSweep, stopTick>> /\ uCtr /\ uGhost
  /\ UNCHANGED lateN

(* i2: select { case wrapper, _ = <-rp.resources: default: return }; close the resource if expired *)
I2(p, a) ==
  /\ p = "sweep" /\ pc[p] = "i2" /\ a = 0
  /\ IF Len(ch) > 0
     THEN /\ slot' = [slot EXCEPT ![p] = IF Head(ch) > 0 /\ expire THEN 0 ELSE Head(ch)]
          /\ ch' = Tail(ch) /\ Goto(p, "i4") /\ UNCHANGED sweepsLeft
     ELSE IF closed THEN slot' = [slot EXCEPT ![p] = 0] /\ Goto(p, "i4") /\ UNCHANGED <<ch, sweepsLeft>>
     ELSE EndSweep(p) /\ UNCHANGED <<ch, slot>>
  /\ UNCHANGED <<closed, lock, todo, nextRes, rnd, ticksLeft, expire, stopSweep, stopTick>> /\ uCtr /\ uScale /\ uGhost
  /\ UNCHANGED lateN

(* i4: rp.resources <- wrapper *)
I4(p, a) ==
  /\ p = "sweep" /\ pc[p] = "i4" /\ a = 0
  /\ IF closed
     THEN Panic(p, "send on closed channel") /\ UNCHANGED <<ch, slot, cnt, sweepsLeft>>
     ELSE /\ Len(ch) < MaxCap
          /\ ch' = Append(ch, slot[p]) /\ slot' = [slot EXCEPT ![p] = -1]
          /\ cnt' = [cnt EXCEPT ![p] = @ - 1]
          /\ IF cnt[p] > 1 THEN Goto(p, "i2") /\ UNCHANGED sweepsLeft ELSE EndSweep(p)
          /\ UNCHANGED panic
  /\ UNCHANGED <<closed, lock, todo, nextRes, old, tgt, rnd, ticksLeft, expire, stopSweep, stopTick, held, stale>> /\ uCtr
  /\ UNCHANGED lateN

-----------------------------------------------------------------------------------
(* Close *)

(* k1: rp.idleTimer.Stop()  -- waits for a running sweep *)
K1(p, a) ==
  /\ p = "closer" /\ pc[p] = "k1" /\ a = 0 /\ pc["sweep"] \in {"i0", "done"}
  /\ stopSweep' = TRUE /\ Goto(p, "k2")
  /\ UNCHANGED <<ch, closed, lock, todo, nextRes, slot, rnd, sweepsLeft, ticksLeft, expire, stopTick>> /\ uCtr /\ uScale /\ uGhost
  /\ UNCHANGED lateN

(* k2: rp.capTimer.Stop()  -- waits for a running tick (not for the goroutine a tick spawned); then ScaleCapacity(0) *)
K2(p, a) ==
  /\ p = "closer" /\ pc[p] = "k2" /\ a = 0 /\ pc["tick"] \in {"t0", "done"}
  /\ stopTick' = TRUE /\ tgt' = [tgt EXCEPT ![p] = 0] /\ Goto(p, "s1")
  /\ UNCHANGED <<ch, closed, lock, todo, nextRes, slot, old, cnt, rnd, sweepsLeft, ticksLeft, expire, stopSweep>> /\ uCtr /\ uGhost
  /\ UNCHANGED lateN

-----------------------------------------------------------------------------------
Step(p, a) ==
  \/ (p \in Clients /\ (G1(p, a) \/ G2(p, a) \/ G3(p, a) \/ G4(p, a) \/ G5(p, a) \/ G6(p, a) \/ G7(p, a)
                        \/ G9(p, a) \/ G10(p, a) \/ G12(p, a) \/ P2(p, a) \/ P3(p, a)))
  \/ (p \in Scalers /\ (S1(p, a) \/ S2(p, a) \/ S3(p, a) \/ S4(p, a) \/ S5(p, a)))
  \/ C1(p, a) \/ C2(p, a)
  \/ T0(p, a) \/ T1(p, a) \/ T2(p, a) \/ T3(p, a) \/ W1(p, a) \/ W2(p, a)
  \/ I0(p, a) \/ I1(p, a) \/ I2(p, a) \/ I4(p, a)
  \/ K1(p, a) \/ K2(p, a)
  \/ F1(p, a)

Finished(p) == \/ pc[p] \in {"done", "dead", "off"}
               \/ p = "factory"
               \/ p = "tick" /\ pc[p] = "t0"
               \/ p = "sweep" /\ pc[p] = "i0"
Quiescent == \A p \in Procs : Finished(p)

(* no operation in progress and none can start: terminal states stutter so that CHECK_DEADLOCK finds real blocking *)
Terminated == /\ Quiescent
              /\ (pc["tick"] = "t0" => stopTick) /\ (pc["sweep"] = "i0" => stopSweep) /\ lateN = 0
              /\ UNCHANGED vars

(* Next is Step over all processes, written action by action so that TLC's coverage names every label *)
Next == \/ \E p \in Clients, a \in 0..2 : G1(p, a)
        \/ \E p \in Clients, a \in 0..2 : G2(p, a)
        \/ \E p \in Clients, a \in 0..2 : G3(p, a)
        \/ \E p \in Clients, a \in 0..2 : G4(p, a)
        \/ \E p \in Clients, a \in 0..2 : G5(p, a)
        \/ \E p \in Clients, a \in 0..2 : G6(p, a)
        \/ \E p \in Clients, a \in 0..2 : G7(p, a)
        \/ \E p \in Clients, a \in 0..2 : G9(p, a)
        \/ \E p \in Clients, a \in 0..2 : G10(p, a)
        \/ \E p \in Clients, a \in 0..2 : G12(p, a)
        \/ \E p \in Clients, a \in 0..2 : P2(p, a)
        \/ \E p \in Clients, a \in 0..2 : P3(p, a)
        \/ \E p \in Scalers, a \in 0..2 : S1(p, a)
        \/ \E p \in Scalers, a \in 0..2 : S2(p, a)
        \/ \E p \in Scalers, a \in 0..2 : S3(p, a)
        \/ \E p \in Scalers, a \in 0..2 : S4(p, a)
        \/ \E p \in Scalers, a \in 0..2 : S5(p, a)
        \/ \E p \in Procs, a \in 0..2 : C1(p, a)
        \/ \E p \in Procs, a \in 0..2 : C2(p, a)
        \/ \E p \in Procs, a \in 0..2 : T0(p, a)
        \/ \E p \in Procs, a \in 0..2 : T1(p, a)
        \/ \E p \in Procs, a \in 0..2 : T2(p, a)
        \/ \E p \in Procs, a \in 0..2 : T3(p, a)
        \/ \E p \in Procs, a \in 0..2 : W1(p, a)
        \/ \E p \in Procs, a \in 0..2 : W2(p, a)
        \/ \E p \in Procs, a \in 0..2 : I0(p, a)
        \/ \E p \in Procs, a \in 0..2 : I1(p, a)
        \/ \E p \in Procs, a \in 0..2 : I2(p, a)
        \/ \E p \in Procs, a \in 0..2 : I4(p, a)
        \/ \E p \in Procs, a \in 0..2 : K1(p, a)
        \/ \E p \in Procs, a \in 0..2 : K2(p, a)
        \/ \E p \in Procs, a \in 0..2 : F1(p, a)
        \/ Terminated
Spec == Init /\ [][Next]_vars

-----------------------------------------------------------------------------------
(* P-level properties (C24) *)

HandedOut == {x[2] : x \in held}
NoOverAllocation == Cardinality(held) <= MaxCap
OneHolder == \A x, y \in held : x[2] = y[2] => x[1] = y[1]
PutNeverFails == panic = <<>> \/ panic[2] # "p2"
NoOtherPanic == panic = <<>> \/ panic[2] = "p2"
QuiescentAccounting == Quiescent /\ panic = <<>> => Len(ch) + Cardinality(held) = capacity
Bad == ~(NoOverAllocation /\ OneHolder /\ PutNeverFails /\ NoOtherPanic /\ QuiescentAccounting)

(* I-level bookkeeping, expected to hold whenever the P-level holds *)
CountersAgree == Quiescent /\ panic = <<>> => inUse = Cardinality(held) /\ available = Len(ch)
CapacityInRange == capacity >= 0 /\ capacity <= MaxCap
SlotsConserved ==   \* every slot is in the channel or in some process's hand, as long as no scaling is in flight
  (\A p \in Scalers : pc[p] \notin {"s3", "s4", "s5"}) /\ (\A c \in Clients : pc[c] \notin {"g6"}) /\ panic = <<>>
    => Len(ch) + Cardinality({p \in Procs : slot[p] >= 0}) = capacity

(* root cause of the known defects: AddCapacityResource incremented a capacity that was lowered by a            *)
(* ScaleCapacity whose slots are not removed yet (before fix 98e158f also: a capacity that was 0 - pool closing  *)
(* or closed - or already MaxCap after a concurrent grow; the repaired test-and-CAS loop excludes those);        *)
(* or Close / a growing SetCapacity swapped the capacity while another ScaleCapacity still had slots to remove  *)
(* (the channel is closed before an outstanding resource is returned / holds a slot too many); or the scale-in   *)
(* goroutine, which re-reads the capacity after the tick's test, shrank the pool below baseCapacity (down to 0 = *)
(* it closes the pool).                                                                                          *)
NoRootCause == stale = ""
(* the three causes removed by fix 98e158f stay unreachable *)
RepairHolds == stale \notin {"admitted-at-0", "raced-to-0", "raced-to-max"}

TypeOK == /\ capacity \in -1..(MaxCap + 2) /\ Len(ch) <= MaxCap
          /\ lock \in Procs \cup {"none"}
===================================================================================
