--------------------------- MODULE RoutingPlace_anchor ---------------------------
(* Ground-truth anchors of the Mycat operators of RoutingPlace (C08), independent    *)
(* of the Go code:                                                                    *)
(*  - murmur3_32: the published SMHasher / Guava test vectors.  hashUnencodedChars     *)
(*    of UTF-16 units u1 u2 .. equals murmur3_32 of the little-endian byte string,     *)
(*    so the byte vectors with an even number of bytes apply (0x87654321 is the        *)
(*    units 0x4321 0x8765).                                                            *)
(*  - placements computed with Mycat itself (values recorded in the repository's       *)
(*    shard_mycat_test.go, "all the test cases' expect results are calculated from     *)
(*    mycat rule function"): PartitionByMurmurHash with the default 160 virtual        *)
(*    buckets, PartitionByString with 64 segments of 16 and hash slice "32",           *)
(*    PartitionByLong, PartitionByMod.                                                 *)
(* TLC evaluates the ASSUMEs; there is one trivial state.                              *)
EXTENDS RoutingPlace, TLC

CONSTANT Full      \* FALSE (quick tier): one of the two 160-bucket rings only

S(cps) == [kind |-> "str", cps |-> cps]
I(neg, n) == [kind |-> "int", neg |-> neg, digits |-> DecOf(n)]
Hello  == <<104,101,108,108,111,44,32,119,111,114,108,100>>     \* "hello, world"
NiHao  == <<20320,22909,44,32,20013,22269>>                      \* "你好, 中国"
Punct  == <<63,33,41,95,70,70,83,68>>                            \* "?!)_FFSD"
M50    == <<45,53,48>>                                           \* "-50"
M46    == <<45,52,54>>                                           \* "-46"
M47    == <<45,52,55>>                                           \* "-47"

ASSUME MurmurVectors ==
    /\ Murmur32(0, <<>>) = 0
    /\ Murmur32(1, <<>>) = 1364076727                            \* 0x514E28B7
    /\ Murmur32(-1, <<>>) = -2114883783                          \* 0x81F16F39 (seed 0xffffffff)
    /\ Murmur32(0, <<65535, 65535>>) = 1982413648                \* FF FF FF FF -> 0x76293B50
    /\ Murmur32(0, <<17185, 34661>>) = -178564757                \* 21 43 65 87 -> 0xF55B516B
    /\ Murmur32(1350757870, <<17185, 34661>>) = 593689054        \* seed 0x5082EDEE -> 0x2362F9DE
    /\ Murmur32(0, <<17185>>) = -1594380166                      \* 21 43 -> 0xA0F7B07A
    /\ Murmur32(0, <<0, 0>>) = 593689054                         \* 00 00 00 00 -> 0x2362F9DE
    /\ Murmur32(0, <<0>>) = 821347078                            \* 00 00 -> 0x30F4C306

Mur(seed, n) == [type |-> "mycat_murmur", locations |-> <<n>>, seed |-> seed, vbt |-> 160]
ASSUME MycatMurmurSeed0Count2 ==
    LET r == Mur(0, 2)  ring == Ring(0, 160, 2)  P(s) == MycatMurmurPlaceWith(ring, r, S(s))
    IN /\ P(<<>>) = Table(0) /\ P(Hello) = Table(0) /\ P(NiHao) = Table(0) /\ P(Punct) = Table(1)
       /\ P(M50) = Table(0) /\ P(M46) = Table(1)
ASSUME MycatMurmurSeed1Count4 ==
    Full =>
    LET r == Mur(1, 4)  ring == Ring(1, 160, 4)  P(s) == MycatMurmurPlaceWith(ring, r, S(s))
    IN /\ P(<<>>) = Table(2) /\ P(Hello) = Table(1) /\ P(NiHao) = Table(0) /\ P(Punct) = Table(1)
       /\ P(M50) = Table(1) /\ P(M47) = Table(2) /\ P(M46) = Table(3)

Str64 == [type |-> "mycat_string", locations |-> <<64>>, pcount |-> <<64>>, plength |-> <<16>>,
          hs |-> [form |-> "single", a |-> 32, b |-> None]]
ASSUME MycatString32 ==
    /\ MycatStringPlace(Str64, S(<<>>)) = Table(0)
    /\ MycatStringPlace(Str64, S(Hello)) = Table(24)
    /\ MycatStringPlace(Str64, S(NiHao)) = Table(40)
    /\ MycatStringPlace(Str64, S(Punct)) = Table(58)
    /\ MycatStringPlace(Str64, S(M50)) = Table(56)

Long6 == [type |-> "mycat_long", locations |-> <<6>>, pcount |-> <<1, 1, 4>>, plength |-> <<512, 256, 64>>]
Big(neg, ds) == [kind |-> "int", neg |-> neg, digits |-> ds]
ASSUME MycatLong ==
    /\ MycatLongPlace(Long6, I(TRUE, 1)) = Table(5)
    /\ MycatLongPlace(Long6, I(FALSE, 512)) = Table(1)
    /\ MycatLongPlace(Long6, I(FALSE, 768)) = Table(2)
    /\ MycatLongPlace(Long6, I(FALSE, 1280)) = Table(0)
    /\ MycatLongPlace(Long6, Big(TRUE, Two63)) = Table(0)
    /\ MycatLongPlace(Long6, Big(FALSE, Two63m1)) = Table(5)
ASSUME MycatMod ==
    LET r == [type |-> "mycat_mod", locations |-> <<3>>]
    IN /\ MycatModPlace(r, I(TRUE, 4)) = Table(1) /\ MycatModPlace(r, I(TRUE, 2)) = Table(2)
       /\ MycatModPlace(r, I(FALSE, 4)) = Table(1) /\ MycatModPlace(r, I(TRUE, 3)) = Table(0)

VARIABLE x
Init == x = 0
Next == UNCHANGED x
Spec == Init /\ [][Next]_x
===================================================================================
