------------------------------ MODULE RoutingPlace ------------------------------
(******************************************************************************)
(* Placement of sharding keys (properties C08, C09; shared with C01/C03/C04). *)
(*                                                                            *)
(* A shard rule is DATA (a record); Place(rule, key, tz) is the placement     *)
(* function of the rule type.  Nothing here is taken from the Go code: range  *)
(* rules are half-open intervals, calendar rules are Gregorian calendar       *)
(* arithmetic (days-from-civil), the mycat_* rules are the Mycat (Java)       *)
(* algorithms PartitionByMod / PartitionByLong / PartitionByString /          *)
(* PartitionByMurmurHash with Java semantics (UTF-16 code units, two's        *)
(* complement).  TLC integers are 32-bit, therefore                           *)
(*   - integer keys are sign + decimal digit sequence (so -2^63 is a key);    *)
(*   - String.hashCode-style accumulation is carried modulo 1024 (the only    *)
(*     bits PartitionUtil uses; 1024 divides 2^64);                           *)
(*   - murmur3_32 works on 16-bit halves, multiplication on 8-bit limbs;      *)
(*   - timestamps are (day, second-of-day) pairs.                             *)
(*                                                                            *)
(* Rules (only the fields of the type are read):                              *)
(*   [type |-> "range", locations |-> <<2,2>>, limit |-> 100, slices |-> ..]  *)
(*   [type |-> "date_year"|"date_month"|"date_day",                           *)
(*        ranges |-> << [lo |-> 201611, hi |-> 201702], .. >>, slices |-> ..] *)
(*   [type |-> "hash"|"mod"|"mycat_mod", locations, slices]                   *)
(*   [type |-> "mycat_long", locations, pcount |-> <<2,1>>, plength |-> ..]   *)
(*   [type |-> "mycat_string", .. , hs |-> [form |-> "single", a |-> 2] or    *)
(*        [form |-> "pair", a |-> -2 or None, b |-> None]]                    *)
(*   [type |-> "mycat_murmur", locations, seed |-> 0, vbt |-> 2]              *)
(* Keys:                                                                      *)
(*   [kind |-> "int", neg |-> BOOLEAN, digits |-> <<9,2,2,..>>]               *)
(*   [kind |-> "str", cps |-> <<code points>>]                                *)
(*   [kind |-> "ts",  day |-> days since 1970-01-01 (UTC), sec |-> 0..86399]  *)
(* Results: Table(i), Reject, Lenient(i) (the key is no accepted spelling but *)
(* its period is readable: placing it at i or rejecting are both allowed),    *)
(* Unspecified (outside this specification, e.g. CRC32 of a hash rule).       *)
(******************************************************************************)
EXTENDS Integers, Sequences, FiniteSets

None == -999999

Reject      == [t |-> "reject"]
Unspecified == [t |-> "unspecified"]
Table(i)    == [t |-> "table", idx |-> i]
Lenient(i)  == [t |-> "lenient", idx |-> i]

-----------------------------------------------------------------------------
(* small sequence helpers *)

RECURSIVE SumFrom(_, _)
SumFrom(s, i) == IF i > Len(s) THEN 0 ELSE s[i] + SumFrom(s, i + 1)
Sum(s) == SumFrom(s, 1)
PrefixSum(s, n) == SumFrom(SubSeq(s, 1, n), 1)

RECURSIVE FlatFrom(_, _)
FlatFrom(ss, i) == IF i > Len(ss) THEN <<>> ELSE ss[i] \o FlatFrom(ss, i + 1)
Flatten(ss) == FlatFrom(ss, 1)

Repeat(x, n) == [i \in 1..n |-> x]
Max2(a, b) == IF a >= b THEN a ELSE b
Min2(a, b) == IF a <= b THEN a ELSE b

(* ascending sequence of a finite set of integers *)
RECURSIVE SortedSeq(_)
SortedSeq(S) == IF S = {} THEN <<>>
                ELSE LET m == CHOOSE x \in S : \A y \in S : x <= y
                     IN <<m>> \o SortedSeq(S \ {m})

-----------------------------------------------------------------------------
(* decimal digit sequences: the mathematical integers of the 64-bit key space *)

RECURSIVE HornerMod(_, _, _, _)
HornerMod(ds, i, acc, n) == IF i > Len(ds) THEN acc
                            ELSE HornerMod(ds, i + 1, (acc * 10 + ds[i]) % n, n)
DigitsMod(ds, n) == HornerMod(ds, 1, 0, n)        \* value(ds) mod n, n <= 10^7

RECURSIVE StripZeros(_)
StripZeros(ds) == IF Len(ds) > 1 /\ ds[1] = 0 THEN StripZeros(Tail(ds)) ELSE ds

RECURSIVE DigitsValFrom(_, _, _)
DigitsValFrom(ds, i, acc) == IF i > Len(ds) THEN acc ELSE DigitsValFrom(ds, i + 1, acc * 10 + ds[i])
IsSmall(ds)   == Len(StripZeros(ds)) <= 9                  \* value < 10^9: a TLC integer
DigitsVal(ds) == DigitsValFrom(StripZeros(ds), 1, 0)       \* only when IsSmall(ds)
IsZero(ds)    == StripZeros(ds) = <<0>>

RECURSIVE DecOf(_)
DecOf(n) == IF n < 10 THEN <<n>> ELSE Append(DecOf(n \div 10), n % 10)   \* n >= 0

(* lexicographic comparison of equal-length digit sequences: a <= b *)
RECURSIVE LexLeq(_, _, _)
LexLeq(a, b, i) == IF i > Len(a) THEN TRUE
                   ELSE IF a[i] < b[i] THEN TRUE
                   ELSE IF a[i] > b[i] THEN FALSE ELSE LexLeq(a, b, i + 1)
DigitsLeq(a, b) == LET x == StripZeros(a)  y == StripZeros(b)
                   IN IF Len(x) # Len(y) THEN Len(x) < Len(y) ELSE LexLeq(x, y, 1)

Two63   == <<9,2,2,3,3,7,2,0,3,6,8,5,4,7,7,5,8,0,8>>       \* 2^63
Two63m1 == <<9,2,2,3,3,7,2,0,3,6,8,5,4,7,7,5,8,0,7>>
Two64   == <<1,8,4,4,6,7,4,4,0,7,3,7,0,9,5,5,1,6,1,6>>     \* 2^64
Two64m1 == <<1,8,4,4,6,7,4,4,0,7,3,7,0,9,5,5,1,6,1,5>>
InInt64(neg, ds) == IF neg /\ ~IsZero(ds) THEN DigitsLeq(ds, Two63) ELSE DigitsLeq(ds, Two63m1)

-----------------------------------------------------------------------------
(* strings: code points, UTF-16 code units (what Java's String sees), numbers *)

IsDigitCp(c) == c \in 48..57
AllDigits(s) == Len(s) > 0 /\ \A i \in 1..Len(s) : IsDigitCp(s[i])
CpDigits(s)  == [i \in 1..Len(s) |-> s[i] - 48]

UnitsOf(cp) == IF cp < 65536 THEN <<cp>>
               ELSE LET v == cp - 65536 IN <<55296 + (v \div 1024), 56320 + (v % 1024)>>
Utf16(cps)  == Flatten([i \in 1..Len(cps) |-> UnitsOf(cps[i])])

(* the decimal text of an integer key (what the column value looks like to Mycat) *)
IntText(k) == LET ds == StripZeros(k.digits)
                  body == [i \in 1..Len(ds) |-> ds[i] + 48]
              IN IF k.neg /\ ~IsZero(ds) THEN <<45>> \o body ELSE body

KeyText(k) == IF k.kind = "int" THEN IntText(k) ELSE k.cps          \* code points

(* a key read as a 64-bit signed decimal number: [ok, neg, digits]                    *)
(* strings: optional sign, then decimal digits, nothing else, within the int64 range  *)
NumOfKey(k) ==
    IF k.kind = "int" THEN [ok |-> TRUE, neg |-> k.neg /\ ~IsZero(k.digits), digits |-> StripZeros(k.digits)]
    ELSE IF k.kind # "str" THEN [ok |-> FALSE]
    ELSE LET s == k.cps
             signed == Len(s) > 0 /\ s[1] \in {43, 45}
             body == IF signed THEN Tail(s) ELSE s
         IN IF AllDigits(body) /\ InInt64(signed /\ s[1] = 45, CpDigits(body))
            THEN [ok |-> TRUE, neg |-> signed /\ s[1] = 45 /\ ~IsZero(CpDigits(body)),
                  digits |-> StripZeros(CpDigits(body))]
            ELSE [ok |-> FALSE]

AbsMod(num, n)   == DigitsMod(num.digits, n)                                  \* |v| mod n
FloorMod(num, n) == LET m == DigitsMod(num.digits, n) IN IF num.neg THEN (n - m) % n ELSE m

-----------------------------------------------------------------------------
(* table layout shared by hash / mod / range / mycat rules: locations[i] tables on slice i *)

TableCount(rule) == Sum(rule.locations)
(* slice index (0-based) of every table 0..n-1: sequence indexed 1..n *)
LocTableToSlice(locs) == Flatten([i \in 1..Len(locs) |-> Repeat(i - 1, locs[i])])

-----------------------------------------------------------------------------
(* RANGE: table i holds the half-open interval [i*limit, (i+1)*limit) *)

Interval(rule, i) == [lo |-> i * rule.limit, hi |-> (i + 1) * rule.limit]
InInterval(iv, v) == iv.lo <= v /\ v < iv.hi

RangePlaceVal(rule, v) ==
    LET hits == {i \in 0..(TableCount(rule) - 1) : InInterval(Interval(rule, i), v)}
    IN IF hits = {} THEN Reject ELSE Table(CHOOSE i \in hits : TRUE)

(* assumes TableCount*limit < 10^9 (checked by the generator's ASSUME) *)
RangePlace(rule, k) ==
    LET num == NumOfKey(k)
    IN IF ~num.ok THEN Reject
       ELSE IF num.neg THEN Reject                     \* every interval starts at >= 0
       ELSE IF ~IsSmall(num.digits) THEN Reject        \* beyond the last interval
       ELSE RangePlaceVal(rule, DigitsVal(num.digits))

-----------------------------------------------------------------------------
(* CALENDAR: proleptic Gregorian, days counted from 1970-01-01 *)

IsLeap(y) == (y % 4 = 0 /\ y % 100 # 0) \/ y % 400 = 0
DaysInMonth(y, m) == IF m \in {4, 6, 9, 11} THEN 30
                     ELSE IF m = 2 THEN (IF IsLeap(y) THEN 29 ELSE 28) ELSE 31
ValidDate(y, m, d) == m \in 1..12 /\ d >= 1 /\ d <= DaysInMonth(y, m)

(* floor division / modulus for a positive divisor, also for negative dividends *)
FloorDiv(a, b) == IF a >= 0 THEN a \div b ELSE -((-a + b - 1) \div b)
FloorRem(a, b) == a - b * FloorDiv(a, b)

DaysFromCivil(y, m, d) ==
    LET yy  == IF m <= 2 THEN y - 1 ELSE y
        era == FloorDiv(yy, 400)
        yoe == yy - era * 400
        mp  == (m + 9) % 12
        doy == (153 * mp + 2) \div 5 + d - 1
        doe == yoe * 365 + yoe \div 4 - yoe \div 100 + doy
    IN era * 146097 + doe - 719468

CivilFromDays(z) ==
    LET zz  == z + 719468
        era == FloorDiv(zz, 146097)
        doe == zz - era * 146097
        yoe == (doe - doe \div 1460 + doe \div 36524 - doe \div 146096) \div 365
        doy == doe - (365 * yoe + yoe \div 4 - yoe \div 100)
        mp  == (5 * doy + 2) \div 153
        d   == doy - (153 * mp + 2) \div 5 + 1
        m   == IF mp < 10 THEN mp + 3 ELSE mp - 9
        y   == yoe + era * 400 + (IF m <= 2 THEN 1 ELSE 0)
    IN [y |-> y, m |-> m, d |-> d]

(* the calendar successor written without day counting (used to cross-check the two above) *)
NextCivil(c) == IF c.d < DaysInMonth(c.y, c.m) THEN [c EXCEPT !.d = c.d + 1]
                ELSE IF c.m < 12 THEN [y |-> c.y, m |-> c.m + 1, d |-> 1]
                ELSE [y |-> c.y + 1, m |-> 1, d |-> 1]

PeriodOf(type, y, m, d) == IF type = "date_year" THEN y
                           ELSE IF type = "date_month" THEN y * 100 + m
                           ELSE y * 10000 + m * 100 + d

(* a timestamp key (UTC day, second of day) seen in a zone tz seconds east of UTC *)
LocalDayOf(k, tz) == k.day + FloorDiv(k.sec + tz, 86400)
LocalSecOf(k, tz) == FloorRem(k.sec + tz, 86400)
TsPlace(type, k, tz) == LET c == CivilFromDays(LocalDayOf(k, tz)) IN Table(PeriodOf(type, c.y, c.m, c.d))

(* date strings.  positions (1-based):  YYYY-MM-DD hh:mm:ss                                  *)
(*                                      1234567890123456789                                    *)
Num2(s, i) == (s[i] - 48) * 10 + (s[i + 1] - 48)
Num4(s, i) == (s[i] - 48) * 1000 + (s[i + 1] - 48) * 100 + (s[i + 2] - 48) * 10 + (s[i + 3] - 48)
DigitsAt(s, P) == \A i \in P : i <= Len(s) /\ IsDigitCp(s[i])

IsDateSpelling(s) ==
    /\ Len(s) = 10 /\ DigitsAt(s, {1,2,3,4,6,7,9,10}) /\ s[5] = 45 /\ s[8] = 45
    /\ ValidDate(Num4(s, 1), Num2(s, 6), Num2(s, 9))
IsDateTimeSpelling(s) ==
    /\ Len(s) = 19 /\ DigitsAt(s, {1,2,3,4,6,7,9,10,12,13,15,16,18,19})
    /\ s[5] = 45 /\ s[8] = 45 /\ s[11] = 32 /\ s[14] = 58 /\ s[17] = 58
    /\ ValidDate(Num4(s, 1), Num2(s, 6), Num2(s, 9))
    /\ Num2(s, 12) < 24 /\ Num2(s, 15) < 60 /\ Num2(s, 18) < 60
AcceptedSpelling(s) == IsDateSpelling(s) \/ IsDateTimeSpelling(s)

(* why a string cannot be read as a date by a rule of this type ("ok" = the fields the rule *)
(* needs are present, decimal and inside the calendar)                                       *)
FieldClass(type, s) ==
    LET need == IF type = "date_year" THEN {1,2,3,4}
                ELSE IF type = "date_month" THEN {1,2,3,4,6,7} ELSE {1,2,3,4,6,7,9,10}
        top  == IF type = "date_year" THEN 4 ELSE IF type = "date_month" THEN 7 ELSE 10
    IN IF Len(s) < top THEN "too-short"
       ELSE IF ~DigitsAt(s, need) THEN
               (IF s[1] \in {43, 45} /\ DigitsAt(s, need \ {1}) THEN "sign-in-year" ELSE "non-digit")
       ELSE IF type # "date_year" /\ Num2(s, 6) \notin 1..12 THEN "month-out-of-calendar"
       ELSE IF type = "date_day" /\ ~ValidDate(Num4(s, 1), Num2(s, 6), Num2(s, 9)) THEN "day-out-of-calendar"
       ELSE "ok"

DateStrPlace(type, s) ==
    IF AcceptedSpelling(s) THEN Table(PeriodOf(type, Num4(s, 1), Num2(s, 6), Num2(s, 9)))
    ELSE IF FieldClass(type, s) # "ok" THEN Reject
    ELSE Lenient(PeriodOf(type, Num4(s, 1),
                          IF type = "date_year" THEN 1 ELSE Num2(s, 6),
                          IF type = "date_day" THEN Num2(s, 9) ELSE 1))

DatePlace(rule, k, tz) ==
    IF k.kind = "ts" THEN TsPlace(rule.type, k, tz)
    ELSE IF k.kind = "str" THEN DateStrPlace(rule.type, k.cps)
    ELSE Unspecified        \* raw 64-bit integers are given as "ts" keys (years 1..9999)

(* the spellings of a local civil instant *)
Dec2(n) == <<48 + (n \div 10), 48 + (n % 10)>>
Dec4(n) == <<48 + (n \div 1000), 48 + ((n \div 100) % 10), 48 + ((n \div 10) % 10), 48 + (n % 10)>>
DateText(y, m, d) == Dec4(y) \o <<45>> \o Dec2(m) \o <<45>> \o Dec2(d)
DateTimeText(y, m, d, sod) ==
    DateText(y, m, d) \o <<32>> \o Dec2(sod \div 3600) \o <<58>> \o Dec2((sod \div 60) % 60) \o <<58>> \o Dec2(sod % 60)
(* the UTC timestamp key of local civil time (y,m,d,sod) in zone tz *)
TsKeyOf(y, m, d, sod, tz) == [kind |-> "ts", day |-> DaysFromCivil(y, m, d) + FloorDiv(sod - tz, 86400),
                              sec |-> FloorRem(sod - tz, 86400)]

(* configured periods of a calendar rule: ranges[i] = [lo, hi] period numbers (either order) *)
ValidPeriod(type, p) == IF type = "date_year" THEN TRUE
                        ELSE IF type = "date_month" THEN (p % 100) \in 1..12
                        ELSE ValidDate(p \div 10000, (p \div 100) % 100, p % 100)
RangePeriods(type, r) == LET a == Min2(r.lo, r.hi)  b == Max2(r.lo, r.hi)
                         IN SortedSeq({p \in a..b : ValidPeriod(type, p)})
DateSubTables(rule)    == Flatten([i \in 1..Len(rule.ranges) |-> RangePeriods(rule.type, rule.ranges[i])])
DateTableToSlice(rule) == Flatten([i \in 1..Len(rule.ranges) |->
                                      Repeat(i - 1, Len(RangePeriods(rule.type, rule.ranges[i])))])

-----------------------------------------------------------------------------
(* HASH / MOD (kingshard rules, for reference) *)

ModPlace(rule, k) ==        \* |key| mod n
    LET num == NumOfKey(k) IN IF ~num.ok THEN Reject ELSE Table(AbsMod(num, TableCount(rule)))

HashPlace(rule, k) ==       \* uint64(key) mod n; non-numeric strings are CRC32-hashed: not specified here
    LET n == TableCount(rule) IN
    IF k.kind = "int" THEN
        LET num == NumOfKey(k) IN
        IF num.neg THEN Table((DigitsMod(Two64, n) + n - AbsMod(num, n)) % n) ELSE Table(AbsMod(num, n))
    ELSE IF k.kind = "str" /\ AllDigits(k.cps) /\ DigitsLeq(CpDigits(k.cps), Two64m1)
         THEN Table(DigitsMod(CpDigits(k.cps), n))
    ELSE Unspecified

-----------------------------------------------------------------------------
(* MYCAT PartitionByMod: new BigInteger(columnValue).abs().mod(count) *)
MycatModPlace(rule, k) ==
    LET num == NumOfKey(k) IN IF ~num.ok THEN Reject ELSE Table(AbsMod(num, TableCount(rule)))

(* MYCAT PartitionUtil: count[i] segments of length[i]; 1024 slots *)
SegLens(pcount, plength) == Flatten([i \in 1..Len(pcount) |-> Repeat(plength[i], pcount[i])])
ValidPartition(n, pcount, plength) ==
    /\ Len(pcount) = Len(plength) /\ Len(pcount) > 0
    /\ \A i \in 1..Len(pcount) : pcount[i] >= 0 /\ plength[i] >= 0
    /\ Sum(pcount) = n
    /\ Sum(SegLens(pcount, plength)) = 1024
SegmentOf(pcount, plength, x) ==        \* x \in 0..1023
    LET lens == SegLens(pcount, plength)
    IN (CHOOSE i \in 1..Len(lens) : PrefixSum(lens, i - 1) <= x /\ x < PrefixSum(lens, i)) - 1

(* MYCAT PartitionByLong: segment[(int)(Long.parseLong(v) & 1023)]; x & 1023 = x mod 1024 in two's complement *)
MycatLongPlace(rule, k) ==
    LET num == NumOfKey(k)
    IN IF ~num.ok THEN Reject ELSE Table(SegmentOf(rule.pcount, rule.plength, FloorMod(num, 1024)))

(* MYCAT PartitionByString + StringUtil.hash / sequenceSlicing *)
SliceBounds(hs) ==
    IF hs.form = "single" THEN (IF hs.a >= 0 THEN <<0, hs.a>> ELSE <<hs.a, 0>>)
    ELSE << (IF hs.a = None THEN 0 ELSE hs.a), (IF hs.b = None THEN 0 ELSE hs.b) >>

RECURSIVE HashFrom(_, _, _, _)
HashFrom(units, i, end, h) ==           \* h = 31*h + charAt(i), carried modulo 1024; i, end 0-based
    IF i >= end THEN h ELSE HashFrom(units, i + 1, end, (31 * h + units[i + 1]) % 1024)
StringHash1024(units, start, end) ==
    HashFrom(units, Max2(start, 0), Min2(end, Len(units)), 0)

MycatStringPlace(rule, k) ==
    LET units == Utf16(KeyText(k))
        b     == SliceBounds(rule.hs)
        start == IF b[1] >= 0 THEN b[1] ELSE Len(units) + b[1]
        end   == IF b[2] > 0 THEN b[2] ELSE Len(units) + b[2]
    IN Table(SegmentOf(rule.pcount, rule.plength, StringHash1024(units, start, end)))

-----------------------------------------------------------------------------
(* murmur3_32 (Guava Murmur3_32HashFunction.hashUnencodedChars) on 32-bit words <<lo16, hi16>> *)

XorNib == [a \in 0..15 |-> [b \in 0..15 |->
             ((a + b) % 2) + 2 * (((a \div 2) + (b \div 2)) % 2)
             + 4 * (((a \div 4) + (b \div 4)) % 2) + 8 * (((a \div 8) + (b \div 8)) % 2)]]
Xor16(a, b) == XorNib[a % 16][b % 16] + 16 * XorNib[(a \div 16) % 16][(b \div 16) % 16]
               + 256 * XorNib[(a \div 256) % 16][(b \div 256) % 16] + 4096 * XorNib[a \div 4096][b \div 4096]
XorW(x, y) == <<Xor16(x[1], y[1]), Xor16(x[2], y[2])>>

AddW(x, y) == LET lo == x[1] + y[1] IN <<lo % 65536, (x[2] + y[2] + lo \div 65536) % 65536>>

(* multiplication modulo 2^32 on 8-bit limbs: no intermediate exceeds 4*255*255 + carry *)
MulW(x, y) ==
    LET a == <<x[1] % 256, x[1] \div 256, x[2] % 256, x[2] \div 256>>
        b == <<y[1] % 256, y[1] \div 256, y[2] % 256, y[2] \div 256>>
        c0 == a[1] * b[1]
        c1 == a[1] * b[2] + a[2] * b[1] + c0 \div 256
        c2 == a[1] * b[3] + a[2] * b[2] + a[3] * b[1] + c1 \div 256
        c3 == a[1] * b[4] + a[2] * b[3] + a[3] * b[2] + a[4] * b[1] + c2 \div 256
    IN <<(c0 % 256) + 256 * (c1 % 256), (c2 % 256) + 256 * (c3 % 256)>>

RotR(x, n) ==      \* rotate right by n, 1 <= n <= 15
    LET p == 2 ^ n  q == 2 ^ (16 - n)
    IN <<x[1] \div p + (x[2] % p) * q, x[2] \div p + (x[1] % p) * q>>
Swap(x)   == <<x[2], x[1]>>
RotL15(x) == RotR(Swap(x), 1)          \* left 15 = right 17
RotL13(x) == RotR(Swap(x), 3)          \* left 13 = right 19
ShR16(x)  == <<x[2], 0>>
ShR13(x)  == <<x[1] \div 8192 + (x[2] % 8192) * 8, x[2] \div 8192>>

C1 == <<11601, 52382>>      \* 0xcc9e2d51
C2 == <<13715, 7047>>       \* 0x1b873593
MixK1(k) == MulW(RotL15(MulW(k, C1)), C2)
MixH1(h, k) == AddW(MulW(RotL13(XorW(h, k)), <<5, 0>>), <<27492, 58964>>)    \* *5 + 0xe6546b64
Fmix(h, len) ==
    LET a == XorW(h, <<len % 65536, len \div 65536>>)
        b == MulW(XorW(a, ShR16(a)), <<51819, 34283>>)     \* 0x85ebca6b
        c == MulW(XorW(b, ShR13(b)), <<44597, 49842>>)     \* 0xc2b2ae35
    IN XorW(c, ShR16(c))

(* a Java int (two's complement) as <<lo, hi>>, and back to a (signed) TLC integer *)
WordOfInt(i) == IF i >= 0 THEN <<i % 65536, i \div 65536>>
                ELSE LET m == i + 2147483647 + 1 IN <<m % 65536, m \div 65536 + 32768>>
IntOfWord(w) == IF w[2] >= 32768 THEN (w[2] - 65536) * 65536 + w[1] ELSE w[2] * 65536 + w[1]

(* streaming form: state [h, pend, n]; the hash of a prefix can be extended (Mycat appends to one StringBuilder) *)
MurmurInit(seed) == [h |-> WordOfInt(seed), pend |-> -1, n |-> 0]
MurmurFeed1(st, u) == IF st.pend = -1 THEN [st EXCEPT !.pend = u, !.n = st.n + 1]
                      ELSE [h |-> MixH1(st.h, MixK1(<<st.pend, u>>)), pend |-> -1, n |-> st.n + 1]
RECURSIVE MurmurFeedFrom(_, _, _)
MurmurFeedFrom(st, units, i) == IF i > Len(units) THEN st
                                ELSE MurmurFeedFrom(MurmurFeed1(st, units[i]), units, i + 1)
MurmurFeed(st, units) == MurmurFeedFrom(st, units, 1)
MurmurFinish(st) == LET h == IF st.pend = -1 THEN st.h ELSE XorW(st.h, MixK1(<<st.pend, 0>>))
                    IN IntOfWord(Fmix(h, 2 * st.n))
Murmur32(seed, units) == MurmurFinish(MurmurFeed(MurmurInit(seed), units))

ShardText == <<83, 72, 65, 82, 68, 45>>        \* "SHARD-"
NodeText  == <<45, 78, 79, 68, 69, 45>>        \* "-NODE-"
DecText(n) == LET ds == DecOf(n) IN [i \in 1..Len(ds) |-> ds[i] + 48]

(* MYCAT PartitionByMurmurHash.init: TreeMap hash -> node, a later put replaces an earlier one.    *)
(* entries of node i: <<hash, i, n>> for n = 0..vbt-1, the name growing by "-NODE-n" each time *)
RECURSIVE NodeEntries(_, _, _, _)
NodeEntries(st, i, n, vbt) ==
    IF n >= vbt THEN {}
    ELSE LET st2 == MurmurFeed(st, NodeText \o DecText(n))
         IN {<<MurmurFinish(st2), i, n>>} \cup NodeEntries(st2, i, n + 1, vbt)
RingEntries(seed, vbt, count) ==
    UNION {NodeEntries(MurmurFeed(MurmurInit(seed), ShardText \o DecText(i)), i, 0, vbt) : i \in 0..(count - 1)}
(* the map: for each hash the entry put last (largest node, then largest n) *)
Ring(seed, vbt, count) ==
    LET es == RingEntries(seed, vbt, count)
    IN {e \in es : \A f \in es : f[1] = e[1] => (f[2] < e[2] \/ (f[2] = e[2] /\ f[3] <= e[3]))}

(* tailMap(hash).firstKey(), or the first key of the whole map *)
RingLookup(ring, h) ==
    IF ring = {} THEN Reject
    ELSE LET tail == {e \in ring : e[1] >= h}
             pick(S) == CHOOSE e \in S : \A f \in S : e[1] <= f[1]
         IN Table((IF tail = {} THEN pick(ring) ELSE pick(tail))[2])

MycatMurmurPlaceWith(ring, rule, k) == RingLookup(ring, Murmur32(rule.seed, Utf16(KeyText(k))))
MycatMurmurPlace(rule, k) == MycatMurmurPlaceWith(Ring(rule.seed, rule.vbt, TableCount(rule)), rule, k)

-----------------------------------------------------------------------------
(* the placement function and the layout of a rule *)

IsDateRule(rule) == rule.type \in {"date_year", "date_month", "date_day"}
IsLocRule(rule)  == rule.type \in {"hash", "mod", "range", "mycat_mod", "mycat_long", "mycat_string", "mycat_murmur"}

Place(rule, k, tz) ==
    CASE rule.type = "range"        -> RangePlace(rule, k)
      [] IsDateRule(rule)           -> DatePlace(rule, k, tz)
      [] rule.type = "hash"         -> HashPlace(rule, k)
      [] rule.type = "mod"          -> ModPlace(rule, k)
      [] rule.type = "mycat_mod"    -> MycatModPlace(rule, k)
      [] rule.type = "mycat_long"   -> MycatLongPlace(rule, k)
      [] rule.type = "mycat_string" -> MycatStringPlace(rule, k)
      [] rule.type = "mycat_murmur" -> MycatMurmurPlace(rule, k)

(* listed physical tables, in configuration order, and the slice (0-based position in rule.slices) of each *)
SubTables(rule)    == IF IsDateRule(rule) THEN DateSubTables(rule)
                      ELSE [i \in 1..TableCount(rule) |-> i - 1]
TableToSlice(rule) == IF IsDateRule(rule) THEN DateTableToSlice(rule) ELSE LocTableToSlice(rule.locations)
(* slice index of table idx, or -1 when the table is not configured *)
SliceIndexOf(rule, idx) ==
    LET st == SubTables(rule)  ts == TableToSlice(rule)
        hit == {i \in 1..Len(st) : st[i] = idx}
    IN IF hit = {} THEN -1 ELSE ts[CHOOSE i \in hit : TRUE]

ResultOK(rule, r) ==
    \/ r \in {Reject, Unspecified}
    \/ r.t \in {"table", "lenient"} /\ r.idx \in Int
       /\ (IsLocRule(rule) => r.idx \in 0..(TableCount(rule) - 1))
===================================================================================
