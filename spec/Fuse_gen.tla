-------------------------------- MODULE Fuse_gen --------------------------------
(* Case generation for the conformance replays of C26 / C27 (harness/backend/fuse_test.go).  *)
(*  GenMode = "window": every non-decreasing timestamp sequence of GenLen errors with gaps     *)
(*     0..MaxTick and every start phase; emitted with the reference count after each error and *)
(*     the reference Trigger result for every threshold 1..MaxMin.                             *)
(*  GenMode = "node": behaviours of GenLen events over ConnErr(kind) / ProbeOK / ProbeFail /    *)
(*     Tick(d); emitted with the property-level status after every event.                      *)
EXTENDS Fuse, TLC, Json

CONSTANTS GenMode, GenLen, MaxMin,
          OkWeight      \* simulation only: a passing probe is OkWeight times as likely as a failing one
VARIABLE hist

gvars == <<fvars, hist>>

WinInit == /\ now \in 0..(2 * W)
           /\ n = InitNode(now)
           /\ g = InitGhost(now)
           /\ last = [ev |-> "init"]
           /\ hist = <<>>

WinNext == /\ Len(g.hist) < GenLen
           /\ \/ ConnErr("conn") /\ hist' = Append(hist, last'.count)
              \/ /\ last.ev # "tick"
                 /\ \E d \in 1..MaxTick : Tick(d)
                 /\ UNCHANGED hist

NodeInit == FInit /\ hist = <<>>

NodeNext == /\ Len(hist) < GenLen
            /\ \/ \E k \in ErrKinds : ConnErr(k)
               \/ \E w \in 1..OkWeight : ProbeOK
               \/ ProbeFail
               \/ \E d \in 1..MaxTick : Tick(d)
            /\ hist' = Append(hist, last')

(* window mode, exhaustive check only (no emission).  Two reductions, both bisimulations:          *)
(*  - timestamps that left the window never count again (InWindow);                               *)
(*  - RingStep / Slide / Count use the clock only through differences and through t % W, so        *)
(*    translating now, ring.start, lastFuse and the history by a multiple of W changes nothing.    *)
(* lastRec / upAt are constant and unread under the hard policy used in window mode.              *)
WinView == LET sh == (now \div W) * W
               h  == InWindow(g.hist, now)
           IN <<now - sh, n.st, n.ring.b, n.ring.all, n.ring.start - sh, n.lastFuse - sh,
                [i \in 1..Len(h) |-> h[i] - sh], Len(g.hist), last.ev>>

GenInit == IF GenMode = "window" THEN WinInit ELSE NodeInit
GenNext == IF GenMode = "window" THEN WinNext ELSE NodeNext
GenSpec == GenInit /\ [][GenNext]_gvars

Emit ==
    IF GenMode = "window"
    THEN (Len(g.hist) = GenLen /\ last.ev = "err") =>
            PrintT(<<"CASE", ToJson([w |-> W, ts |-> g.hist, counts |-> hist,
                                     trig |-> [m \in 1..MaxMin |-> [i \in 1..GenLen |-> hist[i] >= m]]])>>)
    ELSE Len(hist) = GenLen =>
            PrintT(<<"CASE", ToJson([w |-> W, min |-> Min, policy |-> Policy, cool |-> Cool, t0 |-> T0,
                                     events |-> hist])>>)
==================================================================================
