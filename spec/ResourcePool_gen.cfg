\* candidate + terminal schedules, 3 clients x 1 round with a scale-in tick (BFS, VIEW hides the history); 23,469 distinct states, 277 schedules
\* (checks/C24.py generates the configurations it runs from the same templates; measured sizes are in evidence/C24.json)
SPECIFICATION GenSpec
CONSTANTS
  Clients = {"c1","c2","c3"}
  MaxCap = 2
  InitCap = 1
  Rounds = 1
  Sweeps = 0
  Ticks = 1
  SetCapTo = 0
  WithClose = FALSE
  FactoryFails = FALSE
  PutNil = FALSE
  Timeouts = FALSE
VIEW GenView
INVARIANTS EmitBad EmitEnd
CHECK_DEADLOCK FALSE
