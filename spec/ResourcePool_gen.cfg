\* candidate + terminal schedules for Close racing gets (BFS, VIEW hides the history); 12,036 distinct states, 748 schedules
\* (checks/C24.py generates the configurations it runs from the same templates; measured sizes in DESIGN.md 5/C24 and evidence/C24.json)
SPECIFICATION GenSpec
CONSTANTS
  Clients = {"c1","c2"}
  MaxCap = 2
  InitCap = 1
  Rounds = 2
  Sweeps = 0
  Ticks = 0
  SetCapTo = 0
  WithClose = TRUE
  FactoryFails = FALSE
  PutNil = FALSE
  Timeouts = FALSE
VIEW GenView
INVARIANTS EmitBad EmitEnd
CHECK_DEADLOCK FALSE
