------------------------------ MODULE PlanIsolation ------------------------------
(* Sessions of one namespace plan statements against the namespace's shared router         *)
(* (proxy/router.Router: the rule table and the default rule).  Property C07: the router   *)
(* is written only when a configuration is loaded; every planning action (plan.BuildPlan,  *)
(* SessionExecutor.preBuildUnshardPlan, the field-list rule lookup) leaves it unchanged,   *)
(* and the plan a session obtains is a function of (statement, session database, router)   *)
(* alone - not of what other sessions plan at the same time.                               *)
(* The router's value and the plans are abstract: a router value is an element of Routers  *)
(* (the harness uses a deep hash of all rules and of the default rule's fields), a plan is *)
(* the application of the uninterpreted function F, represented by the tuple of its        *)
(* arguments (the harness uses the rendered per-slice SQL map).                            *)
EXTENDS Integers, Sequences, FiniteSets, TLC

CONSTANTS Sessions, Stmts, Dbs, Routers, MaxSteps

VARIABLES router,   \* the shared routing configuration
          last,     \* last plan obtained by each session, or None
          steps

vars == <<router, last, steps>>
None == <<>>

F(stmt, db, r) == <<stmt, db, r>>        \* plan = F(stmt, db, router): uninterpreted, hence injective

Init == /\ router \in Routers
        /\ last = [s \in Sessions |-> None]
        /\ steps = 0

(* Manager reload / namespace construction: the only writer of the router *)
Load(r) == /\ steps < MaxSteps
           /\ router' = r
           /\ steps' = steps + 1
           /\ UNCHANGED last

(* one planning call of session s: getPlan = preBuildUnshardPlan, then parse + BuildPlan; also the *)
(* rule lookup of COM_FIELD_LIST.  Atomic here because it only reads shared state.                 *)
Plan(s, stmt, db) == /\ steps < MaxSteps
                     /\ last' = [last EXCEPT ![s] = F(stmt, db, router)]
                     /\ steps' = steps + 1
                     /\ UNCHANGED router

Next == \/ \E r \in Routers : Load(r)
        \/ \E s \in Sessions, st \in Stmts, d \in Dbs : Plan(s, st, d)

Spec == Init /\ [][Next]_vars

TypeOK == router \in Routers /\ steps \in 0..MaxSteps

(* C07, first half: only Load writes the router *)
WrittenOnlyByLoad == [][router' # router => \E r \in Routers : Load(r)]_vars
PlanningLeavesRouter == [][(\E s \in Sessions, st \in Stmts, d \in Dbs : Plan(s, st, d)) => router' = router]_vars
(* C07, second half: a session's plan depends on its own statement, database and the router only *)
PlanIsFunction == \A s \in Sessions : last[s] # None => last[s][3] \in Routers /\ last[s] = F(last[s][1], last[s][2], last[s][3])
PlanUsesCurrentRouter == [][\A s \in Sessions : last'[s] # last[s] => last'[s][3] = router]_vars
================================================================================
