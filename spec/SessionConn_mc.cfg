\* exhaustive check of the session / connection model: all keep-session modes and user kinds,
\* command sequences of at most 4 commands, at most one backend fault and one namespace change.
\* (checks/_sessionconn.py generates the configurations it runs from the same template.)
SPECIFICATION Spec
CONSTANTS
  KSModes = {FALSE, TRUE}
  Users = {"rw", "rws", "ro"}
  MaxCmds = 4
  MaxFaults = 1
  MaxNs = 1
  MaxPerPool = 7
  FOps = {"get", "sync", "begin", "setac", "init", "exec", "commit", "rollback", "ping"}
INVARIANTS TypeOK C18_TxStatementOnTxMaster C18_OneConnPerSlice C18_EndReachesExactlyTx C18_ReleasedAfterEnd
  C19_NoLeak C19_NoDangling C19_NothingHeldOutsideTx C19_NoOpenTxInPool C19_EndClean
  C23_Pinned C23_PinnedRole C23_NsChange C23_NoSpuriousClose ModeSeparation
CHECK_DEADLOCK FALSE
