\* Case generation by hand: tlc -config Relational_gen.cfg Relational_gen   (one CASE line per case)
SPECIFICATION Spec
CONSTANTS
  Fams = {"plain", "agg", "union"}
  Seed = 1
  Mod = 1
  Reps = 1
  NGen = 30
INVARIANTS Emit
CHECK_DEADLOCK FALSE
