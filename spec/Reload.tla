---------------------------------- MODULE Reload ----------------------------------
(* Online reload of namespace configurations in the proxy: proxy/server/manager.go          *)
(* (Manager, NamespaceManager, UserManager) of XiaoMi/Gaea.  Properties C31 and C29.        *)
(*                                                                                          *)
(* P-level (property level, the judge of every real observation):                           *)
(*   pactive : namespace -> active configuration version or None                            *)
(*   plast   : namespace -> version last prepared for it or None                            *)
(*   a successful commit(n) activates exactly plast[n] and touches no other namespace, a     *)
(*   failed commit (error or panic) and a prepare change nothing that is visible, a          *)
(*   delete(n) removes n and only n.  A commit MAY fail at any time (the property speaks     *)
(*   of successful commits only).  The user directory is a function of pactive: the set of   *)
(*   triples (namespace, user, password) of the active configurations; Auth(u,p) = n iff     *)
(*   the triple (n,u,p) is configured.                                                       *)
(*                                                                                          *)
(* I-level (shaped like the code, re-derived from manager.go):                               *)
(*   idx  : Manager.switchIndex                                                             *)
(*   gen  : Manager.namespaces[2], each a map namespace -> version                          *)
(*   udir : Manager.users[2], the abstract content (set of triples) a correct directory holds *)
(*   cdir : Manager.users[2] as the code keeps it: password list per user, and a map           *)
(*          key(user, password) -> namespace.  Since fix f8962a4 the key is the pair itself      *)
(*          (JoinKey = the pair, SplitUser/SplitPw = its fields); before it was the text         *)
(*          user ":" password, split again on every ':' when a namespace was cleared             *)
(*   flag : Manager.reloadPrepared                                                           *)
(*   ReloadNamespacePrepare(cfg): new = copy(gen[idx]); new[n] = cfg; gen[1-idx] = new;       *)
(*        udir[1-idx] = clone(udir[idx]) rebuilt for n; flag = TRUE                          *)
(*        (a configuration NewNamespace rejects: error return before any of these assignments) *)
(*   ReloadNamespaceCommit(n):    CAS(flag, TRUE -> FALSE) else ErrNamespaceNotPrepared;      *)
(*        idx = 1-idx; gen[idx][n].Init()   -- nil dereference when n is not in that map     *)
(*   DeleteNamespace(n):          gen[idx][n] absent => nothing; else                         *)
(*        gen[1-idx] = copy(gen[idx]) - n; udir[1-idx] = clone(udir[idx]) - n; idx = 1-idx    *)
(*        (flag untouched)                                                                    *)
(*   GetNamespace(n) / CheckUser / CheckPassword / GetNamespaceByUser: read generation idx   *)
(* Every action is one whole operation (the interleavings of the property are               *)
(* interleavings of operations).  Reload_lin.tla splits the operations into their shared-    *)
(* memory accesses for truly concurrent administrators.                                      *)
(*                                                                                          *)
(* Fixed = TRUE models the proposed repair (out/proposed_fixes/C31-1.diff): commit only for  *)
(* the namespace of the pending prepare, delete cancels a pending prepare.                   *)
EXTENDS ReloadP

CONSTANTS
          Scenarios,     \* credential scenarios (C29): which users a configuration carries
          CredOf(_,_,_), \* CredOf(scenario, n, v) = set of <<user, password>> of configuration (n, v)
          JoinKey(_,_),  \* the text user ":" password (getUserKey); strings are atomic in TLA+, so the three
          SplitUser(_),  \*   string functions are tables instantiated for the universe of the run:
          SplitPw(_),    \*   SplitUser/SplitPw = first and second ':'-separated field of a key (getUserAndPasswordFromKey)
          InitActive,    \* set of initial maps namespace -> version (the namespaces loaded at start)
          Paired,        \* TRUE: every prepare(n) is followed by commit(n) before anything else but rejected submissions (a well-formed reload)
          WithBad,       \* TRUE: administrators also submit configurations the proxy rejects (a failing prepare)
          Fixed          \* FALSE: the algorithm as it is in manager.go; TRUE: the proposed repair


VARIABLES sc,        \* the credential scenario of this behaviour (never changes)
          pactive,   \* P
          plast,     \* P
          idx, gen, udir, flag,   \* I
          cdir,      \* I: Manager.users[2] shaped like the code: users = {<<user, password>>} (UserManager.users),
                     \*    keys = {<<key text, namespace>>} (UserManager.userNamespaces)
          pname,     \* I (Fixed only): the namespace the pending prepare belongs to
          last       \* the last operation, its outcome, and whether the P-level permits that outcome

pvars == <<pactive, plast>>
ivars == <<idx, gen, udir, cdir, flag, pname>>
vars  == <<sc, pactive, plast, idx, gen, udir, cdir, flag, pname, last>>

(* A <<user, password>> pair belongs to at most one namespace AT A TIME ("passwords unique per   *)
(* name, as the control plane requires"): a configuration can only be submitted when none of its  *)
(* pairs is held by another active namespace (Free).  User names may be shared, and a pair may    *)
(* move to another namespace once its owner dropped it or was deleted.                            *)

-----------------------------------------------------------------------------------
(* user directory content *)
TriplesOfCfg(s, n, v) == IF v = None THEN {} ELSE {<<n, c[1], c[2]>> : c \in CredOf(s, n, v)}
Triples(s, act)       == UNION {TriplesOfCfg(s, n, act[n]) : n \in NS}
Rebuild(d, s, n, v)   == {t \in d : t[1] # n} \cup TriplesOfCfg(s, n, v)
Clear(d, n)           == {t \in d : t[1] # n}

(* Auth(u,p): the namespace a client with user u and password p is bound to, "" = rejected *)
AuthIn(d, u, p) == LET m == {t \in d : t[2] = u /\ t[3] = p}
                   IN IF m = {} THEN "" ELSE (CHOOSE t \in m : TRUE)[1]
KnownUser(d, u) == \E t \in d : t[2] = u

(* the directory as UserManager keeps it: addNamespaceUsers / ClearNamespaceUsers / CheckUser+CheckPassword /  *)
(* GetNamespaceByUser; Session.Handshake then refuses a namespace that does not exist (IsAllowConnect)          *)
CEmpty == [users |-> {}, keys |-> {}]
CAdd(d, s, n, v) ==
    LET cs == IF v = None THEN {} ELSE CredOf(s, n, v)
        ks == {JoinKey(c[1], c[2]) : c \in cs}
    IN [users |-> d.users \cup cs,
        keys  |-> {kv \in d.keys : kv[1] \notin ks} \cup {<<k, n>> : k \in ks}]
CClear(d, n) ==
    LET ks == {kv \in d.keys : kv[2] = n}
    IN [users |-> d.users \ {<<SplitUser(kv[1]), SplitPw(kv[1])>> : kv \in ks},
        keys  |-> d.keys \ ks]
CRebuild(d, s, n, v) == CAdd(CClear(d, n), s, n, v)
CAuthIn(d, vis, u, p) ==
    IF <<u, p>> \notin d.users THEN ""
    ELSE LET m == {kv \in d.keys : kv[1] = JoinKey(u, p)}
         IN IF m = {} THEN "" ELSE LET n == (CHOOSE kv \in m : TRUE)[2] IN IF vis[n] = None THEN "" ELSE n

PTriples   == Triples(sc, pactive)
PAuth(u,p) == AuthIn(PTriples, u, p)

(* what a session sees in the implementation *)
Visible      == gen[idx]
IAuth(u, p)  == AuthIn(udir[idx], u, p)
CAuth(u, p)  == CAuthIn(cdir[idx], gen[idx], u, p)
Lookup(n)    == gen[idx][n]

-----------------------------------------------------------------------------------
Op(o, n, v) == [op |-> o, n |-> n, v |-> v]

TypeOK == /\ sc \in Scenarios
          /\ pactive \in [NS -> Val] /\ plast \in [NS -> Val]
          /\ idx \in {0, 1}
          /\ gen \in [{0, 1} -> [NS -> Val]]
          /\ flag \in BOOLEAN
          /\ pname \in NS \cup {""}
          /\ last.out \in {"ok", "fail", "panic"}

Init == /\ sc \in Scenarios
        /\ pactive \in InitActive
        /\ plast = [n \in NS |-> None]
        /\ idx = 0
        /\ gen = [i \in {0, 1} |-> IF i = 0 THEN pactive ELSE [n \in NS |-> None]]
        /\ udir = [i \in {0, 1} |-> IF i = 0 THEN Triples(sc, pactive) ELSE {}]
        /\ cdir = [i \in {0, 1} |-> IF i = 0
                       THEN [users |-> UNION {IF pactive[n] = None THEN {} ELSE CredOf(sc, n, pactive[n]) : n \in NS},
                             keys  |-> {<<JoinKey(t[2], t[3]), t[1]>> : t \in Triples(sc, pactive)}]
                       ELSE CEmpty]
        /\ flag = FALSE
        /\ pname = ""
        /\ last = [op |-> "init", n |-> "", v |-> None, out |-> "ok", allowed |-> TRUE, owed |-> ""]

-----------------------------------------------------------------------------------
(* I-level: outcome of an operation in the current state, then its effect *)
CommitRefused(n) == ~flag \/ (Fixed /\ pname # n)
OutOf(o) == CASE o.op = "prepare" -> "ok"
              [] o.op = "badprepare" -> "fail"   \* NewNamespace rejects the configuration: nothing was assigned yet
              [] o.op = "delete"  -> "ok"
              [] o.op = "commit"  -> IF CommitRefused(o.n) THEN "fail"
                                     ELSE IF gen[1 - idx][o.n] = None THEN "panic" ELSE "ok"

IPrepare(n, v) ==
    /\ gen'  = [gen  EXCEPT ![1 - idx] = [gen[idx] EXCEPT ![n] = v]]
    /\ udir' = [udir EXCEPT ![1 - idx] = Rebuild(udir[idx], sc, n, v)]
    /\ cdir' = [cdir EXCEPT ![1 - idx] = CRebuild(cdir[idx], sc, n, v)]
    /\ flag' = TRUE
    /\ pname' = n
    /\ idx' = idx

ICommit(n) ==
    IF CommitRefused(n) THEN UNCHANGED ivars
    ELSE /\ flag' = FALSE
         /\ idx' = 1 - idx          \* the switch happens before the nil dereference
         /\ UNCHANGED <<gen, udir, cdir, pname>>

IDelete(n) ==
    IF gen[idx][n] = None THEN UNCHANGED ivars
    ELSE /\ gen'  = [gen  EXCEPT ![1 - idx] = [gen[idx] EXCEPT ![n] = None]]
         /\ udir' = [udir EXCEPT ![1 - idx] = Clear(udir[idx], n)]
         /\ cdir' = [cdir EXCEPT ![1 - idx] = CClear(cdir[idx], n)]
         /\ idx' = 1 - idx
         /\ flag' = IF Fixed THEN FALSE ELSE flag
         /\ UNCHANGED pname

IStep(o) == CASE o.op = "prepare" -> IPrepare(o.n, o.v)
              [] o.op = "badprepare" -> UNCHANGED ivars
              [] o.op = "commit"  -> ICommit(o.n)
              [] o.op = "delete"  -> IDelete(o.n)

-----------------------------------------------------------------------------------
(* P-level: PAllowed / PAfter / PLastAfter are in ReloadP.tla (shared with the trace specifications) *)
PStep(o, out) == /\ pactive' = PAfter(pactive, plast, o, out)
                 /\ plast'   = PLastAfter(plast, o, out)

(* one whole operation: the implementation acts, the reference follows the reported outcome *)
Do(o) == /\ IStep(o)
         /\ PStep(o, OutOf(o))
         /\ last' = [op |-> o.op, n |-> o.n, v |-> o.v, out |-> OutOf(o),
                     allowed |-> PAllowed(plast, o, OutOf(o)),
                     \* owed: the namespace whose commit a well-formed reload still owes (Paired only)
                     owed |-> CASE o.op = "prepare" -> o.n
                                [] o.op = "commit"  -> ""
                                [] OTHER            -> last.owed]
         /\ UNCHANGED sc

Free(n, v) == \A m \in NS \ {n} : pactive[m] = None \/ CredOf(sc, m, pactive[m]) \cap CredOf(sc, n, v) = {}

Enabled(o) == /\ o.op = "prepare" => Free(o.n, o.v)
              /\ o.op = "badprepare" => WithBad
              /\ IF ~Paired THEN TRUE
                 ELSE IF last.owed # ""
                      THEN (o.op = "commit" /\ o.n = last.owed) \/ o.op = "badprepare"   \* a rejected submission may come in between
                      ELSE o.op # "commit"

Try(o) == Enabled(o) /\ Do(o)

Prepare(n, v) == Try(Op("prepare", n, v))   \* Manager.ReloadNamespacePrepare
BadPrepare(n) == Try(Op("badprepare", n, None)) \* Manager.ReloadNamespacePrepare with a configuration NewNamespace rejects
Commit(n)     == Try(Op("commit", n, None)) \* Manager.ReloadNamespaceCommit
Delete(n)     == Try(Op("delete", n, None)) \* Manager.DeleteNamespace

Next == \/ \E n \in NS, v \in Version : Prepare(n, v)
        \/ \E n \in NS : BadPrepare(n)
        \/ \E n \in NS : Commit(n)
        \/ \E n \in NS : Delete(n)

Spec == Init /\ [][Next]_vars

-----------------------------------------------------------------------------------
(* C31, cumulative form: what sessions see is what the reference says is active. *)
Refines == Visible = pactive

(* no commit reports success for a namespace nothing was prepared for *)
OutcomeAllowed == last.allowed

(* C31, step form (the property text, sentence by sentence), on the visible state only. *)
C31Step == [][LET o == last' IN
                /\ PAllowed(plast, o, o.out)
                /\ Visible' = PAfter(Visible, plast, o, o.out)]_vars

(* a deleted namespace stays deleted until it is committed again *)
StaysDeleted == [][\A n \in NS : (Visible[n] = None /\ Visible'[n] # None) =>
                      (last'.op = "commit" /\ last'.n = n /\ last'.out = "ok")]_vars

(* sessions observe one complete generation: user directory and namespace map belong together *)
OneGeneration == udir[idx] = Triples(sc, gen[idx])

(* C29: authentication is exactly the reference directory ... *)
AuthUniverse == UNION {CredOf(sc, n, v) : n \in NS, v \in Version}
UsersRefine  == \A c \in AuthUniverse : IAuth(c[1], c[2]) = PAuth(c[1], c[2])
(* the same for the directory as the code keeps it (joined keys, split on every ':') *)
CodeUsersRefine == \A c \in AuthUniverse : CAuth(c[1], c[2]) = PAuth(c[1], c[2])
(* ... and an operation on namespace n changes only n's triples *)
OnlyOwnTriples == [][\A t \in (udir[idx] \cup udir'[idx']) :
                        (t \in udir[idx]) # (t \in udir'[idx']) => t[1] = last'.n]_vars
===================================================================================
