-------------------------------- MODULE Sequence --------------------------------
(* Global sequence allocation of XiaoMi/Gaea (proxy/sequence/mysql.go, docs/sequence-id.md).  *)
(*                                                                                            *)
(* One row (current_value, increment) of the table MYCAT_SEQUENCE, read and advanced by the    *)
(* stored function mycat_seq_nextval:  UPDATE current_value = current_value + increment;       *)
(* RETURN "current_value,increment"  (or the declared default "-999999999,null" when the row   *)
(* does not exist).  One statement, hence one atomic step of the database.                     *)
(* Every proxy owns a MySQLSequence object (an "allocator"): curr, max and a mutex.            *)
(* NextSeq, as written in mysql.go:                                                            *)
(*     lock; if curr >= max { fetch: (c,i) := nextval(); curr := c; max := c+i }               *)
(*     curr++; if maxLimit > 0 && curr >= maxLimit { error }; return curr; unlock (deferred)   *)
(* The mutex is held across the fetch.  Steps of this specification (I-level):                 *)
(*     Start(c)     a session asks for a value (it may have to wait for the mutex)             *)
(*     Begin(c)     mutex acquired, curr >= max evaluated                                      *)
(*     Fetch(c,o)   the database executes the statement with outcome class o (the one step     *)
(*                  shared between allocators)                                                  *)
(*     Complete(c)  reply handled, curr advanced, result returned, mutex released              *)
(* P-level (property C34): no value is issued twice, the values of one allocator increase      *)
(* strictly, and a call whose fetch did not return a well-formed row with a positive           *)
(* increment fails.  Strict = TRUE is the reply handling of the code since fix d955582           *)
(* (malformed row => error); Strict = FALSE is the handling before it (ParseInt errors dropped,  *)
(* no sign check), kept for reference only.                                                     *)
(* HoldLock = TRUE is the code: the mutex covers the fetch.  HoldLock = FALSE is a deliberately  *)
(* weaker algorithm (a session that has to fetch does not hold the mutex until the reply is      *)
(* installed); it violates the property, and its counterexamples are used as PROBE schedules:    *)
(* the harness tries to impose them on the real allocator, which must refuse the overlap (the    *)
(* second session blocks on the mutex) - if it does not, the property is judged on the values    *)
(* it hands out.                                                                                 *)
EXTENDS Integers, Sequences, FiniteSets

CONSTANTS Allocs,      \* allocator ids, e.g. {"a1","a2"}
          K,           \* sessions per allocator that may call NextSeq concurrently
          Inc,         \* increment column of a well-formed row (block size)
          Start,       \* initial current_value
          MaxReq,      \* bound on the number of NextSeq calls (model checking only)
          MaxLimit,    \* MySQLSequence.maxLimit, 0 = unlimited
          Strict,      \* BOOLEAN, see above
          HoldLock,    \* BOOLEAN, see above
          Outcomes     \* fetch outcome classes the environment may choose from

VARIABLES dbcur,       \* current_value of the row
          dbinc,       \* increment of the row while it is well formed
          broken,      \* the row has been left with a non-positive increment (never repaired here)
          curr, max,   \* per allocator
          lock,        \* per allocator: the caller holding the mutex, or NoOne
          pc,          \* per caller: "idle", "started", "fetch", "got", "issue"
          resp,        \* per caller: reply of its fetch
          fo,          \* per caller: outcome class of the fetch of the current call ("none" = no fetch)
          issued,      \* P: set of values handed out so far
          last,        \* P: per allocator the last value handed out (NoVal = none yet)
          dup, nonmono, badval,   \* P: monitors
          nreq

ivars == <<curr, max, lock, pc, resp, fo>>
pvars == <<issued, last, dup, nonmono, badval>>
vars  == <<dbcur, dbinc, broken, ivars, pvars, nreq>>

Callers == Allocs \X (1..K)
A(c)    == c[1]
NoOne   == <<"-", 0>>
NoVal   == -2000000000
MissingDefault == -999999999        \* DECLARE retval ... "-999999999,null"

AllOutcomes == {"ok", "err_get", "err_usedb", "err_exec", "err_applied", "missing", "nan_cur", "nan_inc",
                "nan_both", "zero_inc", "neg_inc", "fields1", "fields3", "norows", "null"}
ASSUME Outcomes \subseteq AllOutcomes

(* A field of the reply: a number, or text that is not a number. *)
Num(v) == [num |-> TRUE, v |-> v]
NaN    == [num |-> FALSE, v |-> 0]
Row(c, i) == [err |-> FALSE, nf |-> 2, c |-> c, i |-> i]
NoRow(nf) == [err |-> FALSE, nf |-> nf, c |-> NaN, i |-> NaN]
ErrReply  == [err |-> TRUE, nf |-> 0, c |-> NaN, i |-> NaN]

(* The database side: reply and new current_value per outcome class. *)
Reply(o) ==
    CASE o = "ok"          -> Row(Num(dbcur + dbinc), Num(dbinc))
      [] o = "missing"     -> Row(Num(MissingDefault), NaN)
      [] o = "nan_cur"     -> Row(NaN, Num(dbinc))
      [] o = "nan_inc"     -> Row(Num(dbcur), NaN)
      [] o = "nan_both"    -> Row(NaN, NaN)
      [] o = "zero_inc"    -> Row(Num(dbcur), Num(0))
      [] o = "neg_inc"     -> Row(Num(dbcur - 1), Num(-1))
      [] o = "fields1"     -> NoRow(1)
      [] o = "fields3"     -> NoRow(3)
      [] o = "norows"      -> NoRow(0)
      [] o = "null"        -> NoRow(1)
      [] OTHER             -> ErrReply          \* err_get, err_usedb, err_exec, err_applied

DbAfter(o) == CASE o \in {"ok", "err_applied"} -> dbcur + dbinc
                [] o = "neg_inc"               -> dbcur - 1
                [] OTHER                       -> dbcur

OutcomeEnabled(o) == (o \in {"ok", "err_applied"}) => ~broken
GoodOutcome(o) == o = "ok"

(* The allocator side: how a reply is handled. *)
Val(f) == IF f.num THEN f.v ELSE 0                        \* strconv.ParseInt error dropped
Rejected(r) == \/ r.err
               \/ r.nf # 2
               \/ Strict /\ (~r.c.num \/ ~r.i.num \/ r.i.v <= 0)

Init == /\ dbcur = Start /\ dbinc = Inc /\ broken = FALSE
        /\ curr = [a \in Allocs |-> 0] /\ max = [a \in Allocs |-> 0]
        /\ lock = [a \in Allocs |-> NoOne]
        /\ pc = [c \in Callers |-> "idle"]
        /\ resp = [c \in Callers |-> ErrReply]
        /\ fo = [c \in Callers |-> "none"]
        /\ issued = {} /\ last = [a \in Allocs |-> NoVal]
        /\ dup = FALSE /\ nonmono = FALSE /\ badval = FALSE
        /\ nreq = 0

Start_(c) == /\ pc[c] = "idle"
             /\ nreq < MaxReq
             /\ nreq' = nreq + 1
             /\ pc' = [pc EXCEPT ![c] = "started"]
             /\ UNCHANGED <<dbcur, dbinc, broken, curr, max, lock, resp, fo, pvars>>

Begin(c) == /\ pc[c] = "started"
            /\ lock[A(c)] = NoOne
            /\ LET f == curr[A(c)] >= max[A(c)] IN
                 /\ pc' = [pc EXCEPT ![c] = IF f THEN "fetch" ELSE "issue"]
                 /\ lock' = IF f /\ ~HoldLock THEN lock ELSE [lock EXCEPT ![A(c)] = c]
            /\ UNCHANGED <<dbcur, dbinc, broken, curr, max, resp, fo, pvars, nreq>>

Fetch(c, o) == /\ pc[c] = "fetch"
               /\ o \in Outcomes /\ OutcomeEnabled(o)
               /\ resp' = [resp EXCEPT ![c] = Reply(o)]
               /\ fo' = [fo EXCEPT ![c] = o]
               /\ dbcur' = DbAfter(o)
               /\ broken' = (broken \/ o = "neg_inc")
               /\ pc' = [pc EXCEPT ![c] = "got"]
               /\ UNCHANGED <<dbinc, curr, max, lock, pvars, nreq>>

(* What Complete returns and leaves behind. *)
Fails(c)  == pc[c] = "got" /\ Rejected(resp[c])
BaseCur(c) == IF pc[c] = "got" THEN Val(resp[c].c) ELSE curr[A(c)]
BaseMax(c) == IF pc[c] = "got" THEN Val(resp[c].c) + Val(resp[c].i) ELSE max[A(c)]
Limited(c) == MaxLimit > 0 /\ BaseCur(c) + 1 >= MaxLimit
Result(c) == IF Fails(c) \/ Limited(c) THEN [ok |-> FALSE, v |-> 0] ELSE [ok |-> TRUE, v |-> BaseCur(c) + 1]

Complete(c) ==
    /\ pc[c] \in {"got", "issue"}
    /\ lock[A(c)] \in {NoOne, c}              \* (re-)acquire the mutex; always true when HoldLock
    /\ LET a == A(c)
           r == Result(c)
       IN /\ IF Fails(c)
             THEN UNCHANGED <<curr, max>>
             ELSE /\ curr' = [curr EXCEPT ![a] = BaseCur(c) + 1]
                  /\ max'  = [max EXCEPT ![a] = BaseMax(c)]
          /\ IF r.ok
             THEN /\ dup' = (dup \/ r.v \in issued)
                  /\ issued' = issued \cup {r.v}
                  /\ nonmono' = (nonmono \/ (last[a] # NoVal /\ r.v <= last[a]))
                  /\ last' = [last EXCEPT ![a] = r.v]
                  /\ badval' = (badval \/ (fo[c] # "none" /\ ~GoodOutcome(fo[c])))
             ELSE UNCHANGED pvars
          /\ lock' = [lock EXCEPT ![a] = NoOne]
          /\ pc' = [pc EXCEPT ![c] = "idle"]
          /\ resp' = [resp EXCEPT ![c] = ErrReply]
          /\ fo' = [fo EXCEPT ![c] = "none"]
    /\ UNCHANGED <<dbcur, dbinc, broken, nreq>>

Next == \E c \in Callers : \/ Start_(c) \/ Begin(c) \/ Complete(c)
                           \/ \E o \in Outcomes : Fetch(c, o)

Spec == Init /\ [][Next]_vars

-----------------------------------------------------------------------------------
(* Properties (C34). *)
TypeOK == /\ lock \in [Allocs -> Callers \cup {NoOne}]
          /\ pc \in [Callers -> {"idle", "started", "fetch", "got", "issue"}]
          /\ HoldLock => \A a \in Allocs : Cardinality({c \in Callers : A(c) = a /\ pc[c] \in {"fetch", "got", "issue"}}) <= 1
          /\ HoldLock => \A c \in Callers : pc[c] \in {"fetch", "got", "issue"} <=> lock[A(c)] = c

Distinct      == ~dup        \* no value handed out twice, across all allocators
Increasing    == ~nonmono    \* per allocator strictly increasing
BadFetchFails == ~badval     \* a call with a failed / malformed / missing / non-positive-increment fetch yields no value

(* The cached block never reaches past what the database has reserved for somebody else:     *)
(* the reason why Distinct holds (an inductive strengthening, checked as well).               *)
BlocksDisjoint ==
    Strict => \A a, b \in Allocs : a # b /\ curr[a] < max[a] /\ curr[b] < max[b] =>
                  (max[a] <= curr[b] \/ max[b] <= curr[a])
===================================================================================
