---------------------------------- MODULE Wire ----------------------------------
(* The MySQL client/server wire format as far as XiaoMi/Gaea's mysql package speaks it.    *)
(*                                                                                        *)
(*  Part A  packet framing (property C11): a payload of L bytes is cut into frames of at   *)
(*          most M bytes, each with a one-byte sequence id; mysql/conn.go.                 *)
(*  Part B  length-encoded integers and strings, fixed-size and NUL-terminated reads over  *)
(*          byte sequences (property C12); mysql/encoding.go.                              *)
(*  Part C  the binary-protocol result row (property C13): Wire_rows.tla (EXTENDS Wire).  *)
(*                                                                                        *)
(* TLC integers are 32 bit.  64-bit protocol integers are therefore 8-byte little-endian   *)
(* sequences ("b8"), never TLC integers.  Buffer offsets follow the Go code: 0-based.      *)
EXTENDS Integers, Sequences, FiniteSets

-----------------------------------------------------------------------------------
(* Part A.  Framing.                                                                      *)
(* The protocol definition, recursively: while at least M bytes remain send a full frame; *)
(* the last frame is shorter than M (possibly empty).  A frame is its header (len, seq)    *)
(* plus the offset of its first payload byte (the payload itself is the identity).         *)

RECURSIVE SplitFrom(_, _, _, _)
SplitFrom(L, s, M, off) ==
    IF L < M THEN << [len |-> L, seq |-> s, off |-> off] >>
    ELSE << [len |-> M, seq |-> s, off |-> off] >> \o SplitFrom(L - M, (s + 1) % 256, M, off + M)

Split(L, s, M) == SplitFrom(L, s, M, 0)

NFrames(L, M) == (L \div M) + 1

(* The reader: consume frames while they are full; every frame must carry the expected    *)
(* sequence id and continue where the previous one ended.                                 *)
RECURSIVE ReasmFrom(_, _, _, _, _)
ReasmFrom(fs, i, e, acc, M) ==
    IF i > Len(fs) THEN [ok |-> FALSE, why |-> "short", at |-> i, len |-> acc, next |-> e]
    ELSE IF fs[i].seq # e THEN [ok |-> FALSE, why |-> "seq", at |-> i, len |-> acc, next |-> e]
    ELSE IF fs[i].len < M THEN [ok |-> TRUE, why |-> "", at |-> i, len |-> acc + fs[i].len, next |-> (e + 1) % 256]
    ELSE ReasmFrom(fs, i + 1, (e + 1) % 256, acc + M, M)

Reassemble(fs, s, M) == ReasmFrom(fs, 1, s, 0, M)

(* frame i carries sequence id (seq + d) mod 256 instead of seq *)
BadSeq(fs, i, d) == [fs EXCEPT ![i].seq = (fs[i].seq + d) % 256]

(* Properties of framing (checked by TLC for all L <= 3M+1, M = 4, all s: WireFrames).     *)
FramesBounded(L, s, M)   == \A i \in 1..Len(Split(L, s, M)) : Split(L, s, M)[i].len \in 0..M
FrameCount(L, s, M)      == Len(Split(L, s, M)) = NFrames(L, M)
AllButLastFull(L, s, M)  == LET fs == Split(L, s, M) IN
                              /\ \A i \in 1..(Len(fs) - 1) : fs[i].len = M
                              /\ fs[Len(fs)].len < M
SeqIncrements(L, s, M)   == LET fs == Split(L, s, M) IN \A i \in 1..Len(fs) : fs[i].seq = (s + i - 1) % 256
Contiguous(L, s, M)      == LET fs == Split(L, s, M) IN
                              /\ fs[1].off = 0
                              /\ \A i \in 1..(Len(fs) - 1) : fs[i + 1].off = fs[i].off + fs[i].len
                              /\ fs[Len(fs)].off + fs[Len(fs)].len = L
EmptyTerminator(L, s, M) == LET fs == Split(L, s, M) IN
                              /\ (Len(fs) > 1 /\ fs[Len(fs)].len = 0) <=> (L % M = 0 /\ L > 0)
                              /\ (L = 0 => Len(fs) = 1 /\ fs[1].len = 0)
RoundTripFrames(L, s, M) == LET r == Reassemble(Split(L, s, M), s, M) IN
                              r.ok /\ r.len = L /\ r.at = NFrames(L, M) /\ r.next = (s + NFrames(L, M)) % 256
WrongSeqRejectedFor(L, s, M, D) == LET fs == Split(L, s, M) IN
                               \A i \in 1..Len(fs) : \A d \in D :
                                  LET r == Reassemble(BadSeq(fs, i, d), s, M) IN ~r.ok /\ r.why = "seq" /\ r.at = i
WrongSeqRejected(L, s, M) == WrongSeqRejectedFor(L, s, M, 1..255)

FramingProps(L, s, M) == /\ FramesBounded(L, s, M) /\ FrameCount(L, s, M) /\ AllButLastFull(L, s, M)
                         /\ SeqIncrements(L, s, M) /\ Contiguous(L, s, M) /\ EmptyTerminator(L, s, M)
                         /\ RoundTripFrames(L, s, M)

-----------------------------------------------------------------------------------
(* Part B.  Bytes, 64-bit integers as 8 little-endian bytes, length-encoded values.        *)

Byte == 0..255
Zero8 == <<0, 0, 0, 0, 0, 0, 0, 0>>
Pad8(s) == [i \in 1..8 |-> IF i <= Len(s) THEN s[i] ELSE 0]
IsB8(b) == DOMAIN b = 1..8 /\ \A i \in 1..8 : b[i] \in Byte

(* bytes k..8 are zero, i.e. the value is below 256^(k-1) *)
HighZero(b8, k) == \A i \in k..8 : b8[i] = 0

(* b8 + 1 and b8 - 1 modulo 2^64 (ripple carry) *)
RECURSIVE IncFrom(_, _)
IncFrom(b8, i) == IF i > 8 THEN b8
                  ELSE IF b8[i] = 255 THEN IncFrom([b8 EXCEPT ![i] = 0], i + 1)
                  ELSE [b8 EXCEPT ![i] = b8[i] + 1]
Inc8(b8) == IncFrom(b8, 1)
RECURSIVE DecFrom(_, _)
DecFrom(b8, i) == IF i > 8 THEN b8
                  ELSE IF b8[i] = 0 THEN DecFrom([b8 EXCEPT ![i] = 255], i + 1)
                  ELSE [b8 EXCEPT ![i] = b8[i] - 1]
Dec8(b8) == DecFrom(b8, 1)

(* a b8 as a TLC integer when it is below 2^24, else a sentinel larger than any buffer *)
Huge == 1073741824
Small(b8) == IF HighZero(b8, 4) THEN b8[1] + 256 * b8[2] + 65536 * b8[3] ELSE Huge
FromSmall(n) == Pad8(<< n % 256, (n \div 256) % 256, (n \div 65536) % 256 >>)   \* n < 2^24

(* Encoder: the shortest of the four size classes.                                        *)
EncLen(b8) ==
    IF HighZero(b8, 2) /\ b8[1] < 251 THEN << b8[1] >>
    ELSE IF HighZero(b8, 3) THEN << 252, b8[1], b8[2] >>
    ELSE IF HighZero(b8, 4) THEN << 253, b8[1], b8[2], b8[3] >>
    ELSE << 254 >> \o b8
EncSize(b8) == Len(EncLen(b8))

(* Decoder.  Total: defined for every byte sequence and every offset (also offsets beyond *)
(* the end).  buf[pos] of the Go code is buf[pos+1] here.  `undef` marks the first byte    *)
(* 0xff, which the protocol does not define for a length-encoded integer: an               *)
(* implementation may fail or may take the byte literally, but must stay inside the input. *)
DecFail == [ok |-> FALSE, null |-> FALSE, undef |-> FALSE, val |-> Zero8, next |-> 0]
DecLen(buf, pos) ==
    IF pos < 0 \/ pos >= Len(buf) THEN DecFail
    ELSE LET c == buf[pos + 1]
             have == Len(buf) - pos - 1      \* bytes after the first one
         IN IF c < 251 THEN [ok |-> TRUE, null |-> FALSE, undef |-> FALSE, val |-> Pad8(<<c>>), next |-> pos + 1]
            ELSE IF c = 251 THEN [ok |-> TRUE, null |-> TRUE, undef |-> FALSE, val |-> Zero8, next |-> pos + 1]
            ELSE IF c = 252 THEN IF have < 2 THEN DecFail
                                 ELSE [ok |-> TRUE, null |-> FALSE, undef |-> FALSE,
                                       val |-> Pad8(SubSeq(buf, pos + 2, pos + 3)), next |-> pos + 3]
            ELSE IF c = 253 THEN IF have < 3 THEN DecFail
                                 ELSE [ok |-> TRUE, null |-> FALSE, undef |-> FALSE,
                                       val |-> Pad8(SubSeq(buf, pos + 2, pos + 4)), next |-> pos + 4]
            ELSE IF c = 254 THEN IF have < 8 THEN DecFail
                                 ELSE [ok |-> TRUE, null |-> FALSE, undef |-> FALSE,
                                       val |-> Pad8(SubSeq(buf, pos + 2, pos + 9)), next |-> pos + 9]
            ELSE [DecFail EXCEPT !.undef = TRUE]

(* Length-encoded string: the bytes buf[from .. next-1].                                   *)
StrFail == [ok |-> FALSE, null |-> FALSE, undef |-> FALSE, from |-> 0, next |-> 0]
DecStr(buf, pos) ==
    LET d == DecLen(buf, pos) IN
    IF ~d.ok THEN [StrFail EXCEPT !.undef = d.undef]
    ELSE IF d.null THEN [ok |-> TRUE, null |-> TRUE, undef |-> FALSE, from |-> d.next, next |-> d.next]
    ELSE IF Small(d.val) > Len(buf) - d.next THEN StrFail
    ELSE [ok |-> TRUE, null |-> FALSE, undef |-> FALSE, from |-> d.next, next |-> d.next + Small(d.val)]
StrBytes(buf, r) == SubSeq(buf, r.from + 1, r.next)

(* Fixed-size read of `size` bytes at pos (size is any integer, also negative).           *)
FixFail == [ok |-> FALSE, from |-> 0, next |-> 0]
ReadFix(buf, pos, size) ==
    IF pos < 0 \/ size < 0 \/ pos > Len(buf) \/ size > Len(buf) - pos THEN FixFail
    ELSE [ok |-> TRUE, from |-> pos, next |-> pos + size]

(* NUL-terminated string at pos: bytes up to the first 0 at or after pos.                 *)
RECURSIVE FirstNul(_, _)
FirstNul(buf, i) == IF i >= Len(buf) THEN -1 ELSE IF buf[i + 1] = 0 THEN i ELSE FirstNul(buf, i + 1)
ReadNul(buf, pos) ==
    IF pos < 0 \/ pos > Len(buf) THEN FixFail
    ELSE LET z == FirstNul(buf, pos) IN
         IF z < 0 THEN FixFail ELSE [ok |-> TRUE, from |-> pos, next |-> z + 1, end |-> z]

(* Properties of the codec (checked by TLC over the enumerations of WireLenEnc).          *)
EncRoundTrip(b8) == LET e == EncLen(b8)
                        d == DecLen(e, 0)
                    IN d.ok /\ ~d.null /\ d.val = b8 /\ d.next = Len(e)
EncShortest(b8)  == \* no smaller size class could carry the value
                    LET n == EncSize(b8) IN
                    /\ n \in {1, 3, 4, 9}
                    /\ (n = 1 <=> (HighZero(b8, 2) /\ b8[1] < 251))
                    /\ (n = 3 <=> (HighZero(b8, 3) /\ ~(HighZero(b8, 2) /\ b8[1] < 251)))
                    /\ (n = 4 <=> (HighZero(b8, 4) /\ ~HighZero(b8, 3)))
                    /\ (n = 9 <=> ~HighZero(b8, 4))
DecInBounds(buf, pos) ==
    LET d == DecLen(buf, pos) IN
    /\ d.ok => (pos >= 0 /\ pos < d.next /\ d.next <= Len(buf))
    /\ (d.ok /\ ~d.null) => \* the value is made of input bytes: it re-encodes to (a no longer form of) what was read
                           LET e == EncLen(d.val) IN Len(e) <= d.next - pos
StrInBounds(buf, pos) ==
    LET r == DecStr(buf, pos) IN
    r.ok => (pos < r.from /\ r.from <= r.next /\ r.next <= Len(buf))
FixInBounds(buf, pos, size) ==
    LET r == ReadFix(buf, pos, size) IN r.ok => (0 <= r.from /\ r.from <= r.next /\ r.next <= Len(buf) /\ r.next - r.from = size)
NulInBounds(buf, pos) ==
    LET r == ReadNul(buf, pos) IN
    r.ok => (pos <= r.end /\ r.end < Len(buf) /\ buf[r.end + 1] = 0 /\ \A i \in pos..(r.end - 1) : buf[i + 1] # 0)
===================================================================================
