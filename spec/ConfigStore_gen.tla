----------------------------- MODULE ConfigStore_gen -----------------------------
(* Case enumeration for conformance replay of models / util/crypto (property C33).  GenKind       *)
(* selects the family; every case is printed with the specification's expected outcome.           *)
EXTENDS ConfigStore, TLC, Json

CONSTANTS GenKind       \* "path", "roundtrip" or "decrypt"
VARIABLE c

(* path cases: coordinator root x namespace name *)
PathCases == {[kind |-> "path", pre |-> pre, name |-> n] : pre \in Prefixes, n \in Names}
PathExpect(x) == LET loc == FullNamespacePath(x.pre, x.name) IN
                 [loc |-> loc, inside |-> (loc.ok => Inside(loc)),
                  npath |-> NamespacePath(x.pre, x.name)]

(* round-trip cases: key class x configuration of field classes (all fields the same class, or one  *)
(* field varied while the others are plain) x class of an unprotected text field                    *)
Cfgs == {[f \in ProtectedFields |-> cl] : cl \in FieldClasses}
        \cup {[f \in ProtectedFields |-> IF f = g THEN cl ELSE "plain"] : g \in ProtectedFields, cl \in FieldClasses}
OtherClasses == {"plain", "nonutf8", "quote", "backslash"}
RtCases == {[kind |-> "roundtrip", key |-> k, cfg |-> cfg, other |-> o] :
               k \in KeyClasses, cfg \in Cfgs, o \in OtherClasses}
RtExpect(x) == [save |-> SaveOutcome(x.key, x.cfg), equal |-> TRUE]        \* P: when saved, the loaded copy is equal

(* decrypt cases: ciphertext classes *)
PadLens == {16, 32, 256}
PadVals == {0, 1, 16, 17, 255}
DecCases == {[kind |-> "decrypt", cls |-> "bad64", n |-> 0, u |-> 0, key |-> "k16", key2 |-> "k16"]}
            \cup {[kind |-> "decrypt", cls |-> "len", n |-> n, u |-> 0, key |-> k, key2 |-> k] : n \in {1, 15, 17, 31}, k \in {"k16", "k32"}}
            \cup {[kind |-> "decrypt", cls |-> "pad", n |-> n, u |-> u, key |-> k, key2 |-> k] : n \in PadLens, u \in PadVals, k \in {"k16", "k24", "k32"}}
            \cup {[kind |-> "decrypt", cls |-> "wrongkey", n |-> 16, u |-> 1, key |-> kk[1], key2 |-> kk[2]] :
                      kk \in {x \in {"k16", "k24", "k32"} \X {"k16", "k24", "k32"} : x[1] # x[2]}}
            \cup {[kind |-> "decrypt", cls |-> "badkey", n |-> 16, u |-> 1, key |-> "k16", key2 |-> k2] : k2 \in KeyClasses \ {"k16", "k24", "k32"}}
            \cup {[kind |-> "decrypt", cls |-> "empty", n |-> 0, u |-> 0, key |-> "k16", key2 |-> "k16"]}
DecExpect(x) == CASE x.cls = "pad"      -> UnpadLen(x.n, x.u)
                  [] x.cls = "len"      -> [st |-> "err", len |-> 0]            \* not a whole number of blocks
                  [] x.cls = "badkey"   -> [st |-> "err", len |-> 0]            \* aes.NewCipher refuses the key
                  [] x.cls = "empty"    -> [st |-> "data", len |-> 0]
                  [] OTHER              -> [st |-> "any", len |-> 0]            \* bad base64, wrong key: error or data, no crash

Cases == CASE GenKind = "path" -> PathCases [] GenKind = "roundtrip" -> RtCases [] OTHER -> DecCases
Expect(x) == CASE GenKind = "path" -> PathExpect(x) [] GenKind = "roundtrip" -> RtExpect(x) [] OTHER -> DecExpect(x)

GenInit == c \in Cases /\ step = 0
GenNext == UNCHANGED <<c, step>>
GenSpec == GenInit /\ [][GenNext]_<<c, step>>

Emit == PrintT(<<"CASE", ToJson([case |-> c, expect |-> Expect(c)])>>)
===================================================================================
