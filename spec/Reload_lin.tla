--------------------------------- MODULE Reload_lin ---------------------------------
(* Trace validation (direction V) for CONCURRENT administrators of the real Manager.         *)
(* Each goroutine records  start(op)  before and  end(outcome)  after every call of            *)
(* ReloadNamespacePrepare / ReloadNamespaceCommit / DeleteNamespace (a reader records          *)
(* lstart / lend around GetNamespace); when all goroutines are done the visible state is        *)
(* recorded (final).  The effect of an operation is one or more INTERNAL steps between its      *)
(* start and end lines; TLC searches for an assignment of internal steps that explains all      *)
(* recorded outcomes, lookups and the final state.                                              *)
(*   Level = "P": the reference (ReloadP): one atomic step per operation, a commit may fail.    *)
(*                A history accepted here satisfies C31.                                        *)
(*   Level = "A": the double-buffer algorithm of manager.go, operations mutually exclusive.     *)
(*   Level = "S": the same algorithm, every shared-memory access of an operation its own        *)
(*                step, operations of different administrators interleave freely (the code      *)
(*                holds no lock).                                                               *)
(* A history rejected at P is a violation of C31 observed on the real code; acceptance at A     *)
(* or S tells which known mechanism explains it, rejection at S that nothing known does.        *)
(* Many histories are concatenated (field t); a history can be abandoned at any point (Skip),   *)
(* so a rejected history does not hide the following ones; acceptance is printed per            *)
(* history as <<"ACCEPT", t>>.  Field nx of every line = index of the first line of the next    *)
(* history (0 = none).                                                                          *)
EXTENDS ReloadP, TLC, Json

CONSTANTS Level,     \* "P" | "A" | "S"
          Admins     \* ids of the recording goroutines

Trace == ndJsonDeserialize("trace.ndjson")

VARIABLES l, tid,
          pact, plast,          \* Level P
          idx, gen, flag,       \* Levels A and S
          st                    \* per goroutine: program counter and locals of its pending operation
model == <<pact, plast, idx, gen, flag>>
vars  == <<l, tid, pact, plast, idx, gen, flag, st>>

NoNs == [n \in NS |-> None]
AsMap(e, arr) == [n \in NS |-> arr[CHOOSE i \in 1..Len(e.ns) : e.ns[i] = n]]
Idle == [pc |-> "idle", op |-> "", n |-> "", v |-> 0, out |-> "", c |-> 0, snap |-> NoNs, val |-> 0]

Begin(e) == [pact |-> AsMap(e, e.init), plast |-> NoNs, idx |-> 0,
             gen |-> [i \in {0, 1} |-> IF i = 0 THEN AsMap(e, e.init) ELSE NoNs],
             flag |-> FALSE, st |-> [a \in Admins |-> Idle]]

Init == /\ l = 1 /\ tid = Trace[1].t
        /\ LET b == Begin(Trace[1]) IN
             /\ pact = b.pact /\ plast = b.plast /\ idx = b.idx /\ gen = b.gen /\ flag = b.flag /\ st = b.st

InTrace == l <= Len(Trace) /\ Trace[l].t = tid
Visible == IF Level = "P" THEN pact ELSE gen[idx]
Quiet(a) == st[a].pc \in {"idle", "started", "done"}

-----------------------------------------------------------------------------------
(* recorded events *)
Start == /\ InTrace /\ Trace[l].ev \in {"start", "lstart"}
         /\ LET e == Trace[l] IN
              /\ st[e.a].pc = "idle"
              /\ st' = [st EXCEPT ![e.a] = [Idle EXCEPT !.pc = "started", !.n = e.n, !.v = e.v,
                                              !.op = IF e.ev = "lstart" THEN "lookup" ELSE e.op]]
         /\ l' = l + 1 /\ UNCHANGED <<tid, model>>

OutMatch(m, real) == IF Level = "P" THEN (m = "ok") = (real = "ok") ELSE m = real

End == /\ InTrace /\ Trace[l].ev \in {"end", "lend"}
       /\ LET e == Trace[l] IN
            /\ st[e.a].pc = "done"
            /\ IF e.ev = "lend" THEN st[e.a].val = e.v ELSE OutMatch(st[e.a].out, e.out)
            /\ st' = [st EXCEPT ![e.a] = Idle]
       /\ l' = l + 1 /\ UNCHANGED <<tid, model>>

Final == /\ InTrace /\ Trace[l].ev = "final"
         /\ \A a \in Admins : st[a].pc = "idle"
         /\ Visible = AsMap(Trace[l], Trace[l].obs)
         /\ l' = l + 1 /\ UNCHANGED <<tid, model, st>>

(* abandon the current history (or enter the next one after final) *)
Skip == /\ l <= Len(Trace)
        /\ LET j == IF Trace[l].t # tid THEN l ELSE Trace[l].nx IN
             /\ j # 0 /\ j <= Len(Trace)
             /\ l' = j /\ tid' = Trace[j].t
             /\ LET b == Begin(Trace[j]) IN
                  /\ pact' = b.pact /\ plast' = b.plast /\ idx' = b.idx /\ gen' = b.gen /\ flag' = b.flag /\ st' = b.st

-----------------------------------------------------------------------------------
(* internal step, Level P: the whole operation at once, judged by ReloadP *)
Done(a, out, val) == [st EXCEPT ![a] = [@ EXCEPT !.pc = "done", !.out = out, !.val = val]]
PLin(a) ==
    /\ Level = "P" /\ st[a].pc = "started"
    /\ LET o == [op |-> st[a].op, n |-> st[a].n, v |-> st[a].v] IN
       CASE o.op = "lookup"  -> st' = Done(a, "ok", pact[o.n]) /\ UNCHANGED <<pact, plast>>
         [] o.op = "badprepare" -> st' = Done(a, "fail", 0) /\ UNCHANGED <<pact, plast>>
         [] o.op = "commit"  -> \/ /\ plast[o.n] # None
                                   /\ pact' = PAfter(pact, plast, o, "ok") /\ st' = Done(a, "ok", 0) /\ UNCHANGED plast
                                \/ st' = Done(a, "fail", 0) /\ UNCHANGED <<pact, plast>>
         [] OTHER            -> /\ pact' = PAfter(pact, plast, o, "ok")
                                /\ plast' = PLastAfter(plast, o, "ok")
                                /\ st' = Done(a, "ok", 0)
    /\ UNCHANGED <<l, tid, idx, gen, flag>>

-----------------------------------------------------------------------------------
(* internal steps, Levels A and S: the shared-memory accesses of manager.go in program order *)
Goto(a, pc)        == [st EXCEPT ![a] = [@ EXCEPT !.pc = pc]]
GotoC(a, pc, c)    == [st EXCEPT ![a] = [@ EXCEPT !.pc = pc, !.c = c]]
GotoS(a, pc, snap) == [st EXCEPT ![a] = [@ EXCEPT !.pc = pc, !.snap = snap]]

IStep(a) ==
    /\ Level # "P" /\ st[a].pc \notin {"idle", "done"}
    /\ Level = "A" => \A b \in Admins \ {a} : Quiet(b)
    /\ LET s == st[a] IN
       CASE \* ReloadNamespacePrepare
            s.op = "prepare" /\ s.pc = "started" -> st' = GotoC(a, "p2", idx) /\ UNCHANGED <<idx, gen, flag>>           \* switchIndex.Get
         [] s.op = "prepare" /\ s.pc = "p2" -> st' = GotoS(a, "p3", gen[s.c]) /\ UNCHANGED <<idx, gen, flag>>           \* m.namespaces[current], copied
         [] s.op = "prepare" /\ s.pc = "p3" -> /\ gen' = [gen EXCEPT ![1 - s.c] = [s.snap EXCEPT ![s.n] = s.v]]           \* m.namespaces[other] = new
                                               /\ st' = Goto(a, "p4") /\ UNCHANGED <<idx, flag>>
         [] s.op = "prepare" /\ s.pc = "p4" -> flag' = TRUE /\ st' = Done(a, "ok", 0) /\ UNCHANGED <<idx, gen>>          \* reloadPrepared.Set(true)
            \* ReloadNamespacePrepare with a configuration that NewNamespace rejects: returns before any assignment
         [] s.op = "badprepare" -> st' = Done(a, "fail", 0) /\ UNCHANGED <<idx, gen, flag>>
            \* ReloadNamespaceCommit
         [] s.op = "commit" /\ s.pc = "started" -> IF flag THEN flag' = FALSE /\ st' = Goto(a, "c2") /\ UNCHANGED <<idx, gen>>   \* CompareAndSwap(true,false)
                                                   ELSE st' = Done(a, "fail", 0) /\ UNCHANGED <<idx, gen, flag>>
         [] s.op = "commit" /\ s.pc = "c2" -> st' = GotoC(a, "c3", idx) /\ UNCHANGED <<idx, gen, flag>>                  \* switchIndex.Get
         [] s.op = "commit" /\ s.pc = "c3" -> idx' = 1 - s.c /\ st' = Goto(a, "c4") /\ UNCHANGED <<gen, flag>>           \* switchIndex.Set(!index)
         [] s.op = "commit" /\ s.pc = "c4" -> st' = GotoC(a, "c5", idx) /\ UNCHANGED <<idx, gen, flag>>                  \* GetNamespace: switchIndex.Get
         [] s.op = "commit" /\ s.pc = "c5" -> /\ st' = Done(a, IF gen[s.c][s.n] = None THEN "panic" ELSE "ok", 0)        \* newNamespace.Init()
                                              /\ UNCHANGED <<idx, gen, flag>>
            \* DeleteNamespace
         [] s.op = "delete" /\ s.pc = "started" -> st' = GotoC(a, "d2", idx) /\ UNCHANGED <<idx, gen, flag>>
         [] s.op = "delete" /\ s.pc = "d2" -> /\ st' = IF gen[s.c][s.n] = None THEN Done(a, "ok", 0) ELSE Goto(a, "d3")  \* idempotent delete
                                              /\ UNCHANGED <<idx, gen, flag>>
         [] s.op = "delete" /\ s.pc = "d3" -> st' = GotoS(a, "d4", gen[s.c]) /\ UNCHANGED <<idx, gen, flag>>
         [] s.op = "delete" /\ s.pc = "d4" -> /\ gen' = [gen EXCEPT ![1 - s.c] = [s.snap EXCEPT ![s.n] = None]]
                                              /\ st' = Goto(a, "d5") /\ UNCHANGED <<idx, flag>>
         [] s.op = "delete" /\ s.pc = "d5" -> idx' = 1 - s.c /\ st' = Done(a, "ok", 0) /\ UNCHANGED <<gen, flag>>
            \* GetNamespace
         [] s.op = "lookup" /\ s.pc = "started" -> st' = GotoC(a, "r2", idx) /\ UNCHANGED <<idx, gen, flag>>
         [] s.op = "lookup" /\ s.pc = "r2" -> st' = Done(a, "ok", gen[s.c][s.n]) /\ UNCHANGED <<idx, gen, flag>>
    /\ UNCHANGED <<l, tid, pact, plast>>

Next == Start \/ End \/ Final \/ Skip \/ \E a \in Admins : PLin(a) \/ IStep(a)

Spec == Init /\ [][Next]_vars

(* printed once per accepting state of a history *)
Mark == (l > 1 /\ Trace[l - 1].ev = "final" /\ Trace[l - 1].t = tid) => PrintT(<<"ACCEPT", tid>>)
===================================================================================
