----------------------------- MODULE Routing_ins -----------------------------
(* Case generation and design-level check for C03 (inserts into a sharded table).            *)
(* One state = one INSERT: rule instance, form (VALUES / SET), global-sequence mode and the   *)
(* sharding values of its rows.  Expected result = InsertEffect of Routing.tla.               *)
EXTENDS Routing, Json

CONSTANTS Rules,     \* sequence of rule instances
          MaxRows,   \* longest VALUES list
          EmitCases

VARIABLES ri, form, seqm, rows
vars == <<ri, form, seqm, rows>>

CRules == [i \in DOMAIN Rules |-> Compile(Rules[i])]
R == CRules[ri]

SeqStart == 1   \* first value the (fake) global sequence delivers in a case

V(cls, v) == [cls |-> cls, v |-> v]

(* sharding values: two keys of one table, a key of another table, unplaceable keys (below and  *)
(* above everything configured, and inside a gap between configured periods if the layout has  *)
(* one), the second spelling, and the forms the planner does not evaluate            *)
Alphabet(C, sm, fm) ==
  LET T2 == {t \in Tables(C) : Cardinality(Holds(C, t)) >= 2}
      t1 == MinS(T2)
      k1 == MinS(Holds(C, t1))
      k2 == MinS(Holds(C, t1) \ {k1})
      t3 == MinS(Tables(C) \ {t1})
      k3 == MaxS(Holds(C, t3))
      oor == {v \in Lits(C) : v >= 0 /\ Place(C, v) = NoTable}
      gapk == {v \in oor : LitClass(C, v) = "gap-period"}
  IN  {V("int", k1), V("int", k2), V("int", k3), V("str", k3), V("null", 0), V("arith", k3), V("func", k3)}
      \cup (IF oor = {} THEN {} ELSE {V("int", MinS(oor)), V("int", MaxS(oor))})      \* below / above everything configured
      \cup (IF gapk = {} THEN {} ELSE {V("int", MinS(gapk))})                         \* inside an unconfigured period between two configured ones
      \cup (IF IsDate(C.type) THEN {} ELSE {V("neg", IF k3 > 0 THEN k3 ELSE k2)})
      \cup (IF fm = "values" /\ sm # "key" THEN {V("short", k3)} ELSE {})
      \cup (IF sm = "key" THEN {V("seq", 0)} ELSE {})

SeqModes(C) == IF IsDate(C.type) THEN {"none", "col"} ELSE {"none", "col", "key"}

RECURSIVE SeqsOver(_, _)
SeqsOver(A, n) == IF n = 0 THEN {<<>>} ELSE {Append(s, a) : s \in SeqsOver(A, n - 1), a \in A}

Init ==
  /\ ri \in DOMAIN Rules
  /\ \/ /\ form = "RULE" /\ seqm = "none" /\ rows = <<>>
     \/ /\ form \in {"values", "set"}
        /\ seqm \in SeqModes(CRules[ri])
        /\ \E n \in 1..(IF form = "set" THEN 1 ELSE MaxRows) : rows \in SeqsOver(Alphabet(CRules[ri], seqm, form), n)

Next == UNCHANGED vars
Spec == Init /\ [][Next]_vars

(* sharding column fed by the sequence: nextval() takes the next value; in the VALUES form the *)
(* planner also replaces NULL in the sequence column                                           *)
TakesSeq(x) == seqm = "key" /\ (x.cls = "seq" \/ (x.cls = "null" /\ form = "values"))
EffRows == [i \in DOMAIN rows |->
              IF TakesSeq(rows[i])
              THEN V("seq", SeqStart + Cardinality({j \in 1..(i - 1) : TakesSeq(rows[j])}))
              ELSE rows[i]]

Expect == InsertEffect(R, EffRows)

TypeOK == /\ ri \in DOMAIN Rules
          /\ form \in {"RULE", "values", "set"}
          /\ seqm \in {"none", "col", "key"}
          /\ Len(rows) <= MaxRows

(* design level: the effect stores every row once, in a table of the rule, and that table is  *)
(* the one a point query on the row's key is routed to (by the specification and by the model *)
(* of the planner)                                                                            *)
EffectStoresOnce == form # "RULE" => InsertOnce(R, EffRows)
RejectIffUnroutable == form # "RULE" => (Expect.rej <=> \E i \in DOMAIN rows : ~RoutableVal(R, EffRows[i]))

InsRec == [kind |-> "ins", rule |-> R.id, form |-> form, seqm |-> seqm, rows |-> EffRows,
           src |-> rows, rowok |-> [i \in DOMAIN rows |-> RoutableVal(R, EffRows[i])], expect |-> Expect]

Emit == EmitCases => PrintT(<<"CASE", ToJson(IF form = "RULE" THEN RuleDesc(R) ELSE InsRec)>>)
=============================================================================
