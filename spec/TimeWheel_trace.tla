----------------------------- MODULE TimeWheel_trace -----------------------------
(* Trace validation: events recorded from the real util.TimeWheel (harness/util/          *)
(* timewheel_test.go) must be a behaviour of TimeWheel, with every invariant evaluated     *)
(* at every step.  Many traces are concatenated; field t is the trace id and a change of   *)
(* t resets the specification state (one extra step per reset).                            *)
EXTENDS TimeWheel, TLC, Json

Trace == ndJsonDeserialize("trace.ndjson")

VARIABLES l,      \* next trace line to consume
          tid     \* id of the trace being consumed

TraceInit == Init /\ l = 1

Boundary == l <= Len(Trace) /\ Trace[l].t # tid
InTrace  == l <= Len(Trace) /\ ~Boundary
IsEv(e)  == InTrace /\ Trace[l].ev = e /\ l' = l + 1

TAdd  == IsEv("add") /\ Add(Trace[l].key, Trace[l].d)
TDel  == IsEv("del") /\ Del(Trace[l].key)
TTick == /\ IsEv("tick")
         /\ Tick
         /\ fired' = ToSet(Trace[l].fires)      \* what the implementation fired
         /\ cur' = Trace[l].cur                 \* its current index after the tick
TReset == /\ Boundary
          /\ cur' = 0 /\ bucket' = [k \in Keys |-> None] /\ round' = [k \in Keys |-> 0]
          /\ queue' = <<>> /\ now' = 0 /\ due' = [k \in Keys |-> None] /\ fired' = {} /\ nops' = 0
          /\ l' = l
          /\ tid' = Trace[l].t

TraceNext == \/ (TAdd \/ TDel \/ TTick) /\ UNCHANGED tid
             \/ TReset

TraceSpec == TraceInit /\ tid = Trace[1].t /\ [][TraceNext]_<<vars, l, tid>>

(* every line consumed: one state per line plus one per reset plus the initial state *)
NumResets == Cardinality({i \in 2..Len(Trace) : Trace[i].t # Trace[i-1].t})
TraceAccepted ==
    LET d == TLCGet("stats").diameter IN
    IF d - 1 = Len(Trace) + NumResets THEN TRUE
    ELSE Print(<<"TRACE-REJECTED", d, Len(Trace), NumResets>>, FALSE)
===================================================================================
