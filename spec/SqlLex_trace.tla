------------------------------ MODULE SqlLex_trace ------------------------------
(* Reading-side validation of rewritten statements (property C15), direction V.             *)
(*                                                                                          *)
(* Every line of trace.ndjson is one execution observed on the real proxy: the statement    *)
(* template (tpl), the text that reached the backend (out), the values that were bound      *)
(* (vals) - all as symbol sequences of spec/SqlLex.tla, one symbol per byte.  The constant  *)
(* NoBackslash of SqlLex is the sql_mode the session had set (all lines of one file share    *)
(* it).  TLC reads `out` the way MySQL does under that mode and judges:                      *)
(*   - out = part0 lit1 part1 ... litn partn where the parts are the template's text around *)
(*     its markers (Markers(tpl), the automaton of SqlLex) and each lit_k is exactly ONE     *)
(*     literal token: NULL for a NULL, a numeric token whose text is one of the acceptable   *)
(*     renderings of the number, a quoted string whose DECODED bytes (doubled quotes,        *)
(*     backslash escapes unless NoBackslash) are the bound bytes;                            *)
(*   - the whole text is well formed for the automaton, has no parameter marker left and no  *)
(*     more statement separators than the template: no value changed the structure.          *)
(* One verdict per line is printed; the variable nw of SqlLex is the line counter.           *)
EXTENDS SqlLex, Json

Trace == ndJsonDeserialize("trace.ndjson")

TrWords == {}
TrPrefix == <<>>

EscMap(d) == CASE d = "0" -> <<"X00">>
               [] d = "n" -> <<"NL">>
               [] d = "r" -> <<"X0D">>
               [] d = "t" -> <<"TAB">>
               [] d = "b" -> <<"X08">>
               [] d = "Z" -> <<"X1A">>
               [] d \in {"%", "_"} -> <<"BS", d>>
               [] OTHER -> <<d>>

(* read a quoted literal whose opening quote q has just been read; i = next index (1-based) *)
RECURSIVE RdStr(_, _, _, _)
RdStr(out, i, q, acc) ==
    IF i > Len(out) THEN [ok |-> FALSE, end |-> i, val |-> acc]
    ELSE IF out[i] = q THEN
         IF i < Len(out) /\ out[i + 1] = q THEN RdStr(out, i + 2, q, Append(acc, q))
         ELSE [ok |-> TRUE, end |-> i + 1, val |-> acc]
    ELSE IF out[i] = "BS" /\ ~NoBackslash THEN
         IF i = Len(out) THEN [ok |-> FALSE, end |-> i, val |-> acc]
         ELSE RdStr(out, i + 2, q, acc \o EscMap(out[i + 1]))
    ELSE RdStr(out, i + 1, q, Append(acc, out[i]))

NumSyms == {"0", "1", "2", "3", "4", "5", "6", "7", "8", "9", "DASH", "+", ".", "e", "E"}

RECURSIVE RdNum(_, _)
RdNum(out, i) == IF i <= Len(out) /\ out[i] \in NumSyms THEN <<out[i]>> \o RdNum(out, i + 1) ELSE <<>>

HasAt(out, i, part) == /\ i + Len(part) - 1 <= Len(out)
                       /\ SubSeq(out, i, i + Len(part) - 1) = part

OneOf(alts, x) == \E j \in 1..Len(alts) : alts[j] = x

Bad(why, i) == [ok |-> FALSE, why |-> why, end |-> i]

ReadLit(out, i, v) ==
    CASE v.k = "null" ->
            IF HasAt(out, i, <<"N", "U", "L", "L">>) \/ HasAt(out, i, <<"n", "u", "l", "l">>)
            THEN [ok |-> TRUE, why |-> "", end |-> i + 4] ELSE Bad("NULL not rendered as NULL", i)
      [] v.k = "num" ->
            LET tok == RdNum(out, i) IN
            IF tok = <<>> THEN Bad("no numeric literal where the number was bound", i)
            ELSE IF ~OneOf(v.alts, tok) THEN Bad("numeric literal denotes another number", i)
            ELSE [ok |-> TRUE, why |-> "", end |-> i + Len(tok)]
      [] v.k = "str" ->
            IF i > Len(out) \/ out[i] \notin {"SQ", "DQ"} THEN Bad("no string literal where the bytes were bound", i)
            ELSE LET r == RdStr(out, i + 1, out[i], <<>>) IN
                 IF ~r.ok THEN Bad("string literal is not terminated", i)
                 ELSE IF ~OneOf(v.alts, r.val) THEN Bad("string literal denotes other bytes", i)
                 ELSE [ok |-> TRUE, why |-> "", end |-> r.end]

(* parts of the template around its markers: Parts(tpl)[k], k = 1..n+1 *)
Parts(tpl) ==
    LET M == Markers(tpl)
        n == Len(M)
    IN [k \in 1..(n + 1) |->
            SubSeq(tpl, (IF k = 1 THEN 1 ELSE M[k - 1] + 2), (IF k = n + 1 THEN Len(tpl) ELSE M[k]))]

RECURSIVE Walk(_, _, _, _, _)
Walk(out, parts, vals, k, i) ==
    IF k > Len(vals)
    THEN IF i = Len(out) + 1 THEN [ok |-> TRUE, why |-> "", k |-> 0]
         ELSE [ok |-> FALSE, why |-> "text after the end of the template", k |-> 0]
    ELSE LET r == ReadLit(out, i, vals[k]) IN
         IF ~r.ok THEN [ok |-> FALSE, why |-> r.why, k |-> k]
         ELSE IF ~HasAt(out, r.end, parts[k + 1])
              THEN [ok |-> FALSE, why |-> "the template text does not follow the literal", k |-> k]
              ELSE Walk(out, parts, vals, k + 1, r.end + Len(parts[k + 1]))

Judge(rec) ==
    LET parts == Parts(rec.tpl)
        FO == Finish(Lex(rec.out))
        FT == Finish(Lex(rec.tpl))
    IN IF Len(parts) # Len(rec.vals) + 1
       THEN [ok |-> FALSE, why |-> "HARNESS: template markers and bound values differ in number", k |-> 0]
       ELSE IF ~HasAt(rec.out, 1, parts[1])
       THEN [ok |-> FALSE, why |-> "the text does not start with the template", k |-> 0]
       ELSE LET w == Walk(rec.out, parts, rec.vals, 1, 1 + Len(parts[1])) IN
            IF ~w.ok THEN w
            ELSE IF ~FO.wf THEN [ok |-> FALSE, why |-> "text ends inside a string or comment", k |-> 0]
            ELSE IF MarkersOf(FO.qs) # <<>> THEN [ok |-> FALSE, why |-> "a parameter marker is left in the text", k |-> 0]
            ELSE IF Len(FO.seps) # Len(FT.seps) THEN [ok |-> FALSE, why |-> "statement separators introduced", k |-> 0]
            ELSE w

TraceInit == text = <<>> /\ lx = L0 /\ nw = 1
TraceNext == nw < Len(Trace) /\ nw' = nw + 1 /\ UNCHANGED <<text, lx>>
TraceSpec == TraceInit /\ [][TraceNext]_vars

Verdict == PrintT(<<"CASE", ToJson([i |-> nw, id |-> Trace[nw].id, r |-> Judge(Trace[nw])])>>)
===================================================================================
