------------------------- MODULE StmtPolicy_unshard_gen -------------------------
(* Case generation for C06 (StmtPolicy part 2).  One TLC state per statement descriptor:          *)
(* statement kind, session database present?, 1..3 table references.  Exactly one reference (the   *)
(* "target") carries a table name that has a routing rule (sharded / linked / global) and varies    *)
(* in letter case, qualification, back-quotes, glued comment or line break, alias and position;     *)
(* the others are plain tables, unqualified or qualified with another database.                     *)
(*   thorough: target fully decorated for <= 2 references, at most one decoration for 3;            *)
(*   quick: at most one decoration and <= 2 references, plus a pseudo-random sample of the rest.     *)
(* Emitted: the descriptor and ParserSaysSharded(d); C06 forbids the fast path when it is TRUE.      *)
EXTENDS StmtPolicy, TLC, Json, SequencesExt

CONSTANTS Tier, Seed, Keep

VARIABLE c
vars == <<c>>

NoCase == [kind |-> "nocase"]
IsCase == c.kind # "nocase"

Scramble(n) == (((n % 100003) * 1009 + (Seed % 10007) * 31) % 10007) < Keep

Target == SetToSeq({ r \in [cls : RefClasses, cs : Cases, qual : Quals, bq : BOOLEAN, glue : Glues,
                            pos : {"first"}, alias : BOOLEAN] :
                        /\ r.cls \in {"linked", "global", "plain"} => URefNFeat(r) <= 1 })
CtxQuals == {"none", "other"}
NoX == [p2 |-> "first", p3 |-> "first", q1 |-> "none", q2 |-> "none"]
Pos1(k) == <<NoX>>
Pos2(k) == SetToSeq([p2 : LaterPositions(k), p3 : {"first"}, q1 : CtxQuals, q2 : {"none"}])
Pos3(k) == SetToSeq([p2 : LaterPositions(k), p3 : LaterPositions(k), q1 : CtxQuals, q2 : CtxQuals])

(* n references, target at index ti; the other references are plain (the first of them takes q1) *)
Build(k, db, n, ti, t, x) ==
    LET pos(i) == IF i = 1 THEN "first" ELSE IF i = 2 THEN x.p2 ELSE x.p3
        firstCtx == IF ti = 1 THEN 2 ELSE 1
        ctxq(i) == IF i = firstCtx THEN x.q1 ELSE x.q2
    IN [kind |-> k, sdb |-> db,
        refs |-> [i \in 1..n |-> IF i = ti THEN [t EXCEPT !.pos = pos(i)] ELSE PlainRef(ctxq(i), pos(i))]]

UNFeat(d) == LET S == {i \in DOMAIN d.refs : d.refs[i].cls # "plain"}
             IN IF S = {} THEN 0
                ELSE LET r == d.refs[CHOOSE i \in S : TRUE]       \* a qualifier is a decoration only when it is optional
                     IN URefNFeat(r) - B2N(r.qual # "none" /\ d.sdb # "rule")
InSet(d) == /\ UWF(d)
            /\ Len(d.refs) = 3 => UNFeat(d) <= 1
Light(d) == \/ Len(d.refs) <= 2 /\ UNFeat(d) + B2N(d.sdb # "rule") <= 1
            \/ Len(d.refs) = 1 /\ UNFeat(d) + B2N(d.sdb # "rule") <= 2

TargetLight == SelectSeq(Target, LAMBDA r : URefNFeat(r) <= 1)

P2 == [k \in UKinds |-> Pos2(k)]
P3 == [k \in UKinds |-> Pos3(k)]

Pick(k, db, n, ts, ps) ==
    \E ti \in 1..n, j \in DOMAIN ts, m \in DOMAIN ps :
       LET d == Build(k, db, n, ti, ts[j], ps[m])
       IN /\ InSet(d)
          /\ Tier = "thorough" \/ Light(d) \/ Scramble(((j * 7 + ti) * 101 + m) * 11 + n)
          /\ c' = d

Next == /\ ~IsCase
        /\ \E k \in UKinds, db \in SessionDbs :
              \/ Pick(k, db, 1, Target, <<NoX>>)
              \/ Pick(k, db, 2, Target, P2[k])
              \/ Pick(k, db, 3, TargetLight, P3[k])

Init == c = NoCase
Spec == Init /\ [][Next]_vars

Out(d) == [kind |-> d.kind, sdb |-> d.sdb, refs |-> d.refs, sharded |-> ParserSaysSharded(d)]
Emit == IsCase => PrintT(<<"CASE", ToJson(Out(c))>>)

WellFormed == IsCase => UWF(c) /\ \A i \in DOMAIN c.refs : c.refs[i] \in URef
FastOnlyIfUnsharded == IsCase => (FastPathAllowed(c) <=> ~ParserSaysSharded(c))
DecorationIrrelevant == IsCase => UDecorationIrrelevant(c)
OrderIrrelevant == IsCase => UOrderIrrelevant(c)
UnshardedRefsIrrelevant == IsCase => UUnshardedRefsIrrelevant(c)
SessionDbIrrelevantWhenQualified == IsCase => USessionDbIrrelevantWhenQualified(c)
=================================================================================
