---------------------------- MODULE ResourcePoolP_trace ----------------------------
(* Trace validation, P-level: resource-level events recorded from the real util.ResourcePool *)
(* (harness/util/resourcepool_test.go) are run through ResourcePoolP; after every event each  *)
(* clause of property C24 is evaluated and the clauses that failed are collected per trace.   *)
(* Many traces are concatenated (field t = trace id, every line carries max = the pool's      *)
(* maximum capacity).  One verdict line is printed per trace:                                 *)
(*    <<"CASE", {"t": id, "viol": [clause names], "at": index of the first offending event}>> *)
(* so a run with hundreds of rejected traces (known findings) is still examined completely.   *)
(* The POSTCONDITION checks that every line was consumed.                                     *)
EXTENDS ResourcePoolP, Sequences, SequencesExt, TLC, Json

Trace == ndJsonDeserialize("trace.ndjson")

VARIABLES l,      \* next line
          tid,    \* trace being consumed
          viol,   \* clauses of the property violated so far in this trace
          at,     \* index (within the trace) of the first offending event, 0 = none
          k       \* number of events of this trace consumed

tvars == <<pvars, l, tid, viol, at, k>>

TraceInit == PInit(Trace[1].max) /\ l = 1 /\ tid = Trace[1].t /\ viol = {} /\ at = 0 /\ k = 0

Boundary == l <= Len(Trace) /\ Trace[l].t # tid
InTrace  == l <= Len(Trace) /\ ~Boundary
IsEv(e)  == InTrace /\ Trace[l].ev = e

Event == \/ IsEv("Got") /\ Got(Trace[l].c, Trace[l].r)
         \/ IsEv("Put") /\ PutBegin(Trace[l].c, Trace[l].r)
         \/ IsEv("PutDone") /\ PutEnd(Trace[l].c, Trace[l].ok)
         \/ IsEv("GetErr") /\ GetErr(Trace[l].c)
         \/ IsEv("Panic") /\ OpPanic
         \/ IsEv("Quiescent") /\ Quiet(Trace[l].idle, Trace[l].cap)

Failing == (IF P_NoOverAllocation' THEN {} ELSE {"P_NoOverAllocation"})
      \cup (IF P_OneHolder' THEN {} ELSE {"P_OneHolder"})
      \cup (IF P_PutNeverFails' THEN {} ELSE {"P_PutNeverFails"})
      \cup (IF P_QuiescentAccounting' THEN {} ELSE {"P_QuiescentAccounting"})
      \cup (IF P_NoOtherPanic' THEN {} ELSE {"P_NoOtherPanic"})
      \cup (IF P_DriverDiscipline' THEN {} ELSE {"P_DriverDiscipline"})

TEvent == /\ Event
          /\ l' = l + 1 /\ k' = k + 1
          /\ viol' = viol \cup Failing
          /\ at' = IF at = 0 /\ Failing # {} THEN k + 1 ELSE at
          /\ UNCHANGED tid

Verdict == PrintT(<<"CASE", ToJson([t |-> tid, viol |-> SetToSeq(viol), at |-> at, n |-> k])>>)

TReset == /\ Boundary
          /\ Verdict
          /\ maxcap' = Trace[l].max /\ held' = {} /\ putting' = {}
          /\ illegalPut' = FALSE /\ putFailed' = FALSE /\ opPanic' = FALSE /\ quietBad' = FALSE
          /\ l' = l /\ tid' = Trace[l].t /\ viol' = {} /\ at' = 0 /\ k' = 0

TEnd == /\ l = Len(Trace) + 1
        /\ Verdict
        /\ l' = l + 1
        /\ UNCHANGED <<pvars, tid, viol, at, k>>

TraceNext == TEvent \/ TReset \/ TEnd

TraceSpec == TraceInit /\ [][TraceNext]_tvars

NumResets == Cardinality({i \in 2..Len(Trace) : Trace[i].t # Trace[i-1].t})
TraceAccepted ==
    LET d == TLCGet("stats").diameter IN
    IF d - 1 = Len(Trace) + NumResets + 1 THEN TRUE
    ELSE Print(<<"TRACE-REJECTED", d, Len(Trace), NumResets>>, FALSE)
===================================================================================
