---------------------------- MODULE ResourcePoolP_trace ----------------------------
(* Trace validation, P-level: resource-level events recorded from the real util.ResourcePool *)
(* (harness/util/resourcepool_test.go) are replayed through ResourcePoolP with every clause   *)
(* of property C24 enabled as an invariant.  Many traces are concatenated; field t is the     *)
(* trace id, every line carries max (the pool's maximum capacity).                            *)
EXTENDS ResourcePoolP, Sequences, TLC, Json

Trace == ndJsonDeserialize("trace.ndjson")

VARIABLES l, tid

TraceInit == PInit(Trace[1].max) /\ l = 1 /\ tid = Trace[1].t

Boundary == l <= Len(Trace) /\ Trace[l].t # tid
InTrace  == l <= Len(Trace) /\ ~Boundary
IsEv(e)  == InTrace /\ Trace[l].ev = e /\ l' = l + 1

TGot    == IsEv("Got") /\ Got(Trace[l].c, Trace[l].r)
TPut    == IsEv("Put") /\ PutBegin(Trace[l].c, Trace[l].r)
TPutEnd == IsEv("PutDone") /\ PutEnd(Trace[l].c, Trace[l].ok)
TGetErr == IsEv("GetErr") /\ GetErr(Trace[l].c)
TPanic  == IsEv("Panic") /\ OpPanic
TQuiet  == IsEv("Quiescent") /\ Quiet(Trace[l].idle, Trace[l].cap)
TReset  == /\ Boundary
           /\ maxcap' = Trace[l].max /\ held' = {} /\ putting' = {}
           /\ illegalPut' = FALSE /\ putFailed' = FALSE /\ opPanic' = FALSE /\ quietBad' = FALSE
           /\ l' = l /\ tid' = Trace[l].t

TraceNext == \/ (TGot \/ TPut \/ TPutEnd \/ TGetErr \/ TPanic \/ TQuiet) /\ UNCHANGED tid
             \/ TReset

TraceSpec == TraceInit /\ [][TraceNext]_<<pvars, l, tid>>

NumResets == Cardinality({i \in 2..Len(Trace) : Trace[i].t # Trace[i-1].t})
TraceAccepted ==
    LET d == TLCGet("stats").diameter IN
    IF d - 1 = Len(Trace) + NumResets THEN TRUE
    ELSE Print(<<"TRACE-REJECTED", d, Len(Trace), NumResets>>, FALSE)
===================================================================================
