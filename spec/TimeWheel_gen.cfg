SPECIFICATION GenSpec
CONSTANTS
  Keys = {"k1", "k2"}
  N = 3
  MaxDelay = 4
  MaxOps = 100
  MaxTicks = 100
  GenLen = 4
  TickWeight = 1
INVARIANTS Emit FiresExactlyDue
CHECK_DEADLOCK FALSE
