-------------------------------- MODULE Wire_rows --------------------------------
(* Part C of the wire specification (property C13): a result row in the text protocol and   *)
(* the same row in the binary protocol (COM_STMT_EXECUTE response), as Gaea converts it:    *)
(* RowData.ParseText -> BuildBinaryResultset / AppendBinaryValue (mysql/result.go,          *)
(* encoding.go, field.go).                                                                 *)
(*                                                                                        *)
(* A column is [t, u, v]: type code, UNSIGNED flag, abstract value v.  Abstract values:     *)
(*   [k |-> "null"]                                                                        *)
(*   [k |-> "int",  text, b8]              integer types; table constants (Wire_rowtab)     *)
(*   [k |-> "flt",  text, bin]             FLOAT / DOUBLE; table constants                  *)
(*   [k |-> "dec",  text, canon]           DECIMAL; canon = without trailing fraction zeros  *)
(*   [k |-> "str",  b]                     strings / blobs / bit / json / enum / set        *)
(*   [k |-> "date", y, m, d]                                                               *)
(*   [k |-> "dt",   y, m, d, h, mi, s, us, fsp]   DATETIME / TIMESTAMP, fsp fraction digits *)
(*   [k |-> "time", neg, h, mi, s, us, fsp]       TIME, h = total hours (0..838)            *)
(* TextOf gives the text-protocol form, BinOf the binary-protocol form, Decode reads a      *)
(* binary row back; the property is Decode(BinaryRow(cols)) = the values.                   *)
EXTENDS Wire, Wire_rowtab, TLC, Json

CONSTANTS Modes,       \* subset of {"single", "mixed", "bitmap", "bitmap3", "sets"}: which families of rows are built
          MaxMixed,    \* columns of a "mixed" row (one representative value per type family)
          MaxBitmap,   \* columns of a "bitmap" row (TINY 7 / NULL in every position)
          MaxBitmap3,  \* columns of a "bitmap3" row (TINY 7 / NULL / VAR_STRING 'ab')
          MaxSetCols,  \* "sets": result sets of several rows over the same columns (TINY, VAR_STRING alternating,
          MaxSetRows,  \*         each value or NULL): columns per row, rows per set
          EmitCases

VARIABLES mode,
          cols,        \* the row being built
          rows         \* "sets" only: the rows of the result set completed so far (all over the same columns)
vars == <<mode, cols, rows>>

-----------------------------------------------------------------------------------
(* type codes *)
TTiny == 1  TShort == 2  TLong == 3  TFloat == 4  TDouble == 5  TTimestamp == 7  TLonglong == 8
TInt24 == 9  TDate == 10  TTime == 11  TDatetime == 12  TYear == 13  TVarchar == 15  TBit == 16
TDecimalOld == 0  TJson == 245  TNewDecimal == 246  TEnum == 247  TSet == 248  TTinyBlob == 249
TMediumBlob == 250  TLongBlob == 251  TBlob == 252  TVarString == 253  TString == 254  TGeometry == 255

IntTypes == {TTiny, TShort, TYear, TInt24, TLong, TLonglong}
IntWidth(t) == IF t = TTiny THEN 1 ELSE IF t \in {TShort, TYear} THEN 2 ELSE IF t \in {TInt24, TLong} THEN 4 ELSE 8
StrTypes == {TVarchar, TBit, TJson, TEnum, TSet, TTinyBlob, TMediumBlob, TLongBlob, TBlob, TVarString, TString,
             TDecimalOld, TGeometry}
LenEncTypes == StrTypes \cup {TNewDecimal}

NullV == [k |-> "null"]

(* ---- ASCII helpers *)
D1(n) == 48 + n
D2(n) == << D1((n \div 10) % 10), D1(n % 10) >>
D3(n) == << D1((n \div 100) % 10) >> \o D2(n % 100)
D4(n) == D2(n \div 100) \o D2(n % 100)
D6(n) == D2(n \div 10000) \o D2((n \div 100) % 100) \o D2(n % 100)
Frac(us, fsp) == IF fsp = 0 THEN <<>> ELSE <<46>> \o SubSeq(D6(us), 1, fsp)
Dash == 45  Colon == 58  Space == 32

TextOf(v) ==
    IF v.k \in {"int", "flt", "dec"} THEN v.text
    ELSE IF v.k = "str" THEN v.b
    ELSE IF v.k = "date" THEN D4(v.y) \o <<Dash>> \o D2(v.m) \o <<Dash>> \o D2(v.d)
    ELSE IF v.k = "dt" THEN D4(v.y) \o <<Dash>> \o D2(v.m) \o <<Dash>> \o D2(v.d) \o <<Space>>
                            \o D2(v.h) \o <<Colon>> \o D2(v.mi) \o <<Colon>> \o D2(v.s) \o Frac(v.us, v.fsp)
    ELSE (IF v.neg THEN <<Dash>> ELSE <<>>) \o (IF v.h >= 100 THEN D3(v.h) ELSE D2(v.h))
         \o <<Colon>> \o D2(v.mi) \o <<Colon>> \o D2(v.s) \o Frac(v.us, v.fsp)

(* ---- binary forms *)
LE2(n) == << n % 256, (n \div 256) % 256 >>
LE4(n) == << n % 256, (n \div 256) % 256, (n \div 65536) % 256, (n \div 16777216) % 256 >>
LenEnc(b) == EncLen(FromSmall(Len(b))) \o b

BinOf(t, v) ==
    IF v.k = "int" THEN SubSeq(v.b8, 1, IntWidth(t))
    ELSE IF v.k = "flt" THEN v.bin
    ELSE IF v.k = "dec" THEN LenEnc(v.text)
    ELSE IF v.k = "str" THEN LenEnc(v.b)
    ELSE IF v.k = "date" THEN IF v.y = 0 /\ v.m = 0 /\ v.d = 0 THEN <<0>> ELSE <<4>> \o LE2(v.y) \o <<v.m, v.d>>
    ELSE IF v.k = "dt" THEN
         IF v.y = 0 /\ v.m = 0 /\ v.d = 0 /\ v.h = 0 /\ v.mi = 0 /\ v.s = 0 /\ v.us = 0 THEN <<0>>
         ELSE IF v.us # 0 THEN <<11>> \o LE2(v.y) \o <<v.m, v.d, v.h, v.mi, v.s>> \o LE4(v.us)
         ELSE IF v.h # 0 \/ v.mi # 0 \/ v.s # 0 THEN <<7>> \o LE2(v.y) \o <<v.m, v.d, v.h, v.mi, v.s>>
         ELSE <<4>> \o LE2(v.y) \o <<v.m, v.d>>
    ELSE \* time
         IF v.h = 0 /\ v.mi = 0 /\ v.s = 0 /\ v.us = 0 THEN <<0>>
         ELSE LET body == <<IF v.neg THEN 1 ELSE 0>> \o LE4(v.h \div 24) \o <<v.h % 24, v.mi, v.s>> IN
              IF v.us = 0 THEN <<8>> \o body ELSE <<12>> \o body \o LE4(v.us)

(* what "the same value" means: the canonical value a decoder must arrive at *)
CanonOf(t, u, v) ==
    IF v.k = "null" THEN NullV
    ELSE IF v.k = "int" THEN [k |-> "int", b8 |-> v.b8]
    ELSE IF v.k = "flt" THEN [k |-> "flt", bin |-> v.bin]
    ELSE IF v.k = "dec" THEN [k |-> "dec", canon |-> v.canon]
    ELSE IF v.k = "str" THEN [k |-> "str", b |-> v.b]
    ELSE IF v.k = "date" THEN [k |-> "date", y |-> v.y, m |-> v.m, d |-> v.d]
    ELSE IF v.k = "dt" THEN [k |-> "dt", y |-> v.y, m |-> v.m, d |-> v.d, h |-> v.h, mi |-> v.mi, s |-> v.s, us |-> v.us]
    ELSE [k |-> "time", neg |-> (v.neg /\ (v.h # 0 \/ v.mi # 0 \/ v.s # 0 \/ v.us # 0)), h |-> v.h, mi |-> v.mi, s |-> v.s, us |-> v.us]

(* ---- rows *)
N == Len(cols)
IsNull(j) == cols[j].v.k = "null"
BitmapLen(n) == (n + 7 + 2) \div 8
Pow2(b) == IF b = 0 THEN 1 ELSE IF b = 1 THEN 2 ELSE IF b = 2 THEN 4 ELSE IF b = 3 THEN 8 ELSE IF b = 4 THEN 16
           ELSE IF b = 5 THEN 32 ELSE IF b = 6 THEN 64 ELSE 128
(* column j (1-based) owns bit j+1 (0-based) of the bitmap: offset 2 *)
BitOf(cs, k, b) == LET j == 8 * (k - 1) + b - 1 IN IF j >= 1 /\ j <= Len(cs) /\ cs[j].v.k = "null" THEN Pow2(b) ELSE 0
NullBitmap(cs) == [k \in 1..BitmapLen(Len(cs)) |->
                     BitOf(cs, k, 0) + BitOf(cs, k, 1) + BitOf(cs, k, 2) + BitOf(cs, k, 3)
                   + BitOf(cs, k, 4) + BitOf(cs, k, 5) + BitOf(cs, k, 6) + BitOf(cs, k, 7)]
RECURSIVE ValuesFrom(_, _)
ValuesFrom(cs, j) == IF j > Len(cs) THEN <<>>
                     ELSE (IF cs[j].v.k = "null" THEN <<>> ELSE BinOf(cs[j].t, cs[j].v)) \o ValuesFrom(cs, j + 1)
BinaryRow(cs) == <<0>> \o NullBitmap(cs) \o ValuesFrom(cs, 1)

RECURSIVE TextFrom(_, _)
TextFrom(cs, j) == IF j > Len(cs) THEN <<>>
                   ELSE (IF cs[j].v.k = "null" THEN <<251>> ELSE LenEnc(TextOf(cs[j].v))) \o TextFrom(cs, j + 1)
TextRow(cs) == TextFrom(cs, 1)

-----------------------------------------------------------------------------------
(* Decoder of a binary row, per the protocol (all length variants of the temporal types).  *)
Bad == [k |-> "bad"]
U2(b, p) == b[p + 1] + 256 * b[p + 2]
U4small(b, p) == b[p + 1] + 256 * b[p + 2] + 65536 * b[p + 3]       \* the 4th byte is 0 for all values used (< 2^24)
SignExt(bytes, u) == LET w == Len(bytes)
                         fill == IF ~u /\ bytes[w] >= 128 THEN 255 ELSE 0
                     IN [i \in 1..8 |-> IF i <= w THEN bytes[i] ELSE fill]
RECURSIVE StripZeros(_)
StripZeros(s) == IF Len(s) > 0 /\ s[Len(s)] = 48 THEN StripZeros(SubSeq(s, 1, Len(s) - 1)) ELSE s
HasDot(s) == \E i \in 1..Len(s) : s[i] = 46
DecCanon(s) == LET a == IF HasDot(s) THEN StripZeros(s) ELSE s
                   b == IF Len(a) > 0 /\ a[Len(a)] = 46 THEN SubSeq(a, 1, Len(a) - 1) ELSE a
               IN IF b = <<45, 48>> THEN <<48>> ELSE b

(* one column at offset p (0-based): [v, next] *)
DecodeCol(t, u, b, p) ==
    IF t \in IntTypes THEN
        IF p + IntWidth(t) > Len(b) THEN [v |-> Bad, next |-> p]
        ELSE [v |-> [k |-> "int", b8 |-> SignExt(SubSeq(b, p + 1, p + IntWidth(t)), u)], next |-> p + IntWidth(t)]
    ELSE IF t \in {TFloat, TDouble} THEN
        LET w == IF t = TFloat THEN 4 ELSE 8 IN
        IF p + w > Len(b) THEN [v |-> Bad, next |-> p]
        ELSE [v |-> [k |-> "flt", bin |-> SubSeq(b, p + 1, p + w)], next |-> p + w]
    ELSE IF t \in LenEncTypes THEN
        LET r == DecStr(b, p) IN
        IF ~r.ok \/ r.null THEN [v |-> Bad, next |-> p]
        ELSE IF t = TNewDecimal THEN [v |-> [k |-> "dec", canon |-> DecCanon(StrBytes(b, r))], next |-> r.next]
        ELSE [v |-> [k |-> "str", b |-> StrBytes(b, r)], next |-> r.next]
    ELSE IF p >= Len(b) THEN [v |-> Bad, next |-> p]
    ELSE LET n == b[p + 1] IN
         IF p + 1 + n > Len(b) THEN [v |-> Bad, next |-> p]
         ELSE IF t = TDate THEN
              IF n = 0 THEN [v |-> [k |-> "date", y |-> 0, m |-> 0, d |-> 0], next |-> p + 1]
              ELSE IF n \in {4, 7, 11} THEN [v |-> [k |-> "date", y |-> U2(b, p + 1), m |-> b[p + 4], d |-> b[p + 5]], next |-> p + 1 + n]
              ELSE [v |-> Bad, next |-> p]
         ELSE IF t \in {TDatetime, TTimestamp} THEN
              IF n \notin {0, 4, 7, 11} THEN [v |-> Bad, next |-> p]
              ELSE [v |-> [k |-> "dt", y |-> IF n >= 4 THEN U2(b, p + 1) ELSE 0, m |-> IF n >= 4 THEN b[p + 4] ELSE 0,
                           d |-> IF n >= 4 THEN b[p + 5] ELSE 0, h |-> IF n >= 7 THEN b[p + 6] ELSE 0,
                           mi |-> IF n >= 7 THEN b[p + 7] ELSE 0, s |-> IF n >= 7 THEN b[p + 8] ELSE 0,
                           us |-> IF n = 11 THEN U4small(b, p + 8) ELSE 0], next |-> p + 1 + n]
         ELSE \* TTime
              IF n \notin {0, 8, 12} THEN [v |-> Bad, next |-> p]
              ELSE IF n = 0 THEN [v |-> [k |-> "time", neg |-> FALSE, h |-> 0, mi |-> 0, s |-> 0, us |-> 0], next |-> p + 1]
              ELSE LET hh == U4small(b, p + 2) * 24 + b[p + 7]
                       us == IF n = 12 THEN U4small(b, p + 9) ELSE 0
                       nz == hh # 0 \/ b[p + 8] # 0 \/ b[p + 9] # 0 \/ us # 0
                   IN [v |-> [k |-> "time", neg |-> (b[p + 2] = 1 /\ nz), h |-> hh, mi |-> b[p + 8], s |-> b[p + 9], us |-> us],
                       next |-> p + 1 + n]

BitSet(byte, b) == (byte \div Pow2(b)) % 2 = 1
RECURSIVE DecodeFrom(_, _, _, _)
DecodeFrom(fields, b, j, p) ==
    IF j > Len(fields) THEN (IF p = Len(b) THEN <<>> ELSE <<Bad>>)      \* trailing bytes are an error
    ELSE LET q == j + 1                                                  \* bit index of column j
             isnull == BitSet(b[2 + q \div 8], q % 8)
         IN IF isnull THEN <<NullV>> \o DecodeFrom(fields, b, j + 1, p)
            ELSE LET r == DecodeCol(fields[j].t, fields[j].u, b, p) IN
                 IF r.v = Bad THEN <<Bad>> ELSE <<r.v>> \o DecodeFrom(fields, b, j + 1, r.next)
Decode(fields, b) ==
    IF Len(b) < 1 + BitmapLen(Len(fields)) \/ b[1] # 0 THEN <<Bad>>
    ELSE DecodeFrom(fields, b, 1, 1 + BitmapLen(Len(fields)))

-----------------------------------------------------------------------------------
(* The value universe per column type.                                                    *)
Rep(ch, n) == [i \in 1..n |-> ch]
LongStrings == {Rep(120, 250), Rep(121, 251), Rep(122, 300)}      \* around the one-byte length limit
Str(b) == [k |-> "str", b |-> b]
Dates == {[k |-> "date", y |-> 0, m |-> 0, d |-> 0], [k |-> "date", y |-> 2024, m |-> 2, d |-> 29],
          [k |-> "date", y |-> 1000, m |-> 1, d |-> 1], [k |-> "date", y |-> 9999, m |-> 12, d |-> 31],
          [k |-> "date", y |-> 2021, m |-> 0, d |-> 0], [k |-> "date", y |-> 2021, m |-> 7, d |-> 0],
          [k |-> "date", y |-> 2021, m |-> 0, d |-> 9], [k |-> "date", y |-> 0, m |-> 1, d |-> 1], [k |-> "date", y |-> 256, m |-> 10, d |-> 10]}
DT(y, m, d, h, mi, s, us, fsp) == [k |-> "dt", y |-> y, m |-> m, d |-> d, h |-> h, mi |-> mi, s |-> s, us |-> us, fsp |-> fsp]
(* boundary classes, systematically: every combination of hour / minute / second / fraction being zero or not (the binary *)
(* form has three lengths that depend on exactly this), plus extremes, zero and partial-zero dates, 3- and 6-digit fractions *)
DateTimes == {DT(0, 0, 0, 0, 0, 0, 0, 0), DT(2024, 2, 29, 23, 59, 59, 0, 0), DT(2024, 2, 29, 0, 0, 0, 0, 0),
              DT(1970, 1, 1, 0, 0, 1, 0, 0), DT(9999, 12, 31, 23, 59, 59, 999999, 6), DT(2021, 6, 15, 12, 0, 0, 500000, 3),
              DT(2021, 6, 15, 12, 0, 0, 1, 6), DT(2021, 6, 15, 12, 30, 0, 0, 6), DT(2021, 0, 0, 0, 0, 0, 0, 0)}
             \cup {DT(2021, 6, 15, h, mi, sec, us, IF us = 0 THEN 0 ELSE 6) : h \in {0, 13}, mi \in {0, 7}, sec \in {0, 59}, us \in {0, 500000}}
             \cup {DT(2021, 6, 15, 0, 0, 0, 0, 6), DT(2021, 6, 15, 0, 0, 0, 120000, 2), DT(2021, 6, 15, 0, 0, 0, 999999, 6)}
TM(neg, h, mi, s, us, fsp) == [k |-> "time", neg |-> neg, h |-> h, mi |-> mi, s |-> s, us |-> us, fsp |-> fsp]
Times == {TM(FALSE, 0, 0, 0, 0, 0), TM(FALSE, 12, 34, 56, 0, 0), TM(TRUE, 12, 34, 56, 0, 0), TM(FALSE, 838, 59, 59, 0, 0),
          TM(TRUE, 838, 59, 59, 0, 0), TM(FALSE, 25, 0, 0, 0, 0), TM(FALSE, 100, 0, 0, 0, 0), TM(FALSE, 0, 0, 0, 1, 6),
          TM(TRUE, 0, 0, 0, 500000, 1), TM(TRUE, 0, 0, 1, 0, 0), TM(FALSE, 23, 59, 59, 999999, 6), TM(FALSE, 1, 2, 3, 0, 3)}
         \cup {TM(neg, h, mi, sec, us, IF us = 0 THEN 0 ELSE 6) : neg \in BOOLEAN, h \in {0, 5, 48}, mi \in {0, 7}, sec \in {0, 9}, us \in {0, 250000}}

ValuesOf(t, u) ==
    IF t \in IntTypes THEN {[k |-> "int", text |-> e.text, b8 |-> e.b8] : e \in {x \in IntTable : x.t = t /\ x.u = u}}
    ELSE IF t \in {TFloat, TDouble} THEN {[k |-> "flt", text |-> e.text, bin |-> e.bin] : e \in {x \in FloatTable : x.t = t}}
    ELSE IF t = TNewDecimal THEN {[k |-> "dec", text |-> e.text, canon |-> e.canon] : e \in DecimalTable}
    ELSE IF t \in {TVarchar, TVarString, TString, TBlob} THEN {Str(b) : b \in ShortStrings \cup LongStrings}
    ELSE IF t \in StrTypes THEN {Str(b) : b \in {<<>>, <<97, 98, 99>>, <<5>>, <<255, 0, 251>>, Rep(121, 251)}}
    ELSE IF t = TDate THEN Dates
    ELSE IF t \in {TDatetime, TTimestamp} THEN DateTimes
    ELSE Times
AllTypes == IntTypes \cup {TFloat, TDouble, TNewDecimal, TDate, TDatetime, TTimestamp, TTime} \cup StrTypes
Flags(t) == IF t \in IntTypes \cup {TFloat, TDouble, TNewDecimal} THEN {FALSE, TRUE} ELSE {FALSE}
(* FLOAT / DOUBLE / DECIMAL UNSIGNED: the flag must not matter; only non-negative table values are used with it *)
NonNeg(v) == v.text[1] # 45
Col(t, u, v) == [t |-> t, u |-> u, v |-> v]
AllColumns == UNION {UNION {{Col(t, u, v) : v \in IF t \in IntTypes \/ ~u THEN ValuesOf(t, u) ELSE {x \in ValuesOf(t, u) : NonNeg(x)}}
                            : u \in Flags(t)} : t \in AllTypes}
               \cup {Col(t, FALSE, NullV) : t \in AllTypes}
(* one representative per family for the multi-column rows *)
Tiny7 == Col(TTiny, FALSE, [k |-> "int", text |-> <<55>>, b8 |-> <<7, 0, 0, 0, 0, 0, 0, 0>>])
MixedColumns == {Tiny7, Col(TLonglong, TRUE, CHOOSE v \in ValuesOf(TLonglong, TRUE) : v.b8 = [i \in 1..8 |-> 255]),
                 Col(TVarString, FALSE, Str(<<97, 98, 99>>)), Col(TBlob, FALSE, Str(Rep(121, 251))),
                 Col(TDouble, FALSE, CHOOSE v \in ValuesOf(TDouble, FALSE) : v.text = <<49, 46, 53>>),
                 Col(TNewDecimal, FALSE, CHOOSE v \in ValuesOf(TNewDecimal, FALSE) : v.text = <<49, 46, 49, 48>>),
                 Col(TDatetime, FALSE, DT(2021, 6, 15, 12, 0, 0, 500000, 3)), Col(TDate, FALSE, [k |-> "date", y |-> 2024, m |-> 2, d |-> 29]),
                 Col(TTime, FALSE, TM(TRUE, 838, 59, 59, 0, 0)), Col(TVarchar, FALSE, NullV), Col(TLong, FALSE, NullV)}
BitmapColumns == {Tiny7, Col(TTiny, FALSE, NullV)} \cup (IF mode = "bitmap3" THEN {Col(TVarString, FALSE, Str(<<97, 98>>))} ELSE {})

Choices == IF mode = "single" THEN AllColumns ELSE IF mode = "mixed" THEN MixedColumns ELSE BitmapColumns
Limit == IF mode = "single" THEN 1 ELSE IF mode = "mixed" THEN MaxMixed ELSE IF mode = "bitmap" THEN MaxBitmap ELSE MaxBitmap3

(* result sets: column j is TINY for odd j and VAR_STRING for even j; every row picks value or NULL per column *)
SetColumn(j) == IF j % 2 = 1 THEN {Tiny7, Col(TTiny, FALSE, NullV)}
                ELSE {Col(TVarString, FALSE, Str(<<97, 98>>)), Col(TVarString, FALSE, NullV)}

Init == mode \in Modes /\ cols = <<>> /\ rows = <<>>
AddColumn == /\ mode # "sets"
             /\ Len(cols) < Limit
             /\ \E c \in Choices : cols' = Append(cols, c)
             /\ UNCHANGED <<mode, rows>>
AddSetColumn == /\ mode = "sets"
                /\ Len(cols) < (IF rows = <<>> THEN MaxSetCols ELSE Len(rows[1]))
                /\ \E c \in SetColumn(Len(cols) + 1) : cols' = Append(cols, c)
                /\ UNCHANGED <<mode, rows>>
(* the row is complete: the next row of the same result set starts *)
CloseRow == /\ mode = "sets" /\ Len(cols) >= 1 /\ Len(rows) < MaxSetRows
            /\ IF rows = <<>> THEN TRUE ELSE Len(cols) = Len(rows[1])
            /\ rows' = Append(rows, cols) /\ cols' = <<>>
            /\ UNCHANGED mode
Next == AddColumn \/ AddSetColumn \/ CloseRow
Spec == Init /\ [][Next]_vars

-----------------------------------------------------------------------------------
Fields == [j \in 1..N |-> [t |-> cols[j].t, u |-> cols[j].u]]
Canon == [j \in 1..N |-> CanonOf(cols[j].t, cols[j].u, cols[j].v)]

(* C13: the binary row decodes to the values of the text row *)
RowRoundTrip == N >= 1 => Decode(Fields, BinaryRow(cols)) = Canon
RowShape == N >= 1 => LET b == BinaryRow(cols) IN
                /\ b[1] = 0
                /\ \A j \in 1..N : BitSet(b[2 + (j + 1) \div 8], (j + 1) % 8) <=> IsNull(j)
                /\ \A k \in 1..BitmapLen(N) : \A bb \in 0..7 :
                      (BitSet(b[1 + k], bb) => (8 * (k - 1) + bb - 1 \in 1..N))       \* no stray bits (bits 0, 1 and padding stay 0)
(* the text row is what the text protocol says: one length-encoded string per column, 0xfb for NULL *)
RECURSIVE TextDecode(_, _, _)
TextDecode(b, j, p) == IF j > N THEN p = Len(b)
                       ELSE LET r == DecStr(b, p) IN
                            /\ r.ok /\ (r.null <=> IsNull(j))
                            /\ (~r.null => StrBytes(b, r) = TextOf(cols[j].v))
                            /\ TextDecode(b, j + 1, r.next)
TextRowOK == N >= 1 => TextDecode(TextRow(cols), 1, 0)

ValOut(j) == LET c == Canon[j] IN
             IF c.k = "null" THEN [k |-> "null"]
             ELSE IF c.k = "int" THEN [k |-> "int", b |-> c.b8]
             ELSE IF c.k = "flt" THEN [k |-> "flt", b |-> c.bin]
             ELSE IF c.k = "dec" THEN [k |-> "dec", b |-> c.canon]
             ELSE IF c.k = "str" THEN [k |-> "str", b |-> c.b]
             ELSE IF c.k = "date" THEN [k |-> "date", n |-> <<c.y, c.m, c.d>>]
             ELSE IF c.k = "dt" THEN [k |-> "dt", n |-> <<c.y, c.m, c.d, c.h, c.mi, c.s, c.us>>]
             ELSE [k |-> "time", n |-> <<IF c.neg THEN 1 ELSE 0, c.h, c.mi, c.s, c.us>>]
(* a result set is encoded row by row: row i of the binary result set is BinaryRow of row i, whatever the other rows are *)
BinaryResultset(rs) == [i \in 1..Len(rs) |-> BinaryRow(rs[i])]
FieldsOf(cs) == [j \in 1..Len(cs) |-> [t |-> cs[j].t, u |-> cs[j].u]]
CanonRow(cs) == [j \in 1..Len(cs) |-> CanonOf(cs[j].t, cs[j].u, cs[j].v)]
SetRoundTrip == \A i \in 1..Len(rows) : /\ FieldsOf(rows[i]) = FieldsOf(rows[1])
                                        /\ Decode(FieldsOf(rows[1]), BinaryResultset(rows)[i]) = CanonRow(rows[i])
RowOut(cs) == [vals |-> [j \in 1..Len(cs) |-> LET c == CanonRow(cs)[j] IN
                                               IF c.k = "null" THEN [k |-> "null"]
                                               ELSE IF c.k = "int" THEN [k |-> "int", b |-> c.b8] ELSE [k |-> "str", b |-> c.b]],
               text |-> TextRow(cs), bin |-> BinaryRow(cs)]
EmitSet == (EmitCases /\ mode = "sets" /\ cols = <<>> /\ Len(rows) >= 2) =>
          PrintT(<<"CASE", ToJson([fields |-> FieldsOf(rows[1]), set |-> [i \in 1..Len(rows) |-> RowOut(rows[i])]])>>)
Emit == (EmitCases /\ mode # "sets" /\ N >= 1) =>
          PrintT(<<"CASE", ToJson([fields |-> [j \in 1..N |-> [t |-> cols[j].t, u |-> cols[j].u]],
                                  vals |-> [j \in 1..N |-> ValOut(j)],
                                  text |-> TextRow(cols), bin |-> BinaryRow(cols)])>>)
===================================================================================
