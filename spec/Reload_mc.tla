-------------------------------- MODULE Reload_mc --------------------------------
(* Exhaustive configurations of Reload: constants that a .cfg file cannot express. *)
EXTENDS Reload, TLC

(* one user name shared by all namespaces, one password per configuration *)
MCCredOf(s, n, v) == {<<"u", <<n, v>>>>}

(* exact string functions for these credentials: the key is the pair itself *)
MCJoinKey(u, p) == <<u, p>>
MCSplitUser(k)  == k[1]
MCSplitPw(k)    == k[2]

(* started empty, or with namespace "n1" loaded at version 1 *)
MCInit == {[n \in NS |-> None], [n \in NS |-> IF n = "n1" THEN 1 ELSE None]}
===================================================================================
