------------------------------- MODULE Routing -------------------------------
(* Shard routing of the proxy (properties C01, C03, C04).                                   *)
(*                                                                                            *)
(* P-level (what the property texts say):                                                     *)
(*   Place(R,k)        the physical table a row with sharding key k lives in                  *)
(*   Holds(R,t)        the keys of a boundary-rich universe that live in table t              *)
(*   Eval(c,k,o)       MySQL truth value of a condition tree on a row (key k, other column o) *)
(*   MustRoute(R,c)    tables that can hold a row satisfying c                                *)
(*   C01:  accepted statement  =>  MustRoute(R,c) \subseteq Routed                            *)
(*   InsertEffect      C03: every row once, in Place(key), or the whole statement rejected    *)
(*   Copies / WriteExpect / ReadOK   C04: global tables                                       *)
(*                                                                                            *)
(* I-level (shaped like proxy/plan): Prune(R,c,fx) follows getFindTableIndexesFunc,           *)
(* adjustShardIndex/EqualStart, getShardBetweenExprRouteResult, getPatternInRouteResult and   *)
(* mergeBinaryOperationRouteResult.  fx = TRUE is the code as it is now (after the repairs    *)
(* bf55534: EqualStart of the calendar shards tests "first instant of the period", and        *)
(* 2551487: NOT BETWEEN with reversed bounds routes everywhere); fx = FALSE is the code       *)
(* before those repairs, kept so that TLC can show what the repairs fixed.  An I-level        *)
(* unsoundness is only a candidate; the verdict comes from replaying the case on the real     *)
(* planner.                                                                                   *)
(*                                                                                            *)
(* Keys.  hash/mod/range rules: small integers.  Calendar rules: an instant is the integer    *)
(* K = yyyymmdd*10 + tod with tod 0 = 00:00:00, 1 = 00:00:00.5 (a fractional second just     *)
(* after midnight), 5 = 12:00:00, 8 = 23:59:58.999999, 9 = 23:59:59 (order of K = order of     *)
(* instants; all values fit 32 bits).  The harness spells K as 'yyyy-mm-dd[ hh:mm:ss[.f]]'.    *)
EXTENDS Integers, Sequences, FiniteSets, SequencesExt, TLC

NoTable == -1

RECURSIVE SumSeq(_)
SumSeq(s) == IF s = <<>> THEN 0 ELSE Head(s) + SumSeq(Tail(s))

AbsI(x) == IF x < 0 THEN -x ELSE x
MinS(S) == CHOOSE x \in S : \A y \in S : x <= y
MaxS(S) == CHOOSE x \in S : \A y \in S : x >= y

(* ------------------------------------------------------------------ calendar *)
MkK(y, m, d, tod) == ((y * 100 + m) * 100 + d) * 10 + tod
Leap(y) == (y % 4 = 0 /\ y % 100 # 0) \/ y % 400 = 0
DaysIn(y, m) == IF m \in {1, 3, 5, 7, 8, 10, 12} THEN 31
                ELSE IF m \in {4, 6, 9, 11} THEN 30
                ELSE IF Leap(y) THEN 29 ELSE 28
ValidMonth(p) == (p % 100) \in 1..12                       \* p = yyyymm
ValidDay(p) == LET y == p \div 10000  m == (p \div 100) % 100  d == p % 100
               IN  m \in 1..12 /\ d \in 1..DaysIn(y, m)     \* p = yyyymmdd

IsDate(ty) == ty \in {"date_year", "date_month", "date_day"}

\* period number of an instant (= the table index the router computes)
PeriodOf(ty, K) == CASE ty = "date_year"  -> K \div 100000
                     [] ty = "date_month" -> K \div 1000
                     [] ty = "date_day"   -> K \div 10

PStart(ty, p) == CASE ty = "date_year"  -> MkK(p, 1, 1, 0)
                   [] ty = "date_month" -> p * 1000 + 10
                   [] ty = "date_day"   -> p * 10
PMid(ty, p)   == CASE ty = "date_year"  -> MkK(p, 6, 15, 5)
                   [] ty = "date_month" -> p * 1000 + 155
                   [] ty = "date_day"   -> p * 10 + 5
PEnd(ty, p)   == CASE ty = "date_year"  -> MkK(p, 12, 31, 9)
                   [] ty = "date_month" -> p * 1000 + DaysIn(p \div 100, p % 100) * 10 + 9
                   [] ty = "date_day"   -> p * 10 + 9
(* a fractional second after the first instant / before the last whole second of the period *)
PAfterStart(ty, p) == PStart(ty, p) + 1
PBeforeEnd(ty, p)  == PEnd(ty, p) - 1
PPrev(ty, p)  == CASE ty = "date_year"  -> p - 1
                   [] ty = "date_month" -> IF p % 100 = 1 THEN (p \div 100 - 1) * 100 + 12 ELSE p - 1
                   [] ty = "date_day"   ->
                        LET y == p \div 10000  m == (p \div 100) % 100  d == p % 100
                        IN  IF d > 1 THEN p - 1
                            ELSE IF m > 1 THEN y * 10000 + (m - 1) * 100 + DaysIn(y, m - 1)
                            ELSE (y - 1) * 10000 + 1231
PNext(ty, p)  == CASE ty = "date_year"  -> p + 1
                   [] ty = "date_month" -> IF p % 100 = 12 THEN (p \div 100 + 1) * 100 + 1 ELSE p + 1
                   [] ty = "date_day"   ->
                        LET y == p \div 10000  m == (p \div 100) % 100  d == p % 100
                        IN  IF d < DaysIn(y, m) THEN p + 1
                            ELSE IF m < 12 THEN y * 10000 + (m + 1) * 100 + 1
                            ELSE (y + 1) * 10000 + 101

(* ------------------------------------------------------------------ rule instances (data) *)
(* R = [id, type, locs, limit, spans, desc]                                                   *)
(*   locs  : tables per slice (hash, mod, range);  limit : table_row_limit (range)            *)
(*   spans : per slice <<from, to>> period numbers (calendar rules; a single period is       *)
(*           <<p, p>>); the configuration strings are rendered by the harness ("from-to", or *)
(*           "to-from" when desc is TRUE: the code accepts both orders)                        *)
(* Operators below take a COMPILED rule C == Compile(R): R plus the derived fields n, tables, *)
(* first, last, lits, core, keys, holds (so that TLC computes them once per rule instance).   *)
NTables(R) == R.n

SpanSet(ty, sp) == CASE ty = "date_year"  -> sp[1]..sp[2]
                     [] ty = "date_month" -> {p \in sp[1]..sp[2] : ValidMonth(p)}
                     [] ty = "date_day"   -> {p \in sp[1]..sp[2] : ValidDay(p)}

TablesOf(R0) == IF IsDate(R0.type) THEN UNION {SpanSet(R0.type, R0.spans[i]) : i \in DOMAIN R0.spans}
                ELSE 0..(SumSeq(R0.locs) - 1)
Tables(R) == R.tables

Offset(R, i) == SumSeq(SubSeq(R.locs, 1, i - 1))

\* 0-based slice position (in the rule's slice list) of table t
SliceOf(R, t) == IF IsDate(R.type)
                 THEN (CHOOSE i \in DOMAIN R.spans : t \in SpanSet(R.type, R.spans[i])) - 1
                 ELSE (CHOOSE i \in DOMAIN R.locs : t >= Offset(R, i) /\ t < Offset(R, i) + R.locs[i]) - 1

(* Rule.FindTableIndex on a routable literal (non-negative integer / well-formed date string) *)
Find(R, v) ==
  CASE R.type = "hash"  -> [ok |-> TRUE, idx |-> v % NTables(R)]
    [] R.type = "mod"   -> [ok |-> TRUE, idx |-> AbsI(v) % NTables(R)]
    [] R.type = "range" -> IF v >= 0 /\ v < NTables(R) * R.limit
                           THEN [ok |-> TRUE, idx |-> v \div R.limit]
                           ELSE [ok |-> FALSE, idx |-> NoTable]
    [] OTHER            -> [ok |-> TRUE, idx |-> PeriodOf(R.type, v)]

(* the table a row with key k lives in; NoTable when such a row cannot be stored *)
Place(R, k) == LET f == Find(R, k) IN IF f.ok /\ f.idx \in Tables(R) THEN f.idx ELSE NoTable

(* ------------------------------------------------------------------ boundary-rich universes *)
DateLitsOf(R) ==
  LET ty == R.type  T == Tables(R)  first == MinS(T)  last == MaxS(T)
      gaps == {PNext(ty, p) : p \in T \ {last}} \ T
  IN  {PStart(ty, p) : p \in T} \cup {PMid(ty, p) : p \in T} \cup {PEnd(ty, p) : p \in T}
      \cup {PAfterStart(ty, p) : p \in T} \cup {PBeforeEnd(ty, p) : p \in T}
      \cup {PEnd(ty, PPrev(ty, first)), PStart(ty, PNext(ty, last))}
      \cup {PMid(ty, g) : g \in gaps}

IntLitsOf(R) ==
  LET n == NTables(R) IN
  IF R.type = "range"
  THEN UNION {{t * R.limit, t * R.limit + 1, t * R.limit + R.limit - 1} : t \in 0..(n - 1)}
       \cup {n * R.limit, n * R.limit + 1, -1}
  ELSE (0..(n + 1)) \cup {2 * n + 1, -1}

(* literals that may appear in conditions (includes out-of-range and negative ones) *)
LitsOf(R) == IF IsDate(R.type) THEN DateLitsOf(R) ELSE IntLitsOf(R)
Lits(R) == R.lits

(* a small subset concentrated on the first interior boundary and the outer edge *)
CoreLitsOf(R) ==
  IF IsDate(R.type)
  THEN LET ty == R.type  T == Tables(R)  p1 == MinS(T)  p2 == MinS(T \ {p1})  pl == MaxS(T)
       IN  {PEnd(ty, p1), PStart(ty, p2), PAfterStart(ty, p2), PMid(ty, p2), PEnd(ty, pl)}
  ELSE IF R.type = "range"
       THEN {R.limit - 1, R.limit, R.limit + 1, NTables(R) * R.limit - 1}
       ELSE {0, 1, NTables(R), NTables(R) + 1}

CoreLits(R) == R.core

(* keys of rows that can exist *)
KeyUniverse(R) == R.keys
Holds(R, t) == R.holds[t]
OtherVals == {0, 1, 2}

Compile(R0) ==
  LET T  == TablesOf(R0)
      R1 == [id |-> R0.id, type |-> R0.type, locs |-> R0.locs, limit |-> R0.limit, spans |-> R0.spans,
             desc |-> R0.desc, n |-> SumSeq(R0.locs), tables |-> T, first |-> MinS(T), last |-> MaxS(T)]
      L  == LitsOf(R1)
      K  == {k \in L : k >= 0 /\ Place(R1, k) # NoTable}
  IN  [id |-> R0.id, type |-> R0.type, locs |-> R0.locs, limit |-> R0.limit, spans |-> R0.spans,
       desc |-> R0.desc, n |-> R1.n, tables |-> T, first |-> R1.first, last |-> R1.last,
       lits |-> L, core |-> CoreLitsOf(R1), keys |-> K,
       holds |-> [t \in T |-> {k \in K : Place(R1, k) = t}]]

(* label of a literal relative to the layout (used for signatures only) *)
LitClass(R, v) ==
  IF v < 0 THEN "negative"
  ELSE IF IsDate(R.type)
       THEN LET ty == R.type  p == PeriodOf(ty, v)  T == Tables(R)
            IN  IF p < MinS(T) THEN "before-first-period"
                ELSE IF p > MaxS(T) THEN "after-last-period"
                ELSE IF p \notin T THEN "gap-period"
                ELSE IF v = PStart(ty, p) THEN "period-start"
                ELSE IF v = PEnd(ty, p) THEN "period-end"
                ELSE IF v = PAfterStart(ty, p) THEN "fraction-after-period-start"
                ELSE IF v = PBeforeEnd(ty, p) THEN "fraction-before-period-end"
                ELSE "inside-period"
       ELSE IF R.type = "range"
            THEN IF v >= NTables(R) * R.limit THEN "out-of-range"
                 ELSE IF v % R.limit = 0 THEN "range-start"
                 ELSE IF v % R.limit = R.limit - 1 THEN "range-end"
                 ELSE "inside-range"
            ELSE "key"

(* descriptor of a rule instance handed to the harness (which cross-checks tables, slices *)
(* and the placement of every universe literal against the real router)                  *)
RuleDesc(R) ==
  [kind |-> "rule", id |-> R.id, type |-> R.type, locs |-> R.locs, limit |-> R.limit, spans |-> R.spans,
   desc |-> R.desc, tables |-> Tables(R),
   slice_of |-> {<<t, SliceOf(R, t)>> : t \in Tables(R)},
   lits |-> Lits(R), keys |-> KeyUniverse(R),
   place |-> {<<v, Find(R, v).idx, Find(R, v).ok>> : v \in {x \in Lits(R) : x >= 0}},
   litclass |-> {<<v, LitClass(R, v)>> : v \in Lits(R)}]

(* ------------------------------------------------------------------ condition trees *)
(* leaf  = [k: "cmp"|"in"|"btw", col: "k"|"o", op, neg, a, b, s, w]                            *)
(*         w = "lit": plain literal(s);  w = "expr": the literal is written as an expression   *)
(*         with the same value ((v+0), TIMESTAMP('..')) which the planner does not evaluate;   *)
(*         a negative integer is always an expression (unary minus)                            *)
(* inner = [k: "and"|"or", l, r] | [k: "not", x]                                               *)
Ops == {"=", "<>", "<", "<=", ">", ">="}

Leaf(kind, col, op, neg, a, b, s, w) ==
  [k |-> kind, col |-> col, op |-> op, neg |-> neg, a |-> a, b |-> b, s |-> s, w |-> w]

And(l, r) == [k |-> "and", l |-> l, r |-> r]
Or(l, r)  == [k |-> "or", l |-> l, r |-> r]
Not(x)    == [k |-> "not", x |-> x]

(* U: literals for comparison / single-element leaves; P: literals for two-literal leaves;    *)
(* wide = TRUE also adds BETWEEN over every ordered pair of U                                  *)
LeafSet(U, P, wide) ==
  LET NN(S) == {v \in S : v >= 0}
      Whole(S) == {v \in S : v < 100000000 \/ (v % 10) \notin {1, 8}}   \* not a fractional-second instant
  IN
       {Leaf("cmp", "k", op, FALSE, v, 0, {}, "lit") : op \in Ops, v \in U}
  \cup {Leaf("cmp", "k", op, FALSE, v, 0, {}, "expr") : op \in {"=", "<", ">="}, v \in NN(P)}
  \cup {Leaf("in", "k", "", ng, 0, 0, {v}, "lit") : ng \in BOOLEAN, v \in U}
  \cup {Leaf("in", "k", "", ng, 0, 0, {v, w}, "lit") : ng \in BOOLEAN, v \in P, w \in P}
  \cup {Leaf("btw", "k", "", ng, ab[1], ab[2], {}, "lit") :
          ng \in BOOLEAN, ab \in IF wide THEN {x \in Whole(U) \X Whole(U) : x[1] <= x[2]} \cup {x \in P \X P : x[1] > x[2]}
                                                    \cup ((U \ Whole(U)) \X P) \cup (P \X (U \ Whole(U)))
                                         ELSE P \X P}
  \cup {Leaf("in", "k", "", FALSE, 0, 0, {v}, "expr") : v \in NN(P)}
  \cup {Leaf("btw", "k", "", ng, v, v, {}, "expr") : ng \in BOOLEAN, v \in NN(P)}
  \cup {Leaf("cmp", "o", op, FALSE, 1, 0, {}, "lit") : op \in {"=", "<>", "<"}}
  \cup (IF wide THEN {Leaf("in", "o", "", ng, 0, 0, {0, 2}, "lit") : ng \in BOOLEAN}
                     \cup {Leaf("btw", "o", "", ng, 1, 2, {}, "lit") : ng \in BOOLEAN}
        ELSE {})

FullLeaves(R) == LeafSet(Lits(R), CoreLits(R), TRUE)
PairLeaves(R) == LeafSet(CoreLits(R), {x \in CoreLits(R) : x # MaxS(CoreLits(R))}, FALSE)

(* ------------------------------------------------------------------ P-level semantics *)
Cmp(op, x, y) == CASE op = "="  -> x = y
                   [] op = "<>" -> x # y
                   [] op = "<"  -> x < y
                   [] op = "<=" -> x <= y
                   [] op = ">"  -> x > y
                   [] op = ">=" -> x >= y

RECURSIVE Eval(_, _, _)
Eval(c, k, o) ==
  CASE c.k = "cmp" -> Cmp(c.op, IF c.col = "k" THEN k ELSE o, c.a)
    [] c.k = "in"  -> LET x == IF c.col = "k" THEN k ELSE o IN (x \in c.s) # c.neg
    [] c.k = "btw" -> LET x == IF c.col = "k" THEN k ELSE o IN (x >= c.a /\ x <= c.b) # c.neg
    [] c.k = "and" -> Eval(c.l, k, o) /\ Eval(c.r, k, o)
    [] c.k = "or"  -> Eval(c.l, k, o) \/ Eval(c.r, k, o)
    [] c.k = "not" -> ~Eval(c.x, k, o)

MustRoute(R, c) == {t \in Tables(R) : \E k \in Holds(R, t), o \in OtherVals : Eval(c, k, o)}

(* C01 on an observation: the statement was rejected, or every must-table was routed *)
C01Holds(R, c, rejected, routed) == rejected \/ MustRoute(R, c) \subseteq routed

(* ------------------------------------------------------------------ I-level: pruning as implemented *)
IsRangeShard(R) == R.type \in {"range", "date_year", "date_month", "date_day"}
IsValueExpr(w, v) == w = "lit" /\ v >= 0

(* RangeShard.EqualStart(v, idx): the code of the calendar shards compares the period number  *)
(* of v with idx (always equal); fx = the intended meaning "v is the first instant of idx"    *)
EqualStart(R, v, idx, fx) ==
  IF R.type = "range" THEN v = idx * R.limit
  ELSE IF fx THEN v = PStart(R.type, idx)
  ELSE PeriodOf(R.type, v) = idx

Adjust(R, v, idx, fx) == IF EqualStart(R, v, idx, fx) THEN idx - 1 ELSE idx

Res(rej, has, set) == [rej |-> rej, has |-> has, set |-> set]
Rejected == Res(TRUE, FALSE, {})
Unroutable == Res(FALSE, FALSE, {})

FirstT(R) == R.first
LastT(R) == R.last

PruneLeaf(R, c, fx) ==
  IF c.col = "o" THEN Res(FALSE, TRUE, Tables(R))          \* not the sharding column: every table
  ELSE
  CASE c.k = "cmp" ->
         IF ~IsValueExpr(c.w, c.a) THEN Unroutable
         ELSE IF c.op = "=" THEN LET f == Find(R, c.a) IN IF f.ok THEN Res(FALSE, TRUE, {f.idx}) ELSE Rejected
         ELSE IF c.op = "<>" \/ ~IsRangeShard(R) THEN Res(FALSE, TRUE, Tables(R))
         ELSE LET f == Find(R, c.a) IN
              IF ~f.ok THEN Rejected
              ELSE IF c.op = "<"  THEN Res(FALSE, TRUE, FirstT(R)..Adjust(R, c.a, f.idx, fx))
              ELSE IF c.op = "<=" THEN Res(FALSE, TRUE, FirstT(R)..f.idx)
              ELSE Res(FALSE, TRUE, f.idx..LastT(R))
    [] c.k = "in" ->
         IF \E v \in c.s : ~IsValueExpr(c.w, v) THEN Rejected        \* checkValueType
         ELSE IF c.neg THEN Res(FALSE, TRUE, Tables(R))
         ELSE IF \E v \in c.s : ~Find(R, v).ok THEN Rejected
         ELSE Res(FALSE, TRUE, {Find(R, v).idx : v \in c.s})
    [] c.k = "btw" ->
         IF ~IsRangeShard(R) THEN Res(FALSE, TRUE, Tables(R))
         ELSE IF ~IsValueExpr(c.w, c.a) \/ ~IsValueExpr(c.w, c.b) THEN Rejected
         ELSE LET fa == Find(R, c.a)  fb == Find(R, c.b) IN
              IF ~fa.ok \/ ~fb.ok THEN Rejected
              ELSE IF ~c.neg
                   THEN Res(FALSE, TRUE, (IF fa.idx > fb.idx THEN fb.idx ELSE fa.idx)..(IF fa.idx > fb.idx THEN fa.idx ELSE fb.idx))
                   ELSE IF fx /\ fa.idx > fb.idx THEN Res(FALSE, TRUE, Tables(R))  \* repaired (2551487): reversed bounds exclude nothing
                   ELSE LET swap == fa.idx > fb.idx
                            start == IF swap THEN Adjust(R, c.b, fb.idx, fx) ELSE Adjust(R, c.a, fa.idx, fx)
                            last == IF swap THEN fa.idx ELSE fb.idx
                        IN  Res(FALSE, TRUE, (FirstT(R)..start) \cup (last..LastT(R)))

RECURSIVE Prune(_, _, _)
Prune(R, c, fx) ==
  CASE c.k \in {"cmp", "in", "btw"} -> PruneLeaf(R, c, fx)
    [] c.k = "not" -> Unroutable   \* handleComparisonExpr's default branch: columns rewritten, nothing evaluated
    [] c.k \in {"and", "or"} ->
         LET l == Prune(R, c.l, fx)  r == Prune(R, c.r, fx) IN
         IF l.rej \/ r.rej THEN Rejected
         ELSE IF c.k = "and"
              THEN IF l.has /\ r.has THEN Res(FALSE, TRUE, l.set \cap r.set)
                   ELSE IF l.has THEN l ELSE IF r.has THEN r ELSE Unroutable
              ELSE IF l.has /\ r.has THEN Res(FALSE, TRUE, l.set \cup r.set) ELSE Unroutable

(* what the planner model sends the statement to: [rej, set] *)
RoutedI(R, c, fx) == LET p == Prune(R, c, fx) IN
                     IF p.rej THEN [rej |-> TRUE, set |-> {}]
                     ELSE [rej |-> FALSE, set |-> IF p.has THEN p.set \cap Tables(R) ELSE Tables(R)]

PruneSound(R, c, fx) == LET x == RoutedI(R, c, fx) IN x.rej \/ MustRoute(R, c) \subseteq x.set

(* leaves of a tree, left to right *)
RECURSIVE LeavesOf(_)
LeavesOf(c) == CASE c.k \in {"cmp", "in", "btw"} -> <<c>>
                 [] c.k = "not" -> LeavesOf(c.x)
                 [] OTHER -> LeavesOf(c.l) \o LeavesOf(c.r)

(* ------------------------------------------------------------------ C03: inserts *)
(* a sharding value in an INSERT row: [cls, v]                                                 *)
(*   "int"   plain literal (calendar rules: the quoted date)        routable if Place exists   *)
(*   "str"   the other accepted spelling (quoted number / date with 00:00:00)   same           *)
(*   "seq"   value delivered by the configured global sequence      same                       *)
(*   "null" "neg" "arith" "func"   NULL, -v, (a+b), f(v): not routable literals                *)
(*   "short" the row has fewer values than the column list                                     *)
RoutableVal(R, x) == x.cls \in {"int", "str", "seq"} /\ x.v >= 0 /\ Place(R, x.v) # NoTable

(* rows: sequence of values; result: rejected, or the set of <<table, row number>> *)
InsertEffect(R, rows) ==
  IF \E i \in DOMAIN rows : ~RoutableVal(R, rows[i])
  THEN [rej |-> TRUE, put |-> {}]
  ELSE [rej |-> FALSE, put |-> {<<Place(R, rows[i].v), i>> : i \in DOMAIN rows}]

(* every row exactly once, in its own table; and that table is where a point query looks *)
InsertOnce(R, rows) ==
  LET e == InsertEffect(R, rows) IN
  e.rej \/ \A i \in DOMAIN rows :
             /\ Cardinality({p \in e.put : p[2] = i}) = 1
             /\ \A p \in e.put : p[2] = i =>
                  /\ p[1] \in Tables(R)
                  /\ MustRoute(R, Leaf("cmp", "k", "=", FALSE, rows[i].v, 0, {}, "lit")) \subseteq {p[1]}
                  /\ RoutedI(R, Leaf("cmp", "k", "=", FALSE, rows[i].v, 0, {}, "lit"), TRUE).set = {p[1]}

(* ------------------------------------------------------------------ C04: global tables *)
(* Ly = [ns, rs, locs, dbs]: ns namespace slices (1..ns), rs the rule's slice list (indexes   *)
(* into the namespace list), locs copies per rule slice, dbs "implicit" | "explicit"          *)
GCopyIdx(Ly) == 0..(SumSeq(Ly.locs) - 1)
GSlicePos(Ly, n) == CHOOSE i \in DOMAIN Ly.locs :
                      n >= SumSeq(SubSeq(Ly.locs, 1, i - 1)) /\ n < SumSeq(SubSeq(Ly.locs, 1, i))
GSlice(Ly, n) == Ly.rs[GSlicePos(Ly, n)]                 \* namespace slice number (1-based)
GDb(Ly, n) == IF Ly.dbs = "explicit" THEN n ELSE -1      \* -1: the logical database name
(* the physical copies: distinct <<slice, database>> pairs *)
Copies(Ly) == {<<GSlice(Ly, n), GDb(Ly, n)>> : n \in GCopyIdx(Ly)}

(* an observed execution: a sequence of <<slice, database>> (one entry per statement sent) *)
WriteOK(Ly, sent) == /\ {sent[i] : i \in DOMAIN sent} = Copies(Ly)
                     /\ \A i, j \in DOMAIN sent : i # j => sent[i] # sent[j]
ReadOK(Ly, sent) == Len(sent) = 1 /\ sent[1] \in Copies(Ly)
=============================================================================
