----------------------------- MODULE StmtPolicy_gen -----------------------------
(* Case generation for C21 / C22 (decision table of StmtPolicy part 1).                          *)
(* One TLC state per descriptor (all successors of the single initial state); the invariant Emit  *)
(* prints the descriptor with the decision the specification requires; the other invariants       *)
(* check the table's consistency on every descriptor visited.                                    *)
(*   Family = "C21": statements of read-only users: every modifying kind x every decoration x     *)
(*                   every channel; plus lightly decorated controls (users that may write, kinds   *)
(*                   that do not modify).                                                         *)
(*   Family = "C22": reads with every combination of lock clause / master hint / read_only probe  *)
(*                   under every lexical decoration for the rw-split user, and with at most one    *)
(*                   lexical decoration under every user / switch / transaction state / channel.   *)
(*   Tier = "thorough": the whole set.  Tier = "quick": every descriptor with at most LightMax     *)
(*   non-default decoration or context fields, plus a pseudo-random sample of the rest selected    *)
(*   by Seed (Keep out of 10007).                                                                *)
EXTENDS StmtPolicy, TLC, Json, SequencesExt

CONSTANTS Family, Tier, Seed, Keep, LightMax

VARIABLE c
vars == <<c>>

NoCase == [kind |-> "nocase"]
IsCase == c.kind # "nocase"

Scramble(n) == (((n % 100003) * 1009 + (Seed % 10007) * 31) % 10007) < Keep
CtxNFeat(d) == B2N(d.ro # (Family = "C21")) + B2N(d.split # (Family = "C22")) + B2N(~d.csl)
Light(d)    == PolNFeat(d) + CtxNFeat(d) <= LightMax
Chosen(d, n) == Tier = "thorough" \/ Light(d) \/ Scramble(n)

(* ---------------- C21 ---------------- *)
Trails21 == {"none", "semicolon", "comment", "trace"}
Intx21   == {"no", "begin"}
Deco21 == SetToSeq([lead : Leads, kwsep : Kwseps, cs : Cases, trail : Trails21])
Ctx21  == SetToSeq([chan : Chans, intx : Intx21, ro : BOOLEAN, split : BOOLEAN, sess : {"plain"}, priv : {"static"}])
CtxHist21 == SetToSeq({ x \in [chan : Chans, intx : Intx21, ro : BOOLEAN, split : BOOLEAN, sess : Sessions, priv : Privs] :
                           x.sess # "plain" \/ x.priv # "static" })      \* sessions with a history
PlainDeco21 == <<[lead |-> "none", kwsep |-> "space", cs |-> "lower", trail |-> "none"]>>
Kind21 == SetToSeq(Kinds)

Mk21(k, l, x) == [kind |-> k, lead |-> l.lead, kwsep |-> l.kwsep, cs |-> l.cs, trail |-> l.trail,
                  lock |-> "none", lockopt |-> "none", hint |-> "none", probe |-> "none",
                  chan |-> x.chan, intx |-> x.intx, ro |-> x.ro, split |-> x.split, csl |-> TRUE,
                  sess |-> x.sess, priv |-> x.priv]

In21(d) == /\ PolWF(d)
           /\ d.lead \in LongLeads => PolNFeat(d) <= 2
           /\ \/ d.ro /\ Modifies(d)          \* the property's subject: full product
              \/ PolNFeat(d) <= 1             \* controls
              \/ ~d.ro /\ Modifies(d) /\ d.priv = "reloaded" /\ PolNFeat(d) <= 2

Pick21(ds, xs, off) ==
    \E i \in DOMAIN Kind21, j \in DOMAIN ds, k \in DOMAIN xs :
       LET d == Mk21(Kind21[i], ds[j], xs[k])
       IN /\ In21(d)
          /\ Chosen(d, off + (i * Len(ds) + j) * Len(xs) + k)
          /\ c' = d

Next21 == \/ Pick21(Deco21, Ctx21, 0)                \* every decoration, sessions without history
          \/ Pick21(PlainDeco21, CtxHist21, 3)       \* undecorated text, every channel / session history / reload

(* ---------------- C22 ---------------- *)
Leads22  == {"none", "space", "newline", "comment", "dash", "version_wrap", "pad_257", "pad_4096"}
Kwseps22 == {"space", "glued_bq", "glued_punct"}
Kinds22  == ReadKinds \cup {"insert", "update", "delete", "replace"}

Reason22 == SetToSeq({ r \in [kind : Kinds22, lock : Locks, lockopt : LockOpts, hint : Hints, probe : Probes] :
                         PolWF([kind |-> r.kind, lead |-> "none", kwsep |-> "space", cs |-> "lower", trail |-> "none",
                                lock |-> r.lock, lockopt |-> r.lockopt, hint |-> r.hint, probe |-> r.probe,
                                chan |-> "query", intx |-> "no", ro |-> FALSE, split |-> TRUE, csl |-> TRUE,
                                sess |-> "plain", priv |-> "static"]) })
Deco22 == SetToSeq({ l \in [lead : Leads22, kwsep : Kwseps22, cs : Cases, trail : Trails] :
                       (l.kwsep # "space" \/ l.lead \in LongLeads) =>
                          B2N(l.lead # "none") + B2N(l.kwsep # "space") + B2N(l.cs # "lower") + B2N(l.trail # "none") <= 2 })
Chans22 == {"query", "multi_first", "multi_last", "multi_after_read", "prepared"}
Ctx22  == SetToSeq([chan : Chans22, intx : Intxs, ro : BOOLEAN, split : BOOLEAN, csl : BOOLEAN, sess : {"plain"}, priv : {"static"}])
CtxHist22 == SetToSeq({ x \in [chan : {"query", "multi_after_read", "prepared"}, intx : Intxs, ro : BOOLEAN, split : BOOLEAN,
                                csl : {TRUE}, sess : Sessions, priv : Privs] :
                           x.sess # "plain" \/ x.priv # "static" })
PlainDeco22 == <<[lead |-> "none", kwsep |-> "space", cs |-> "lower", trail |-> "none"]>>

Mk22(r, l, x) == [kind |-> r.kind, lead |-> l.lead, kwsep |-> l.kwsep, cs |-> l.cs, trail |-> l.trail,
                  lock |-> r.lock, lockopt |-> r.lockopt, hint |-> r.hint, probe |-> r.probe,
                  chan |-> x.chan, intx |-> x.intx, ro |-> x.ro, split |-> x.split, csl |-> x.csl,
                  sess |-> x.sess, priv |-> x.priv]

MainUser(d) == ~d.ro /\ d.split /\ d.csl /\ d.intx = "no"
LexNFeat(d) == B2N(d.lead # "none") + B2N(d.kwsep # "space") + B2N(d.cs # "lower") + B2N(d.trail # "none")

In22(d) == /\ PolWF(d)
           /\ ~d.csl => d.lock # "none"            \* the switch only matters for locking reads
           /\ d.kind \in WriteKinds => LexNFeat(d) <= 1 /\ ~d.ro     \* rejection is C21's subject
           /\ \/ MainUser(d)                       \* full lexical product
              \/ LexNFeat(d) <= 1                  \* every context, lightly decorated

DecoFew22 == SelectSeq(Deco22, LAMBDA l : B2N(l.lead # "none") + B2N(l.kwsep # "space") + B2N(l.cs # "lower") + B2N(l.trail # "none") <= 1)
MainCtx22 == SelectSeq(Ctx22, LAMBDA x : ~x.ro /\ x.split /\ x.csl /\ x.intx = "no")

Pick22(rs, ds, xs, off) ==
    \E i \in DOMAIN rs, j \in DOMAIN ds, k \in DOMAIN xs :
       LET d == Mk22(rs[i], ds[j], xs[k])
       IN /\ In22(d)
          /\ Chosen(d, off + (i * Len(ds) + j) * Len(xs) + k)
          /\ c' = d

Next22 == \/ Pick22(Reason22, Deco22, MainCtx22, 0)        \* full lexical product, rw-split user
          \/ Pick22(Reason22, DecoFew22, Ctx22, 7)          \* every context, lightly decorated
          \/ Pick22(Reason22, PlainDeco22, CtxHist22, 13)   \* undecorated text, sessions with a history (keep-session, earlier read, reload)

(* ---------------- behaviour ---------------- *)
Init == c = NoCase
Next == /\ ~IsCase
        /\ IF Family = "C21" THEN Next21 ELSE Next22
Spec == Init /\ [][Next]_vars

Out(d) == [p |-> Family, kind |-> d.kind, lead |-> d.lead, kwsep |-> d.kwsep, cs |-> d.cs, trail |-> d.trail,
           lock |-> d.lock, lockopt |-> d.lockopt, hint |-> d.hint, probe |-> d.probe,
           chan |-> d.chan, intx |-> d.intx, ro |-> d.ro, split |-> d.split, csl |-> d.csl,
           sess |-> d.sess, priv |-> d.priv, expect |-> Decision(d)]

Emit == IsCase => PrintT(<<"CASE", ToJson(Out(c))>>)

WellFormed         == IsCase => c \in PolDesc /\ PolWF(c)
Partition          == IsCase => PolPartition(c)
RejectNotReplica   == IsCase => PolRejectNeverOnReplica(c)
ReplicaOnlyReads   == IsCase => PolReplicaOnlyReads(c)
Total              == IsCase => PolTotal(c)
DecorationsDoNotMatter == IsCase => PolDecorationIrrelevant(c)
TxPinsMaster       == IsCase => PolTxPinsMaster(c)
NoSplitPinsMaster  == IsCase => PolNoSplitPinsMaster(c)
WritesPinMaster    == IsCase => PolWritesPinMaster(c)
GroundsIndependent == IsCase => PolGroundsIndependent(c)
UncheckedLockIrrelevant == IsCase => PolUncheckedLockIrrelevant(c)
RejectIgnoresContext == IsCase => MustReject(c) = MustReject([c EXCEPT !.split = FALSE, !.intx = "no", !.csl = TRUE])
=================================================================================
