----------------------------- MODULE StmtPolicy_gen -----------------------------
(* Case generation for C21 / C22 (decision table of StmtPolicy part 1).                          *)
(* One TLC state per descriptor; the invariant Emit prints the descriptor with the decision the   *)
(* specification requires; the other invariants check the table's consistency on every           *)
(* descriptor visited.                                                                           *)
(*   Family = "C21": statements of read-only users (all kinds x all decorations x all channels),  *)
(*                   plus controls (the same statements of users that may write).                *)
(*   Family = "C22": reads with every combination of lock clause / master hint / read_only probe  *)
(*                   under every lexical decoration for the rw-split user, and a thinner set       *)
(*                   (at most MaxDeco decorations) under every user / switch / transaction state.  *)
(*   Tier = "thorough": the whole set.  Tier = "quick": every descriptor with at most two          *)
(*   non-default decoration or context fields, plus a pseudo-random sample of the rest selected    *)
(*   by Seed (Keep out of 10007).                                                                *)
EXTENDS StmtPolicy, TLC, Json, SequencesExt

CONSTANTS Family, Tier, Seed, Keep

VARIABLE c
vars == <<c>>

(* ---------------- C21 ---------------- *)
Leads21  == Leads
Trails21 == {"none", "semicolon", "comment", "trace"}
Intx21   == {"no", "begin"}

Mk21(l, x) == [kind |-> l.kind, lead |-> l.lead, kwsep |-> l.kwsep, cs |-> l.cs, trail |-> l.trail,
               lock |-> "none", lockopt |-> "none", hint |-> "none", probe |-> "none",
               chan |-> x.chan, intx |-> x.intx, ro |-> x.ro, split |-> x.split, csl |-> TRUE]

Lex21 == [kind : Kinds, lead : Leads21, kwsep : Kwseps, cs : Cases, trail : Trails21]
Ctx21 == [chan : Chans, intx : Intx21, ro : BOOLEAN, split : BOOLEAN]

(* full product for read-only users and modifying statements; controls only lightly decorated *)
Set21 == { d \in { Mk21(l, x) : l \in Lex21, x \in Ctx21 } :
             /\ PolWF(d)
             /\ \/ d.ro /\ Modifies(d)
                \/ PolNFeat(d) <= 1 }

(* ---------------- C22 ---------------- *)
Leads22  == {"none", "space", "newline", "comment", "dash", "version_wrap"}
Trails22 == Trails
Kinds22  == ReadKinds \cup {"insert", "update", "delete", "replace"}
Chans22  == {"query", "multi_first", "multi_last", "prepared"}

Lex22 == { l \in [kind : Kinds22, lead : Leads22, cs : Cases, trail : Trails22,
                  lock : Locks, lockopt : LockOpts, hint : Hints, probe : Probes] :
              /\ l.kind \in WriteKinds => l.lead \in {"none", "comment"} /\ l.cs = "lower" /\ l.trail \in {"none", "trace"} }
Ctx22 == [chan : Chans22, intx : Intxs, ro : BOOLEAN, split : BOOLEAN, csl : BOOLEAN]

Mk22(l, x) == [kind |-> l.kind, lead |-> l.lead, kwsep |-> "space", cs |-> l.cs, trail |-> l.trail,
               lock |-> l.lock, lockopt |-> l.lockopt, hint |-> l.hint, probe |-> l.probe,
               chan |-> x.chan, intx |-> x.intx, ro |-> x.ro, split |-> x.split, csl |-> x.csl]

MainUser(d) == ~d.ro /\ d.split /\ d.csl /\ d.intx = "no"
LexNFeat(d) == Cardinality({f \in {"lead", "cs", "trail"} : d[f] # PolDefault[f]})

Set22 == { d \in { Mk22(l, x) : l \in Lex22, x \in Ctx22 } :
             /\ PolWF(d)
             /\ ~d.csl => d.lock # "none"            \* the switch only matters for locking reads
             /\ \/ MainUser(d)
                \/ LexNFeat(d) <= 1 }

(* ---------------- tiering ---------------- *)
FullSet == IF Family = "C21" THEN Set21 ELSE Set22

CtxNFeat(d) == B2N(d.ro # (Family = "C21")) + B2N(d.split # (Family = "C22")) + B2N(~d.csl)
Scramble(i) == ((i * 1009 + (Seed % 10007) * 31) % 10007) < Keep

CaseSet == IF Tier = "thorough" THEN FullSet
           ELSE LET sq == SetToSeq(FullSet)
                IN { sq[i] : i \in { j \in 1..Len(sq) : PolNFeat(sq[j]) + CtxNFeat(sq[j]) <= 2 \/ Scramble(j) } }

Init == c \in CaseSet
Next == UNCHANGED c
Spec == Init /\ [][Next]_vars

Out(d) == [p |-> Family, kind |-> d.kind, lead |-> d.lead, kwsep |-> d.kwsep, cs |-> d.cs, trail |-> d.trail,
           lock |-> d.lock, lockopt |-> d.lockopt, hint |-> d.hint, probe |-> d.probe,
           chan |-> d.chan, intx |-> d.intx, ro |-> d.ro, split |-> d.split, csl |-> d.csl,
           expect |-> Decision(d)]

Emit == PrintT(<<"CASE", ToJson(Out(c))>>)

WellFormed         == c \in PolDesc /\ PolWF(c)
Partition          == PolPartition(c)
RejectNotReplica   == PolRejectNeverOnReplica(c)
ReplicaOnlyReads   == PolReplicaOnlyReads(c)
Total              == PolTotal(c)
DecorationsDoNotMatter == PolDecorationIrrelevant(c)
TxPinsMaster       == PolTxPinsMaster(c)
=================================================================================
