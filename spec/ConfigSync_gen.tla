------------------------------ MODULE ConfigSync_gen ------------------------------
(* Behaviours of save / sync / load-local / load-coordinator for replay on the real               *)
(* SyncNamespaces / LoadDecryptNamespaces / loadNamespacesFromClient (proxy/server) with the        *)
(* result the specification expects of every load.  All behaviours of exactly GenLen actions that   *)
(* start with a save.                                                                               *)
EXTENDS ConfigSync, Json

CONSTANTS GenLen
VARIABLE hist

GInit == SInit /\ hist = <<>>
Rec(a, k, cls) == [act |-> a, key |-> k, cls |-> cls]
WithRes(r) == r @@ [st |-> last'.st, v |-> last'.v]

GNext == /\ Len(hist) < GenLen
         /\ \/ \E k \in SaveKeys, cls \in SyncClasses :
                  SaveCP(k, cls) /\ hist' = Append(hist, Rec("save", k, cls) @@ [st |-> "saved", v |-> [cls |-> cls, ver |-> ver + 1]])
            \/ \E k \in ProxyKeys :
                  \/ Sync(k) /\ hist' = Append(hist, WithRes(Rec("sync", k, "-")))
                  \/ LoadLocal(k) /\ hist' = Append(hist, WithRes(Rec("loadlocal", k, "-")))
                  \/ LoadCoord(k) /\ hist' = Append(hist, WithRes(Rec("loadcoord", k, "-")))

GSpec == GInit /\ [][GNext]_<<svars, hist>>

Emit == Len(hist) = GenLen => PrintT(<<"CASE", ToJson([events |-> hist])>>)
===================================================================================
