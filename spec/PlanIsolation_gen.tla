---------------------------- MODULE PlanIsolation_gen ----------------------------
(* Workload generation: behaviours of GenLen planning steps (which session plans which     *)
(* statement under which database), printed as one JSON line each.  Run with -simulate.    *)
EXTENDS PlanIsolation, Json

CONSTANT GenLen
VARIABLE hist

GenInit == Init /\ hist = <<>>
GenNext == /\ Len(hist) < GenLen
           /\ \E s \in Sessions, st \in Stmts, d \in Dbs :
                 /\ Plan(s, st, d)
                 /\ hist' = Append(hist, [s |-> s, stmt |-> st, db |-> d])
GenSpec == GenInit /\ [][GenNext]_<<vars, hist>>

Emit == Len(hist) = GenLen => PrintT(<<"CASE", ToJson([steps |-> hist])>>)
================================================================================
