SPECIFICATION Spec
CONSTANTS
  MaxPrep = 2
  NP = 2
  MaxLen = 5
  MaxBad = 1
  KeepOnFailure = FALSE
  GenLen = 5
INVARIANTS Emit
CHECK_DEADLOCK FALSE
