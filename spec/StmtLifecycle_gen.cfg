SPECIFICATION Spec
CONSTANTS
  MaxPrep = 2
  NP = 2
  MaxLen = 4
  MaxBad = 1
  MaxFault = 1
  AllowReuse = TRUE
  KeepOnFailure = FALSE
  GenLen = 4
INVARIANTS Emit
CHECK_DEADLOCK FALSE
