SPECIFICATION Spec
CONSTANTS
  MaxPrep = 2
  NP = 2
  MaxLen = 4
  MaxBad = 1
  KeepOnFailure = FALSE
  GenLen = 4
INVARIANTS Emit
CHECK_DEADLOCK FALSE
