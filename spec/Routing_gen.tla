----------------------------- MODULE Routing_gen -----------------------------
(* Case generation and design-level check for C01.                                            *)
(* One "case" state = one case: a rule instance and a condition tree.  TLC enumerates         *)
(*   "rules"   one descriptor per rule instance (tables, slices, literal universe, placement) *)
(*   "leaves"  every leaf of the full leaf set, bare and under NOT            (depth 1, 2)    *)
(*   "pairs"   every AND / OR of two leaves of the pair leaf set              (depth 2)       *)
(*   "sample"  depth 2 and 3 shapes over the full leaf set, leaf indexes from Sample          *)
(* and prints each case with MustRoute (the P-level oracle), the I-level prediction of the   *)
(* planner as it is now (pruned) and per leaf the leaf's own MustRoute (for signatures).       *)
EXTENDS Routing, Json

CONSTANTS Rules,     \* sequence of rule instances
          Modes,     \* subset of {"rules", "leaves", "pairs", "sample"}
          Sample,    \* set of <<shape, r1, r2, r3, r4>> (shape name, four naturals)
          EmitCases  \* TRUE: print CASE lines

VARIABLES ri, stage, sh, src, ix
vars == <<ri, stage, sh, src, ix>>

CRules == [i \in DOMAIN Rules |-> Compile(Rules[i])]
LeafTab == [i \in DOMAIN Rules |-> SetToSeq(FullLeaves(CRules[i]))]
PairTab == [i \in DOMAIN Rules |-> SetToSeq(PairLeaves(CRules[i]))]

Arity(s) == CASE s \in {"L", "N(L)", "N(N(L))"} -> 1
              [] s \in {"A(L,L)", "O(L,L)", "N(A(L,L))", "N(O(L,L))", "A(L,N(L))", "O(L,N(L))", "A(N(L),L)", "O(N(L),L)"} -> 2
              [] s \in {"A(O(L,L),L)", "O(A(L,L),L)", "A(L,O(L,L))", "O(L,A(L,L))", "A(A(L,L),L)", "O(O(L,L),L)",
                        "O(A(L,L),N(L))", "A(N(L),O(L,L))"} -> 3
              [] s \in {"A(O(L,L),O(L,L))", "O(A(L,L),A(L,L))", "A(O(L,L),A(L,L))", "O(O(L,L),A(L,L))"} -> 4

Shapes == {"L", "N(L)", "N(N(L))", "A(L,L)", "O(L,L)", "N(A(L,L))", "N(O(L,L))", "A(L,N(L))", "O(L,N(L))",
           "A(N(L),L)", "O(N(L),L)", "A(O(L,L),L)", "O(A(L,L),L)", "A(L,O(L,L))", "O(L,A(L,L))", "A(A(L,L),L)",
           "O(O(L,L),L)", "O(A(L,L),N(L))", "A(N(L),O(L,L))", "A(O(L,L),O(L,L))", "O(A(L,L),A(L,L))",
           "A(O(L,L),A(L,L))", "O(O(L,L),A(L,L))"}

LeafAt(j) == IF src = "pair" THEN PairTab[ri][ix[j]] ELSE LeafTab[ri][ix[j]]

Tree ==
  LET a == LeafAt(1)
      b == LeafAt(2)
      c == LeafAt(3)
      d == LeafAt(4)
  IN CASE sh = "L" -> a
       [] sh = "N(L)" -> Not(a)
       [] sh = "N(N(L))" -> Not(Not(a))
       [] sh = "A(L,L)" -> And(a, b)
       [] sh = "O(L,L)" -> Or(a, b)
       [] sh = "N(A(L,L))" -> Not(And(a, b))
       [] sh = "N(O(L,L))" -> Not(Or(a, b))
       [] sh = "A(L,N(L))" -> And(a, Not(b))
       [] sh = "O(L,N(L))" -> Or(a, Not(b))
       [] sh = "A(N(L),L)" -> And(Not(a), b)
       [] sh = "O(N(L),L)" -> Or(Not(a), b)
       [] sh = "A(O(L,L),L)" -> And(Or(a, b), c)
       [] sh = "O(A(L,L),L)" -> Or(And(a, b), c)
       [] sh = "A(L,O(L,L))" -> And(a, Or(b, c))
       [] sh = "O(L,A(L,L))" -> Or(a, And(b, c))
       [] sh = "A(A(L,L),L)" -> And(And(a, b), c)
       [] sh = "O(O(L,L),L)" -> Or(Or(a, b), c)
       [] sh = "O(A(L,L),N(L))" -> Or(And(a, b), Not(c))
       [] sh = "A(N(L),O(L,L))" -> And(Not(a), Or(b, c))
       [] sh = "A(O(L,L),O(L,L))" -> And(Or(a, b), Or(c, d))
       [] sh = "O(A(L,L),A(L,L))" -> Or(And(a, b), And(c, d))
       [] sh = "A(O(L,L),A(L,L))" -> And(Or(a, b), And(c, d))
       [] sh = "O(O(L,L),A(L,L))" -> Or(Or(a, b), And(c, d))

(* Enumeration in up to two steps so that TLC's workers share the work: a root state per rule  *)
(* instance, for "pairs" an intermediate state per left leaf, then the case states.            *)
Init == /\ ri \in DOMAIN Rules
        /\ stage = "root" /\ sh = "-" /\ src = "full" /\ ix = <<>>

FromRoot ==
  /\ stage = "root"
  /\ ri' = ri
  /\ \/ /\ "rules" \in Modes
        /\ stage' = "case" /\ sh' = "RULE" /\ src' = "full" /\ ix' = <<>>
     \/ /\ "leaves" \in Modes
        /\ stage' = "case" /\ sh' \in {"L", "N(L)"} /\ src' = "full"
        /\ ix' \in {<<i>> : i \in 1..Len(LeafTab[ri])}
     \/ /\ "pairs" \in Modes
        /\ stage' = "mid" /\ sh' = "-" /\ src' = "pair"
        /\ ix' \in {<<i>> : i \in 1..Len(PairTab[ri])}
     \/ /\ "sample" \in Modes
        /\ stage' = "case" /\ src' = "full"
        /\ \E s \in Sample :
             /\ s[1] \in Shapes
             /\ sh' = s[1]
             /\ ix' = [j \in 1..Arity(s[1]) |-> (s[j + 1] % Len(LeafTab[ri])) + 1]

FromMid ==
  /\ stage = "mid"
  /\ ri' = ri /\ src' = src
  /\ stage' = "case"
  /\ sh' \in {"A(L,L)", "O(L,L)"}
  /\ ix' \in {<<ix[1], j>> : j \in 1..Len(PairTab[ri])}

Next == FromRoot \/ FromMid
Spec == Init /\ [][Next]_vars

IsCase == stage = "case" /\ sh # "RULE"

R == CRules[ri]

TypeOK == /\ ri \in DOMAIN Rules
          /\ stage \in {"root", "mid", "case"}
          /\ sh \in Shapes \cup {"RULE", "-"}
          /\ src \in {"full", "pair"}
          /\ IsCase => Len(ix) = Arity(sh)

(* ---- design-level properties (checked by TLC on every enumerated case) ---- *)
(* the pruning algebra of the code as it is now (with the two repairs) never drops a must-table *)
RepairedPruneSound == IsCase => PruneSound(R, Tree, TRUE)
CodePruneSound == RepairedPruneSound
(* the pruning algebra before the repairs; FAILS for range and calendar rules (what the repairs fixed) *)
OldPruneSound == IsCase => PruneSound(R, Tree, FALSE)
(* the planner never invents tables, and must-tables are tables *)
RoutedWithinTables == IsCase => /\ RoutedI(R, Tree, TRUE).set \subseteq Tables(R)
                                    /\ MustRoute(R, Tree) \subseteq Tables(R)
(* a point condition is routed exactly to the key's own table *)
PointQueryIsPlace ==
  (IsCase /\ sh = "L" /\ Tree.k = "cmp" /\ Tree.col = "k" /\ Tree.op = "=" /\ Tree.w = "lit" /\ Tree.a >= 0) =>
     LET x == RoutedI(R, Tree, TRUE) IN
     IF Place(R, Tree.a) # NoTable THEN ~x.rej /\ x.set = {Place(R, Tree.a)} /\ MustRoute(R, Tree) = {Place(R, Tree.a)}
     ELSE MustRoute(R, Tree) = {}
(* every table of every rule instance holds at least one universe key (no vacuous MustRoute) *)
UniverseCoversTables == \A t \in Tables(R) : Holds(R, t) # {}

(* ---- emission ---- *)
RuleRec == RuleDesc(R)

CondRec ==
  LET t == Tree
      lv == LeavesOf(t)
      p == RoutedI(R, t, TRUE)
  IN [kind |-> "cond", rule |-> R.id, shape |-> sh, tree |-> t,
      must |-> MustRoute(R, t),
      pruned |-> p,
      dsound |-> (p.rej \/ MustRoute(R, t) \subseteq p.set),
      leafmust |-> [j \in DOMAIN lv |-> MustRoute(R, lv[j])]]

Emit == (EmitCases /\ stage = "case") => PrintT(<<"CASE", ToJson(IF sh = "RULE" THEN RuleRec ELSE CondRec)>>)
=============================================================================
