---------------------------- MODULE RoutingConfig_gen ----------------------------
(* C10: TLC enumerates namespace configurations (one state each) and prints them;   *)
(* the harness feeds each to the real models.Namespace.Verify and router.NewRouter   *)
(* and records what they did (RoutingConfig_trace judges the records).               *)
EXTENDS RoutingConfig, TLC, Json

CONSTANTS Wide          \* BOOLEAN: thorough-tier universe
VARIABLE cfg

NS == <<"slice-0", "slice-1", "slice-2">>
Take(n) == SubSeq(NS, 1, n)
Base(type) == [db |-> "db_verif", table |-> "tbl_verif", parent |-> "", type |-> type, locations |-> <<>>,
               slices |-> <<>>, limit |-> 10, ranges |-> <<>>, databases |-> <<>>, pcount |-> <<>>, plength |-> <<>>,
               hs |-> [form |-> "pair", a |-> 0, b |-> 2], seed |-> 0, vbt |-> 2, spell |-> "plain"]

LocVals == IF Wide THEN {-2, -1, 0, 1, 2, 3} ELSE {-1, 0, 1, 2}
LocSeqs == UNION {[1..n -> LocVals] : n \in 1..3}
SomeLocs == {<<1, 1>>, <<2, 2>>, <<2, -1, 2>>, <<1, 2>>, <<0, 0>>, <<3>>, <<-1, 2>>}

SliceVariants(n) ==
    {Take(n), Take(n) \o <<"slice-0">>, [i \in 1..n |-> "slice-0"]}
    \cup (IF n >= 1 THEN {Take(n - 1), [Take(n) EXCEPT ![n] = "slice-x"]} ELSE {})

Db(name) == [prefix |-> name, lo |-> None, hi |-> None]
DbR(prefix, lo, hi) == [prefix |-> prefix, lo |-> lo, hi |-> hi]
DbNames(n) == [i \in 1..(IF n > 0 THEN n ELSE 0) |-> Db("mdb" \o ToString(i))]
DbVariants(n) == {DbNames(n), DbNames(n + 1)}
                 \cup (IF n >= 2 THEN {<<DbR("mdb", 1, n)>>,                                  \* mdb[1-n]
                                       [i \in 1..n |-> Db("mdb1")],                          \* duplicate names
                                       <<DbR("mdb", 1, n - 1), Db("mdb1")>>,                  \* list + a name it already contains
                                       <<DbR("mdb", 0, n - 2), Db("other")>>}
                       ELSE {})
                 \cup {<<DbR("mdb", 2, 1)>>, <<DbR("mdb", 1, 1)>>}                             \* descending / one-element list

(* a valid count/length pair for n nodes *)
PartFor(n) == CASE n = 1 -> <<<<1>>, <<1024>>>>  [] n = 2 -> <<<<2>>, <<512>>>>  [] n = 3 -> <<<<2, 1>>, <<256, 512>>>>
                [] n = 4 -> <<<<4>>, <<256>>>>   [] n = 5 -> <<<<4, 1>>, <<128, 512>>>>  [] n = 6 -> <<<<4, 2>>, <<128, 256>>>>
                [] n = 7 -> <<<<6, 1>>, <<128, 256>>>>  [] n = 8 -> <<<<8>>, <<128>>>>  [] n = 9 -> <<<<8, 1>>, <<64, 512>>>>
                [] OTHER -> <<<<1>>, <<1024>>>>
PartVariants(n) ==
    {PartFor(n), <<<<n>>, <<100>>>>, <<<<n, 0>>, <<1024 \div (IF n > 0 THEN n ELSE 1), 1>>>>,
     <<<<n + 1, -1>>, <<512, 0>>>>, <<<<n>>, <<1024, 1>>>>, <<<<n>>, <<0>>>>}
    \cup (IF n = 2 THEN {<<<<1, 1>>, <<1536, -512>>>>, <<<<1, 1>>, <<1024, 0>>>>} ELSE {})
    \cup (IF n = 3 THEN {<<<<1, 1, 1>>, <<1024, 512, -512>>>>, <<<<1, 2>>, <<1024, 0>>>>} ELSE {})

WithLoc(r, l, ss) == [r EXCEPT !.locations = l, !.slices = ss]
MycatBase(type, l, ss) ==
    LET n == Sum(l)  p == PartFor(n)
    IN [WithLoc(Base(type), l, ss) EXCEPT !.databases = DbNames(n), !.pcount = p[1], !.plength = p[2]]
LocRule(type, l, ss) == IF type \in MycatTypes THEN MycatBase(type, l, ss) ELSE WithLoc(Base(type), l, ss)

(* A: every layout x every slice-list variant;  B: every layout, matching slices *)
TypesA == IF Wide THEN {"hash", "range", "mycat_mod", "global", "mycat_long"} ELSE {"hash", "mycat_mod"}
TypesB == LocTypes \ TypesA
RulesA == UNION {{LocRule(t, l, ss) : t \in TypesA, ss \in SliceVariants(Len(l))} : l \in LocSeqs}
RulesB == {LocRule(t, l, Take(Len(l))) : t \in TypesB, l \in LocSeqs}
(* C: parameter variants on a few layouts *)
RulesC ==
    UNION {{[MycatBase(t, l, Take(Len(l))) EXCEPT !.databases = d] : t \in MycatTypes, d \in DbVariants(Sum(l))} : l \in SomeLocs}
    \cup UNION {{[WithLoc(Base("global"), l, Take(Len(l))) EXCEPT !.databases = d] : d \in DbVariants(Sum(l)) \cup {<<>>}} : l \in SomeLocs}
    \cup UNION {{[MycatBase(t, l, Take(Len(l))) EXCEPT !.pcount = p[1], !.plength = p[2]]
                    : t \in {"mycat_long", "mycat_string"}, p \in PartVariants(Sum(l))} : l \in SomeLocs}
    \cup {[MycatBase("mycat_murmur", l, Take(Len(l))) EXCEPT !.vbt = v, !.seed = sd]
             : l \in SomeLocs, v \in {0, -1, 1, 3}, sd \in {0, -1}}
    \cup {[WithLoc(Base("range"), l, Take(Len(l))) EXCEPT !.limit = lim] : l \in SomeLocs, lim \in {0, -5, 1}}
    \cup {LocRule(t, <<1, 1, 1, 1>>, <<"slice-0", "slice-1", "slice-2", "slice-0">>) : t \in LocTypes}     \* four entries, a slice twice
    \cup {LocRule(t, <<1, 1>>, <<"slice-1", "slice-0">>) : t \in LocTypes}                                  \* another order than the namespace
    \cup {LocRule(t, <<2>>, <<"slice-2">>) : t \in LocTypes}
    \cup {[MycatBase("mycat_string", l, Take(Len(l))) EXCEPT !.hs = h]
             : l \in {<<2, 2>>, <<1, 2>>}, h \in {[form |-> "single", a |-> -2, b |-> None], [form |-> "pair", a |-> None, b |-> None]}}

(* D: calendar rules *)
R(a, b) == [lo |-> a, hi |-> b]
YearLists  == {<<R(2016, 2016)>>, <<R(2016, 2018)>>, <<R(2018, 2016)>>, <<R(2016, 2017), R(2018, 2019)>>,
               <<R(2016, 2018), R(2018, 2019)>>, <<R(2018, 2019), R(2016, 2017)>>, <<R(2016, 2017), R(2017, 2017)>>,
               <<R(2016, 2016), R(2016, 2016)>>, <<R(2019, 2018), R(2016, 2017)>>, <<>>,
               <<R(2016, 2018), R(2017, 2019)>>, <<R(2016, 2019), R(2017, 2018)>>, <<R(2016, 2017), R(2018, 2019), R(2019, 2020)>>}
MonthLists == {<<R(201611, 201702)>>, <<R(201602, 201602)>>, <<R(201702, 201611)>>, <<R(201512, 201601), R(201603, 201605)>>,
               <<R(201611, 201702), R(201702, 201703)>>, <<R(201703, 201704), R(201611, 201612)>>,
               <<R(201613, 201702)>>, <<R(201600, 201602)>>, <<R(201612, 201613)>>, <<R(201601, 201601), R(201601, 201601)>>,
               <<R(201612, 201801)>>, <<R(201801, 201806), R(201804, 201809)>>, <<R(201801, 201806), R(201806, 201812)>>,
               <<R(201801, 201812), R(201803, 201804)>>, <<R(201711, 201802), R(201803, 201804), R(201804, 201805)>>}
DayLists   == {<<R(20161230, 20170102)>>, <<R(20160228, 20160301)>>, <<R(20170102, 20161230)>>,
               <<R(20170228, 20170301), R(20170302, 20170302)>>, <<R(20170228, 20170301), R(20170301, 20170302)>>,
               <<R(20170302, 20170303), R(20170228, 20170301)>>, <<R(20170229, 20170301)>>, <<R(20170228, 20170230)>>,
               <<R(20171301, 20171302)>>, <<R(20170101, 20170101), R(20170101, 20170101)>>,
               <<R(20170228, 20170302), R(20170301, 20170303)>>, <<R(20161230, 20170103), R(20170101, 20170102)>>}
DateSliceVariants(n) == {Take(n), Take(n) \o <<"slice-0">>} \cup (IF n >= 1 THEN {Take(n - 1), [Take(n) EXCEPT ![n] = "slice-x"]} ELSE {})
DateRule(t, rs, ss) == [Base(t) EXCEPT !.ranges = rs, !.slices = ss]
DateRulesOf(t, lists) == UNION {{DateRule(t, rs, ss) : ss \in DateSliceVariants(Len(rs))} : rs \in lists}
RulesD == DateRulesOf("date_year", YearLists) \cup DateRulesOf("date_month", MonthLists) \cup DateRulesOf("date_day", DayLists)

(* F: the textual lists of valid rules written with blanks / a tab around their separators, and slice names with a blank *)
Spells == {"sp-after", "sp-before", "sp-both", "tab-after", "outer", "inner-and-outer"}
SpellBases ==
    {MycatBase(t, <<1, 2>>, Take(2)) : t \in MycatTypes}                                      \* count "2,1" length "256,512"
    \cup {[MycatBase(t, <<2, 2>>, Take(2)) EXCEPT !.databases = <<DbR("mdb", 1, 4)>>] : t \in {"mycat_mod", "mycat_long"}}
    \cup {[MycatBase("mycat_string", <<1, 2>>, Take(2)) EXCEPT !.hs = h]
             : h \in {[form |-> "single", a |-> -2, b |-> None], [form |-> "pair", a |-> 1, b |-> 3], [form |-> "pair", a |-> None, b |-> -1]}}
    \cup {[MycatBase("mycat_long", <<2, 2>>, Take(2)) EXCEPT !.pcount = <<1, 1, 2>>, !.plength = <<256, 256, 256>>]}
    \cup {[WithLoc(Base("global"), <<1, 1>>, Take(2)) EXCEPT !.databases = <<DbR("mdb", 1, 2)>>]}
    \cup {DateRule("date_year", <<R(2016, 2018)>>, Take(1)), DateRule("date_month", <<R(201611, 201702), R(201703, 201703)>>, Take(2)),
          DateRule("date_day", <<R(20161230, 20170102)>>, Take(1))}
RulesF == {[r EXCEPT !.spell = sp] : r \in SpellBases, sp \in Spells}
          \cup {LocRule(t, <<1, 1>>, <<"slice-0", "slice-1 ">>) : t \in {"hash", "mycat_mod", "global"}}      \* slice name with a blank
          \cup {LocRule(t, <<1, 1>>, <<" slice-0", "slice-1">>) : t \in {"hash", "range"}}

Ns(default, rules) == [nsslices |-> NS, default |-> default, rules |-> rules]
Good == LocRule("hash", <<1, 1>>, Take(2))
Named(r, table) == [r EXCEPT !.table = table]
Linked(table, parent) == [Base("linked") EXCEPT !.table = table, !.parent = parent]

(* E: namespace level: default slice, table names differing in case, linked tables and their parents *)
ConfigsE ==
    {Ns(d, <<r>>) : d \in {"", "slice-x", "slice-2"},
                    r \in {Good, LocRule("mycat_mod", <<2, 2>>, Take(2)), DateRule("date_year", <<R(2016, 2018)>>, Take(1))}}
    \cup {Ns("slice-0", <<>>), Ns("", <<>>)}
    \cup {Ns("slice-0", <<Named(Good, a), Named(r2, b)>>)
             : a \in {"tbl_verif", "Tbl_Verif"}, b \in {"tbl_verif", "TBL_VERIF", "Tbl_Verif", "other"},
               r2 \in {Good, LocRule("range", <<2>>, Take(1))}}
    \cup {Ns("slice-0", <<Named(Good, a), Linked("child", p)>>)
             : a \in {"tbl_verif", "Tbl_Verif", "TBL_VERIF"}, p \in {"tbl_verif", "TBL_VERIF", "Tbl_Verif", "other"}}
    \cup {Ns("slice-0", <<Linked("child", "tbl_verif"), Named(Good, "tbl_verif")>>),
          Ns("slice-0", <<Named(Good, "other"), Linked("child", "tbl_verif"), Named(Good, "tbl_verif")>>),
          Ns("slice-0", <<Linked("child", "tbl_verif"), Linked("child2", "tbl_verif"), Named(LocRule("range", <<2>>, Take(1)), "tbl_verif")>>),
          Ns("slice-0", <<Linked("child", "tbl_verif"), Named(LocRule("mycat_mod", <<2, 2>>, Take(2)), "tbl_verif"), Linked("child2", "tbl_verif")>>),
          Ns("slice-0", <<Linked("tbl_verif", "other"), Named(Good, "other"), Named(Good, "tbl_verif")>>),
          Ns("slice-0", <<Named(Good, "tbl_verif"), Linked("child", "tbl_verif"), Linked("grandchild", "child")>>),
          Ns("slice-0", <<Named(Good, "tbl_verif"), Linked("child", "tbl_verif"), Linked("CHILD", "tbl_verif")>>),
          Ns("slice-0", <<Linked("child", "child")>>)}

Configs == {Ns("slice-0", <<r>>) : r \in RulesA \cup RulesB \cup RulesC \cup RulesD \cup RulesF} \cup ConfigsE

Init == cfg \in Configs
Next == UNCHANGED cfg
Spec == Init /\ [][Next]_cfg

(* the feature vocabulary is closed, and validity is decided for every configuration *)
FeatureNames == Invalidating \cup {"list-spelling-" \o sp : sp \in Spells} \cup {"zero-location", "duplicate-slice", "zero-partition-count", "zero-partition-length", "descending-span"}
FeaturesKnown == Features(cfg) \subseteq FeatureNames
Emit == PrintT(<<"CASE", ToJson([cfg |-> cfg, valid |-> SpecValid(cfg)])>>)
===================================================================================
