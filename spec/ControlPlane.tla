------------------------------ MODULE ControlPlane ------------------------------
(* The control plane's namespace change protocol of XiaoMi/Gaea: cc/service/service.go         *)
(* (ModifyNamespace, DelNamespace, rollbackNamespace), cc/proxy/proxy.go (PrepareConfig,        *)
(* CommitConfig, DelNamespace: ping + PUT), proxy/server/admin.go (prepare / commit / delete).  *)
(*                                                                                              *)
(* One namespace.  The coordinator store holds its configuration version (None = absent).       *)
(* Every proxy is the P-level of the reload manager: an active version and a prepared slot;     *)
(*   prepare  reads the namespace FROM THE STORE at that moment into the slot (admin.go:381,    *)
(*            server.go:203), fails when the store has none;                                     *)
(*   commit   activates the slot and empties it, fails when the slot is empty                   *)
(*            (ErrNamespaceNotPrepared);                                                         *)
(*   delete   removes the active configuration (idempotent).                                     *)
(* An RPC has one of three outcomes: ok; fail (not applied, error reported); tapply (applied,    *)
(* but the caller sees an error: lost reply / timeout after apply).                              *)
(*                                                                                              *)
(* ModifyNamespace(new), as written:                                                             *)
(*   exist := load(store); store := new; proxies := list;                                        *)
(*   prepare on all proxies in parallel, each up to PrepareTries (3) attempts until one is ok;   *)
(*   any proxy without a successful prepare => store := exist (delete when exist = None),        *)
(*                                             report failure;                                   *)
(*   commit on all proxies in parallel, CommitTries (1) attempt each (all are attempted);         *)
(*   any commit error => store := exist, report failure;  otherwise report success.              *)
(* DelNamespace: delete from the store; then delete on the proxies one after the other; the      *)
(*   first error is returned at once (nothing is undone).                                        *)
(*                                                                                              *)
(* Property C32 (Atomic): when an operation reports success every proxy runs the new             *)
(* configuration (and the store holds it); when it reports failure the store and every proxy     *)
(* are as before the operation.  For two concurrent operations the states "before" and "after"   *)
(* are not unique; the property is stated on the quiescent state (see AtomicConcurrent).         *)
EXTENDS Integers, Sequences, FiniteSets

CONSTANTS Proxies,       \* e.g. {"p1","p2","p3"}
          KindA, VerA,   \* operation A: "modify" (writes version VerA) or "delete"
          KindB, VerB,   \* operation B, concurrent with A; KindB = "none": there is no second operation
          Old,           \* version stored and active everywhere before (None = namespace does not exist)
          PrepareTries,  \* 3  (PREPARE_RETRY_TIMES)
          CommitTries,   \* 1  (COMMIT_RETRY_TIMES)
          Outcomes,      \* outcomes of prepare RPCs: subset of {"ok","fail","tapply"}
          CommitOutcomes,\* outcomes of commit and delete RPCs
          MaxFaults      \* bound on the number of non-ok outcomes (model checking only)

Ops    == IF KindB = "none" THEN {"A"} ELSE {"A", "B"}
Kind   == [o \in Ops |-> IF o = "A" THEN KindA ELSE KindB]
NewVer == [o \in Ops |-> IF o = "A" THEN VerA ELSE VerB]

None == 0

VARIABLES store,         \* version in the coordinator, None = absent
          active,        \* [Proxies -> version]
          prepared,      \* [Proxies -> version]  the prepared slot, None = empty
          pc,            \* [Ops -> control state]
          exist,         \* [Ops -> version loaded before the update]
          pst,           \* [Ops -> [Proxies -> "pending" | "ok" | "failed"]]  prepare phase per proxy
          ptry,          \* [Ops -> [Proxies -> attempts used]]
          cst,           \* [Ops -> [Proxies -> "pending" | "ok" | "failed"]]  commit / delete phase per proxy
          ctry,
          reported,      \* [Ops -> "none" | "ok" | "fail"]
          nfaults

vars == <<store, active, prepared, pc, exist, pst, ptry, cst, ctry, reported, nfaults>>

Fault(o) == IF o = "ok" THEN 0 ELSE 1
Applied(o) == o \in {"ok", "tapply"}
Seen(o) == o = "ok"                     \* the caller sees success

Init == /\ store = Old
        /\ active = [p \in Proxies |-> Old]
        /\ prepared = [p \in Proxies |-> None]
        /\ pc = [o \in Ops |-> "start"]
        /\ exist = [o \in Ops |-> None]
        /\ pst = [o \in Ops |-> [p \in Proxies |-> "pending"]]
        /\ ptry = [o \in Ops |-> [p \in Proxies |-> 0]]
        /\ cst = [o \in Ops |-> [p \in Proxies |-> "pending"]]
        /\ ctry = [o \in Ops |-> [p \in Proxies |-> 0]]
        /\ reported = [o \in Ops |-> "none"]
        /\ nfaults = 0

(* ---------------------------------------------------------------- ModifyNamespace *)
Load(o) == /\ Kind[o] = "modify" /\ pc[o] = "start"
           /\ exist' = [exist EXCEPT ![o] = store]
           /\ pc' = [pc EXCEPT ![o] = "loaded"]
           /\ UNCHANGED <<store, active, prepared, pst, ptry, cst, ctry, reported, nfaults>>

Update(o) == /\ pc[o] = "loaded"
             /\ store' = NewVer[o]
             /\ pc' = [pc EXCEPT ![o] = "prepare"]
             /\ UNCHANGED <<active, prepared, exist, pst, ptry, cst, ctry, reported, nfaults>>

(* one prepare attempt of operation o on proxy p with outcome oc *)
PrepareRPC(o, p, oc) ==
    /\ pc[o] = "prepare" /\ pst[o][p] = "pending" /\ ptry[o][p] < PrepareTries
    /\ oc \in Outcomes /\ nfaults + Fault(oc) <= MaxFaults
    /\ nfaults' = nfaults + Fault(oc)
    /\ LET canApply == store # None          \* the proxy loads the namespace from the store
           ok == Seen(oc) /\ canApply
       IN /\ prepared' = IF Applied(oc) /\ canApply THEN [prepared EXCEPT ![p] = store] ELSE prepared
          /\ ptry' = [ptry EXCEPT ![o][p] = @ + 1]
          /\ pst' = [pst EXCEPT ![o][p] = IF ok THEN "ok"
                                          ELSE IF ptry[o][p] + 1 = PrepareTries THEN "failed" ELSE "pending"]
    /\ UNCHANGED <<store, active, pc, exist, cst, ctry, reported>>

PrepareDone(o) ==
    /\ pc[o] = "prepare" /\ \A p \in Proxies : pst[o][p] # "pending"
    /\ pc' = [pc EXCEPT ![o] = IF \E p \in Proxies : pst[o][p] = "failed" THEN "rollback" ELSE "commit"]
    /\ UNCHANGED <<store, active, prepared, exist, pst, ptry, cst, ctry, reported, nfaults>>

CommitRPC(o, p, oc) ==
    /\ pc[o] = "commit" /\ cst[o][p] = "pending" /\ ctry[o][p] < CommitTries
    /\ oc \in CommitOutcomes /\ nfaults + Fault(oc) <= MaxFaults
    /\ nfaults' = nfaults + Fault(oc)
    /\ LET canApply == prepared[p] # None
           ok == Seen(oc) /\ canApply
       IN /\ active' = IF Applied(oc) /\ canApply THEN [active EXCEPT ![p] = prepared[p]] ELSE active
          /\ prepared' = IF Applied(oc) /\ canApply THEN [prepared EXCEPT ![p] = None] ELSE prepared
          /\ ctry' = [ctry EXCEPT ![o][p] = @ + 1]
          /\ cst' = [cst EXCEPT ![o][p] = IF ok THEN "ok"
                                          ELSE IF ctry[o][p] + 1 = CommitTries THEN "failed" ELSE "pending"]
    /\ UNCHANGED <<store, pc, exist, pst, ptry, reported>>

CommitDone(o) ==
    /\ pc[o] = "commit" /\ \A p \in Proxies : cst[o][p] # "pending"
    /\ IF \E p \in Proxies : cst[o][p] = "failed"
       THEN pc' = [pc EXCEPT ![o] = "rollback"] /\ UNCHANGED reported
       ELSE pc' = [pc EXCEPT ![o] = "done"] /\ reported' = [reported EXCEPT ![o] = "ok"]
    /\ UNCHANGED <<store, active, prepared, exist, pst, ptry, cst, ctry, nfaults>>

(* rollbackNamespace: the store only *)
Rollback(o) == /\ pc[o] = "rollback"
               /\ store' = exist[o]
               /\ reported' = [reported EXCEPT ![o] = "fail"]
               /\ pc' = [pc EXCEPT ![o] = "done"]
               /\ UNCHANGED <<active, prepared, exist, pst, ptry, cst, ctry, nfaults>>

(* ---------------------------------------------------------------- DelNamespace *)
DelStore(o) == /\ Kind[o] = "delete" /\ pc[o] = "start"
               /\ store' = None
               /\ pc' = [pc EXCEPT ![o] = "delete"]
               /\ UNCHANGED <<active, prepared, exist, pst, ptry, cst, ctry, reported, nfaults>>

(* the proxies are visited one after the other in the (unspecified) order of a Go map *)
DelRPC(o, p, oc) ==
    /\ pc[o] = "delete" /\ cst[o][p] = "pending"
    /\ oc \in CommitOutcomes /\ nfaults + Fault(oc) <= MaxFaults
    /\ nfaults' = nfaults + Fault(oc)
    /\ active' = IF Applied(oc) THEN [active EXCEPT ![p] = None] ELSE active
    /\ ctry' = [ctry EXCEPT ![o][p] = @ + 1]
    /\ IF Seen(oc)
       THEN /\ cst' = [cst EXCEPT ![o][p] = "ok"]
            /\ IF \A q \in Proxies \ {p} : cst[o][q] = "ok"
               THEN pc' = [pc EXCEPT ![o] = "done"] /\ reported' = [reported EXCEPT ![o] = "ok"]
               ELSE UNCHANGED <<pc, reported>>
       ELSE /\ cst' = [cst EXCEPT ![o][p] = "failed"]
            /\ pc' = [pc EXCEPT ![o] = "done"] /\ reported' = [reported EXCEPT ![o] = "fail"]
    /\ UNCHANGED <<store, prepared, exist, pst, ptry>>

DelNoProxies(o) == /\ pc[o] = "delete" /\ Proxies = {}
                   /\ pc' = [pc EXCEPT ![o] = "done"] /\ reported' = [reported EXCEPT ![o] = "ok"]
                   /\ UNCHANGED <<store, active, prepared, exist, pst, ptry, cst, ctry, nfaults>>

Next == \E o \in Ops :
           \/ Load(o) \/ Update(o) \/ PrepareDone(o) \/ CommitDone(o) \/ Rollback(o) \/ DelStore(o) \/ DelNoProxies(o)
           \/ \E p \in Proxies, oc \in Outcomes \cup CommitOutcomes : PrepareRPC(o, p, oc) \/ CommitRPC(o, p, oc) \/ DelRPC(o, p, oc)

Spec == Init /\ [][Next]_vars

---------------------------------------------------------------------------------
TypeOK == /\ pc \in [Ops -> {"start", "loaded", "prepare", "commit", "rollback", "delete", "done"}]
          /\ reported \in [Ops -> {"none", "ok", "fail"}]
          /\ \A o \in Ops : (reported[o] # "none") <=> (pc[o] = "done")

Target(o) == IF Kind[o] = "modify" THEN NewVer[o] ELSE None
AllActive(v) == \A p \in Proxies : active[p] = v

(* C32 for one operation: evaluated when it has reported. *)
AtomicOne(o) == /\ reported[o] = "ok"   => (store = Target(o) /\ AllActive(Target(o)))
                /\ reported[o] = "fail" => (store = Old /\ AllActive(Old))
Atomic == Cardinality(Ops) = 1 => \A o \in Ops : AtomicOne(o)

(* Two operations on the same namespace: when both have reported, the proxies agree with each     *)
(* other and with the store, the common state is the target of an operation that reported          *)
(* success - or the old state when none did -, and a successful operation is not silently lost     *)
(* unless the other one also succeeded.                                                            *)
Quiescent == \A o \in Ops : pc[o] = "done"
Winners == {o \in Ops : reported[o] = "ok"}
AtomicConcurrent ==
    (Cardinality(Ops) > 1 /\ Quiescent) =>
        /\ \A p \in Proxies : active[p] = store
        /\ IF Winners = {} THEN store = Old ELSE \E o \in Winners : store = Target(o)
===================================================================================
