------------------------------- MODULE Wire_lenenc -------------------------------
(* Enumeration of the length-encoded codec of Wire.tla (property C12).                     *)
(*                                                                                        *)
(* The state graph IS the input space:                                                    *)
(*   kind "alpha"  every byte sequence over Alphabet up to MaxLen (a tree: Next appends);  *)
(*   kind "struct" header(prefix class, declared length) \o body, with a pad in front, and *)
(*                 every truncation of it (Next drops the last byte);                      *)
(*   kind "enc"    64-bit integers: the size-class boundaries and the given extra values,  *)
(*                 and up to Hops steps of +1 / -1 around them (Next = Inc8 / Dec8).       *)
(* For a decoder state every offset 0 .. Len(buf)+1 is examined inside the invariants.     *)
(* Emit prints, per state, the specification's results: these are the expected values the  *)
(* conformance harness compares the real mysql/encoding.go functions with.                 *)
EXTENDS Wire, TLC, Json

CONSTANTS Modes,       \* subset of {"alpha", "struct", "enc"}
          Alphabet,    \* bytes of the exhaustive part
          MaxLen,      \* length bound of the exhaustive part
          Hops,        \* +-1 steps around each 64-bit start value
          Extra8,      \* extra 64-bit values (8-tuples), e.g. seeded random ones
          EmitCases    \* print CASE lines

VARIABLES kind, buf, hops
vars == <<kind, buf, hops>>

(* ---- 64-bit start values: 2^(8k) for k = 0..7, 0, 250/251 (one-byte class limit), 2^63 (sign bit), 2^31, 2^32 *)
Pow256(k) == [i \in 1..8 |-> IF i = k + 1 THEN 1 ELSE 0]
MaxU64 == [i \in 1..8 |-> 255]
MaxI64 == [i \in 1..8 |-> IF i = 8 THEN 127 ELSE 255]
MinI64 == [i \in 1..8 |-> IF i = 8 THEN 128 ELSE 0]
Two31  == <<0, 0, 0, 128, 0, 0, 0, 0>>
Start8 == {Pow256(k) : k \in 0..7} \cup {Zero8, Pad8(<<251>>), MinI64, Two31} \cup Extra8

(* ---- structured decoder inputs *)
Body(k) == [i \in 1..k |-> 96 + i]                    \* 'a', 'b', 'c' ...
PadSeq(p) == [i \in 1..p |-> 65]
SmallDecl == 0..4
Hdr1 == {<<n>> : n \in SmallDecl \cup {250}} \cup {<<251>>, <<255>>}
Hdr3 == {<<252, n, 0>> : n \in SmallDecl} \cup {<<252, 255, 255>>, <<252, 0, 1>>}
Hdr4 == {<<253, n, 0, 0>> : n \in SmallDecl} \cup {<<253, 255, 255, 255>>, <<253, 0, 0, 1>>}
Hdr9 == {<<254>> \o FromSmall(n) : n \in SmallDecl}
          \cup {<<254>> \o b : b \in {MaxU64, Dec8(MaxU64), MaxI64, Dec8(MaxI64), MinI64, Inc8(MinI64), Two31, Pow256(4), Pow256(3),
                                      \* declared lengths that make pos+len-1 wrap around for the offsets used here
                                      Dec8(Dec8(Dec8(Dec8(Dec8(Dec8(Dec8(Dec8(Dec8(Dec8(MaxI64))))))))))}}
Headers == Hdr1 \cup Hdr3 \cup Hdr4 \cup Hdr9
Structured == {PadSeq(p) \o h \o Body(k) : p \in 0..1, h \in Headers, k \in 0..3}

(* sizes tried for the fixed-size read at offset pos: small ones around the remainder, and 64-bit signed    *)
(* extremes (as b8; negative when the top bit is set) which must all be refused at every offset             *)
SmallSizes(b, pos) == LET rem == Len(b) - pos IN {0, 1} \cup {x \in {rem - 1, rem, rem + 1} : x >= 0}
BigSizes == {MaxU64, MaxI64, MinI64, Two31, Inc8(MinI64), Dec8(MaxI64)}
Signed(b8) == IF b8[8] >= 128 THEN -1 ELSE Small(b8)    \* what matters of a signed size: negative, small, or huge

Init == \/ /\ "alpha" \in Modes /\ kind = "alpha" /\ buf = <<>> /\ hops = 0
        \/ /\ "struct" \in Modes /\ kind = "struct" /\ buf \in Structured /\ hops = 0
        \/ /\ "enc" \in Modes /\ kind = "enc" /\ buf \in Start8 /\ hops = 0

Grow     == /\ kind = "alpha" /\ Len(buf) < MaxLen
            /\ \E c \in Alphabet : buf' = Append(buf, c)
            /\ UNCHANGED <<kind, hops>>
Truncate == /\ kind = "struct" /\ Len(buf) > 0
            /\ buf' = SubSeq(buf, 1, Len(buf) - 1)
            /\ UNCHANGED <<kind, hops>>
Step8    == /\ kind = "enc" /\ hops < Hops
            /\ buf' \in {Inc8(buf), Dec8(buf)}
            /\ hops' = hops + 1
            /\ UNCHANGED kind
Next == Grow \/ Truncate \/ Step8
Spec == Init /\ [][Next]_vars

(* all values of an "enc" state are distinct states regardless of the hop count *)
View == <<kind, buf>>

Positions == 0..(Len(buf) + 1)

TypeOK == /\ kind \in {"alpha", "struct", "enc"}
          /\ \A i \in 1..Len(buf) : buf[i] \in Byte
          /\ kind = "enc" => IsB8(buf)

EncProps == kind = "enc" => EncRoundTrip(buf) /\ EncShortest(buf)
DecProps == kind # "enc" =>
              \A p \in Positions :
                 /\ DecInBounds(buf, p) /\ StrInBounds(buf, p) /\ NulInBounds(buf, p)
                 /\ \A n \in SmallSizes(buf, p) : FixInBounds(buf, p, n)
                 /\ \A sz \in BigSizes : ~ReadFix(buf, p, Signed(sz)).ok
(* decoding what the encoder produced for the length of a string followed by that many bytes gives the bytes back *)
StrRoundTrip == kind = "alpha" =>
                  LET e == EncLen(FromSmall(Len(buf))) \o buf
                      r == DecStr(e, 0)
                  IN r.ok /\ ~r.null /\ StrBytes(e, r) = buf /\ r.next = Len(e)

(* ---- emission (compact: flags as 0/1, tuples instead of records where the layout is fixed) *)
B(x) == IF x THEN 1 ELSE 0
RECURSIVE SeqOf(_)
SeqOf(T) == IF T = {} THEN <<>> ELSE LET x == CHOOSE y \in T : TRUE IN <<x>> \o SeqOf(T \ {x})
RECURSIVE FixList(_, _)
FixList(p, T) == IF T = {} THEN <<>>
                 ELSE LET x == CHOOSE y \in T : \A z \in T : y <= z
                          r == ReadFix(buf, p, x)
                      IN << <<x, B(r.ok), r.from, r.next>> >> \o FixList(p, T \ {x})
AtOut(p) == LET d == DecLen(buf, p)
                r == DecStr(buf, p)
                z == ReadNul(buf, p)
            IN [i |-> <<B(d.ok), B(d.null), B(d.undef), d.next>>, v |-> d.val,       \* ReadLenEncInt: ok, null, undef, next; value
                s |-> <<B(r.ok), B(r.null), B(r.undef), r.from, r.next>>,            \* length-encoded string: bytes buf[from..next-1]
                z |-> <<B(z.ok), z.from, z.next>>,                                   \* NUL-terminated string: buf[from..next-2]
                f |-> FixList(p, SmallSizes(buf, p))]                               \* fixed reads: size, ok, from, next

Emit == EmitCases =>
          IF kind = "enc"
          THEN PrintT(<<"CASE", ToJson([kind |-> "enc", v |-> buf, enc |-> EncLen(buf), size |-> EncSize(buf)])>>)
          ELSE PrintT(<<"CASE", ToJson([kind |-> kind, buf |-> buf, big |-> SeqOf(BigSizes),
                                        h |-> EncLen(FromSmall(Len(buf))),      \* header of buf as a length-encoded string
                                        at |-> [i \in 1..(Len(buf) + 2) |-> AtOut(i - 1)]])>>)
===================================================================================
