-------------------------------- MODULE Balancer --------------------------------
(* Replica selection of XiaoMi/Gaea (backend/balancer.go newBalancer / next, backend/slice.go   *)
(* getIndicesAndWeights / InitBalancers / GetSlaveConn / getNodeFromBalancer).  Property C25.     *)
(*                                                                                              *)
(* P-level (the property): a replica list is a configuration c = [n, w, dc] (weight and            *)
(* datacenter per node, dc 0 = the proxy's own datacenter) plus the up/down status st.  Three      *)
(* classes of candidates: local, remote, global (weight > 0 only).  Norm(w) = w / gcd of the       *)
(* class.  A selection with policy pol must return a node of Eligible(c, st, pol) -- never a       *)
(* weight-0 node, never a down node, never a remote node under force-local, a remote node under    *)
(* prefer-local only when no local node is up -- and must return a node when that set is not       *)
(* empty.  While all members of a class are up, every window of L = Sum(Norm) consecutive           *)
(* selections served by that class contains node i exactly Norm(w_i) times.  The order inside a    *)
(* window is free.                                                                               *)
(*                                                                                              *)
(* I-level (the code): per class a queue (some permutation of the multiset Norm, chosen when the   *)
(* balancer is built) and a counter; next() = queue[(counter+1) mod L]; getNodeFromBalancer tries   *)
(* at most L consecutive entries and returns the first up node.  TLC checks that every I-level      *)
(* selection satisfies the P-level rules, for every permutation.                                  *)
EXTENDS Integers, Sequences, FiniteSets

None == -1
Up == 1
Down == 0
PolClosed == 0      \* LocalSlaveReadClosed
PolPrefer == 1      \* LocalSlaveReadPrefer
PolForce  == 2      \* LocalSlaveReadForce
Classes == {"local", "remote", "global"}

----------------------------------------------------------------------------------
(* Configuration arithmetic *)

RECURSIVE Gcd2(_, _)
Gcd2(a, b) == IF b = 0 THEN a ELSE Gcd2(b, a % b)
RECURSIVE GcdSet(_, _)
GcdSet(w, S) == IF S = {} THEN 0 ELSE LET x == CHOOSE y \in S : TRUE IN Gcd2(w[x], GcdSet(w, S \ {x}))
RECURSIVE SumOver(_, _)
SumOver(f, S) == IF S = {} THEN 0 ELSE LET x == CHOOSE y \in S : TRUE IN f[x] + SumOver(f, S \ {x})

Nodes(c) == 1..c.n
Members(c, cls) == {i \in Nodes(c) : /\ c.w[i] > 0
                                     /\ \/ cls = "global"
                                        \/ cls = "local" /\ c.dc[i] = 0
                                        \/ cls = "remote" /\ c.dc[i] # 0}
Norm(c, cls) == LET M == Members(c, cls)
                    d == GcdSet(c.w, M)
                IN [i \in M |-> c.w[i] \div d]
WinLen(c, cls) == LET nm == Norm(c, cls) IN SumOver(nm, DOMAIN nm)

(* per-class data of a configuration, computed once per configuration *)
KInfo(c) == [cls \in Classes |-> [mem |-> Members(c, cls), norm |-> Norm(c, cls), len |-> WinLen(c, cls)]]

UpIn(k, st, cls) == {i \in k[cls].mem : st[i] = Up}
AllNodesUp(c, st) == \A i \in Nodes(c) : st[i] = Up      \* "with all replicas up"

(* the class that serves a selection, and the nodes it may return *)
ServingClass(k, st, pol) ==
    CASE pol = PolForce  -> "local"
      [] pol = PolPrefer -> IF UpIn(k, st, "local") # {} THEN "local" ELSE "remote"
      [] OTHER           -> "global"
Eligible(k, st, pol) == UpIn(k, st, ServingClass(k, st, pol))

CountIn(s, i) == Cardinality({j \in 1..Len(s) : s[j] = i})
LastK(s, n) == IF Len(s) <= n THEN s ELSE SubSeq(s, Len(s) - n + 1, Len(s))
ExactWindow(k, cls, s) == \A i \in k[cls].mem : CountIn(s, i) = k[cls].norm[i]

(* P-level judgement of one selection: pick = node index or None (an error was returned).          *)
(* k = KInfo(c); run = per class, the selections it served since all replicas are up (last L kept). *)
Judge(c, k, st, run, pol, pick) ==
    LET cls == ServingClass(k, st, pol)
        el  == UpIn(k, st, cls)
    IN IF pick = None THEN (IF el = {} THEN "ok" ELSE "no-pick-although-eligible-up")
       ELSE IF pick \notin Nodes(c) THEN "unknown-node"
       ELSE IF c.w[pick] <= 0 THEN "weight-zero-picked"
       ELSE IF st[pick] # Up THEN "down-picked"
       ELSE IF pol = PolForce /\ c.dc[pick] # 0 THEN "force-local-left-datacenter"
       ELSE IF pol = PolPrefer /\ c.dc[pick] # 0 /\ UpIn(k, st, "local") # {} THEN "prefer-local-left-datacenter"
       ELSE IF pick \notin el THEN "ineligible-picked"
       ELSE IF AllNodesUp(c, st) /\ Len(run[cls]) + 1 >= k[cls].len
                /\ ~ExactWindow(k, cls, LastK(Append(run[cls], pick), k[cls].len))
            THEN "window-count"
       ELSE "ok"

(* selections made while some replica is down interrupt every run *)
RunAfter(c, k, st, run, pol, pick) ==
    LET cls == ServingClass(k, st, pol)
    IN IF ~AllNodesUp(c, st) THEN [x \in Classes |-> <<>>]
       ELSE IF pick # None /\ pick \in k[cls].mem
            THEN [run EXCEPT ![cls] = LastK(Append(run[cls], pick), k[cls].len)]
       ELSE [run EXCEPT ![cls] = <<>>]

EmptyRun == [cls \in Classes |-> <<>>]

----------------------------------------------------------------------------------
(* I-level *)

CONSTANTS MaxN, MaxW,
          Pols      \* policies exercised in this run (the three classes evolve independently)

VARIABLES c,      \* configuration
          st,     \* status per node
          q,      \* class -> queue (<<>>: the balancer is nil)
          ctr,    \* class -> nextIndex mod queue length
          run,    \* P-level window bookkeeping
          last    \* last event and its judgement

bvars == <<c, st, q, ctr, run, last>>

(* all permutations of the multiset cnt (node -> multiplicity) *)
RECURSIVE MPerms(_)
MPerms(cnt) ==
    LET live == {i \in DOMAIN cnt : cnt[i] > 0}
    IN IF live = {} THEN {<<>>}
       ELSE UNION {{<<i>> \o s : s \in MPerms([cnt EXCEPT ![i] = cnt[i] - 1])} : i \in live}

(* the "closed" policy never reads the datacenter tags: one representative tagging suffices for it *)
DcChoices(k) == IF Pols \subseteq {PolClosed} THEN {[i \in 1..k |-> 0]} ELSE [1..k -> {0, 1}]
Configs == UNION {[n : {k}, w : [1..k -> 0..MaxW], dc : DcChoices(k)] : k \in 1..MaxN}

(* queues of classes that no exercised policy reads are irrelevant: one representative order *)
ClassesUsed == UNION {CASE p = PolForce -> {"local"} [] p = PolPrefer -> {"local", "remote"} [] OTHER -> {"global"} : p \in Pols}
PermsFor(cf, cls) == IF cls \in ClassesUsed THEN MPerms(Norm(cf, cls))
                     ELSE {CHOOSE x \in MPerms(Norm(cf, cls)) : TRUE}

BInit == /\ c \in Configs
         /\ st \in [Nodes(c) -> {Up, Down}]
         /\ q \in {[local |-> a, remote |-> b, global |-> d] : a \in PermsFor(c, "local"),
                                                              b \in PermsFor(c, "remote"),
                                                              d \in PermsFor(c, "global")}
         /\ ctr = [cls \in Classes |-> 0]
         /\ run = EmptyRun
         /\ last = [ev |-> "init", verdict |-> "ok"]

(* getNodeFromBalancer: at most Len(q) calls of next(), first up node wins *)
FromBal(cls) ==
    LET L == Len(q[cls])
        offs == {k \in 1..L : st[q[cls][((ctr[cls] + k) % L) + 1]] = Up}
    IN IF offs = {} THEN [node |-> None, adv |-> L]
       ELSE LET k == CHOOSE x \in offs : \A y \in offs : x <= y
            IN [node |-> q[cls][((ctr[cls] + k) % L) + 1], adv |-> k]

Adv(cr, cls, r) == [cr EXCEPT ![cls] = (cr[cls] + r.adv) % Len(q[cls])]

(* GetSlaveConn *)
IPick(pol) ==
    IF \A i \in Nodes(c) : st[i] = Down THEN [node |-> None, ctr |-> ctr]
    ELSE IF pol = PolForce
         THEN IF q["local"] = <<>> THEN [node |-> None, ctr |-> ctr]
              ELSE LET r == FromBal("local") IN [node |-> r.node, ctr |-> Adv(ctr, "local", r)]
    ELSE IF pol = PolPrefer
         THEN LET rl == IF q["local"] = <<>> THEN [node |-> None, adv |-> 0] ELSE FromBal("local")
                  c1 == IF q["local"] = <<>> THEN ctr ELSE Adv(ctr, "local", rl)
              IN IF rl.node # None THEN [node |-> rl.node, ctr |-> c1]
                 ELSE IF q["remote"] = <<>> THEN [node |-> None, ctr |-> c1]
                 ELSE LET rr == FromBal("remote") IN [node |-> rr.node, ctr |-> Adv(c1, "remote", rr)]
    ELSE IF q["global"] = <<>> THEN [node |-> None, ctr |-> ctr]
         ELSE LET r == FromBal("global") IN [node |-> r.node, ctr |-> Adv(ctr, "global", r)]

Pick(pol) ==
    LET r == IPick(pol)
        k == KInfo(c)
    IN /\ ctr' = r.ctr
       /\ run' = RunAfter(c, k, st, run, pol, r.node)
       /\ last' = [ev |-> "pick", pol |-> pol, node |-> r.node, verdict |-> Judge(c, k, st, run, pol, r.node)]
       /\ UNCHANGED <<c, st, q>>

SetSt(i, s) == /\ st[i] # s
               /\ st' = [st EXCEPT ![i] = s]
               /\ last' = [ev |-> "set", node |-> i, st |-> s, verdict |-> "ok"]
               /\ UNCHANGED <<c, q, ctr, run>>

BNext == \/ \E pol \in Pols : Pick(pol)
         \/ \E i \in Nodes(c), s \in {Up, Down} : SetSt(i, s)

BSpec == BInit /\ [][BNext]_bvars

----------------------------------------------------------------------------------
(* Properties: every selection of the code satisfies the property-level rules *)

SelectionOK == [][last'.verdict = "ok"]_bvars

(* the queue is a permutation of the normalised weights; nodes of weight 0 are in no queue *)
QueueShape == \A cls \in Classes : /\ Len(q[cls]) = WinLen(c, cls)
                                   /\ \A i \in Nodes(c) :
                                         CountIn(q[cls], i) = (IF i \in Members(c, cls) THEN Norm(c, cls)[i] ELSE 0)

(* the run kept for a class is always a suffix of that class's recent selections, at most L long *)
RunBounded == \A cls \in Classes : Len(run[cls]) <= WinLen(c, cls)

BView == <<c, st, q, ctr, run>>
==================================================================================
