------------------------ MODULE StmtPolicy_blacklist_gen ------------------------
(* Case generation for C36 (StmtPolicy part 3): the SQL blacklist ignores literal values, white    *)
(* space, keyword letter case and comments, and nothing else.                                     *)
(*                                                                                                *)
(* A base statement is a sequence of abstract tokens.  A VARIANT re-spells it: keyword casing,      *)
(* gap style between tokens, a choice of literal values, one comment inserted at one token gap.     *)
(* A MUTANT changes the token sequence (other table, other column, other operator, extra           *)
(* predicate, dropped WHERE clause).  Items(..) turns either into the sequence of lexical items      *)
(* whose spellings, concatenated, are the statement text.                                          *)
(* TLC checks Skeleton(variant) = Skeleton(base) and Skeleton(mutant) # Skeleton(base), and emits   *)
(* each text with Rejected(text, Blacklist).                                                       *)
(*   thorough: every variant (3 casings x 7 gap styles x 5 literal choices x (no comment or one of   *)
(*   6 comment styles at every token gap)) of 12 base statements, and 5 mutants x 8 spellings;       *)
(*   quick: every variant with at most two non-default dimensions plus a sample selected by Seed.    *)
EXTENDS StmtPolicy, TLC, Json, SequencesExt

CONSTANTS Tier, Seed, Keep

VARIABLE c
vars == <<c>>

(* ---- abstract tokens ---- *)
Kw(l, u, m) == [k |-> "kw", c |-> l, sp |-> <<l, u, m>>]           \* lower / UPPER / MiXeD spellings
Id(v)       == [k |-> "id", c |-> v, sp |-> <<v, v, v>>]
Op(v)       == [k |-> "op", c |-> v, sp |-> <<v, v, v>>]
Pun(v)      == [k |-> "pun", c |-> v, sp |-> <<v, v, v>>]
Lit(a, b, cc, d, e) == [k |-> "lit", c |-> "?", sp |-> <<a, b, cc, d, e>>]  \* five alternative values

K_SELECT == Kw("select", "SELECT", "SeLeCt")     K_FROM   == Kw("from", "FROM", "FrOm")
K_WHERE  == Kw("where", "WHERE", "WhErE")        K_AND    == Kw("and", "AND", "AnD")
K_INSERT == Kw("insert", "INSERT", "InSeRt")     K_INTO   == Kw("into", "INTO", "InTo")
K_VALUES == Kw("values", "VALUES", "VaLuEs")     K_UPDATE == Kw("update", "UPDATE", "UpDaTe")
K_SET    == Kw("set", "SET", "SeT")              K_DELETE == Kw("delete", "DELETE", "DeLeTe")
K_ORDER  == Kw("order", "ORDER", "OrDeR")        K_BY     == Kw("by", "BY", "By")
K_LIMIT  == Kw("limit", "LIMIT", "LiMiT")        K_LIKE   == Kw("like", "LIKE", "LiKe")
K_IN     == Kw("in", "IN", "In")                 K_BETWEEN == Kw("between", "BETWEEN", "BeTwEeN")
K_JOIN   == Kw("join", "JOIN", "JoIn")           K_ON     == Kw("on", "ON", "On")
K_OR     == Kw("or", "OR", "Or")

Num(a)  == Lit(a, "4711", "3.25", "0", "0x1F")
Str(a)  == Lit(a, "'hello world'", "'it''s'", "'x /* y */ -- z'", "'ABCDEF 1E5'")

Bases == <<
  (* 1 *) <<K_SELECT, Id("c1"), K_FROM, Id("t1"), K_WHERE, Id("id"), Op("="), Num("1")>>,
  (* 2 *) <<K_SELECT, Id("c1"), Pun(","), Id("c2"), K_FROM, Id("t1"), K_WHERE, Id("id"), Op("="), Num("1"), K_AND, Id("name"), Op("="), Str("'a'")>>,
  (* 3 *) <<K_SELECT, Op("*"), K_FROM, Id("t1"), K_WHERE, Id("id"), Op(">"), Num("5"), K_ORDER, K_BY, Id("c1"), K_LIMIT, Num("10")>>,
  (* 4 *) <<K_SELECT, Id("count(*)"), K_FROM, Id("t1"), K_WHERE, Id("name"), K_LIKE, Str("'a%'")>>,
  (* 5 *) <<K_INSERT, K_INTO, Id("t1"), Pun("("), Id("id"), Pun(","), Id("name"), Pun(")"), K_VALUES, Pun("("), Num("1"), Pun(","), Str("'a'"), Pun(")")>>,
  (* 6 *) <<K_UPDATE, Id("t1"), K_SET, Id("name"), Op("="), Str("'x'"), K_WHERE, Id("id"), Op("="), Num("2")>>,
  (* 7 *) <<K_DELETE, K_FROM, Id("t1"), K_WHERE, Id("id"), Op("="), Num("3")>>,
  (* 8 *) <<K_SELECT, Id("c1"), K_FROM, Id("t1"), K_WHERE, Id("id"), K_IN, Pun("("), Num("1"), Pun(","), Num("2"), Pun(","), Num("3"), Pun(")")>>,
  (* 9 *) <<K_SELECT, Id("c1"), K_FROM, Id("t1"), K_WHERE, Id("id"), K_BETWEEN, Num("1"), K_AND, Num("9")>>,
  (* 10 *) <<K_SELECT, Id("a.c1"), K_FROM, Id("t1"), Id("a"), K_JOIN, Id("t2"), Id("b"), K_ON, Id("a.id"), Op("="), Id("b.id"), K_WHERE, Id("b.name"), Op("="), Str("'z'")>>,
  (* 11, not blacklisted *) <<K_SELECT, Id("c2"), K_FROM, Id("t2"), K_WHERE, Id("id"), Op("="), Num("1")>>,
  (* 12, not blacklisted *) <<K_DELETE, K_FROM, Id("t2"), K_WHERE, Id("id"), Op("="), Num("3")>>
>>
Blacklisted == 1..10

(* ---- variants ---- *)
GapStyles == {"one", "two", "tab", "newline", "crlf", "cr", "tight"}
CmStyles  == {"none", "spaced", "glued", "dash", "hash", "sqlish", "long"}
LitChoices == 1..5
LongComment == " /* trace: 0123456789abcdef0123456789abcdef0123456789abcdef0123456789abcdef0123456789abcdef0123456789abcdef0123456789abcdef0123456789abcdef0123456789abcdef0123456789abcdef0123456789abcdef0123456789abcdef0123456789abcdef0123456789abcdef0123456789abcdef0123456789abcdef0123456789abcdef0123456789abcdef0123456789abcdef */ "

CsIndex(cs) == CASE cs = "lower" -> 1 [] cs = "upper" -> 2 [] OTHER -> 3
Spell(t, cs, lit) == IF t.k = "lit" THEN t.sp[lit] ELSE t.sp[CsIndex(cs)]

Tightable(a, b) == a.k \in {"op", "pun"} \/ b.k \in {"op", "pun"}
GapText(style, a, b) == CASE style = "one" -> " "
                          [] style = "two" -> "  "
                          [] style = "tab" -> "\t"
                          [] style = "newline" -> "\n"
                          [] style = "crlf" -> "\r\n"
                          [] style = "cr" -> "\r"
                          [] OTHER -> IF Tightable(a, b) THEN "" ELSE " "

CmText(style) == CASE style = "spaced" -> " /* c */ "
                   [] style = "glued"  -> "/*c*/"
                   [] style = "dash"   -> " -- c\n"
                   [] style = "hash"   -> " # c\n"
                   [] style = "long"   -> LongComment        \* more than 256 bytes (a driver's tracing comment)
                   [] OTHER            -> " /* where id = 1 */ "

TokItem(t, cs, lit) == [k |-> t.k, c |-> t.c, v |-> Spell(t, cs, lit)]
SpItem(txt) == [k |-> "sp", c |-> "", v |-> txt]
CmItem(txt) == [k |-> "cm", c |-> "", v |-> txt]

(* lexical items of token sequence S under variant v; cmpos = 0 (leading) .. Len(S) (trailing) *)
RECURSIVE ItemsFrom(_, _, _)
ItemsFrom(S, v, i) ==
    IF i > Len(S) THEN (IF v.cm # "none" /\ v.cmpos = Len(S) THEN <<CmItem(CmText(v.cm))>> ELSE <<>>)
    ELSE LET tok == <<TokItem(S[i], v.cs, v.lit)>>
             gap == IF i = 1
                    THEN (IF v.cm # "none" /\ v.cmpos = 0 THEN <<CmItem(CmText(v.cm))>> ELSE <<>>)
                    ELSE IF v.cm # "none" /\ v.cmpos = i - 1
                         THEN <<CmItem(CmText(v.cm))>>
                         ELSE LET g == GapText(v.gap, S[i-1], S[i]) IN IF g = "" THEN <<>> ELSE <<SpItem(g)>>
         IN gap \o tok \o ItemsFrom(S, v, i + 1)
Items(S, v) == ItemsFrom(S, v, 1)

Plain == [cs |-> "lower", gap |-> "one", lit |-> 1, cm |-> "none", cmpos |-> 0]
Canon(S) == Items(S, Plain)

BlacklistItems == {Canon(Bases[b]) : b \in Blacklisted}
BLSkeletons == SkeletonsOf(BlacklistItems)                       \* evaluated once
BaseSkel == [b \in DOMAIN Bases |-> Skeleton(Canon(Bases[b]))]   \* evaluated once

(* ---- mutants ---- *)
MutKinds == {"table", "column", "operator", "predicate", "nowhere"}

FirstIdx(S, P(_)) == LET I == {i \in DOMAIN S : P(S[i])} IN IF I = {} THEN 0 ELSE CHOOSE i \in I : \A j \in I : i <= j

Mutate(S, m) ==
    CASE m = "table"     -> [i \in DOMAIN S |-> IF S[i].k = "id" /\ S[i].c = "t1" THEN Id("t9") ELSE S[i]]
      [] m = "column"    -> LET i == FirstIdx(S, LAMBDA t : t.k = "id" /\ t.c \in {"id", "name", "b.name"})
                            IN IF i = 0 THEN S ELSE [S EXCEPT ![i] = Id("other_col")]
      [] m = "operator"  -> LET i == FirstIdx(S, LAMBDA t : t.k = "op" /\ t.c \in {"=", ">"})
                            IN IF i = 0 THEN S ELSE [S EXCEPT ![i] = IF S[i].c = "=" THEN Op("<") ELSE Op("=")]
      [] m = "predicate" -> S \o <<K_OR, Id("c9"), Op("="), Num("1")>>
      [] OTHER           -> LET i == FirstIdx(S, LAMBDA t : t.k = "kw" /\ t.c = "where")
                            IN IF i = 0 THEN S ELSE SubSeq(S, 1, i - 1)

(* ---- cases ---- *)
NoCase == [t |-> "nocase"]
IsCase == c.t # "nocase"

Scramble(n) == (((n % 100003) * 1009 + (Seed % 10007) * 31) % 10007) < Keep
VNFeat(v) == B2N(v.cs # "lower") + B2N(v.gap # "one") + B2N(v.lit # 1) + B2N(v.cm # "none")

StmtKind(S) == S[1].c
PosClass(S, v) == IF v.cm = "none" THEN "-"
                  ELSE IF v.cmpos = 0 THEN "leading"
                  ELSE IF v.cmpos = Len(S) THEN "trailing"
                  ELSE S[v.cmpos].k \o ">" \o S[v.cmpos + 1].k

MkCase(b, m, S, v) ==
    LET it == Items(S, v)
    IN [t |-> "case", base |-> b, mutant |-> m, stmt |-> StmtKind(S),
        cs |-> v.cs, gap |-> v.gap, lit |-> v.lit, cm |-> v.cm, cmpos |-> v.cmpos, poscls |-> PosClass(S, v),
        items |-> Text(it), skel |-> Skeleton(it),
        rejected |-> RejectedBySkeletons(it, BLSkeletons)]    \* = Rejected(it, BlacklistItems)

Variants(S) == { v \in [cs : Cases, gap : GapStyles, lit : LitChoices, cm : CmStyles, cmpos : 0..Len(S)] :
                   v.cm = "none" => v.cmpos = 0 }

NextVariant == \E b \in DOMAIN Bases :
                 LET S == Bases[b] IN
                 \E v \in Variants(S) :
                    /\ Tier = "thorough" \/ VNFeat(v) <= 2 \/ Scramble((b * 977 + v.cmpos * 131 + CsIndex(v.cs) * 17 + v.lit) * 7)
                    /\ c' = MkCase(b, "none", S, v)

MutVariants == { v \in [cs : {"lower", "upper"}, gap : {"one", "tight"}, lit : {1, 2}, cm : {"none"}, cmpos : {0}] : TRUE }

NextMutant == \E b \in DOMAIN Bases, m \in MutKinds, v \in MutVariants :
                 LET S == Mutate(Bases[b], m)
                 IN /\ S # Bases[b]
                    /\ c' = MkCase(b, m, S, v)

Init == c = NoCase
Next == ~IsCase /\ (NextVariant \/ NextMutant)
Spec == Init /\ [][Next]_vars

EmitBlacklist == ~IsCase => PrintT(<<"CASE", ToJson([t |-> "blacklist",
                                   stmts |-> [b \in Blacklisted |-> Text(Canon(Bases[b]))]])>>)
Emit == IsCase => PrintT(<<"CASE", ToJson([t |-> c.t, base |-> c.base, mutant |-> c.mutant, stmt |-> c.stmt, cs |-> c.cs,
                                           gap |-> c.gap, lit |-> c.lit, cm |-> c.cm, cmpos |-> c.cmpos, poscls |-> c.poscls,
                                           items |-> c.items, rejected |-> c.rejected])>>)

(* variant operators preserve the skeleton; every mutant leaves it *)
VariantKeepsSkeleton == IsCase /\ c.mutant = "none" => c.skel = BaseSkel[c.base]
MutantChangesSkeleton == IsCase /\ c.mutant # "none" => c.skel # BaseSkel[c.base]
(* the expected decision is what the property says: rejected iff same skeleton as a blacklisted statement *)
DecisionIsSkeletonMembership ==
    IsCase => (c.rejected <=> \E b \in Blacklisted : c.skel = BaseSkel[b])
VariantOfBlacklistedRejected == IsCase /\ c.mutant = "none" => (c.rejected <=> c.base \in Blacklisted)
MutantAllowed == IsCase /\ c.mutant # "none" => ~c.rejected
=================================================================================
