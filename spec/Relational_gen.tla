---------------------------- MODULE Relational_gen ----------------------------
(* Case generation for the conformance harness: every enumerated case is printed as one      *)
(* JSON line with the rule configuration, the table contents, the specification's placement  *)
(* of every row, the query record and the specification's expected result (Answer for        *)
(* SELECT / UNION; tables afterwards and affected rows for DML).  The properties of the       *)
(* specification itself are evaluated on the same case (SpecProps of Relational).             *)
EXTENDS Relational, Json

Emit ==
    ph = 1 =>
    LET cs == TheCase
        cfg == cs.cfg
        rows == cs.rows
        q == cs.q
        base == [fam |-> cs.fam, ix |-> cs.ix, cfg |-> cfg, gu |-> StrU, bu |-> BigU, rows |-> rows,
                 place |-> [i \in DOMAIN rows |-> Place(cfg, rows[i][1])], sp |-> cs.sp, q |-> q]
    IN IF IsSelectFam(cs.fam)
       THEN LET A == Answer(q, rows) IN
            /\ SelectProps(cs, A)
            /\ PrintT(<<"CASE", ToJson(base @@ [want |-> A])>>)
       ELSE /\ DmlProps(cs)
            /\ PrintT(<<"CASE", ToJson(base @@ [want |-> [rejected |-> Rejected(q),
                                                         after |-> Sharded(cfg, Effect(q, rows)),
                                                         affected |-> Affected(q, rows)]])>>)
===============================================================================
