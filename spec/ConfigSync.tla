-------------------------------- MODULE ConfigSync --------------------------------
(* The proxy side of the configuration round trip (property C33: "loaded by a proxy from the     *)
(* coordinator or from its local copy"): proxy/server/manager.go                                   *)
(*   SyncNamespaces(remote, local, key)   read what the coordinator holds (LoadOriginNamespaces:   *)
(*       still encrypted), persist exactly that into the local copy (persistenceEncryptNamespaces: *)
(*       clean the directory, UpdateNamespace each), then decrypt and return it to the proxy;      *)
(*   LoadDecryptNamespaces(local, key)    the fallback when the coordinator is unreachable         *)
(*       (loadNamespacesFromClient): load and decrypt the local copy alone.                        *)
(* The control plane's Save (Verify, Encrypt_k, Encode, UpdateNamespace) is the one of ConfigStore. *)
(* A stored document = the is_encrypt flag and, per protected field, either a cipher text          *)
(* (remembering key and plaintext: the abstract bijection of ConfigStore) or clear text.            *)
(* Decrypting a document: not flagged -> the fields as they are; flagged and every field a cipher   *)
(* text of this key -> the plaintext; flagged but a field is clear text -> not decryptable (error   *)
(* or garbage); another key -> error or garbage.                                                    *)
(* Property: every load with the key the document was saved with - by Sync from the coordinator,    *)
(* from the coordinator directly, or from the local copy alone - yields the submitted               *)
(* configuration; the local copy is a copy of the coordinator's document.                           *)
EXTENDS ConfigStore, TLC

CONSTANTS SaveKeys,      \* key classes the control plane saves with
          ProxyKeys,     \* key classes a proxy may be configured with
          SyncClasses,   \* classes of the protected field content
          MaxVer         \* bound on saves (model checking only)

VARIABLES coord,         \* document held by the coordinator (NoDoc = none)
          local,         \* document in the proxy's local copy
          last,          \* result of the last load: [src, key, st, v]
          ver            \* number of saves so far

svars == <<coord, local, last, ver, step>>
NoDoc == [flag |-> FALSE, cipher |-> FALSE, key |-> "-", plain |-> [cls |-> "-", ver |-> 0]]

SavedDoc(k, cfgv) == [flag |-> TRUE, cipher |-> TRUE, key |-> k, plain |-> cfgv]

DecDoc(k, d) == IF ~d.flag THEN [st |-> "data", v |-> d.plain]
                ELSE IF ~d.cipher THEN [st |-> "undecryptable", v |-> d.plain]     \* clear text flagged as encrypted
                ELSE IF d.key = k THEN [st |-> "data", v |-> d.plain]
                ELSE [st |-> "garbage", v |-> d.plain]

NoLoad == [src |-> "none", key |-> "-", st |-> "none", v |-> NoDoc.plain]
SInit == /\ coord = NoDoc /\ local = NoDoc /\ ver = 0 /\ step = 0
         /\ last = NoLoad

SaveCP(k, cls) == /\ ver < MaxVer
                  /\ ver' = ver + 1
                  /\ coord' = SavedDoc(k, [cls |-> cls, ver |-> ver + 1])
                  /\ last' = NoLoad                 \* the judgement of a load refers to the documents at that time
                  /\ UNCHANGED <<local, step>>

Sync(k) == /\ coord # NoDoc
           /\ local' = coord                                   \* persist what the coordinator holds
           /\ last' = [src |-> "sync", key |-> k] @@ DecDoc(k, coord)
           /\ UNCHANGED <<coord, ver, step>>

LoadLocal(k) == /\ local # NoDoc
                /\ last' = [src |-> "local", key |-> k] @@ DecDoc(k, local)
                /\ UNCHANGED <<coord, local, ver, step>>

LoadCoord(k) == /\ coord # NoDoc
                /\ last' = [src |-> "coord", key |-> k] @@ DecDoc(k, coord)
                /\ UNCHANGED <<coord, local, ver, step>>

SNext == \/ \E k \in SaveKeys, cls \in SyncClasses : SaveCP(k, cls)
         \/ \E k \in ProxyKeys : Sync(k) \/ LoadLocal(k) \/ LoadCoord(k)

SSpec == SInit /\ [][SNext]_svars

-----------------------------------------------------------------------------------
(* the document a load reads *)
Source == IF last.src = "local" THEN local ELSE coord
LoadRoundTrip == (last.src # "none" /\ Source.cipher /\ last.key = Source.key) =>
                     (last.st = "data" /\ last.v = Source.plain)
LocalIsCopy == local # NoDoc => (local.flag /\ local.cipher)          \* never clear text flagged as encrypted
LocalNotNewer == local.plain.ver <= coord.plain.ver
===================================================================================
