------------------------------ MODULE Balancer_gen ------------------------------
(* Scenario generation for the V-direction check of C25 (harness/backend/balancer_test.go):     *)
(* every replica list within the bounds (or a seeded random subset of them), every initial         *)
(* status vector (or a random subset), with a script of selections and status changes that          *)
(* exercises, for every local-read policy: more than two full windows with all replicas up, every    *)
(* single status flip (cumulatively, so multi-node outages occur), and recovery to all-up.          *)
(* The script carries no expected results: which node is selected is the implementation's           *)
(* freedom; the recorded selections are judged by Balancer_trace.                                  *)
EXTENDS Balancer, TLC, Json

CONSTANTS GenNs,        \* set of list lengths
          GenW,         \* maximal weight
          SampleCfg,    \* 0: all configurations of each length; k > 0: k pseudo-random ones per length
          SampleSt,     \* 0: all initial status vectors; k > 0: all-up plus k pseudo-random ones
          Seed,         \* 1..65536: the samples are a function of the seed (reproducible per VERIF_SEED)
          Concurrent,   \* number of goroutines of the concurrent selection steps (0 = none)
          WrapProbe     \* BOOLEAN: add a step that moves the selection counter next to its uint32 wrap-around

(* a small deterministic hash: j-th sample, position i, stream s *)
R(k, j, i, s) == (((Seed + j * 131 + k * 17) * (2 * i + 1) * 75 + s * 7919 + j * i * 31) % 65537)

AllCfg(k) == [n : {k}, w : [1..k -> 0..GenW], dc : [1..k -> {0, 1}]]
CfgOf(k)  == IF SampleCfg = 0 THEN AllCfg(k)
             ELSE {[n |-> k, w |-> [i \in 1..k |-> R(k, j, i, 1) % (GenW + 1)], dc |-> [i \in 1..k |-> (R(k, j, i, 2) \div 16) % 2]]
                     : j \in 1..SampleCfg}
StOf(cf)  == IF SampleSt = 0 THEN [1..cf.n -> {Up, Down}]
             ELSE {[i \in 1..cf.n |-> Up]}
                  \cup {[i \in 1..cf.n |-> IF (R(cf.n, j, i + cf.w[i], 3) \div 8) % 3 = 0 THEN Down ELSE Up] : j \in 1..SampleSt}

GenInit == /\ c \in UNION {CfgOf(k) : k \in GenNs}
           /\ st \in StOf(c)
           /\ q = <<>> /\ ctr = <<>> /\ run = EmptyRun /\ last = <<>>     \* unused here
GenNext == UNCHANGED bvars
GenSpec == GenInit /\ [][GenNext]_bvars

Pols4 == <<PolClosed, PolPrefer, PolForce, 3>>     \* 3: an unknown policy value is served like "closed"
PicksAll(k) == [j \in 1..4 |-> [op |-> "picks", pol |-> Pols4[j], n |-> k]]

RECURSIVE Flips(_, _, _)
Flips(i, cur, small) ==
    IF i > c.n THEN <<>>
    ELSE <<[op |-> "set", node |-> i, st |-> 1 - cur[i]]>> \o PicksAll(small) \o Flips(i + 1, cur, small)

RECURSIVE AllUpSteps(_, _)
AllUpSteps(i, cur) ==
    IF i > c.n THEN <<>>
    ELSE (IF cur[i] = Down THEN <<[op |-> "set", node |-> i, st |-> Up]>> ELSE <<>>) \o AllUpSteps(i + 1, cur)

Steps ==
    LET L == WinLen(c, "global")
        big == 2 * L + 1
        small == L + 1
        flipped == [i \in 1..c.n |-> 1 - st[i]]
    IN PicksAll(big) \o Flips(1, st, small) \o AllUpSteps(1, flipped) \o PicksAll(big)
       \o (IF WrapProbe THEN <<[op |-> "wrap"]>> \o PicksAll(big) ELSE <<>>)
       \o (IF Concurrent > 0
           THEN [j \in 1..4 |-> [op |-> "cpicks", pol |-> Pols4[j], n |-> 3 * L + (j - 1), g |-> Concurrent]]
                \o PicksAll(big)
           ELSE <<>>)

Emit == PrintT(<<"CASE", ToJson([n |-> c.n, w |-> c.w, dc |-> c.dc, st |-> st, steps |-> Steps])>>)
==================================================================================
