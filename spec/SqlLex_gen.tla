------------------------------- MODULE SqlLex_gen -------------------------------
(* Case generation for conformance (C14, C17): every enumerated text is printed with what  *)
(* the specification says about it: every "?" with its context class and taint (markers =   *)
(* those of class N), the non-blank pieces as <<start, end>> offsets, the offsets of the     *)
(* separators, and whether the text ends outside every string / block comment.              *)
EXTENDS SqlLex, Json

CONSTANT MinLen     \* only texts with at least this many symbols after the prefix are printed

Emit == Len(text) >= Len(Prefix) + MinLen =>
          LET F == Finish(lx) IN
          PrintT(<<"CASE", ToJson([text |-> text, wf |-> F.wf, qs |-> F.qs, pieces |-> F.pieces, seps |-> F.seps])>>)
===================================================================================
