-------------------------------- MODULE SqlLex_mc --------------------------------
(* Stand-alone exhaustive configuration of SqlLex (the checks generate the same shape with *)
(* other alphabets, see checks/_stmt.py): every text over the full 13-symbol alphabet up   *)
(* to 3 symbols, with the automaton's sanity invariants.                                   *)
EXTENDS SqlLex
McWords == {<<"a">>, <<"QM">>, <<"SQ">>, <<"DQ">>, <<"BQ">>, <<"BS">>, <<"DASH">>, <<"SP">>, <<"HASH">>,
            <<"SL">>, <<"ST">>, <<"NL">>, <<"SEMI">>}
McPrefix == <<>>
===================================================================================
