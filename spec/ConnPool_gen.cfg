\* every behaviour (no VIEW: the history is part of the state) of 2 clients x 1 round, capacity 2, one Close: 40,146 states, 7,852 complete behaviours
\* (checks/C24.py generates the configurations it runs from the same templates; measured sizes are in evidence/C24.json)
SPECIFICATION GSpec
CONSTANTS
  Clients = {"c1","c2"}
  Cap = 2
  Rounds = 1
INVARIANTS CEmit C_PutNeverFails
CHECK_DEADLOCK FALSE
