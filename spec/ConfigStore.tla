------------------------------- MODULE ConfigStore -------------------------------
(* Storage of namespace configurations in XiaoMi/Gaea (property C33):                           *)
(*   models/namespace.go    Verify / Encrypt / Decrypt / Encode                                  *)
(*   util/crypto/xaes_ecb.go EncryptECB / DecryptECB / pkcs5Padding / pkcs5UnPadding              *)
(*   models/store.go        UpdateNamespace / LoadNamespace / NamespacePath                       *)
(*   models/local_client.go safeJoinPath / FullNamespacePath (the proxy's local copy)             *)
(*                                                                                                *)
(* Three parts, each with an implementation-shaped definition (I) and the property (P):           *)
(*  1. Padding: Pad / Unpad on byte sequences exactly as written; P: Unpad(Pad(s)) = s and        *)
(*     Unpad is total (the slice bounds it uses are always valid).                                *)
(*  2. Round trip: Save = Verify ; Encrypt_k (per protected field: Pad, cipher, base64) ; Encode ; *)
(*     Load = Decode ; Verify ; Decrypt_k.  The block cipher is an abstract bijection per key      *)
(*     (a block is tagged with the key that encrypted it); base64 and JSON are abstract            *)
(*     injections.  P: Load(k, Save(k, ns)) = ns whenever Save succeeds.                           *)
(*  3. Paths: NamespacePath = filepath.Join(prefix, "namespace", name), then LocalClient's         *)
(*     safeJoinPath and FullNamespacePath (+ ".json"), on sequences of path segments.              *)
(*     P: a path that is not rejected lies inside the storage root.                                *)
(*     (I-level of the repaired code, commit 894f0d4.)                                             *)
(* The state machine is a one-step case enumeration (pick a case, evaluate it): TLC's job here is  *)
(* to decide the three properties over the enumerated classes and to emit the cases with the       *)
(* specification's expected outcome for replay on the real functions.                             *)
EXTENDS Integers, Sequences, FiniteSets

CONSTANTS BS,            \* cipher block size used for the padding model (16 in the code; small for model checking)
          Bytes,         \* byte values used in padding sequences (must contain the interesting pad values)
          MaxLen,        \* padding model: sequences up to this length
          Segs,          \* path segment classes (strings)
          MaxSegs,       \* names have 1..MaxSegs segments
          Prefixes       \* coordinator root classes: "none" (""), "abs" ("/gaea"), "rel" ("gaea"), "deep" ("/gaea/c1")

-----------------------------------------------------------------------------------
(* 1. Padding (xaes_ecb.go:24-44).                                                                 *)
Rep(n, v) == [i \in 1..n |-> v]
Pad(s) == LET n == BS - (Len(s) % BS) IN s \o Rep(n, n)

(* pkcs5UnPadding: result [st |-> "data", v |-> ..] / "err" / "panic" (slice bounds out of range) *)
Unpad(t) ==
    IF Len(t) <= 0 THEN [st |-> "data", v |-> t]
    ELSE LET u == t[Len(t)] IN
         IF Len(t) < u THEN [st |-> "err", v |-> <<>>]
         ELSE LET hi == Len(t) - u IN
              IF hi < 0 \/ hi > Len(t) THEN [st |-> "panic", v |-> <<>>]      \* origData[:hi]
              ELSE [st |-> "data", v |-> SubSeq(t, 1, hi)]

SeqsUpTo(n) == UNION {[1..k -> Bytes] : k \in 0..n}

PadRoundTrip == \A s \in SeqsUpTo(MaxLen) : /\ Len(Pad(s)) % BS = 0
                                            /\ Len(Pad(s)) > Len(s)
                                            /\ Unpad(Pad(s)) = [st |-> "data", v |-> s]
UnpadTotal   == \A t \in SeqsUpTo(MaxLen) : Unpad(t).st \in {"data", "err"}
(* what a last byte u does to a decrypted text of length n (used for the ciphertext classes) *)
UnpadLen(n, u) == IF n = 0 THEN [st |-> "data", len |-> 0]
                  ELSE IF n < u THEN [st |-> "err", len |-> 0] ELSE [st |-> "data", len |-> n - u]

-----------------------------------------------------------------------------------
(* 2. Round trip of the protected fields.                                                          *)
(* Field content classes; what matters to the code: emptiness (Verify), surrounding white space     *)
(* (Verify trims user name / password), length relative to the block size, byte values that JSON    *)
(* or base64 could damage.                                                                          *)
FieldClasses == {"empty", "len15", "len16", "len17", "nonutf8", "quote", "backslash", "ws", "plain", "long"}
KeyClasses   == {"k16", "k24", "k32", "k0", "k5", "k17", "k33"}
ValidKey(k)  == k \in {"k16", "k24", "k32"}                       \* aes.NewCipher

(* Abstract cipher on byte sequences: EncryptECB pads and enciphers block by block; a cipher block  *)
(* is the plaintext block tagged with the key (a bijection per key).  DecryptECB with the same key    *)
(* recovers the blocks and unpads; with another key every block decrypts to some other block         *)
(* (Garbage: any bytes of the same length).                                                           *)
Blocks(t) == [i \in 1..(Len(t) \div BS) |-> SubSeq(t, (i - 1) * BS + 1, i * BS)]
EncryptSeq(k, s) == [i \in 1..(Len(Pad(s)) \div BS) |-> [key |-> k, blk |-> Blocks(Pad(s))[i]]]
RECURSIVE Concat(_, _)
Concat(bs, i) == IF i > Len(bs) THEN <<>> ELSE bs[i].blk \o Concat(bs, i + 1)
DecryptSeq(k, c) == IF \A i \in 1..Len(c) : c[i].key = k THEN Unpad(Concat(c, 1))
                    ELSE [st |-> "garbage", v |-> <<>>]
SeqRoundTrip == \A s \in SeqsUpTo(MaxLen) : \A k \in {"k16", "k32"} :
                    /\ DecryptSeq(k, EncryptSeq(k, s)) = [st |-> "data", v |-> s]
                    /\ DecryptSeq("k24", EncryptSeq(k, s)).st = "garbage"
(* class level, for the emitted cases *)
Enc(k, f) == [key |-> k, plain |-> f]
Dec(k, c) == IF c.key = k THEN [st |-> "data", v |-> c.plain] ELSE [st |-> "garbage", v |-> "?"]

(* Verify (namespace.go:153, user.go:60, slice.go:40): which field classes are refused where. *)
Refused(field, cls) == /\ cls = "empty"
                       /\ field \in {"user.name", "user.password", "slice.user"}

ProtectedFields == {"user.name", "user.password", "slice.user", "slice.password"}

(* Save then Load with the same key: the P-level expectation per field. *)
SaveOutcome(k, cfg) ==                       \* cfg \in [ProtectedFields -> FieldClasses]
    IF \E f \in ProtectedFields : Refused(f, cfg[f]) THEN "verify-error"
    ELSE IF ~ValidKey(k) THEN "encrypt-error"
    ELSE "saved"

RoundTripHolds == \A k \in KeyClasses, c \in FieldClasses :
                      ValidKey(k) => Dec(k, Enc(k, c)) = [st |-> "data", v |-> c]

-----------------------------------------------------------------------------------
(* 3. Paths.  A path is a sequence of segments; abs = it started with "/".                          *)
Forbidden == {"<x", "a|b", "q?", "s*r", "d\"q", "g>"}            \* segments containing one of <>"|?*
IsLong(s) == s = "LONG"                                            \* a segment of 1100 characters

(* filepath.Clean on segments: returns [abs, segs] *)
RECURSIVE CleanFrom(_, _, _, _)
CleanFrom(abs, segs, i, out) ==
    IF i > Len(segs) THEN out
    ELSE LET s == segs[i] IN
         IF s = "" \/ s = "." THEN CleanFrom(abs, segs, i + 1, out)
         ELSE IF s = ".." THEN
                  IF Len(out) > 0 /\ out[Len(out)] # ".." THEN CleanFrom(abs, segs, i + 1, SubSeq(out, 1, Len(out) - 1))
                  ELSE IF abs THEN CleanFrom(abs, segs, i + 1, out)
                  ELSE CleanFrom(abs, segs, i + 1, Append(out, ".."))
         ELSE CleanFrom(abs, segs, i + 1, Append(out, s))
Clean(abs, segs) == CleanFrom(abs, segs, 1, <<>>)

(* a prefix as segments; a leading "" segment = the path starts with "/" *)
PrefixSegs(p) == CASE p = "none" -> <<>> [] p = "abs" -> <<"", "gaea">> [] p = "rel" -> <<"gaea">> [] OTHER -> <<"", "gaea", "c1">>
IsAbs(p) == Len(p) > 0 /\ p[1] = ""
(* filepath.Join(prefix, "namespace", name): empty elements are ignored, the rest joined by "/" and cleaned *)
NamespacePath(pre, name) ==
    LET prefix == PrefixSegs(pre)
        raw == prefix \o <<"namespace">> \o name
        abs == IsAbs(prefix)                     \* only the prefix can make the joined path absolute
    IN [abs |-> abs, segs |-> Clean(abs, raw)]

(* safeJoinPath (local_client.go:358): the relative path below the storage root, or rejected. *)
SafeJoin(p) ==
    LET rel == p.segs           \* Rel("/", abs path) and Clean of a clean path: the same segments
    IN IF Len(rel) > 0 /\ rel[1] = ".." THEN [ok |-> FALSE, why |-> "traversal", rel |-> <<>>]
       ELSE IF \E i \in 1..Len(rel) : rel[i] \in Forbidden THEN [ok |-> FALSE, why |-> "characters", rel |-> <<>>]
       ELSE IF \E i \in 1..Len(rel) : IsLong(rel[i]) THEN [ok |-> FALSE, why |-> "length", rel |-> <<>>]
       ELSE [ok |-> TRUE, why |-> "", rel |-> rel]

(* FullNamespacePath = filepath.Join(storagePath, rel) + ".json".  Location relative to the storage    *)
(* root: up = how many levels above the root the file's directory is, dir = directories below that,    *)
(* base = file name without the suffix.  A relative path that is empty (the path resolves to the       *)
(* storage root itself, e.g. name ".." with an empty coordinator root) is refused: appending the        *)
(* suffix to the root would name the file <root>.json next to it (fix 894f0d4; before it the code       *)
(* returned exactly that location and TLC reported the escape).                                         *)
FullNamespacePath(prefix, name) ==
    LET r == SafeJoin(NamespacePath(prefix, name)) IN
    IF ~r.ok THEN [ok |-> FALSE, why |-> r.why, up |-> 0, dir |-> <<>>, base |-> ""]
    ELSE IF r.rel = <<>> THEN [ok |-> FALSE, why |-> "root", up |-> 0, dir |-> <<>>, base |-> ""]
    ELSE [ok |-> TRUE, why |-> "", up |-> 0, dir |-> SubSeq(r.rel, 1, Len(r.rel) - 1), base |-> r.rel[Len(r.rel)]]

(* P-level: inside the storage root. *)
Inside(loc) == loc.up = 0 /\ \A i \in 1..Len(loc.dir) : loc.dir[i] # ".."

Names == UNION {[1..k -> Segs] : k \in 1..MaxSegs}
Confined == \A pre \in Prefixes, n \in Names :
               LET loc == FullNamespacePath(pre, n) IN loc.ok => Inside(loc)

-----------------------------------------------------------------------------------
VARIABLE step
Init == step = 0
Next == step = 0 /\ step' = 1
Spec == Init /\ [][Next]_step

PaddingOK   == step = 1 => (PadRoundTrip /\ UnpadTotal)
RoundTripOK == step = 1 => (RoundTripHolds /\ SeqRoundTrip)
PathsOK     == step = 1 => Confined
===================================================================================
