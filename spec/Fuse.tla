---------------------------------- MODULE Fuse ----------------------------------
(* Circuit breaker of XiaoMi/Gaea replicas (backend/slide.go, node_fuse.go, slice.go         *)
(* TryFuse / checkWith{Hard,Gradual}Recovery step 5).                                         *)
(*                                                                                            *)
(* Two levels in one module.                                                                  *)
(*  P-level (what properties C26 / C27 say):                                                  *)
(*    - reference count  Count(h, t) = |{ i : t - W < h[i] <= t }|  over the history h of      *)
(*      connection-error timestamps; the breaker fires exactly when Count >= Min;             *)
(*    - hard policy: a replica goes Down -> Up only when now >= latest fuse + Cool;           *)
(*    - gradual policy: a replica goes Down -> Up only after `need` passing probes since the   *)
(*      last failed probe / fuse, need grows with the bad-recovery level;                      *)
(*    - once the condition holds the next passing probe marks the replica up.                  *)
(*    Kept in the ghost record g (never read by the I-level).                                  *)
(*  I-level (what the code does): the bucket ring of SlidingWindow (buckets indexed by         *)
(*    now % W, startSec, allErrorCount), lastFuseTime, the consecutiveSuccessCheckCount         *)
(*    countdown, errorRecoveryCount, lastRecoveryTime.  Kept in the record n.                  *)
(* TLC proves the I-level equal to the P-level (RingIsCount, StatusIsP, CountdownIsNeed).       *)
(* Time unit: one second (the code uses time.Now().Unix()).                                    *)
EXTENDS Integers, Sequences, FiniteSets

CONSTANTS W,           \* window length in seconds (<= 0: NewSlidingWindow returns a disabled window)
          Min,         \* fuse threshold (<= 0: disabled)
          Policy,      \* "off" (no strategies installed), "hard", "gradual"
          Cool,        \* hard cool-down in seconds (InitFuseRecoveryPolicy: > 0 selects "hard")
          PingPeriod,  \* 4 in the code; bad recovery = fused again within 2*PingPeriod of recovering
          InitErr,     \* initErrorRecoveryCount = 3
          MaxPenalty   \* maxPenalty = 120

None == -1
Up == 1
Down == 0

----------------------------------------------------------------------------------
(* Sliding window: reference and ring *)

Count(h, t) == Cardinality({i \in 1..Len(h) : t - W < h[i] /\ h[i] <= t})

WinEnabled == W > 0 /\ Min > 0

EmptyRing == [b |-> [i \in 0..(W-1) |-> None], start |-> 0, all |-> 0]

RECURSIVE SumSet(_, _)
SumSet(f, S) == IF S = {} THEN 0 ELSE LET x == CHOOSE y \in S : TRUE IN f[x] + SumSet(f, S \ {x})

(* SlidingWindow.slide(newStartSec) *)
Slide(r, ns) ==
    IF ns - r.start >= W
    THEN [b |-> [i \in 0..(W-1) |-> None], start |-> ns, all |-> 0]
    ELSE LET expired == {s % W : s \in r.start..(ns-1)}
             live    == {i \in expired : r.b[i] # None}
         IN [b |-> [i \in 0..(W-1) |-> IF i \in expired THEN None ELSE r.b[i]],
             start |-> ns,
             all |-> r.all - SumSet(r.b, live)]

(* SlidingWindow.Trigger(now) up to the return statement (enabled window) *)
RingStep(r, t) ==
    LET ns  == t - W + 1
        r1  == IF ns > r.start THEN Slide(r, ns) ELSE r
        idx == t % W
        c   == IF r1.b[idx] = None THEN 0 ELSE r1.b[idx]
    IN [b |-> [r1.b EXCEPT ![idx] = c + 1], start |-> r1.start, all |-> r1.all + 1]

RingTrigger(r) == r.all >= Min

----------------------------------------------------------------------------------
(* Node with breaker and recovery policy *)

VARIABLES now,   \* virtual clock (seconds)
          n,     \* I-level node state
          g,     \* P-level ghost state
          last   \* what the last event was and what the two levels say about it (for emission)

fvars == <<now, n, g, last>>

ErrKinds  == {"conn", "pool_timeout", "nil", "sql", "plain", "ctx"}
Counts(k) == k \in {"conn", "pool_timeout"}     \* mysql.AsConnError: only ConnTypeError values

Pen(k)  == ((1 + k) * k) \div 2
Cap(x)  == IF x < MaxPenalty THEN x ELSE MaxPenalty
Max0(x) == IF x > 0 THEN x ELSE 0

HasStrategies == Policy # "off"

InitNode(t0) == [st |-> Up,
                 ring |-> IF WinEnabled THEN EmptyRing ELSE [b |-> <<>>, start |-> 0, all |-> 0],
                 lastFuse |-> 0,        \* HardCoolDownStrategy.lastFuseTime / GradualRecoveryStrategy.lastFuseTime
                 cnt |-> 0,             \* consecutiveSuccessCheckCount
                 errCnt |-> InitErr,    \* errorRecoveryCount
                 lastRec |-> t0]        \* lastRecoveryTime (construction time)

InitGhost(t0) == [hist |-> <<>>,        \* timestamps of connection errors seen by the breaker
                  fusedAt |-> None,     \* time of the latest breaker firing
                  need |-> 0,           \* passing probes required before the replica may come up (gradual)
                  succ |-> 0,           \* passing probes since the last failed probe / fuse
                  level |-> InitErr,    \* bad-recovery level
                  upAt |-> t0]          \* time of the last recovery (gradual)

(* ---- I-level: Slice.TryFuse(node, err) ---- *)
ITryFuse(m, t, kind) ==
    IF ~HasStrategies \/ ~Counts(kind) \/ ~WinEnabled THEN m
    ELSE LET r == RingStep(m.ring, t)
             m1 == [m EXCEPT !.ring = r]
         IN IF ~RingTrigger(r) THEN m1
            ELSE LET changed == (m.st = Up)
                     m2 == [m1 EXCEPT !.st = Down]
                 IN IF Policy = "hard" THEN [m2 EXCEPT !.lastFuse = t]
                    ELSE IF ~changed THEN m2
                    ELSE IF t - m.lastRec <= 2 * PingPeriod
                         THEN [m2 EXCEPT !.lastFuse = t, !.errCnt = m.errCnt + 1,
                                         !.cnt = Cap(Pen(m.errCnt + 1))]
                         ELSE [m2 EXCEPT !.lastFuse = t, !.errCnt = InitErr]

(* ---- I-level: `conn == nil && node.IsStatusDown()` => RefreshCoolDownCount (gradual only) ---- *)
IProbeFailed(m) ==
    IF Policy = "gradual" /\ m.st = Down THEN [m EXCEPT !.cnt = Cap(Pen(m.errCnt))] ELSE m

(* ---- I-level: step 5 of checkWith*Recovery (conn != nil, all checks passed) ---- *)
IRecover(m, t) ==
    IF m.st # Down THEN m
    ELSE IF Policy = "hard" THEN (IF t >= m.lastFuse + Cool THEN [m EXCEPT !.st = Up] ELSE m)
    ELSE IF Policy = "gradual" THEN (IF m.cnt > 0 THEN [m EXCEPT !.cnt = m.cnt - 1]
                                     ELSE [m EXCEPT !.st = Up, !.lastRec = t])
    ELSE [m EXCEPT !.st = Up]

(* ---- P-level ---- *)
(* the breaker must fire at this error? (the error at time t is already part of h) *)
PFires(h) == HasStrategies /\ WinEnabled /\ Len(h) > 0 /\ Count(h, h[Len(h)]) >= Min

PTryFuse(st, gg, t, kind) ==
    IF ~HasStrategies \/ ~WinEnabled \/ ~Counts(kind) THEN [st |-> st, g |-> gg]
    ELSE LET h == Append(gg.hist, t)
             g1 == [gg EXCEPT !.hist = h]
         IN IF ~PFires(h) THEN [st |-> st, g |-> g1]
            ELSE IF Policy = "hard" THEN [st |-> Down, g |-> [g1 EXCEPT !.fusedAt = t]]
            ELSE IF st = Down THEN [st |-> Down, g |-> [g1 EXCEPT !.fusedAt = t]]
            ELSE IF t - gg.upAt <= 2 * PingPeriod
                 THEN [st |-> Down, g |-> [g1 EXCEPT !.fusedAt = t, !.level = gg.level + 1,
                                                   !.need = Cap(Pen(gg.level + 1)), !.succ = 0]]
                 ELSE [st |-> Down, g |-> [g1 EXCEPT !.fusedAt = t, !.level = InitErr]]

PProbeFailed(st, gg) ==
    IF Policy = "gradual" /\ st = Down THEN [gg EXCEPT !.need = Cap(Pen(gg.level)), !.succ = 0] ELSE gg

(* may a Down replica come up at time t? *)
PMayRecover(gg, t) ==
    CASE Policy = "hard"    -> gg.fusedAt = None \/ t >= gg.fusedAt + Cool
      [] Policy = "gradual" -> gg.succ >= gg.need
      [] OTHER              -> TRUE

(* a passing probe round of a Down replica *)
PRecover(st, gg, t) ==
    IF st # Down THEN [st |-> st, g |-> gg]
    ELSE IF PMayRecover(gg, t)
         THEN [st |-> Up, g |-> IF Policy = "gradual" THEN [gg EXCEPT !.upAt = t, !.need = 0, !.succ = 0] ELSE gg]
         ELSE [st |-> Down, g |-> IF Policy = "gradual" THEN [gg EXCEPT !.succ = gg.succ + 1] ELSE gg]

----------------------------------------------------------------------------------
(* Stand-alone behaviours: one replica, events ConnErr / ProbeOK / ProbeFail / Tick *)

CONSTANTS T0,        \* start time
          MaxTime,   \* bound on the clock (model checking only)
          MaxTick    \* largest single clock advance

FInit == /\ now = T0
         /\ n = InitNode(T0)
         /\ g = InitGhost(T0)
         /\ last = [ev |-> "init"]

ConnErr(kind) ==
    LET i == ITryFuse(n, now, kind)
        p == PTryFuse(n.st, g, now, kind)
    IN /\ n' = i
       /\ g' = p.g
       /\ last' = [ev |-> "err", kind |-> kind, t |-> now, i |-> i.st, p |-> p.st,
                   count |-> IF Counts(kind) /\ WinEnabled /\ HasStrategies THEN Count(p.g.hist, now) ELSE 0,
                   why |-> IF ~HasStrategies THEN "breaker-not-installed"
                           ELSE IF ~WinEnabled THEN "breaker-disabled"
                           ELSE IF ~Counts(kind) THEN "not-a-connection-error"
                           ELSE IF PFires(p.g.hist) THEN "threshold-reached" ELSE "below-threshold"]
       /\ UNCHANGED now

ProbeOK ==
    LET i == IRecover(n, now)
        p == PRecover(n.st, g, now)
    IN /\ n' = i
       /\ g' = p.g
       /\ last' = [ev |-> "probe", ok |-> TRUE, t |-> now, i |-> i.st, p |-> p.st,
                   why |-> IF n.st = Up THEN "already-up"
                           ELSE CASE Policy = "hard" -> IF PMayRecover(g, now) THEN "cooldown-over" ELSE "cooling-down"
                                  [] Policy = "gradual" -> IF PMayRecover(g, now) THEN "penalty-served" ELSE "penalty-pending"
                                  [] OTHER -> "probe-passed"]
       /\ UNCHANGED now

ProbeFail ==
    /\ n' = IProbeFailed(n)
    /\ g' = PProbeFailed(n.st, g)
    /\ last' = [ev |-> "probe", ok |-> FALSE, t |-> now, i |-> n.st, p |-> n.st, why |-> "probe-failed"]
    /\ UNCHANGED now

Tick(d) == /\ now + d <= MaxTime
           /\ now' = now + d
           /\ last' = [ev |-> "tick", d |-> d, t |-> now + d, i |-> n.st, p |-> n.st, why |-> "clock-advance"]
           /\ UNCHANGED <<n, g>>

FNext == \/ \E k \in ErrKinds : ConnErr(k)
         \/ ProbeOK
         \/ ProbeFail
         \/ \E d \in 1..MaxTick : Tick(d)

FSpec == FInit /\ [][FNext]_fvars

----------------------------------------------------------------------------------
(* Properties *)

(* C26: the ring is the reference count, for every threshold at once *)
RingIsCount ==
    (HasStrategies /\ WinEnabled /\ Len(g.hist) > 0) => n.ring.all = Count(g.hist, g.hist[Len(g.hist)])

(* C26 / C27: the implementation's status decision is the property-level decision at every event *)
StatusIsP == last.ev # "init" => last.i = last.p

(* C26: exactly-when, stated directly on the events *)
FusedExactlyWhen ==
    [][last'.ev = "err" =>
          /\ (n.st = Up /\ n'.st = Down) <=> (n.st = Up /\ Counts(last'.kind) /\ HasStrategies /\ WinEnabled
                                               /\ Count(g'.hist, now) >= Min)
          /\ n.st = Down => n'.st = Down
          /\ ~Counts(last'.kind) => n' = n]_fvars

(* C27: never up before the condition; up as soon as it holds and the probe passes *)
IsPass == last'.ev = "probe" /\ last'.ok
NoEarlyRecovery ==
    [][(n.st = Down /\ n'.st = Up) => (IsPass /\ PMayRecover(g, now))]_fvars
RecoversWhenDue ==
    [][(IsPass /\ n.st = Down /\ PMayRecover(g, now)) => n'.st = Up]_fvars

(* C27 gradual: the code's countdown is need - succ; an Up replica has no pending countdown *)
CountdownIsNeed ==
    Policy = "gradual" => /\ n.errCnt = g.level
                          /\ n.lastRec = g.upAt
                          /\ (n.st = Down => n.cnt = Max0(g.need - g.succ))
                          /\ (n.st = Up => n.cnt = 0 /\ g.need = 0)
HardFuseTime ==
    Policy = "hard" => (g.fusedAt # None => n.lastFuse = g.fusedAt)

(* C27 gradual: penalty grows exactly on a bad recovery and is reset otherwise *)
PenaltyGrowth ==
    [][(last'.ev = "err" /\ Policy = "gradual" /\ n.st = Up /\ n'.st = Down) =>
          IF now - n.lastRec <= 2 * PingPeriod
          THEN n'.errCnt = n.errCnt + 1 /\ n'.cnt = Cap(Pen(n.errCnt + 1))
          ELSE n'.errCnt = InitErr /\ n'.cnt = 0]_fvars

(* Model-checking aids.  Timestamps that left the window can never count again (the clock is      *)
(* non-decreasing), so two states that differ only in such timestamps have the same future: the   *)
(* VIEW keeps the in-window part of the history only.                                             *)
InWindow(h, t) == SelectSeq(h, LAMBDA x : x > t - W)
(* `last` is never read by an action (it only reports), so it is left out of the view as well; the   *)
(* action properties above are evaluated on every transition regardless of the view.              *)
FView == <<now, n, [g EXCEPT !.hist = InWindow(g.hist, now)]>>
CONSTANT MaxLevel      \* model checking only: bound on the bad-recovery level explored
FConstraint == /\ n.ring.all <= Min + 1
               /\ n.errCnt <= MaxLevel

FTypeOK == /\ n.st \in {Up, Down}
           /\ n.cnt \in 0..MaxPenalty
           /\ n.errCnt >= InitErr
==================================================================================
