--------------------------------- MODULE Auth_hs ---------------------------------
(* The password check of the client handshake (Auth.tla part 1, property C30) as a         *)
(* machine: an administrator configures credentials for a user name (several passwords    *)
(* per name: the same name may exist in several namespaces; clear text or '*'-hash),        *)
(* then a client says hello with a plugin field and an auth response, and the proxy        *)
(* decides.  The decided states are the cases: Emit prints them with the verdict of        *)
(* Accept for the conformance harness, which instantiates the abstract proofs with          *)
(* crypto/sha1 / crypto/sha256 and replays them on the real check functions.                *)
EXTENDS Auth, TLC, Json

CONSTANTS Passwords,     \* non-empty passwords that may be configured for the user, e.g. {"p1", "p2"}
          FirstPw,       \* one element of Passwords
          StarPasswords, \* clear-text passwords that begin with '*' without being a hash: subset of {"s:short", "s:long", "s:nonhex"}
          OtherPw,       \* a password configured for another user only
          Salts,         \* salts; ServerSalt is the one of this connection
          ServerSalt,
          Plugins,       \* plugin fields as seen by the check
          MaxStored,     \* credentials per user name
          EmitCases

VARIABLES phase, stored, plugin, resp
vars == <<phase, stored, plugin, resp>>

Credentials == {Clear("")} \cup {Clear(p) : p \in Passwords \cup StarPasswords} \cup {Hashed(p) : p \in Passwords}
LiteralOf(p) == "*" \o p          \* the '*'-hash text of p used as a password
RespPw == Passwords \cup {OtherPw} \cup {LiteralOf(p) : p \in Passwords}
(* modified proofs are tried for this connection's salt; a proof for another salt (a replay) and the proofs of the *)
(* '*'-looking clear texts are tried unmodified                                                                  *)
Responses == {Empty} \cup {Tok(m, ServerSalt, pw, mod) : m \in Methods, pw \in RespPw, mod \in Mods}
                     \cup {Tok(m, s, pw, "none") : m \in Methods, s \in Salts, pw \in RespPw \cup StarPasswords}
(* the '*'-looking clear texts are configured alone or next to the first password in either form *)
IsStar(c) == c.pw \in StarPasswords
Partner(c) == c \in {Clear(FirstPw), Hashed(FirstPw)}

Init == phase = "config" /\ stored = <<>> /\ plugin = "" /\ resp = Empty

AddCredential == /\ phase = "config" /\ Len(stored) < MaxStored
                 /\ \E c \in Credentials :
                       /\ \A i \in 1..Len(stored) : stored[i] # c
                       /\ \A i \in 1..Len(stored) : (IsStar(c) => Partner(stored[i])) /\ (IsStar(stored[i]) => Partner(c))
                       /\ stored' = Append(stored, c)
                 /\ UNCHANGED <<phase, plugin, resp>>
Hello == /\ phase = "config" /\ Len(stored) >= 1
         /\ \E pl \in Plugins, r \in Responses : plugin' = pl /\ resp' = r
         /\ phase' = "decided"
         /\ UNCHANGED stored
Next == AddCredential \/ Hello
Spec == Init /\ [][Next]_vars

-----------------------------------------------------------------------------------
V == Verdict(stored, plugin, ServerSalt, resp)
HasPw(p) == \E i \in 1..Len(stored) : stored[i].pw = p

TypeOK == phase \in {"config", "decided"} /\ plugin \in Plugins /\ resp \in Responses

(* accepted proofs are unmodified, for this connection's salt, of a password configured for THIS user *)
Sound == (phase = "decided" /\ V = "accept") =>
            /\ resp.mod = "none"
            /\ resp = Empty \/ resp.salt = ServerSalt
            /\ HasPw(resp.pw)
(* another user's password, the text of the stored hash, a replayed proof (other salt) never pass *)
NeverAccepted == phase = "decided" =>
            /\ resp.pw = OtherPw => V = "reject"
            /\ (\E p \in Passwords : resp.pw = LiteralOf(p)) => V = "reject"
            /\ (resp # Empty /\ resp.salt # ServerSalt) => V = "reject"
            /\ resp.mod # "none" => V = "reject"
(* every configured credential can log in with the proof its stored form allows *)
Complete == phase = "decided" =>
            \A i \in 1..Len(stored) : \A m \in MethodsOf(plugin) :
                (Verifiable(stored[i], m) /\ resp = Proof(m, ServerSalt, stored[i].pw)) => V = "accept"
(* the empty response passes exactly when the empty password is configured *)
EmptyRule == (phase = "decided" /\ resp = Empty) => (V = "accept" <=> HasPw(""))
(* the order of the credentials is irrelevant *)
OrderFree == (phase = "decided" /\ Len(stored) = 2) => V = Verdict(<<stored[2], stored[1]>>, plugin, ServerSalt, resp)

(* per check function of UserManager: what each of them alone has to answer *)
NativeClear == \E i \in 1..Len(stored) : stored[i].form = "clear" /\ resp = Native(ServerSalt, stored[i].pw)
NativeHash  == \E i \in 1..Len(stored) : stored[i].form = "hash" /\ resp = Native(ServerSalt, stored[i].pw)
Sha2Clear   == \E i \in 1..Len(stored) : stored[i].form = "clear" /\ resp = Sha2(ServerSalt, stored[i].pw)

Emit == (EmitCases /\ phase = "decided") =>
          PrintT(<<"CASE", ToJson([stored |-> stored, plugin |-> plugin, salt |-> ServerSalt, resp |-> resp, verdict |-> V,
                                  native_clear |-> NativeClear, native_hash |-> NativeHash, sha2_clear |-> Sha2Clear])>>)
===================================================================================
