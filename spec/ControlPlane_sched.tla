--------------------------- MODULE ControlPlane_sched ---------------------------
(* Schedules of two concurrent control-plane operations on one namespace, for replay on the    *)
(* real cc/service code (property C32, "concurrent namespace changes").  The same actions as     *)
(* ControlPlane with the schedule as history; every quiescent state is printed with the final    *)
(* state of the protocol model and the verdict of AtomicConcurrent.  Used with -simulate (a      *)
(* seeded sample of interleavings) - the exhaustive decision is the model-checking run on        *)
(* ControlPlane itself.  Proxies must be 1..N.                                                    *)
EXTENDS ControlPlane, TLC, Json

VARIABLE sched

St(a, o, p, oc) == [act |-> a, op |-> o, p |-> p, oc |-> oc]

SchedInit == Init /\ sched = <<>>

SchedNext ==
    \E o \in Ops :
       \/ Load(o) /\ sched' = Append(sched, St("Load", o, 0, "ok"))
       \/ Update(o) /\ sched' = Append(sched, St("Update", o, 0, "ok"))
       \/ Rollback(o) /\ sched' = Append(sched, St("Rollback", o, 0, "ok"))
       \/ DelStore(o) /\ sched' = Append(sched, St("DelStore", o, 0, "ok"))
       \/ (PrepareDone(o) \/ CommitDone(o) \/ DelNoProxies(o)) /\ UNCHANGED sched
       \/ \E p \in Proxies, oc \in Outcomes \cup CommitOutcomes :
             \/ PrepareRPC(o, p, oc) /\ sched' = Append(sched, St("PrepareRPC", o, p, oc))
             \/ CommitRPC(o, p, oc) /\ sched' = Append(sched, St("CommitRPC", o, p, oc))
             \/ DelRPC(o, p, oc) /\ sched' = Append(sched, St("DelRPC", o, p, oc))

SchedSpec == SchedInit /\ [][SchedNext]_<<vars, sched>>

Emit == Quiescent =>
          PrintT(<<"CASE", ToJson([kind |-> KindA, ver |-> VerA, kindb |-> KindB, verb |-> VerB, old |-> Old,
                                  n |-> Cardinality(Proxies), steps |-> sched,
                                  expect |-> [store |-> store, active |-> active, reported |-> reported],
                                  atomic |-> AtomicConcurrent])>>)
===================================================================================
