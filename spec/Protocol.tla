-------------------------------- MODULE Protocol --------------------------------
(* The client <-> proxy command loop of XiaoMi/Gaea (proxy/server) at the level of MySQL   *)
(* packets.  Two parts share the module:                                                   *)
(*                                                                                          *)
(* PART R  (property C39)  result delivery.  A statement is answered by 1..4 per-shard      *)
(*   results (one per sub-table statement; the statements of one slice run one after the   *)
(*   other on that slice's connection, different slices run in parallel),                  *)
(*   each producing a sequence of rows of a given packet length.  The proxy's delivery     *)
(*   paths are actions: the backend reader takes row packets until the end of the result,  *)
(*   until the row limit is hit, or until more than Threshold bytes are buffered (the      *)
(*   reader then stops and raises the more-rows flag); an unsharded statement writes the   *)
(*   chunk and continues streaming while the flag is up; a sharded statement waits for     *)
(*   all backends and merges.  Property: what the client received is everything the        *)
(*   backends produced, or the client received an error; a per-backend result larger than  *)
(*   the limit is an error, a result within the limit is delivered in full.                *)
(*   The constants LimitInclusive / ShardIgnoresMore / LimitPerChunk select design         *)
(*   variants: all FALSE is the intended design (must satisfy the property, checked        *)
(*   exhaustively) and, since the fix commits 5a26ea1 / 9502c9e / d751f23, also the design *)
(*   of the code; all TRUE is the design as it was written before those commits.  The      *)
(*   terminal states of the selected variant are emitted as predictions, which the         *)
(*   conformance harness confirms or refutes on the real code (model drift, no verdict).   *)
(*                                                                                          *)
(* PART M  (property C38)  malformed client input.  The handshake response and every       *)
(*   command are field lists; malformation operators act on the field list (truncate at    *)
(*   every field boundary and one byte either side, oversize every length prefix, statement *)
(*   or parameter id out of range, wrong sequence id, zero length, header length that      *)
(*   disagrees with the bytes sent).  The grammar decides the expectation class of every   *)
(*   malformed packet ("reject": the client must receive an error packet or be             *)
(*   disconnected; "reject_or_ignore" for commands that have no answer; "any" when the     *)
(*   bytes are still grammatical) and the session machine states what must hold after any  *)
(*   input: the process is up, the listener accepts, healthy sessions get correct answers. *)
EXTENDS Integers, Sequences, FiniteSets, SequencesExt, TLC

CONSTANTS
    Limits,            \* R: row limits of the namespaces to enumerate; 0 = unlimited (config -1)
    UnlimCounts,       \* R: row counts enumerated under an unlimited namespace
    RowLens,           \* R: row packet lengths in bytes
    Threshold,         \* R: mysql.MaxPayloadLen = 2^24 - 1 (fits a TLC integer)
    MaxBytes,          \* R: tiering: per-shard results larger than this are left out
    MaxTotalBytes,     \* R: tiering: cases whose results together exceed this are left out
    LimitInclusive,    \* R: TRUE = the reader fails when rows >= limit (as written); FALSE = rows > limit
    ShardIgnoresMore,  \* R: TRUE = the sharded path merges first chunks and ignores the more-rows flag
    LimitPerChunk,     \* R: TRUE = the row counter restarts with every streamed chunk
    Shard4MaxLimit,    \* R: the four-sub-table mode is enumerated for limits 1..Shard4MaxLimit ...
    Shard4RowLens,     \* R: ... and these row lengths (tiering)
    Kinds,             \* M: packet kinds to enumerate
    MaxOps             \* M: malformation operators per packet (1 = singles, 2 = pairs)

--------------------------------------------------------------------------------
(*                                   PART R                                      *)

VARIABLES rcfg,     \* the case: [limit, mode, proto, rowlen, n] ; n = rows produced per backend
          rd,       \* rows taken from each backend's connection so far
          chunk,    \* rows in the reader's current buffer
          cbytes,   \* bytes in the reader's current buffer
          more,     \* more-rows flag of each backend connection
          bst,      \* reader state: "reading" | "chunkdone" | "limiterr" | "finished" | "absent"
          sent,     \* rows written to the client
          outcome   \* "pending" | "complete" (final EOF written) | "error" (ERR packet written)

rvars == <<rcfg, rd, chunk, cbytes, more, bst, sent, outcome>>

Modes  == {"unsharded", "shard1", "shard2", "shard4", "multi2"}
    \* shard4: two slices with two sub-table statements each
    \* multi2: an unsharded statement answered with two result sets (SERVER_MORE_RESULTS_EXISTS) on one connection
Protos == {"text", "binary"}

Plus(a, b) == a + b
CountsOf(l) == IF l = 0 THEN UnlimCounts ELSE {l - 1, l, l + 1}
CountVectors(l, m) == CASE m \in {"shard2", "multi2"} -> {<<a, b>> : a \in CountsOf(l), b \in CountsOf(l)}
                        [] m = "shard4" -> {<<a, b, c, d>> : a \in CountsOf(l), b \in CountsOf(l), c \in CountsOf(l), d \in CountsOf(l)}
                        [] OTHER -> {<<a>> : a \in CountsOf(l)}
Fits(c) == /\ \A i \in 1..Len(c.n) : c.n[i] * c.rowlen <= MaxBytes
           /\ FoldLeft(Plus, 0, c.n) * c.rowlen <= MaxTotalBytes
           /\ c.mode \in {"shard4", "multi2"} => c.limit \in 1..Shard4MaxLimit /\ c.rowlen \in Shard4RowLens

ResultCases ==
    {c \in UNION { { [limit |-> l, mode |-> m, proto |-> p, rowlen |-> s, n |-> v] : v \in CountVectors(l, m) }
                   : l \in Limits, m \in Modes, p \in Protos, s \in RowLens } : Fits(c)}

BE == 1..4
NB == Len(rcfg.n)
N(b) == IF b <= NB THEN rcfg.n[b] ELSE 0
Used == 1..NB
Streamed == rcfg.mode \in {"unsharded", "multi2"}     \* written to the client chunk by chunk, result set by result set
Sharded == ~Streamed
(* the slice (backend connection) a per-shard result / result set comes from *)
SliceOf(b) == CASE rcfg.mode = "shard4" -> (b + 1) \div 2 [] rcfg.mode = "multi2" -> 1 [] OTHER -> b

(* what the property demands for a case c, independent of any design variant *)
TotalOf(c) == FoldLeft(Plus, 0, c.n)
ExpectedOf(c) == IF c.limit > 0 /\ \E b \in 1..Len(c.n) : c.n[b] > c.limit THEN "error" ELSE "full"
(* the judgement of an answer (out = "complete" | "error", rows = rows the client received) *)
Judge(c, out, rows) == IF ExpectedOf(c) = "error" THEN out = "error"
                                                 ELSE out = "complete" /\ rows = TotalOf(c)
CrossesOf(c) == \E b \in 1..Len(c.n) : c.n[b] * c.rowlen > Threshold
Total == TotalOf(rcfg)
Expected == ExpectedOf(rcfg)
CrossesThreshold == CrossesOf(rcfg)

RInit == /\ rcfg \in ResultCases
         /\ rd = [b \in BE |-> 0]
         /\ chunk = [b \in BE |-> 0]
         /\ cbytes = [b \in BE |-> 0]
         /\ more = [b \in BE |-> FALSE]
         /\ bst = [b \in BE |-> IF b <= Len(rcfg.n) THEN "reading" ELSE "absent"]
         /\ sent = 0
         /\ outcome = "pending"

Exceeds(c) == IF LimitInclusive THEN c >= rcfg.limit ELSE c > rcfg.limit

(* executeMultipleSQLInSlice: the statements of one slice run in order on one connection; a statement *)
(* starts when the previous one has been read to its end (a failed one ends the slice's work)          *)
Finished(b) == bst[b] = "chunkdone" /\ (ShardIgnoresMore \/ ~more[b])
Turn(b) == \A p \in Used : (p < b /\ SliceOf(p) = SliceOf(b)) => IF Streamed THEN bst[p] = "finished" ELSE Finished(p)

(* DirectConnection.readResultRows: one row packet *)
ReadRow(b) ==
    /\ bst[b] = "reading" /\ rd[b] < N(b) /\ outcome = "pending" /\ Turn(b)
    /\ LET nrd == rd[b] + 1
           nch == chunk[b] + 1
           nby == cbytes[b] + rcfg.rowlen
           cnt == IF LimitPerChunk THEN nch ELSE nrd
       IN /\ rd' = [rd EXCEPT ![b] = nrd]
          /\ IF rcfg.limit > 0 /\ Exceeds(cnt)
             THEN /\ bst' = [bst EXCEPT ![b] = "limiterr"]          \* drainResults + ErrRowsLimitExceeded
                  /\ chunk' = [chunk EXCEPT ![b] = 0]
                  /\ cbytes' = [cbytes EXCEPT ![b] = 0]
                  /\ more' = [more EXCEPT ![b] = FALSE]
             ELSE IF nby > Threshold
             THEN /\ bst' = [bst EXCEPT ![b] = "chunkdone"]         \* break, moreRowExists = true
                  /\ chunk' = [chunk EXCEPT ![b] = nch]
                  /\ cbytes' = [cbytes EXCEPT ![b] = nby]
                  /\ more' = [more EXCEPT ![b] = TRUE]
             ELSE /\ chunk' = [chunk EXCEPT ![b] = nch]
                  /\ cbytes' = [cbytes EXCEPT ![b] = nby]
                  /\ UNCHANGED <<bst, more>>
    /\ UNCHANGED <<rcfg, sent, outcome>>

(* the EOF packet that ends the backend's result *)
ReadEOF(b) ==
    /\ bst[b] = "reading" /\ rd[b] = N(b) /\ outcome = "pending" /\ Turn(b)
    /\ bst' = [bst EXCEPT ![b] = "chunkdone"]
    /\ more' = [more EXCEPT ![b] = FALSE]
    /\ UNCHANGED <<rcfg, rd, chunk, cbytes, sent, outcome>>

(* unsharded: Session.writeResponse / ClientConn.writeOKResultStream: write the chunk, then     *)
(* FetchMoreRows while the flag is up, the terminating EOF only after the last chunk            *)
Cur == CHOOSE b \in Used : bst[b] # "finished" /\ \A p \in Used : p < b => bst[p] = "finished"
WriteChunk ==
    /\ Streamed /\ outcome = "pending"
    /\ \E b \in Used : bst[b] # "finished"
    /\ LET b == Cur IN
       /\ bst[b] = "chunkdone"
       /\ sent' = sent + chunk[b]
       /\ chunk' = [chunk EXCEPT ![b] = 0]
       /\ cbytes' = [cbytes EXCEPT ![b] = 0]
       /\ IF more[b]
          THEN /\ bst' = [bst EXCEPT ![b] = "reading"]
               /\ UNCHANGED outcome
          ELSE /\ bst' = [bst EXCEPT ![b] = "finished"]      \* the result set's terminating EOF; ReadMoreResult follows
               /\ outcome' = IF b = NB THEN "complete" ELSE "pending"
    /\ UNCHANGED <<rcfg, rd, more>>

SliceDone(s) == \/ \E b \in Used : SliceOf(b) = s /\ bst[b] = "limiterr"
                \/ \A b \in Used : SliceOf(b) = s => Finished(b)
Settled == \A b \in Used : SliceDone(SliceOf(b))

(* an ERR packet: immediately for the unsharded path (also in the middle of a stream), after    *)
(* all backends have answered for the sharded path (executeShardSQLInSlice collects errors)     *)
WriteError ==
    /\ outcome = "pending"
    /\ \E b \in Used : bst[b] = "limiterr"
    /\ Sharded => Settled
    /\ outcome' = "error"
    /\ UNCHANGED <<rcfg, rd, chunk, cbytes, more, bst, sent>>

(* sharded, intended design: a backend whose reader stopped at the threshold is read on into    *)
(* the same result (a merge needs all rows)                                                     *)
ContinueShardRead(b) ==
    /\ Sharded /\ ~ShardIgnoresMore /\ outcome = "pending"
    /\ bst[b] = "chunkdone" /\ more[b]
    /\ bst' = [bst EXCEPT ![b] = "reading"]
    /\ cbytes' = [cbytes EXCEPT ![b] = 0]
    /\ more' = [more EXCEPT ![b] = FALSE]
    /\ UNCHANGED <<rcfg, rd, chunk, sent, outcome>>

(* sharded: plan.MergeSelectResult over what the readers returned, written as one result *)
Merge ==
    /\ Sharded /\ outcome = "pending" /\ Settled
    /\ \A b \in Used : Finished(b)
    /\ sent' = chunk[1] + chunk[2] + chunk[3] + chunk[4]
    /\ outcome' = "complete"
    /\ bst' = [b \in BE |-> IF b \in Used THEN "finished" ELSE bst[b]]
    /\ UNCHANGED <<rcfg, rd, chunk, cbytes, more>>

RNext == \/ \E b \in BE : ReadRow(b) \/ ReadEOF(b) \/ ContinueShardRead(b)
         \/ WriteChunk \/ WriteError \/ Merge

RDone == outcome # "pending"

(* the property (C39) *)
NoSilentTruncation == outcome = "complete" => sent = Total
LimitSemantics == RDone => Judge(rcfg, outcome, sent)
RTypeOK == /\ outcome \in {"pending", "complete", "error"}
           /\ sent \in 0..Total
           /\ \A b \in BE : rd[b] <= N(b) /\ chunk[b] <= rd[b]
RTerminates == <>RDone

--------------------------------------------------------------------------------
(*                                   PART M                                      *)

(* field kinds: "fix" fixed bytes; "nul" NUL-terminated string (len counts the NUL);           *)
(* "eof" rest of packet; "len1" one-byte length of the next field; "lenenc" length-encoded     *)
(* integer giving the length of the next field; "var" bytes governed by the preceding prefix.  *)
(* opt = 1: the grammar tolerates the packet ending inside / before this field.                *)
F(n, k, l, o) == [name |-> n, k |-> k, len |-> l, opt |-> o]

HsHead == << F("capability", "fix", 4, 0), F("max_packet", "fix", 4, 0), F("charset", "fix", 1, 0),
             F("reserved", "fix", 23, 0), F("user", "nul", 6, 0),
             F("auth_len", "lenenc", 1, 0), F("auth", "var", 20, 0) >>

Layout(kind) ==
    CASE kind = "hs_plain"     -> HsHead
      [] kind = "hs_db_plugin" -> HsHead \o << F("db", "nul", 6, 0), F("plugin", "nul", 22, 1) >>
      [] kind = "query"        -> << F("cmd", "fix", 1, 0), F("sql", "eof", 17, 1) >>
      [] kind = "initdb"       -> << F("cmd", "fix", 1, 0), F("db", "eof", 5, 1) >>
      [] kind = "fieldlist"    -> << F("cmd", "fix", 1, 0), F("table", "nul", 8, 0), F("wildcard", "eof", 1, 1) >>
      [] kind = "fieldlist_nodb" ->           \* the same packet on a session whose handshake named a database unknown to the namespace
                                  << F("cmd", "fix", 1, 0), F("table", "nul", 8, 0), F("wildcard", "eof", 1, 1) >>
      [] kind = "prepare"      -> << F("cmd", "fix", 1, 0), F("sql", "eof", 32, 1) >>
      [] kind = "execute"      -> << F("cmd", "fix", 1, 0), F("stmt_id", "fix", 4, 0), F("flags", "fix", 1, 0),
                                     F("iterations", "fix", 4, 0), F("null_bitmap", "fix", 1, 0),
                                     F("new_bound", "fix", 1, 0), F("types", "fix", 6, 0),
                                     F("p1_long", "fix", 4, 0),
                                     F("p2_len", "lenenc", 1, 0), F("p2_string", "var", 5, 0),
                                     F("p3_len", "len1", 1, 0), F("p3_datetime", "var", 7, 0) >>
      [] kind = "execute_rebound" ->          \* second execution: new_bound = 0, the types of the first one are reused
                                  << F("cmd", "fix", 1, 0), F("stmt_id", "fix", 4, 0), F("flags", "fix", 1, 0),
                                     F("iterations", "fix", 4, 0), F("null_bitmap", "fix", 1, 0),
                                     F("new_bound", "fix", 1, 0),
                                     F("p1_long", "fix", 4, 0),
                                     F("p2_len", "lenenc", 1, 0), F("p2_string", "var", 5, 0),
                                     F("p3_len", "len1", 1, 0), F("p3_datetime", "var", 7, 0) >>
      [] kind = "execute0"     -> << F("cmd", "fix", 1, 0), F("stmt_id", "fix", 4, 0), F("flags", "fix", 1, 0),
                                     F("iterations", "fix", 4, 0) >>
      [] kind = "longdata"     -> << F("cmd", "fix", 1, 0), F("stmt_id", "fix", 4, 0), F("param_id", "fix", 2, 0),
                                     F("data", "eof", 4, 1) >>
      [] kind = "stmtclose"    -> << F("cmd", "fix", 1, 0), F("stmt_id", "fix", 4, 0) >>
      [] kind = "stmtreset"    -> << F("cmd", "fix", 1, 0), F("stmt_id", "fix", 4, 0) >>
      [] kind = "ping"         -> << F("cmd", "fix", 1, 0) >>
      [] kind = "setoption"    -> << F("cmd", "fix", 1, 0), F("option", "fix", 2, 0) >>
      [] kind = "unknown"      -> << F("cmd", "fix", 1, 0), F("payload", "fix", 3, 0) >>

AllKinds == {"hs_plain", "hs_db_plugin", "query", "initdb", "fieldlist", "fieldlist_nodb", "prepare", "execute", "execute_rebound", "execute0",
             "longdata", "stmtclose", "stmtreset", "ping", "setoption", "unknown"}
IsHandshake(kind) == kind \in {"hs_plain", "hs_db_plugin"}
(* commands a server answers when they are well formed *)
Responds(kind) == kind \notin {"longdata", "stmtclose"}
HasStmtId(kind) == kind \in {"execute", "execute_rebound", "execute0", "longdata", "stmtclose", "stmtreset"}
ExpectedSeq(kind) == IF IsHandshake(kind) THEN 1 ELSE 0

AddLen(acc, f) == acc + f.len
SumLen(lay, i) == FoldLeft(AddLen, 0, SubSeq(lay, 1, i))
Off(lay, i) == SumLen(lay, i)                 \* byte offset of field boundary i (0..Len(lay))
TotalLen(lay) == SumLen(lay, Len(lay))
(* shortest grammatical prefix: everything up to the last mandatory field *)
LastMandatory(lay) == IF \E i \in 1..Len(lay) : lay[i].opt = 0
                      THEN CHOOSE i \in 1..Len(lay) : lay[i].opt = 0 /\ \A j \in (i+1)..Len(lay) : lay[j].opt = 1
                      ELSE 0
MinLen(lay) == Off(lay, LastMandatory(lay))

(* the layout after a length prefix was replaced by a wider encoding *)
PrefixWidth(variant) == CASE variant = "w2" -> 3 [] variant = "w3" -> 4
                          [] variant \in {"w8", "w8p32", "w8p47", "w8p63"} -> 9 [] OTHER -> 1
Widen(lay, i, variant) == [lay EXCEPT ![i].len = PrefixWidth(variant)]

CutPoints(lay) == LET tot == TotalLen(lay)
                      raw == UNION {{Off(lay, i) - 1, Off(lay, i), Off(lay, i) + 1} : i \in 0..Len(lay)}
                  IN {p \in raw : p >= 0 /\ p <= tot + 1 /\ p # tot}
PrefixFields(lay) == {i \in 1..Len(lay) : lay[i].k \in {"len1", "lenenc"}}
(* rem1: one more than the bytes that remain; max1: largest one-byte value; null: 0xfb; w2 / w3: 0xfc / 0xfd with all  *)
(* ones; w8: 0xfe with 2^64-1; w8p32 / w8p47 / w8p63: 0xfe with 2^32, 2^47, 2^63-1 (sizes that are positive as a signed  *)
(* 64-bit integer: beyond 32 bits, far beyond any memory, and the largest)                                              *)
Variants(k) == IF k = "lenenc" THEN {"rem1", "max1", "null", "w2", "w3", "w8", "w8p32", "w8p47", "w8p63"} ELSE {"rem1", "max1"}

(* operators; a packet carries at most one operator of each family *)
AllVariants == {"rem1", "max1", "null", "w2", "w3", "w8", "w8p32", "w8p47", "w8p63"}
BodyFieldOps(kind) ==
    LET lay == Layout(kind) IN
       {o \in {[op |-> "oversize", field |-> i, variant |-> v, at |-> 0] : i \in PrefixFields(lay), v \in AllVariants} :
             o.variant \in Variants(lay[o.field].k)}
       \cup (IF HasStmtId(kind) THEN {[op |-> "stmtid", field |-> 2, variant |-> v, at |-> 0] : v \in {"next", "mid", "max"}} ELSE {})
       \cup (IF kind = "longdata" THEN {[op |-> "paramid", field |-> 3, variant |-> v, at |-> 0] : v \in {"count", "max"}} ELSE {})
TruncOps(lay) == {[op |-> "trunc", field |-> 0, variant |-> "", at |-> p] : p \in CutPoints(lay)}
FrameOps(kind) ==
    {[op |-> "seq", field |-> 0, variant |-> v, at |-> 0] : v \in {"plus1", "minus1", "far"}}
    \cup {[op |-> "hdrlen", field |-> 0, variant |-> v, at |-> 0] : v \in {"minus1", "plus1", "plus255", "max"}}
    \* the packet is sent twenty times on the session (more often than a backend pool has connections)
    \cup (IF IsHandshake(kind) THEN {} ELSE {[op |-> "repeat", field |-> 0, variant |-> "x20", at |-> 0]})

Family(o) == CASE o.op \in {"oversize", "stmtid", "paramid"} -> "field"
               [] o.op = "trunc" -> "trunc"
               [] OTHER -> "frame"

(* layout a truncation acts on when a field operator came first *)
Mutated(kind, ops) ==
    IF \E j \in 1..Len(ops) : ops[j].op = "oversize"
    THEN LET o == ops[CHOOSE j \in 1..Len(ops) : ops[j].op = "oversize"] IN Widen(Layout(kind), o.field, o.variant)
    ELSE Layout(kind)

(* payload length after the body operators *)
PayloadLen(kind, ops) ==
    IF \E j \in 1..Len(ops) : ops[j].op = "trunc"
    THEN ops[CHOOSE j \in 1..Len(ops) : ops[j].op = "trunc"].at
    ELSE TotalLen(Mutated(kind, ops))

(* ---- expectation classes ---- *)
Rank(c) == CASE c = "any" -> 0 [] c = "reject_or_ignore" -> 1 [] c = "reject" -> 2
Worst(a, b) == IF Rank(a) >= Rank(b) THEN a ELSE b
RejectClass(kind) == IF Responds(kind) THEN "reject" ELSE "reject_or_ignore"

(* is the field the operator changes still wholly inside the payload? *)
Present(kind, ops, o) == Off(Mutated(kind, ops), o.field) <= PayloadLen(kind, ops)

OpClass(kind, ops, o) ==
    CASE o.op = "trunc" ->
           IF o.at = 0 THEN "reject"                                    \* zero-length packet
           ELSE IF o.at >= MinLen(Mutated(kind, ops)) THEN "any"        \* still grammatical (or padded)
           ELSE RejectClass(kind)
      [] o.op = "oversize" ->
           IF ~Present(kind, ops, o) THEN "any"
           ELSE IF o.variant = "null" THEN "any"                        \* 0xfb is the NULL value
           ELSE RejectClass(kind)
      [] o.op = "stmtid" -> IF Present(kind, ops, o) THEN RejectClass(kind) ELSE "any"
      [] o.op = "paramid" -> IF Present(kind, ops, o) THEN RejectClass(kind) ELSE "any"
      [] o.op = "seq" -> IF PayloadLen(kind, ops) = 0 THEN "any" ELSE "reject"   \* an empty frame carries no sequence check
      [] o.op = "repeat" -> "any"                                       \* repetition adds no grammatical defect
      [] o.op = "hdrlen" -> IF o.variant = "minus1" THEN "any" ELSE "reject"  \* the packet never completes
RECURSIVE ClassOf(_, _, _)
ClassOf(kind, ops, j) == IF j = 0 THEN "any" ELSE Worst(OpClass(kind, ops, ops[j]), ClassOf(kind, ops, j - 1))
CaseClass(kind, ops) == ClassOf(kind, ops, Len(ops))

(* ---- the session machine ---- *)
VARIABLES mkind,     \* packet kind of the offending session's input
          mops,      \* malformation operators applied (sequence, <= MaxOps)
          mphase,    \* "compose" | "sent" | "observed"
          offender,  \* what the offending client saw first: "none" | "error" | "closed" | "answered"
          procUp, listening, healthyOK

mvars == <<mkind, mops, mphase, offender, procUp, listening, healthyOK>>

MInit == /\ mkind \in Kinds
         /\ mops = <<>>
         /\ mphase = "compose"
         /\ offender = "none"
         /\ procUp = TRUE /\ listening = TRUE /\ healthyOK = TRUE

Compatible(kind, ops, o) ==
    /\ \A j \in 1..Len(ops) : Family(ops[j]) # Family(o)
    \* a truncation is measured on the layout after the field operator, so it is applied second;
    \* framing operators come last
    /\ \A j \in 1..Len(ops) : ~(Family(ops[j]) = "trunc" /\ Family(o) = "field")
    /\ \A j \in 1..Len(ops) : ~(Family(ops[j]) = "frame")

Candidates(kind, ops) ==
    BodyFieldOps(kind) \cup TruncOps(Mutated(kind, ops)) \cup FrameOps(kind)

AddOp == /\ mphase = "compose" /\ Len(mops) < MaxOps
         /\ \E o \in Candidates(mkind, mops) :
               /\ Compatible(mkind, mops, o)
               /\ mops' = Append(mops, o)
         /\ UNCHANGED <<mkind, mphase, offender, procUp, listening, healthyOK>>

Send == /\ mphase = "compose" /\ Len(mops) >= 1
        /\ mphase' = "sent"
        /\ UNCHANGED <<mkind, mops, offender, procUp, listening, healthyOK>>

Allowed(class) == CASE class = "reject" -> {"error", "closed"}
                    [] class = "reject_or_ignore" -> {"error", "closed", "ignored"}
                    [] class = "any" -> {"error", "closed", "ignored", "answered"}

(* whatever the proxy does with the input, it is one of the allowed reactions, and nothing else  *)
(* changes: no action takes the process down, stops the listener or disturbs another session     *)
React == /\ mphase = "sent"
         /\ offender' \in Allowed(CaseClass(mkind, mops))
         /\ mphase' = "observed"
         /\ UNCHANGED <<mkind, mops, procUp, listening, healthyOK>>

MNext == AddOp \/ Send \/ React

Survives == procUp /\ listening /\ healthyOK
OffenderHandled == mphase = "observed" => offender \in Allowed(CaseClass(mkind, mops))
MTypeOK == /\ Len(mops) <= MaxOps
           /\ \A j \in 1..Len(mops) : mops[j].op = "trunc" => mops[j].at \in 0..(TotalLen(Mutated(mkind, mops)) + 1)
           /\ PayloadLen(mkind, mops) \in 0..300
(* sanity of the grammar itself *)
GrammarOK == \A k \in AllKinds : LET lay == Layout(k) IN
                 /\ MinLen(lay) <= TotalLen(lay)
                 /\ \A i \in PrefixFields(lay) : i < Len(lay) /\ lay[i + 1].k = "var"
                 /\ \A i \in 1..Len(lay) : lay[i].k = "eof" => i = Len(lay)
ASSUME GrammarOK

--------------------------------------------------------------------------------
(* the two parts as separate specifications over all variables *)
RIdle == /\ rcfg = [limit |-> 0, mode |-> "unsharded", proto |-> "text", rowlen |-> 1, n |-> <<0>>]
         /\ rd = [b \in BE |-> 0] /\ chunk = [b \in BE |-> 0] /\ cbytes = [b \in BE |-> 0]
         /\ more = [b \in BE |-> FALSE] /\ bst = [b \in BE |-> "absent"] /\ sent = 0 /\ outcome = "complete"
MIdle == /\ mkind = "ping" /\ mops = <<>> /\ mphase = "observed" /\ offender = "none"
         /\ procUp = TRUE /\ listening = TRUE /\ healthyOK = TRUE

vars == <<rvars, mvars>>
ResultSpec == RInit /\ MIdle /\ [][RNext /\ UNCHANGED mvars]_vars /\ WF_vars(RNext /\ UNCHANGED mvars)
MalformSpec == MInit /\ RIdle /\ [][MNext /\ UNCHANGED rvars]_vars
================================================================================
