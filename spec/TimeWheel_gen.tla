------------------------------ MODULE TimeWheel_gen ------------------------------
(* Behaviour generation for conformance replay: the same actions as TimeWheel with a      *)
(* history variable; every behaviour of exactly GenLen events is printed as one JSON line *)
(* (events with the set the specification says fires at each tick).                       *)
EXTENDS TimeWheel, TLC, Json

CONSTANTS GenLen,      \* length of the generated behaviours
          TickWeight   \* simulation only: ticks are TickWeight times as likely as one add
VARIABLE hist

GenInit == Init /\ hist = <<>>

GenNext == /\ Len(hist) < GenLen
           /\ \/ \E k \in Keys, d \in 0..MaxDelay :
                    Add(k, d) /\ hist' = Append(hist, [ev |-> "add", key |-> k, d |-> d])
              \/ \E k \in Keys :
                    Del(k) /\ hist' = Append(hist, [ev |-> "del", key |-> k])
              \/ \E w \in 1..TickWeight :
                    Tick /\ hist' = Append(hist, [ev |-> "tick", fires |-> PFires, now |-> now])

GenSpec == GenInit /\ [][GenNext]_<<vars, hist>>

Emit == Len(hist) = GenLen =>
          PrintT(<<"CASE", ToJson([n |-> N, events |-> hist,
                                  pending |-> SetToSeq({k \in Keys : DueAfter[k] # None})])>>)
===================================================================================
