SPECIFICATION GenSpec
CONSTANTS
  KSModes = {FALSE, TRUE}
  Users = {"rw", "rws", "ro"}
  MaxCmds = 3
  MaxFaults = 1
  MaxNs = 1
  MaxPerPool = 7
  FOps = {"get", "begin", "setac", "exec", "commit", "rollback", "ping"}
  GenLen = 2
INVARIANTS Emit TypeOK C18_TxStatementOnTxMaster C18_OneConnPerSlice C18_EndReachesExactlyTx C18_ReleasedAfterEnd
  C19_NoLeak C19_NoDangling C19_NothingHeldOutsideTx C19_NoOpenTxInPool C19_EndClean
  C23_Pinned C23_PinnedRole C23_NsChange C23_NoSpuriousClose ModeSeparation
CHECK_DEADLOCK FALSE
