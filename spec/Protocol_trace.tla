----------------------------- MODULE Protocol_trace -----------------------------
(* Direction V for Protocol: observations recorded from the real proxy (harness/proxy/    *)
(* server/proto_*_test.go) are judged by TLC, one line per step.                           *)
(*   ev = "result"   a statement was executed through the real proxy; the line carries the *)
(*                   case (limit, mode, proto, rowlen, rows produced per backend) and what *)
(*                   the client saw (outcome, rows).  Judged with Judge (property C39).    *)
(*   ev = "case"     a malformed packet (kind, ops) was sent on a fresh session            *)
(*   ev = "offender" what that session saw first; must be in Allowed(CaseClass(kind, ops)) *)
(*   ev = "healthy"  a session opened before the input asked a question afterwards         *)
(*   ev = "accept"   a new connection handshook and asked a question afterwards            *)
(* Every step sets `verdict`; the Emit invariant prints it, the driver collects the lines. *)
(* TLC recomputes the expectation from the case; nothing is taken from the harness.        *)
EXTENDS Protocol, Json

Trace == ndJsonDeserialize("trace.ndjson")

VARIABLES l, verdict

tvars == <<vars, l, verdict>>

TraceInit == /\ RIdle /\ MIdle /\ l = 1
             /\ verdict = [t |-> "", ev |-> "init", ok |-> TRUE, info |-> ""]

Line == Trace[l]
Is(e) == l <= Len(Trace) /\ Line.ev = e /\ l' = l + 1

TResult ==
    /\ Is("result")
    /\ LET c == [limit |-> Line.limit, mode |-> Line.mode, proto |-> Line.proto, rowlen |-> Line.rowlen, n |-> Line.n]
       IN /\ rcfg' = c
          /\ outcome' = Line.outcome
          /\ sent' = Line.rows
          /\ verdict' = [t |-> Line.t, ev |-> "result", ok |-> Judge(c, Line.outcome, Line.rows),
                         info |-> [expect |-> ExpectedOf(c), total |-> TotalOf(c), crosses |-> CrossesOf(c),
                                   truncated |-> (Line.outcome = "complete" /\ Line.rows < TotalOf(c))]]
    /\ UNCHANGED <<rd, chunk, cbytes, more, bst, mvars>>

TCase ==
    /\ Is("case")
    /\ mkind' = Line.kind /\ mops' = Line.ops /\ mphase' = "sent" /\ offender' = "none"
    /\ verdict' = [t |-> Line.t, ev |-> "case", ok |-> Line.kind \in AllKinds,
                   info |-> [class |-> CaseClass(Line.kind, Line.ops)]]
    /\ UNCHANGED <<procUp, listening, healthyOK, rvars>>

TOffender ==
    /\ Is("offender") /\ mphase = "sent"
    /\ offender' = Line.saw /\ mphase' = "observed"
    /\ verdict' = [t |-> Line.t, ev |-> "offender", ok |-> Line.saw \in Allowed(CaseClass(mkind, mops)),
                   info |-> [class |-> CaseClass(mkind, mops), saw |-> Line.saw]]
    /\ UNCHANGED <<mkind, mops, procUp, listening, healthyOK, rvars>>

THealthy ==
    /\ Is("healthy")
    /\ healthyOK' = Line.ok
    /\ verdict' = [t |-> Line.t, ev |-> "healthy", ok |-> Line.ok, info |-> ""]
    /\ UNCHANGED <<mkind, mops, mphase, offender, procUp, listening, rvars>>

TAccept ==
    /\ Is("accept")
    /\ listening' = Line.ok
    /\ verdict' = [t |-> Line.t, ev |-> "accept", ok |-> Line.ok, info |-> ""]
    /\ UNCHANGED <<mkind, mops, mphase, offender, procUp, healthyOK, rvars>>

TraceNext == TResult \/ TCase \/ TOffender \/ THealthy \/ TAccept
TraceSpec == TraceInit /\ [][TraceNext]_tvars

Emit == PrintT(<<"CASE", ToJson([l |-> l - 1, v |-> verdict])>>)

TraceAccepted ==
    LET d == TLCGet("stats").diameter IN
    IF d - 1 = Len(Trace) THEN TRUE ELSE Print(<<"TRACE-REJECTED", d, Len(Trace), 0>>, FALSE)
================================================================================
