------------------------------- MODULE Sequence_gen -------------------------------
(* Schedule generation for conformance replay of proxy/sequence/mysql.go (property C34).    *)
(* The same actions as Sequence (Strict = TRUE: the intended reply handling is the oracle)   *)
(* with a history variable.  Steps that are local to one allocator while its mutex is held   *)
(* (Begin when the mutex is free, Complete) are taken eagerly: they commute with everything  *)
(* another allocator can do, and the harness cannot delay them without hooks.  What remains  *)
(* free is what the property quantifies over: which session calls next, on which allocator,  *)
(* while which fetches are outstanding, in which order the database serves the fetches and   *)
(* with which outcome.  At most one session waits for an allocator's mutex (the Go mutex     *)
(* does not promise an order among several waiters).                                         *)
(* With HoldLock = FALSE the same generator yields probe schedules (see Sequence.tla).        *)
(* Every quiescent behaviour with exactly GenReq calls is printed as one JSON line; every    *)
(* event carries what the specification expects the implementation to show.                  *)
EXTENDS Sequence, TLC, Json

CONSTANTS GenReq
VARIABLE hist

Pending(a) == {c \in Callers : A(c) = a /\ pc[c] = "started"}
Urgent == {c \in Callers : \/ pc[c] = "issue"
                           \/ pc[c] = "got" /\ HoldLock        \* probe model: the reply may be installed late
                           \/ pc[c] = "started" /\ lock[A(c)] = NoOne}

Ev(e, c) == [ev |-> e, a |-> c[1], g |-> c[2]]

GenInit == Init /\ hist = <<>>

GenNext ==
    IF Urgent # {}
    THEN \E c \in Urgent :
            \/ Begin(c) /\ hist' = Append(hist, Ev("begin", c) @@
                                 [to |-> IF curr[A(c)] >= max[A(c)] THEN "fetch" ELSE "issue"])
            \/ Complete(c) /\ hist' = Append(hist, Ev("ret", c) @@ [ok |-> Result(c).ok, v |-> Result(c).v])
    ELSE \E c \in Callers :
            \/ Start_(c) /\ Pending(A(c)) = {} /\ hist' = Append(hist, Ev("start", c))
            \/ \E o \in Outcomes : Fetch(c, o) /\ hist' = Append(hist, Ev("fetch", c) @@ [o |-> o, reply |-> Reply(o)])
            \/ /\ ~HoldLock /\ pc[c] = "got"
               /\ Complete(c) /\ hist' = Append(hist, Ev("ret", c) @@ [ok |-> Result(c).ok, v |-> Result(c).v])

GenSpec == GenInit /\ [][GenNext]_<<vars, hist>>

Quiescent == \A c \in Callers : pc[c] = "idle"

(* HoldLock = FALSE (probe model): only the behaviours that end in a property violation are of interest *)
Emit == (nreq = GenReq /\ Quiescent /\ (HoldLock \/ dup \/ nonmono)) =>
          PrintT(<<"CASE", ToJson([inc |-> Inc, start |-> Start, maxlimit |-> MaxLimit, k |-> K,
                                  allocs |-> Allocs, events |-> hist])>>)
===================================================================================
