----------------------------- MODULE ResourcePool_trace -----------------------------
(* Trace validation, I-level (faithfulness of the step model, MODEL-DRIFT only): step traces  *)
(* recorded at the verifStep hooks of the real pool must be behaviours of ResourcePool, and    *)
(* the counters observed after every step must be the ones the specification computes.         *)
(* All traces of one run use the same constants; field t is the trace id.                      *)
EXTENDS ResourcePool, TLC, Json

Trace == ndJsonDeserialize("trace.ndjson")

VARIABLES l, tid

Obs == <<Len(ch), capacity, available, inUse>>

TraceInit == Init /\ l = 1 /\ tid = Trace[1].t

Boundary == l <= Len(Trace) /\ Trace[l].t # tid
InTrace  == l <= Len(Trace) /\ ~Boundary

TStep == /\ InTrace
         /\ pc[Trace[l].p] = Trace[l].l
         /\ Step(Trace[l].p, Trace[l].a)
         /\ Obs' = Trace[l].o
         /\ l' = l + 1
         /\ UNCHANGED tid
TReset == /\ Boundary
          /\ pc' = InitPc /\ ch' = [i \in 1..InitCap |-> 0] /\ closed' = FALSE
          /\ capacity' = InitCap /\ available' = InitCap /\ inUse' = 0 /\ baseCap' = InitCap
          /\ lock' = "none" /\ todo' = FALSE /\ nextRes' = 1
          /\ slot' = [p \in Procs |-> -1]
          /\ old' = [p \in Procs |-> 0] /\ tgt' = [p \in Procs |-> 0] /\ cnt' = [p \in Procs |-> 0]
          /\ rnd' = [c \in Clients |-> Rounds]
          /\ sweepsLeft' = Sweeps /\ ticksLeft' = Ticks /\ expire' = FALSE
          /\ stopSweep' = FALSE /\ stopTick' = FALSE /\ lateN' = 0
          /\ held' = {} /\ panic' = <<>> /\ stale' = ""
          /\ l' = l /\ tid' = Trace[l].t

TraceNext == TStep \/ TReset
TraceSpec == TraceInit /\ [][TraceNext]_<<vars, l, tid>>

NumResets == Cardinality({i \in 2..Len(Trace) : Trace[i].t # Trace[i-1].t})
TraceAccepted ==
    LET d == TLCGet("stats").diameter IN
    IF d - 1 = Len(Trace) + NumResets THEN TRUE
    ELSE Print(<<"TRACE-REJECTED", d, Len(Trace), NumResets>>, FALSE)
===================================================================================
