------------------------------ MODULE RoutingConfig ------------------------------
(******************************************************************************)
(* C10: accepted configurations load and give an unambiguous routing table.   *)
(*                                                                            *)
(* A namespace configuration is data:                                         *)
(*   [nsslices |-> <<"slice-0",..>>, default |-> "slice-0", rules |-> <<r1,..>>] *)
(* every rule r has the same fields (only those of its type are meaningful):  *)
(*   db, table, parent, type, locations, slices, limit, ranges (<<[lo,hi]>>), *)
(*   databases (<<[prefix, lo, hi]>>: a name, or the list prefix[lo-hi] when  *)
(*   lo # None), pcount, plength, hs, seed, vbt, spell (how the textual lists *)
(*   partition_count/length, date_range, databases, hash_slice, seed are      *)
(*   written: "plain", or with blanks / a tab around the separators)          *)
(*                                                                            *)
(* The implementation supplies, for a configuration, an OBSERVATION record:   *)
(*   verify \in {"ok","err","panic"}   models.Namespace.Verify                *)
(*   load   \in {"ok","err","panic"}   router.NewRouter                       *)
(*   tables: per loaded rule [type, subtables, t2s (<<table, slice index>>    *)
(*           pairs), slices, dbs, placed (table indexes FindTableIndex        *)
(*           returned on a key sample), crashed (it panicked at routing)]     *)
(* The property is evaluated by TLC on each observation:                      *)
(*   VerifyAccepts(o) => Loads(o) /\ WellFormed(RoutingTable(o))              *)
(* Violations(o) names the clauses that fail; Features(cfg) names what is     *)
(* unusual about the configuration (signature vocabulary).                    *)
(******************************************************************************)
EXTENDS RoutingPlace, TLC

LocTypes   == {"hash", "mod", "range", "mycat_mod", "mycat_long", "mycat_string", "mycat_murmur", "global"}
MycatTypes == {"mycat_mod", "mycat_long", "mycat_string", "mycat_murmur"}
DateTypes  == {"date_year", "date_month", "date_day"}
PlaceTypes == {"hash", "mod", "range"} \cup MycatTypes          \* "the sharding function of a hash, mod, range or mycat rule"

SeqToSet(s) == {s[i] : i \in 1..Len(s)}
HasDup(s)   == \E i, j \in 1..Len(s) : i < j /\ s[i] = s[j]

(* table names used by the generator and their lower-case forms (TLC has no string functions) *)
LowerOf(name) == CASE name = "TBL_VERIF" -> "tbl_verif"
                   [] name = "Tbl_Verif" -> "tbl_verif"
                   [] name = "OTHER"     -> "other"
                   [] OTHER              -> name

(* database lists: "name" or "prefix[lo-hi]" = prefix<lo> .. prefix<hi>, both ends included, hi > lo required *)
DbItemOK(d)  == d.lo = None \/ d.hi > d.lo
DbItemNames(d) == IF d.lo = None THEN <<d.prefix>>
                  ELSE IF d.hi > d.lo THEN [i \in 1..(d.hi - d.lo + 1) |-> d.prefix \o ToString(d.lo + i - 1)] ELSE <<>>
RealDbs(dbs) == Flatten([i \in 1..Len(dbs) |-> DbItemNames(dbs[i])])

-----------------------------------------------------------------------------
(* what is unusual about a rule / a configuration *)

RuleFeatures(r, nsslices) ==
    LET locs == r.locations
        n    == IF r.type \in LocTypes THEN Sum(locs) ELSE 0
        isLoc == r.type \in LocTypes
        isDate == r.type \in DateTypes
        want == IF isLoc THEN Len(locs) ELSE IF isDate THEN Len(r.ranges) ELSE Len(r.slices)
        periods(i) == RangePeriods(r.type, r.ranges[i])
    IN  (IF isLoc /\ \E i \in 1..Len(locs) : locs[i] < 0 THEN {"negative-location"} ELSE {})
   \cup (IF isLoc /\ n > 0 /\ \E i \in 1..Len(locs) : locs[i] = 0 THEN {"zero-location"} ELSE {})
   \cup (IF isLoc /\ n <= 0 THEN {"zero-tables"} ELSE {})
   \cup (IF Len(r.slices) < want THEN {"slices-shorter"} ELSE {})
   \cup (IF Len(r.slices) > want THEN {"slices-longer"} ELSE {})
   \cup (IF \E i \in 1..Len(r.slices) : r.slices[i] \notin SeqToSet(nsslices) THEN {"unknown-slice"} ELSE {})
   \cup (IF HasDup(r.slices) THEN {"duplicate-slice"} ELSE {})
   \cup (IF r.type = "range" /\ r.limit <= 0 THEN {"nonpositive-row-limit"} ELSE {})
   \cup (IF (r.type \in MycatTypes \/ (r.type = "global" /\ Len(r.databases) > 0)) /\ Len(RealDbs(r.databases)) # n
            THEN {"databases-wrong-count"} ELSE {})
   \cup (IF r.type \in MycatTypes \cup {"global"} /\ HasDup(RealDbs(r.databases)) THEN {"duplicate-database"} ELSE {})
   \cup (IF r.type \in MycatTypes \cup {"global"} /\ \E i \in 1..Len(r.databases) : ~DbItemOK(r.databases[i])
            THEN {"bad-database-range"} ELSE {})
   \cup (IF r.type = "global" /\ Len(r.databases) = 0 /\ \E i \in 1..Len(locs) : locs[i] > 1
            THEN {"global-copies-without-databases"} ELSE {})
   \cup (IF r.type = "global" /\ (Len(r.slices) > Len(nsslices) \/ r.slices # SubSeq(nsslices, 1, Min2(Len(r.slices), Len(nsslices))))
            THEN {"global-slices-not-namespace-prefix"} ELSE {})
   \cup (IF r.type \in {"mycat_long", "mycat_string"} THEN
             (IF Len(r.pcount) # Len(r.plength) THEN {"partition-lists-differ"} ELSE
              (IF \E i \in 1..Len(r.pcount) : r.pcount[i] < 0 THEN {"negative-partition-count"} ELSE {})
         \cup (IF \E i \in 1..Len(r.pcount) : r.pcount[i] = 0 THEN {"zero-partition-count"} ELSE {})
         \cup (IF \E i \in 1..Len(r.plength) : r.plength[i] < 0 THEN {"negative-partition-length"} ELSE {})
         \cup (IF \E i \in 1..Len(r.plength) : r.plength[i] = 0 THEN {"zero-partition-length"} ELSE {})
         \cup (IF Sum(r.pcount) # n THEN {"partition-count-mismatch"} ELSE {})
         \cup (IF (\A i \in 1..Len(r.pcount) : r.pcount[i] >= 0) /\ Sum(SegLens(r.pcount, r.plength)) # 1024
                  THEN {"partition-sum-not-1024"} ELSE {}))
         ELSE {})
   \cup (IF r.spell # "plain" THEN {"list-spelling-" \o r.spell} ELSE {})
   \cup (IF r.type = "mycat_murmur" /\ r.vbt = 0 THEN {"zero-virtual-buckets"} ELSE {})
   \cup (IF r.type = "mycat_murmur" /\ r.vbt < 0 THEN {"negative-virtual-buckets"} ELSE {})
   \cup (IF isDate THEN
             (IF \E i \in 1..Len(r.ranges) : r.ranges[i].lo > r.ranges[i].hi THEN {"descending-span"} ELSE {})
        \cup (IF \E i \in 1..Len(r.ranges) : ~ValidPeriod(r.type, r.ranges[i].lo) \/ ~ValidPeriod(r.type, r.ranges[i].hi)
                 THEN {"invalid-period"}
              ELSE IF \E i, j \in 1..Len(r.ranges) : i < j /\ periods(j)[1] <= periods(i)[Len(periods(i))]
                 THEN {"overlapping-or-unordered-ranges"} ELSE {})
         ELSE {})

Invalidating == {"negative-location", "zero-tables", "slices-shorter", "slices-longer", "unknown-slice",
                 "nonpositive-row-limit", "databases-wrong-count", "duplicate-database", "bad-database-range",
                 "global-copies-without-databases", "global-slices-not-namespace-prefix", "partition-lists-differ",
                 "negative-partition-count", "negative-partition-length", "partition-count-mismatch",
                 "partition-sum-not-1024", "zero-virtual-buckets", "negative-virtual-buckets", "invalid-period",
                 "overlapping-or-unordered-ranges", "empty-default-slice", "unknown-default-slice",
                 "duplicate-table-name", "case-different-table-names", "linked-parent-missing",
                 "linked-parent-case-differs"}

NsFeatures(cfg) ==
    LET rs == cfg.rules
        real == {i \in 1..Len(rs) : rs[i].type # "linked"}
    IN  (IF cfg.default = "" THEN {"empty-default-slice"} ELSE {})
   \cup (IF cfg.default # "" /\ cfg.default \notin SeqToSet(cfg.nsslices) THEN {"unknown-default-slice"} ELSE {})
   \cup (IF \E i, j \in 1..Len(rs) : i < j /\ rs[i].db = rs[j].db /\ rs[i].table = rs[j].table
            THEN {"duplicate-table-name"} ELSE {})
   \cup (IF \E i, j \in 1..Len(rs) : i < j /\ rs[i].db = rs[j].db /\ rs[i].table # rs[j].table
                                       /\ LowerOf(rs[i].table) = LowerOf(rs[j].table)
            THEN {"case-different-table-names"} ELSE {})
   \cup (IF \E i \in 1..Len(rs) : rs[i].type = "linked"
                /\ ~\E j \in real : rs[j].db = rs[i].db /\ LowerOf(rs[j].table) = LowerOf(rs[i].parent)
            THEN {"linked-parent-missing"} ELSE {})
   \cup (IF \E i \in 1..Len(rs) : rs[i].type = "linked"
                /\ (\E j \in real : rs[j].db = rs[i].db /\ LowerOf(rs[j].table) = LowerOf(rs[i].parent))
                /\ ~(\E j \in real : rs[j].db = rs[i].db /\ rs[j].table = rs[i].parent)
            THEN {"linked-parent-case-differs"} ELSE {})

Features(cfg) == NsFeatures(cfg) \cup UNION {RuleFeatures(cfg.rules[i], cfg.nsslices) : i \in 1..Len(cfg.rules)}
SpecValid(cfg) == Features(cfg) \cap Invalidating = {}

-----------------------------------------------------------------------------
(* well-formedness of an observed routing table (one loaded rule) *)

T2sDom(t)      == {t.t2s[i][1] : i \in 1..Len(t.t2s)}
SliceIdxOf(t, x) == {t.t2s[i][2] : i \in {j \in 1..Len(t.t2s) : t.t2s[j][1] = x}}
(* the physical table behind listed index x: kingshard-style rules name the table by the index; *)
(* mycat / global rules keep the table name and vary (slice, database)                           *)
PhysOf(t, x) ==
    IF t.type \in MycatTypes \/ (t.type = "global")
    THEN LET ss == SliceIdxOf(t, x)
             si == IF ss = {} THEN -1 ELSE CHOOSE s \in ss : TRUE
         IN << IF si >= 0 /\ si < Len(t.slices) THEN t.slices[si + 1] ELSE "?",
               IF x >= 0 /\ x < Len(t.dbs) THEN t.dbs[x + 1] ELSE "?" >>
    ELSE <<x>>

TableViolations(t) ==
    LET st == t.subtables
    IN  (IF \E i, j \in 1..Len(st) : i < j /\ PhysOf(t, st[i]) = PhysOf(t, st[j]) THEN {"table-listed-twice"} ELSE {})
   \cup (IF \E i \in 1..Len(st) : st[i] \notin T2sDom(t) THEN {"table-without-slice"} ELSE {})
   \cup (IF \E i \in 1..Len(st) : \E s \in SliceIdxOf(t, st[i]) : s < 0 \/ s >= Len(t.slices)
            THEN {"slice-index-out-of-range"} ELSE {})
   \cup (IF \E i \in 1..Len(st) : Cardinality(SliceIdxOf(t, st[i])) > 1 THEN {"table-in-two-slices"} ELSE {})
   \cup (IF t.type \in PlaceTypes /\ t.crashed THEN {"place-crash"} ELSE {})
   \cup (IF t.type \in PlaceTypes /\ ~(SeqToSet(t.placed) \subseteq SeqToSet(st)) THEN {"place-outside-listed"} ELSE {})

WellFormed(tables) == \A i \in 1..Len(tables) : TableViolations(tables[i]) = {}

VerifyAccepts(o) == o.verify = "ok"
Loads(o)         == o.load = "ok"
(* the property, and the names of the clauses an observation violates *)
Sound(o) == VerifyAccepts(o) => (Loads(o) /\ WellFormed(o.tables))
Violations(o) ==
    IF ~VerifyAccepts(o) THEN {}
    ELSE IF ~Loads(o) THEN {IF o.load = "panic" THEN "accepted-but-load-panics" ELSE "accepted-but-not-loaded"}
    ELSE UNION {TableViolations(o.tables[i]) : i \in 1..Len(o.tables)}
===================================================================================
