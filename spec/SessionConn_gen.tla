----------------------------- MODULE SessionConn_gen -----------------------------
(* Behaviour generation for the conformance replay of SessionConn: the same actions with a   *)
(* history variable.  A behaviour is GenLen commands (or fewer when the session ends earlier)  *)
(* followed by a command that ends the session; it is printed once, when the session is over,  *)
(* as one JSON line: the mode, and per command its parameters, the fault that fires in it and  *)
(* the abstract state the specification expects after it.                                     *)
EXTENDS SessionConn, Json

CONSTANTS GenLen
VARIABLE hist

Proj == [ac |-> ac, intx |-> intx, alive |-> alive, reply |-> reply,
         ntx |-> Cardinality(Dom(tx)), nks |-> Cardinality(Dom(ks)),
         held |-> Held, gone |-> Gone,
         used |-> {<<u[1], u[2]>> : u \in used}, ended |-> ended,
         faulted |-> nf > 0]

GenInit == Init /\ hist = <<>>

GenNext == /\ IF nc >= GenLen THEN Ending ELSE Next
           /\ hist' = Append(hist, [k |-> last'.k, sl |-> last'.sl, kind |-> last'.kind, first |-> last'.first, mid |-> last'.mid,
                                    ord |-> (last'.k = "shard" /\ OrderMatters(last'.sl, last'.kind, last'.fl)),
                                    f |-> last'.fl, exp |-> Proj'])

GenSpec == GenInit /\ [][GenNext]_<<vars, hist>>

Emit == ~alive => PrintT(<<"CASE", ToJson([ks |-> KS, user |-> User, cmds |-> hist])>>)
===================================================================================
