\* deeper exhaustive check with a VIEW that hides the observation variables of the last command
\* (last, used, ended, reply); only the invariants that do not read them are enabled.
SPECIFICATION Spec
CONSTANTS
  KSModes = {FALSE, TRUE}
  Users = {"rw", "rws", "ro"}
  MaxCmds = 6
  MaxFaults = 1
  MaxNs = 2
  MaxPerPool = 7
  FOps = {"get", "begin", "setac", "exec", "commit", "rollback", "ping"}
VIEW View
INVARIANTS TypeOK C19_NoLeak C19_NoDangling C19_NothingHeldOutsideTx C19_NoOpenTxInPool C19_EndClean C23_PinnedRole ModeSeparation
CHECK_DEADLOCK FALSE
