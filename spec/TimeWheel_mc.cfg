SPECIFICATION Spec
CONSTANTS
  Keys = {k1, k2}
  N = 3
  MaxDelay = 7
  MaxOps = 4
  MaxTicks = 9
INVARIANTS TypeOK FiresExactlyDue Registered PositionEncodesDue
PROPERTY DeadlineStable
CHECK_DEADLOCK FALSE
