\* P-level judgement of recorded resource events (trace.ndjson)
\* (checks/C24.py generates the configurations it runs from the same templates; measured sizes in DESIGN.md 5/C24 and evidence/C24.json)
SPECIFICATION TraceSpec
POSTCONDITION TraceAccepted
CHECK_DEADLOCK FALSE
