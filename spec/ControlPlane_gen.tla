---------------------------- MODULE ControlPlane_gen ----------------------------
(* Fault placements for conformance replay of cc/service (property C32), one operation.       *)
(* modify: the RPC outcomes are chosen when the RPC happens; RPCs of one phase on different     *)
(*   proxies commute (they touch only their proxy), so proxies are served in increasing order   *)
(*   and every placement is generated once.  hist[p] = outcomes of the prepare attempts and of  *)
(*   the commit attempts on proxy p.                                                            *)
(* delete: the code visits the proxies in the order of a Go map, which the harness cannot        *)
(*   choose; the outcome per proxy is fixed up front (script) and all visiting orders are        *)
(*   generated - the driver groups the final states per script into the allowed set.            *)
(* Proxies must be 1..N here.  Every terminal state is printed with the final state the          *)
(* protocol reaches and with the verdict of the property on it.                                  *)
EXTENDS ControlPlane, TLC, Json

VARIABLES hist, script

GenInit == /\ Init
           /\ hist = [p \in Proxies |-> [pre |-> <<>>, com |-> <<>>]]
           /\ script \in [Proxies -> CommitOutcomes]
           /\ KindA = "modify" => script = [p \in Proxies |-> "ok"]

LowerDone(st, p) == \A q \in Proxies : q < p => st["A"][q] # "pending"

GenNext ==
    \/ (Load("A") \/ Update("A") \/ PrepareDone("A") \/ CommitDone("A") \/ Rollback("A") \/ DelStore("A") \/ DelNoProxies("A"))
         /\ UNCHANGED <<hist, script>>
    \/ \E p \in Proxies, oc \in Outcomes \cup CommitOutcomes :
          \/ /\ LowerDone(pst, p) /\ PrepareRPC("A", p, oc)
             /\ hist' = [hist EXCEPT ![p].pre = Append(@, oc)] /\ UNCHANGED script
          \/ /\ LowerDone(cst, p) /\ CommitRPC("A", p, oc)
             /\ hist' = [hist EXCEPT ![p].com = Append(@, oc)] /\ UNCHANGED script
          \/ /\ oc = script[p] /\ DelRPC("A", p, oc)
             /\ hist' = [hist EXCEPT ![p].com = Append(@, oc)] /\ UNCHANGED script

GenSpec == GenInit /\ [][GenNext]_<<vars, hist, script>>

Emit == Quiescent =>
          PrintT(<<"CASE", ToJson([kind |-> KindA, old |-> Old, ver |-> VerA, n |-> Cardinality(Proxies),
                                  placement |-> hist, script |-> script,
                                  final |-> [store |-> store, active |-> active, prepared |-> prepared,
                                             reported |-> reported["A"]],
                                  atomic |-> AtomicOne("A")])>>)
===================================================================================
