---------------------------- MODULE RoutingPlace_cal ----------------------------
(* The calendar arithmetic of RoutingPlace (DaysFromCivil / CivilFromDays, the     *)
(* oracle of the calendar rules of C09) checked day by day against the calendar     *)
(* successor (NextCivil: month lengths and the leap-year rule, no day counting)     *)
(* and against fixed anchors.                                                        *)
EXTENDS RoutingPlace

CONSTANTS Neg, Center, Back, Fwd      \* window (+-Center) - Back .. (+-Center) + Fwd; cfg files cannot hold negative numbers
VARIABLE d

Lo == (IF Neg THEN -Center ELSE Center) - Back
Hi == (IF Neg THEN -Center ELSE Center) + Fwd

Init == d \in Lo..Hi          \* every day of the window is a state (no transitions: the checks are per day)
Next == UNCHANGED d
Spec == Init /\ [][Next]_d

(* one pass per day: c = civil date of day d, n = civil date of day d+1 *)
CalOK == LET c == CivilFromDays(d)
             n == CivilFromDays(d + 1)
         IN /\ ValidDate(c.y, c.m, c.d)                 \* a real calendar date
            /\ DaysFromCivil(c.y, c.m, c.d) = d         \* round trip
            /\ n = NextCivil(c)                         \* day d+1 is the calendar successor
Is(y, m, dd) == CivilFromDays(d) = [y |-> y, m |-> m, d |-> dd]
Anchors == /\ (d = 0 => Is(1970, 1, 1))
           /\ (d = -1 => Is(1969, 12, 31))
           /\ (d = 11016 => Is(2000, 2, 29))
           /\ (d = -25567 => Is(1900, 1, 1))
           /\ (d = -25508 => Is(1900, 3, 1))          \* 1900 is not a leap year
           /\ (d = 19000 => Is(2022, 1, 8))
           /\ (d = 24855 => Is(2038, 1, 19))          \* 2^31 seconds
           /\ (d = 47540 => Is(2100, 2, 28))
           /\ (d = 47541 => Is(2100, 3, 1))           \* 2100 is not a leap year
           /\ (d = -719162 => Is(1, 1, 1))
           /\ (d = 2932896 => Is(9999, 12, 31))
===================================================================================
