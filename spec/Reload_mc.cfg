SPECIFICATION Spec
CONSTANTS
  NS = {"n1", "n2"}
  NV = 2
  Scenarios = {1}
  CredOf <- MCCredOf
  InitActive <- MCInit
  Paired = FALSE
  Fixed = FALSE
INVARIANTS TypeOK OneGeneration Refines OutcomeAllowed UsersRefine
PROPERTIES C31Step StaysDeleted OnlyOwnTriples
CHECK_DEADLOCK FALSE
