\* As in the code (Paired = FALSE, Fixed = FALSE) TLC reports Refines violated: that counterexample is the candidate defect
\* that checks/C31.py confirms on the real Manager.  Paired = TRUE or Fixed = TRUE are the configurations that must pass.
SPECIFICATION Spec
CONSTANTS
  NS = {"n1", "n2"}
  NV = 2
  Scenarios = {1}
  CredOf <- MCCredOf
  JoinKey <- MCJoinKey
  SplitUser <- MCSplitUser
  SplitPw <- MCSplitPw
  InitActive <- MCInit
  Paired = FALSE
  WithBad = TRUE
  Fixed = FALSE
INVARIANTS TypeOK OneGeneration Refines OutcomeAllowed UsersRefine CodeUsersRefine
PROPERTIES C31Step StaysDeleted OnlyOwnTriples
CHECK_DEADLOCK FALSE
