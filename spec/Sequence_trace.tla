------------------------------ MODULE Sequence_trace ------------------------------
(* Trace validation (P-level) of runs of the real MySQLSequence objects (harness/proxy/      *)
(* sequence/sequence_test.go): several goroutines per allocator, several allocators, one     *)
(* shared sequence row served by the harness' database.  Logged events:                      *)
(*   init   start, inc                      the row before the run                          *)
(*   call   a, g                            goroutine g is about to call NextSeq on a        *)
(*   fetch  a, g, o, reply                  the database executed g's statement (logged      *)
(*                                          inside the database's critical section)          *)
(*   ret    a, g, ok, v                     NextSeq returned to g                            *)
(* The database part of Sequence is replayed exactly (the logged reply must be the reply     *)
(* of the specification's row: the fake database is the specification's database).  The     *)
(* allocator is judged by the property only: a returned value was never returned before;     *)
(* it is greater than every value the same allocator returned to calls that had finished     *)
(* before this call began; a call whose fetch was not a well-formed positive-increment row   *)
(* returns an error.  A return that violates the property is not a step of this            *)
(* specification (the reason is printed), so the trace is rejected exactly there.            *)
(* The I-level variables of Sequence are not used.                                           *)
EXTENDS Sequence, TLC, Json

Trace == ndJsonDeserialize("trace.ndjson")

VARIABLES l, tid,
          floor,     \* per caller: greatest value its allocator had returned when the call began
          maxret,    \* per allocator: greatest value returned so far
          tfo        \* per caller: "none", "ok" or the first bad outcome class fetched during the call

tvars == <<l, tid, floor, maxret, tfo>>
frozen == <<curr, max, lock, pc, resp, fo, last, nreq>>

TraceInit == /\ Init /\ l = 1
             /\ floor = [c \in Callers |-> NoVal]
             /\ maxret = [a \in Allocs |-> NoVal]
             /\ tfo = [c \in Callers |-> "none"]

Boundary == l <= Len(Trace) /\ Trace[l].t # tid
InTrace  == l <= Len(Trace) /\ ~Boundary
IsEv(e)  == InTrace /\ Trace[l].ev = e /\ l' = l + 1
C(e)     == <<e.a, e.g>>

TInit == /\ IsEv("init")
         /\ dbcur' = Trace[l].start /\ dbinc' = Trace[l].inc
         /\ UNCHANGED <<broken, frozen, issued, dup, nonmono, badval, tid, floor, maxret, tfo>>

TCall == /\ IsEv("call")
         /\ LET c == C(Trace[l]) IN
              /\ c \in Callers
              /\ floor' = [floor EXCEPT ![c] = maxret[A(c)]]
              /\ tfo' = [tfo EXCEPT ![c] = "none"]
         /\ UNCHANGED <<dbcur, dbinc, broken, frozen, issued, dup, nonmono, badval, tid, maxret>>

TFetch == /\ IsEv("fetch")
          /\ LET c == C(Trace[l])
                 o == Trace[l].o
             IN /\ c \in Callers
                /\ o \in AllOutcomes /\ OutcomeEnabled(o)
                /\ Trace[l].reply = Reply(o)            \* the database of the run is the specification's
                /\ dbcur' = DbAfter(o)
                /\ broken' = (broken \/ o = "neg_inc")
                /\ tfo' = [tfo EXCEPT ![c] = IF tfo[c] \in {"none", "ok"} THEN o ELSE tfo[c]]
          /\ UNCHANGED <<dbinc, frozen, issued, dup, nonmono, badval, tid, floor, maxret>>

Reject(why) == PrintT(<<"REJECT-REASON", tid, Trace[l].a, Trace[l].g, why>>) /\ FALSE

TRet == /\ IsEv("ret")
        /\ LET c == C(Trace[l])
               a == A(c)
               v == Trace[l].v
               isok == Trace[l].ok
           IN /\ c \in Callers
              \* the property, as enabling conditions: a run that violates it cannot be continued here
              /\ IF isok /\ tfo[c] \notin {"none", "ok"} THEN Reject("BadFetchFails") ELSE TRUE
              /\ IF isok /\ v \in issued THEN Reject("Distinct") ELSE TRUE
              /\ IF isok /\ floor[c] # NoVal /\ v <= floor[c] THEN Reject("Increasing") ELSE TRUE
              /\ IF isok
                 THEN /\ issued' = issued \cup {v}
                      /\ maxret' = [maxret EXCEPT ![a] = IF maxret[a] = NoVal \/ v > maxret[a] THEN v ELSE maxret[a]]
                 ELSE UNCHANGED <<issued, maxret>>
              /\ tfo' = [tfo EXCEPT ![c] = "none"]
        /\ UNCHANGED <<dbcur, dbinc, broken, frozen, tid, floor, dup, nonmono, badval>>

TReset == /\ Boundary
          /\ dbcur' = Start /\ dbinc' = Inc /\ broken' = FALSE
          /\ issued' = {} /\ dup' = FALSE /\ nonmono' = FALSE /\ badval' = FALSE
          /\ floor' = [c \in Callers |-> NoVal]
          /\ maxret' = [a \in Allocs |-> NoVal]
          /\ tfo' = [c \in Callers |-> "none"]
          /\ l' = l
          /\ tid' = Trace[l].t
          /\ UNCHANGED frozen

TraceNext == \/ TInit \/ TCall \/ TFetch \/ TRet
             \/ TReset

TraceSpec == TraceInit /\ tid = Trace[1].t /\ [][TraceNext]_<<vars, tvars>>

NumResets == Cardinality({i \in 2..Len(Trace) : Trace[i].t # Trace[i-1].t})
TraceAccepted ==
    LET d == TLCGet("stats").diameter IN
    IF d - 1 = Len(Trace) + NumResets THEN TRUE
    ELSE Print(<<"TRACE-REJECTED", d, Len(Trace), NumResets>>, FALSE)
===================================================================================
