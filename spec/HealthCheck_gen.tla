----------------------------- MODULE HealthCheck_gen -----------------------------
(* Case generation for the conformance replay of C27 / C28 (harness/backend/node_test.go).     *)
(*  GenMode = "bfs": every behaviour of GenLen events over a reduced input alphabet;            *)
(*  GenMode = "sim": (run with -simulate) random behaviours over the full alphabet, inputs        *)
(*                   drawn from weighted bags so that passing and failing rounds are balanced.    *)
(* Every event is emitted with the status the code's steps give (i), the set of statuses the      *)
(* properties allow (al) and the deciding rule (why).                                            *)
EXTENDS HealthCheck, TLC, Json

CONSTANTS GenMode, GenLen,
          FuseWeight     \* sim: relative weight of connection errors (0 = none: pure C28 histories)
VARIABLES hist,
          rs       \* sim: state of a small pseudo-random generator; TLC's seeded choice of the initial state
                   \* makes the whole behaviour a function of -seed (RandomElement is not seeded)

gvars == <<hvars, hist, rs>>

P(gc, k, kind) == [gc |-> gc, k |-> k, kind |-> kind]

(* reduced alphabets for exhaustive generation *)
BfsProbes == {P("ok", 4, "allpass"), P("err", 0, "none"), P("ok", 1, "ping_fail")}
             \cup (IF HealthSQL THEN {P("ok", 0, "hs_ok"), P("ok", 0, "hs_timeout")} ELSE {})
BfsSyncs  == IF SBM = 0 THEN {"ok"} ELSE {"ok", "lag_over", "sql_stopped", "qerr"}
BfsKinds  == {"conn", "sql"}
BfsTicks  == {1, PingPeriod, DownAfter}

(* weighted bags for simulation *)
PassBag == IF HealthSQL THEN <<P("ok", 0, "hs_ok"), P("ok", 0, "hs_ok"), P("ok", 1, "hs_ok"), P("ok", 3, "hs_ok"),
                               P("ok", 4, "allpass")>>
           ELSE <<P("ok", 4, "allpass")>>
FailSet == {pr \in Probes : ~Passes(pr)}
SyncBag == IF SBM = 0 THEN <<"ok", "lag_over">>
           ELSE <<"ok", "ok", "ok", "ok", "ok", "ok", "lag_eq", "lag_over", "lag_null", "io_stopped", "io_connecting",
                  "io_null", "sql_stopped", "priv", "empty", "qerr">>
ClassBag == <<"rround", "rround", "rround", "rround", "mround", "mround", "tick", "tick", "tick">>
            \o [i \in 1..FuseWeight |-> "err"]
KindBag == <<"conn", "conn", "conn", "pool_timeout", "nil", "sql", "plain", "ctx">>
TickBag == <<1, 2, PingPeriod, PingPeriod, PingPeriod, 2 * PingPeriod, 2 * PingPeriod + 1, DownAfter - 1, DownAfter,
             DownAfter + 1>>

(* k-th draw of this step from 1..nmax *)
Draw(k, nmax) == (((rs * (2 * k + 1) + k * 7919) % 65537) % nmax) + 1
Pick(k, bag)  == bag[Draw(k, Len(bag))]
RECURSIVE AsSeq(_)
AsSeq(S) == IF S = {} THEN <<>> ELSE LET x == CHOOSE y \in S : TRUE IN <<x>> \o AsSeq(S \ {x})
FailBag == AsSeq(FailSet)
RandomProbe == IF Draw(1, 5) <= 3 THEN Pick(2, PassBag) ELSE Pick(3, FailBag)

SimStep ==
    LET c == IF HasMaster THEN Pick(4, ClassBag) ELSE Pick(4, SelectSeq(ClassBag, LAMBDA x : x # "mround"))
    IN CASE c = "rround" -> ReplicaRound(RandomProbe, Pick(5, SyncBag))
         [] c = "mround" -> MasterRound(RandomProbe)
         [] c = "err"    -> HConnErr(Pick(6, KindBag))
         [] OTHER        -> LET d == Pick(7, TickBag) IN IF d >= 1 THEN HTick(d) ELSE HTick(1)

BfsStep == \/ \E pr \in BfsProbes : MasterRound(pr)
           \/ \E pr \in BfsProbes, sy \in BfsSyncs : ReplicaRound(pr, sy)
           \/ FuseWeight > 0 /\ \E k \in BfsKinds : HConnErr(k)
           \/ \E d \in BfsTicks : HTick(d)

GenInit == HInit /\ hist = <<>> /\ rs \in (IF GenMode = "sim" THEN 1..8192 ELSE {0})
GenNext == /\ Len(hist) < GenLen
           /\ IF GenMode = "sim" THEN SimStep ELSE BfsStep
           /\ hist' = Append(hist, last')
           /\ rs' = IF GenMode = "sim" THEN (rs * 75 + 74) % 65537 ELSE 0
GenSpec == GenInit /\ [][GenNext]_gvars

Emit == Len(hist) = GenLen =>
          PrintT(<<"CASE", ToJson([w |-> W, min |-> Min, policy |-> Policy, cool |-> Cool, t0 |-> T0,
                                   downafter |-> DownAfter, sbm |-> SBM, healthsql |-> HealthSQL,
                                   hasmaster |-> HasMaster, events |-> hist])>>)
==================================================================================
