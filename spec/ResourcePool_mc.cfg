\* steady state, 2 clients x 2 rounds, one idle sweep, factory failures, Put(nil): every invariant, no cut; 56,503 distinct states
\* (checks/C24.py generates the configurations it runs from the same templates; measured sizes are in evidence/C24.json)
SPECIFICATION Spec
CONSTANTS
  Clients = {"c1","c2"}
  MaxCap = 2
  InitCap = 1
  Rounds = 2
  Sweeps = 1
  Ticks = 0
  SetCapTo = 0
  WithClose = FALSE
  FactoryFails = TRUE
  PutNil = TRUE
  Timeouts = FALSE
INVARIANTS TypeOK NoOverAllocation OneHolder PutNeverFails NoOtherPanic QuiescentAccounting CountersAgree SlotsConserved CapacityInRange NoRootCause
CHECK_DEADLOCK TRUE
