#!/bin/bash
# usage: tools/seedall.sh <ref> <extra seedtest args...> -- runs seedtest for every seeded/* (4 in parallel), log in out/seedall.log
cd "$(dirname "$0")/.."
ref=$1; shift
ls -d seeded/*/ | xargs -P 4 -I{} sh -c "python3 tools/seedtest.py {} --ref $ref $* > out/seedlogs/\$(basename {}).log 2>&1; echo \$(basename {}) done" 
