#!/bin/bash
# usage: tools/seedall.sh <glob under seeded/> <parallelism> <seedtest args...>
cd "$(dirname "$0")/.."
pat=$1; par=$2; shift; shift
mkdir -p out/seedlogs
ls -d seeded/$pat/ | xargs -P $par -I{} sh -c "python3 tools/seedtest.py {} $* > out/seedlogs/\$(basename {}).log 2>&1; echo \$(basename {}) done"
