#!/usr/bin/env python3
"""Rebuild /verif/MANIFEST.json from the MANIFEST fragments of checks/C*.py and tools/manifest_base.json."""
import importlib.util
import json
import os
import sys

HERE = os.path.dirname(os.path.abspath(__file__))
VERIF = os.path.dirname(HERE)
sys.path.insert(0, HERE)


def main():
    base = json.load(open(os.path.join(HERE, "manifest_base.json")))
    props = [json.loads(l)["id"] for l in open(os.path.join(VERIF, "properties.jsonl")) if l.strip()]
    checks = []
    claimed = set()
    for pid in props:
        p = os.path.join(VERIF, "checks", pid + ".py")
        if not os.path.exists(p):
            continue
        spec = importlib.util.spec_from_file_location("check_" + pid, p)
        m = importlib.util.module_from_spec(spec)
        sys.path.insert(0, os.path.join(VERIF, "checks"))
        spec.loader.exec_module(m)
        frag = dict(getattr(m, "MANIFEST"))
        if frag.get("disabled"):
            continue
        frag.pop("disabled", None)
        frag.setdefault("property_id", pid)
        frag.setdefault("quick_cmd", "python3 tools/vcheck.py %s --tier quick" % pid)
        frag.setdefault("thorough_cmd", "python3 tools/vcheck.py %s --tier thorough" % pid)
        frag.setdefault("evidence_file", "/verif/evidence/%s.json" % pid)
        frag.setdefault("replay_cmd_template", "python3 tools/vcheck.py %s --replay {path}" % pid)
        checks.append(frag)
        claimed.add(pid)
    na_reasons = base.pop("not_applicable_reasons", {})
    na = []
    for pid in props:
        if pid not in claimed:
            na.append({"property_id": pid, "reason": na_reasons.get(pid, "check not built yet; not claimed")})
    base["checks"] = checks
    base["not_applicable"] = na
    with open(os.path.join(VERIF, "MANIFEST.json"), "w") as f:
        json.dump(base, f, indent=1)
        f.write("\n")
    print("MANIFEST.json: %d checks, %d not applicable" % (len(checks), len(na)))
    # merged known-findings file
    allf = []
    fd = os.path.join(VERIF, "findings")
    for pid in props:
        fp = os.path.join(fd, pid + ".json")
        if os.path.exists(fp):
            for k in json.load(open(fp)).get("findings", []):
                k = dict(k)
                k.setdefault("property", pid)
                allf.append(k)
    with open(os.path.join(VERIF, "known_findings.json"), "w") as f:
        json.dump({"comment": "merged from findings/<id>.json by tools/mkmanifest.py; status known = recorded genuine defect "
                              "(check prints KNOWN-FINDING and exits 0), status fixed = repaired by the named fix: commit (suppresses nothing)",
                   "findings": allf}, f, indent=1)
        f.write("\n")
    print("known_findings.json: %d entries" % len(allf))


if __name__ == "__main__":
    main()
