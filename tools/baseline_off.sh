#!/bin/bash
# Runs the repository's own test suite with the verif build tag OFF (hooks compiled out) and compares
# the outcome with /root/.vp/BASELINE.json (every stable_pass test must pass).
export GOFLAGS=-mod=mod GOPROXY=off GOSUMDB=off GOTOOLCHAIN=local
OUT=$(mktemp /tmp/verif-baseline-XXXXXX.json)
trap 'rm -f "$OUT"' EXIT
for m in . ./parser/goyacc; do
  (cd /repo/$m && go build ./... && go test -mod=mod -json -vet=off -count=1 -timeout 25m ./...) >> "$OUT" 2>/dev/null
done
python3 - "$OUT" <<'PY'
import json, sys
res = {}
for line in open(sys.argv[1], errors="replace"):
    try:
        o = json.loads(line)
    except Exception:
        continue
    if o.get("Test") and o.get("Action") in ("pass", "fail", "skip"):
        res[o["Package"] + "::" + o["Test"]] = o["Action"]
b = json.load(open("/root/.vp/BASELINE.json"))
bad = [t for t in b["stable_pass"] if res.get(t) != "pass"]
print("baseline (tag off): %d tests seen, %d of %d stable_pass tests pass" % (len(res), len(b["stable_pass"]) - len(bad), len(b["stable_pass"])))
for t in bad[:50]:
    print("NOT PASSING:", t, res.get(t))
sys.exit(1 if bad else 0)
PY
