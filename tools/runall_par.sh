#!/bin/bash
# usage: tools/runall_par.sh <tier> <parallelism> <id>...
cd "$(dirname "$0")/.."
tier=$1; par=$2; shift; shift
mkdir -p out/runall
printf '%s\n' "$@" | xargs -P $par -I{} sh -c "s=\$(date +%s); timeout 5400 python3 tools/vcheck.py {} --tier $tier > out/runall/{}.$tier.log 2>&1; rc=\$?; e=\$(date +%s); kf=\$(grep -c '^KNOWN-FINDING' out/runall/{}.$tier.log); echo \"{} tier=$tier rc=\$rc wall=\$((e-s))s known=\$kf\" >> out/runall-$tier.log"
