#!/usr/bin/env python3
"""Entry point:  python3 tools/vcheck.py <ID> [--tier quick|thorough] [--replay <file>]"""
import argparse
import importlib.util
import os
import sys
import traceback

HERE = os.path.dirname(os.path.abspath(__file__))
sys.path.insert(0, HERE)
import vlib  # noqa: E402


def load_check(pid):
    p = os.path.join(vlib.VERIF, "checks", pid + ".py")
    if not os.path.exists(p):
        raise SystemExit("no such check: " + p)
    sys.path.insert(0, os.path.join(vlib.VERIF, "checks"))
    spec = importlib.util.spec_from_file_location("check_" + pid, p)
    m = importlib.util.module_from_spec(spec)
    spec.loader.exec_module(m)
    return m


def main():
    ap = argparse.ArgumentParser()
    ap.add_argument("pid")
    ap.add_argument("--tier", default=os.environ.get("VERIF_TIER") or "quick", choices=["quick", "thorough"])
    ap.add_argument("--replay", default=None)
    ap.add_argument("--keep", action="store_true", help="keep the scratch directory")
    a = ap.parse_args()
    try:
        seed = int(os.environ.get("VERIF_SEED", "1") or "1")
    except ValueError:
        seed = 1
    seed = abs(seed) % (2 ** 31 - 1) or 1
    m = load_check(a.pid)
    ctx = vlib.Ctx(a.pid, a.tier, seed, replay=a.replay)
    rc = 2
    try:
        m.run(ctx)
        rc = ctx.finish()
    except vlib.Inconclusive as e:
        print("INCONCLUSIVE property=%s %s" % (a.pid, e))
        rc = 2
    except Exception:
        traceback.print_exc()
        print("INCONCLUSIVE property=%s internal error in the check driver" % a.pid)
        rc = 2
    finally:
        if a.keep:
            print("scratch kept at", ctx.scratch)
        else:
            ctx.cleanup()
    sys.exit(rc)


if __name__ == "__main__":
    main()
