#!/bin/bash
# For every "fix:" commit of /repo, run the repository's suite (verif tag off) at that commit in a scratch worktree
# and compare with BASELINE.json.  Output: out/baseline_each_fix.log
export GOFLAGS=-mod=mod GOPROXY=off GOSUMDB=off GOTOOLCHAIN=local
cd "$(dirname "$0")/.."
: > out/baseline_each_fix.log
for c in $(git -C /repo log --reverse --format=%h --grep='^fix:' ); do
  wt=$(mktemp -d /tmp/bfix-XXXXXX); rmdir $wt
  git -C /repo worktree add -q --detach $wt $c || continue
  out=$(mktemp)
  (cd $wt && go build ./... && go test -mod=mod -json -vet=off -count=1 -timeout 25m ./...) > $out 2>/dev/null
  python3 - $out $c >> out/baseline_each_fix.log <<'PY'
import json, sys
res = {}
for line in open(sys.argv[1], errors="replace"):
    try: o = json.loads(line)
    except Exception: continue
    if o.get("Test") and o.get("Action") in ("pass", "fail", "skip"):
        res[o["Package"] + "::" + o["Test"]] = o["Action"]
b = json.load(open("/root/.vp/BASELINE.json"))
bad = [t for t in b["stable_pass"] if res.get(t) != "pass" and "goyacc" not in t]
print(sys.argv[2], "tests seen", len(res), "stable_pass not passing:", len(bad), bad[:5])
PY
  rm -f $out
  git -C /repo worktree remove --force $wt
done
echo done >> out/baseline_each_fix.log
