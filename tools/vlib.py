#!/usr/bin/env python3
"""Shared driver library for the Gaea model-based verification checks.

Every property check is a python module /verif/checks/<ID>.py with

    MANIFEST = {...}            # fragment merged into /verif/MANIFEST.json by tools/mkmanifest.py
    def run(ctx): ...           # uses the Ctx helpers below

and is started with  `python3 tools/vcheck.py <ID> [--tier quick|thorough] [--replay <file>]`.

Verdict rules (DESIGN.md section 2.3):
  exit 0  everything explored held (listed known findings may have reproduced: KNOWN-FINDING lines)
  exit 1  the real code produced an observation the specification forbids and no known finding
          lists its signature:  VIOLATION property=<id> replay=<path>
  exit 2  INCONCLUSIVE (build failure, TLC crash / timeout, dead driver); never a VIOLATION line
"""
import fnmatch
import json
import os
import re
import shutil
import subprocess
import sys
import tempfile
import time

VERIF = os.path.dirname(os.path.dirname(os.path.abspath(__file__)))
REPO = os.environ.get("VERIF_REPO", "/repo")
TLA_CP = "/opt/veriftools/tla/tla2tools.jar:/opt/veriftools/tla/CommunityModules-deps.jar"
GO_ENV = {
    "GOFLAGS": "-mod=mod",
    "GOPROXY": "off",
    "GOSUMDB": "off",
    "GOTOOLCHAIN": "local",
    "MOCKEY_CHECK_GCFLAGS": "false",
}


class Inconclusive(Exception):
    pass


def tla_unescape(s):
    out = []
    i = 0
    while i < len(s):
        c = s[i]
        if c == "\\" and i + 1 < len(s):
            n = s[i + 1]
            out.append({"n": "\n", "t": "\t", "r": "\r", "f": "\f"}.get(n, n))
            i += 2
        else:
            out.append(c)
            i += 1
    return "".join(out)


class TlcResult:
    def __init__(self):
        self.rc = None
        self.generated = 0
        self.distinct = 0
        self.queue = 0
        self.depth = 0
        self.violated = None  # name of violated invariant / property, or "deadlock", "postcondition"
        self.error = None  # other TLC error text
        self.cases = []  # JSON values emitted through PrintT(<<"CASE", ToJson(x)>>)
        self.prints = []  # other PrintT tuples as raw text
        self.coverage = {}  # action name -> count (when coverage=True)
        self.zero_actions = []
        self.out_path = None
        self.wall = 0.0
        self.trace_text = ""
        self.tlcget = {}
        self.trace_states = 0

    def stats(self):
        return {"generated": self.generated, "distinct": self.distinct, "depth": self.depth}


class Ctx:
    def __init__(self, pid, tier, seed, replay=None):
        self.pid = pid
        self.tier = tier
        self.seed = seed
        self.replay = replay
        self.t0 = time.time()
        self.scratch = tempfile.mkdtemp(prefix="verif-%s-" % pid)
        self.violations = []  # dicts: sig, what, replay
        self.known_hits = {}  # sig -> [what, count]
        self.cov = {
            "states": 0,
            "transitions": 0,
            "traces_validated_against_impl": 0,
            "samples": [],
            "evaluations": 0,
            "distinct_nontrivial": 0,
            "rule": "",
            "tlc_runs": [],
            "go_runs": [],
        }
        self.assumptions = []
        self.notes = []
        self.level = "model_checking"
        self._known = load_known(pid)
        self._nrep = 0
        self.thorough = tier == "thorough"

    # ------------------------------------------------------------------ utilities
    def log(self, *a):
        print("[%s %6.1fs]" % (self.pid, time.time() - self.t0), *a, flush=True)

    def path(self, *p):
        return os.path.join(self.scratch, *p)

    def cleanup(self):
        shutil.rmtree(self.scratch, ignore_errors=True)

    def write_ndjson(self, name, items):
        p = name if os.path.isabs(name) else self.path(name)
        with open(p, "w") as f:
            for it in items:
                f.write(json.dumps(it, separators=(",", ":"), sort_keys=True))
                f.write("\n")
        return p

    @staticmethod
    def read_ndjson(p):
        out = []
        with open(p) as f:
            for line in f:
                line = line.strip()
                if line:
                    out.append(json.loads(line))
        return out

    def sample(self, x, limit=6):
        if len(self.cov["samples"]) < limit:
            self.cov["samples"].append(x)

    # ------------------------------------------------------------------ TLC
    def tlc(self, module, cfg=None, mode="mc", workers=None, sim=None, depth=None, timeout=600,
            coverage=False, dfs=False, heap="6g", xss=None, extra_files=None, defines=None,
            allow_violation=False, seed=None, keep_cases=True, case_sink=None, label=None):
        """Run TLC on /verif/spec/<module>.tla with config <cfg> inside the scratch dir.

        mode: "mc" exhaustive BFS; "sim" random simulation (sim="num=N" and depth=D);
              "tv" trace validation (workers forced to 1).
        extra_files: {name: path-or-text} copied next to the spec (e.g. the recorded trace).
        Returns TlcResult.  TLC crash / timeout raises Inconclusive.  An invariant violation is
        returned (r.violated) - the caller decides what it means (spec bug vs. candidate vs. trace reject).
        """
        specdir = os.path.join(VERIF, "spec")
        wd = tempfile.mkdtemp(prefix="tlc-", dir=self.scratch)
        for fn in os.listdir(specdir):
            if fn.endswith(".tla") or fn.endswith(".cfg"):
                shutil.copy(os.path.join(specdir, fn), wd)
        for name, src in (extra_files or {}).items():
            dst = os.path.join(wd, name)
            if isinstance(src, str) and len(src) < 4096 and "\n" not in src and os.path.isabs(src) and os.path.exists(src):
                shutil.copy(src, dst)
            else:
                with open(dst, "w") as f:
                    f.write(src)
        cfg = cfg or (module + ".cfg")
        if workers is None:
            workers = "1" if mode in ("tv",) else "auto"
        jopts = ["-XX:+UseParallelGC", "-Xmx" + heap]
        if xss:
            jopts.append("-Xss" + xss)
        if dfs:
            jopts.append("-Dtlc2.tool.queue.IStateQueue=StateDeque")
        for k, v in (defines or {}).items():
            jopts.append("-D%s=%s" % (k, v))
        cmd = ["java"] + jopts + ["-cp", TLA_CP, "tlc2.TLC", "-workers", str(workers), "-metadir",
                                  os.path.join(wd, "meta"), "-config", cfg]
        if mode == "sim":
            s = "-simulate"
            cmd += [s] + ([sim] if sim else [])
            if depth:
                cmd += ["-depth", str(depth)]
            cmd += ["-seed", str(seed if seed is not None else self.seed)]
        if coverage:
            cmd += ["-coverage", "1"]
        cmd += [module]
        outp = os.path.join(wd, "tlc.out")
        r = TlcResult()
        r.out_path = outp
        t0 = time.time()
        env = dict(os.environ)
        env.pop("JAVA_TOOL_OPTIONS", None)
        with open(outp, "w") as fo:
            try:
                p = subprocess.run(cmd, cwd=wd, stdout=fo, stderr=subprocess.STDOUT, timeout=timeout, env=env)
                r.rc = p.returncode
            except subprocess.TimeoutExpired:
                if mode == "sim":
                    r.rc = 0  # simulation is open-ended: a timeout just ends sampling
                else:
                    raise Inconclusive("TLC timeout after %ss on %s/%s (see %s)" % (timeout, module, cfg, outp))
        r.wall = time.time() - t0
        self._parse_tlc(r, keep_cases, case_sink)
        self.cov["tlc_runs"].append({
            "module": module, "cfg": cfg, "mode": mode, "label": label or "", "generated": r.generated,
            "distinct": r.distinct, "depth": r.depth, "wall_s": round(r.wall, 1),
            "violated": r.violated, "cases_emitted": len(r.cases) if keep_cases else r.ncases,
            "zero_coverage_actions": r.zero_actions,
        })
        if mode in ("mc", "tv") or mode == "sim":
            self.cov["states"] += r.distinct if mode != "sim" else r.generated
            self.cov["transitions"] += max(r.generated - 1, 0)
        if r.error:
            raise Inconclusive("TLC error on %s/%s: %s (see %s)" % (module, cfg, r.error, self._keep(outp)))
        if r.violated and not allow_violation:
            raise Inconclusive("TLC reports %s violated on %s/%s - specification-level failure, "
                               "not an implementation verdict (see %s)" % (r.violated, module, cfg, self._keep(outp)))
        return r

    def _keep(self, p):
        d = os.path.join(VERIF, "out", "logs")
        os.makedirs(d, exist_ok=True)
        dst = os.path.join(d, "%s-%d-%s" % (self.pid, int(time.time()), os.path.basename(p)))
        try:
            shutil.copy(p, dst)
        except Exception:
            return p
        return dst

    _re_stats = re.compile(r"^(\d+) states generated, (\d+) distinct states found, (\d+) states left on queue")
    _re_depth = re.compile(r"^The depth of the complete state graph search is (\d+)")
    _re_inv = re.compile(r"^Error: Invariant (\S+) is violated")
    _re_prop = re.compile(r"^Error: (Action|Temporal) propert(y|ies) (\S*)")
    _re_cov = re.compile(r"^<(\w+) line \d+, col \d+ to line \d+, col \d+ of module (\w+)>: (\d+):(\d+)")

    def _parse_tlc(self, r, keep_cases, case_sink):
        r.ncases = 0
        in_trace = False
        trace_lines = []
        with open(r.out_path, errors="replace") as f:
            for line in f:
                line = line.rstrip("\n")
                if line.startswith('<<"CASE", "'):
                    body = line[len('<<"CASE", "'):]
                    if body.endswith('">>'):
                        body = body[:-3]
                    try:
                        v = json.loads(tla_unescape(body))
                    except Exception as e:
                        r.error = "unparsable CASE line: %s (%s)" % (line[:200], e)
                        continue
                    r.ncases += 1
                    if case_sink is not None:
                        case_sink(v)
                    elif keep_cases:
                        r.cases.append(v)
                    continue
                if line.startswith("<<"):
                    r.prints.append(line)
                    continue
                m = self._re_stats.match(line)
                if m:
                    r.generated, r.distinct, r.queue = int(m.group(1)), int(m.group(2)), int(m.group(3))
                    continue
                m = re.match(r"^The number of states generated: (\d+)", line)
                if m:
                    r.generated = int(m.group(1))
                    continue
                m = self._re_depth.match(line)
                if m:
                    r.depth = int(m.group(1))
                    continue
                m = self._re_inv.match(line)
                if m:
                    r.violated = m.group(1)
                    in_trace = True
                    continue
                if line.startswith("Error: Deadlock reached"):
                    r.violated = "deadlock"
                    in_trace = True
                    continue
                if line.startswith("Error: Action property") or line.startswith("Error: Temporal properties"):
                    r.violated = line[len("Error: "):]
                    in_trace = True
                    continue
                if "Postcondition" in line and ("violated" in line or "false" in line.lower()):
                    if not r.violated:  # an invariant violation reported earlier is the primary verdict
                        r.violated = "postcondition"
                    continue
                if line.startswith("Error: The behavior up to this point is"):
                    in_trace = True
                    continue
                if line.startswith("Error:") and not r.violated:
                    if "Simulation" in line or "The behavior up to" in line:
                        continue
                    r.error = line
                    continue
                m = self._re_cov.match(line)
                if m:
                    name, cnt = m.group(1), int(m.group(4))
                    r.coverage[name] = r.coverage.get(name, 0) + cnt
                    continue
                if line.startswith("State ") and in_trace:
                    ms = re.match(r"^State (\d+):", line)
                    if ms:
                        r.trace_states = max(r.trace_states, int(ms.group(1)))
                if in_trace:
                    trace_lines.append(line)
        r.trace_text = "\n".join(trace_lines[:4000])
        r.zero_actions = sorted(k for k, v in r.coverage.items() if v == 0 and k not in ("Init",))
        if r.rc not in (0, None) and not r.violated and not r.error:
            # 12 = safety violation, 13 = liveness, 10/11 = deadlock/assumption ... anything else is a crash
            r.error = "TLC exited with status %s" % r.rc

    # ------------------------------------------------------------------ Go harness
    def go_test(self, pkg, files, run, env=None, timeout=1200, race=False, tags="verif", extra_overlay=None,
                test_timeout="30m", cwd=None):
        """Run in-package harness tests against /repo's current working tree through `go test -overlay`.

        pkg:   package directory relative to /repo (e.g. "util")
        files: list of harness file paths relative to /verif/harness (e.g. "util/timewheel_test.go");
               each is injected as /repo/<pkg>/zz_verif_<basename>.
        Returns (rc, output text).  A build failure raises Inconclusive.
        """
        ov = {"Replace": {}}
        kitdir = os.path.join(VERIF, "harness", "verifkit")
        for fn in os.listdir(kitdir):
            if fn.endswith(".go"):
                ov["Replace"][os.path.join(REPO, "internal", "verifkit", fn)] = os.path.join(kitdir, fn)
        for rel in files:
            src = os.path.join(VERIF, "harness", rel)
            if not os.path.exists(src):
                raise Inconclusive("missing harness file " + src)
            ov["Replace"][os.path.join(REPO, pkg, "zz_verif_" + os.path.basename(rel))] = src
        for dst, src in (extra_overlay or {}).items():
            ov["Replace"][dst] = src
        ovp = tempfile.mktemp(prefix="overlay-", suffix=".json", dir=self.scratch)
        with open(ovp, "w") as f:
            json.dump(ov, f)
        cmd = ["go", "test", "-vet=off", "-count=1", "-overlay=" + ovp, "-run", run, "-timeout", test_timeout]
        if tags:
            cmd += ["-tags", tags]
        if race:
            cmd += ["-race"]
        cmd += ["./" + pkg]
        e = dict(os.environ)
        e.update(GO_ENV)
        e["VERIF_SEED"] = str(self.seed)
        e["VERIF_TIER"] = self.tier
        e.update({k: str(v) for k, v in (env or {}).items()})
        t0 = time.time()
        try:
            p = subprocess.run(cmd, cwd=cwd or REPO, env=e, stdout=subprocess.PIPE, stderr=subprocess.STDOUT,
                               timeout=timeout)
        except subprocess.TimeoutExpired as ex:
            out = (ex.stdout or b"").decode(errors="replace")
            raise Inconclusive("go test timeout after %ss in %s: %s" % (timeout, pkg, out[-2000:]))
        out = p.stdout.decode(errors="replace")
        self.cov["go_runs"].append({"pkg": pkg, "run": run, "rc": p.returncode, "wall_s": round(time.time() - t0, 1),
                                    "race": race})
        if "[build failed]" in out or "[setup failed]" in out or re.search(r"^# github.com/XiaoMi/Gaea", out, re.M) \
                and p.returncode != 0 and "--- FAIL" not in out and "panic:" not in out:
            raise Inconclusive("go build failed for %s:\n%s" % (pkg, out[-3000:]))
        return p.returncode, out

    def harness(self, pkg, files, run, cases, env=None, **kw):
        """Feed NDJSON cases to an in-package harness test and read back its NDJSON results.

        The harness must write one result object per case and a last line {"summary": true, "cases": N}.
        A missing summary (dead driver, crash) raises Inconclusive unless crash_ok is given.
        """
        crash_ok = kw.pop("crash_ok", False)
        cin = cases if isinstance(cases, str) else self.write_ndjson(tempfile.mktemp(prefix="cases-", suffix=".ndjson", dir=self.scratch), cases)
        cout = tempfile.mktemp(prefix="out-", suffix=".ndjson", dir=self.scratch)
        e = {"VERIF_CASES": cin, "VERIF_OUT": cout}
        e.update(env or {})
        rc, out = self.go_test(pkg, files, run, env=e, **kw)
        results = []
        summary = None
        if os.path.exists(cout):
            with open(cout) as f:
                for line in f:
                    line = line.strip()
                    if not line:
                        continue
                    try:
                        o = json.loads(line)
                    except Exception:
                        continue  # torn last line of a crashed driver
                    if isinstance(o, dict) and o.get("summary"):
                        summary = o
                    else:
                        results.append(o)
        if summary is None and not crash_ok:
            raise Inconclusive("harness %s %s produced no summary (rc=%s); output tail:\n%s" % (pkg, run, rc, out[-3000:]))
        return results, summary, out

    # ------------------------------------------------------------------ verdict bookkeeping
    def known_match(self, sig):
        for k in self._known:
            if k.get("status", "known") != "known":
                continue
            if k["signature"] == sig or ("*" in k["signature"] and fnmatch.fnmatchcase(sig, k["signature"])):
                return k
        return None

    def deviation(self, sig, what, case=None):
        """The real code produced an observation the specification forbids.  sig classifies it."""
        k = self.known_match(sig)
        if k is not None:
            h = self.known_hits.setdefault(k["signature"], [k.get("what", what), 0, sig])
            h[1] += 1
            return False
        for v in self.violations:
            if v["sig"] == sig:
                v["count"] += 1
                return True
        d = os.path.join(VERIF, "out", "replay", self.pid)
        os.makedirs(d, exist_ok=True)
        self._nrep += 1
        rp = os.path.join(d, "%s-%d-%d.ndjson" % (self.tier, int(self.t0), self._nrep))
        with open(rp, "w") as f:
            f.write(json.dumps({"property": self.pid, "signature": sig, "what": what, "case": case}, sort_keys=True))
            f.write("\n")
        self.violations.append({"sig": sig, "what": what, "replay": rp, "count": 1})
        return True

    def finish(self):
        cov = self.cov
        if not cov["rule"]:
            cov.pop("rule")
        wall = time.time() - self.t0
        for sig, (what, n, _) in sorted(self.known_hits.items()):
            print("KNOWN-FINDING: property=%s %s -- %s (reproduced %d times)" % (self.pid, sig, what, n))
        for v in self.violations:
            print("VIOLATION property=%s replay=%s" % (self.pid, v["replay"]))
            print("  signature: %s (x%d)\n  what: %s" % (v["sig"], v["count"], v["what"]))
        cov["known_findings_reproduced"] = {s: h[1] for s, h in self.known_hits.items()}
        cov["violation_signatures"] = [v["sig"] for v in self.violations]
        if self.notes:
            cov["notes"] = self.notes
        ev = {
            "property_id": self.pid,
            "tier": self.tier,
            "seed": int(self.seed),
            "level": self.level,
            "coverage": cov,
            "assumptions": self.assumptions,
            "wall_s": round(wall, 2),
            "violations": len(self.violations),
        }
        # runs against a scratch copy of the repository (mutation testing) must not overwrite the
        # evidence of the real tree: they write under out/evidence-scratch/
        evdir = os.path.join(VERIF, "evidence")
        if os.environ.get("VERIF_REPO") or os.environ.get("VERIF_EVIDENCE_DIR"):
            evdir = os.environ.get("VERIF_EVIDENCE_DIR") or os.path.join(VERIF, "out", "evidence-scratch")
        os.makedirs(evdir, exist_ok=True)
        if not self.replay:
            with open(os.path.join(evdir, self.pid + ".json"), "w") as f:
                json.dump(ev, f, indent=1, sort_keys=True)
                f.write("\n")
        return 1 if self.violations else 0


def load_known(pid):
    # source of truth: findings/<pid>.json (committed, never written at run time);
    # known_findings.json is the merged copy built by tools/mkmanifest.py
    p = os.path.join(VERIF, "findings", pid + ".json")
    if not os.path.exists(p):
        return []
    with open(p) as f:
        data = json.load(f)
    return [k for k in data.get("findings", []) if k.get("property", pid) == pid]


def known_replay_cases(pid):
    """Cases stored with known findings are always part of the run (so a finding is re-observed, or seen fixed)."""
    out = []
    for k in load_known(pid):
        c = k.get("case")
        if c is not None:
            out.append(c)
    return out


def _ctx_validate_traces(self, module, cfg, lines, tid="t", extra_files=None, max_rejects=5, timeout=300, dfs=False,
                         trace_name="trace.ndjson", cfg_text=None):
    """Validate concatenated implementation traces (list of dict events, field `tid` = trace id) with the
    trace specification <module>.  The trace spec must follow the TimeWheel_trace pattern: one step per
    line, one extra step per change of trace id, POSTCONDITION printing <<"TRACE-REJECTED", diameter, ..>>.
    Returns (n_traces_accepted, rejected) where rejected is a list of (trace_id, line_index_in_trace, event).
    A rejected trace is removed and the remainder validated again so that the rest is still examined."""
    rejected = []
    lines = list(lines)
    while True:
        if not lines:
            return 0, rejected
        ids = []
        for e in lines:
            if not ids or ids[-1] != e[tid]:
                ids.append(e[tid])
        tp = self.write_ndjson(tempfile.mktemp(prefix="trace-", suffix=".ndjson", dir=self.scratch), lines)
        xf = {trace_name: tp}
        xf.update(extra_files or {})
        if cfg_text:
            xf[cfg] = cfg_text
        r = self.tlc(module, cfg, mode="tv", extra_files=xf, allow_violation=True, timeout=timeout, dfs=dfs,
                     label="trace validation")
        if r.violated is None:
            return len(ids), rejected
        # locate the first line that could not be matched: d-1 steps were taken
        d = None
        if r.violated != "postcondition":
            # an invariant of the specification failed on an implementation trace: the error
            # trace TLC prints ends in the offending state
            if r.trace_states:
                d = r.trace_states
        else:
            for p in r.prints:
                m = re.match(r'<<"TRACE-REJECTED", (\d+),', p)
                if m:
                    d = int(m.group(1))
        if d is None:
            raise Inconclusive("trace validation failed without a position (see %s)" % self._keep(r.out_path))
        steps = d - 1 if r.violated == "postcondition" else d - 2
        cur = None
        bad = None
        for i, e in enumerate(lines):
            need = 1 + (1 if (cur is not None and e[tid] != cur) else 0)
            cur = e[tid]
            if steps < need:
                bad = i
                break
            steps -= need
        if bad is None:
            bad = len(lines) - 1
        bt = lines[bad][tid]
        first = next(i for i, e in enumerate(lines) if e[tid] == bt)
        rejected.append({"trace": bt, "index": bad - first, "event": lines[bad], "why": r.violated,
                         "events": [e for e in lines if e[tid] == bt]})
        lines = [e for e in lines if e[tid] != bt]
        if len(rejected) >= max_rejects:
            return len(ids) - 1, rejected


Ctx.validate_traces = _ctx_validate_traces
