#!/bin/bash
# usage: tools/runall.sh <tier> <id>...   -> out/runall-<tier>.log (one line per check) + out/runall/<id>.<tier>.log
cd "$(dirname "$0")/.."
tier=$1; shift
mkdir -p out/runall
for id in "$@"; do
  s=$(date +%s)
  timeout 3600 python3 tools/vcheck.py $id --tier $tier > out/runall/$id.$tier.log 2>&1
  rc=$?
  e=$(date +%s)
  kf=$(grep -c '^KNOWN-FINDING' out/runall/$id.$tier.log)
  echo "$id tier=$tier seed=${VERIF_SEED:-1} rc=$rc wall=$((e-s))s known=$kf" | tee -a out/runall-$tier.log
done
