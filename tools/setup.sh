#!/bin/bash
# Offline setup: check the toolchain and warm the Go build cache for the packages the harnesses compile.
set -u
export GOFLAGS=-mod=mod GOPROXY=off GOSUMDB=off GOTOOLCHAIN=local MOCKEY_CHECK_GCFLAGS=false
cd "$(dirname "$0")/.."
java -version >/dev/null 2>&1 || { echo "java missing"; exit 1; }
test -f /opt/veriftools/tla/tla2tools.jar || { echo "tla2tools.jar missing"; exit 1; }
go version || exit 1
python3 tools/mkmanifest.py >/dev/null || exit 1
mkdir -p evidence out
( cd /repo && go build ./... && go test -tags verif -vet=off -count=1 -run '^$' ./util/ ./backend/ ./mysql/ ./models/ ./proxy/... ./cc/... ./parser/ >/dev/null 2>&1 )
echo "setup ok"
