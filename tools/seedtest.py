#!/usr/bin/env python3
"""Run the registered check(s) against a seeded defect:  tools/seedtest.py seeded/<name> [--tier quick|thorough] [--demo]

Creates a scratch worktree of /repo HEAD outside /repo and /verif, applies seeded/<name>/patch.diff, runs the
check of the property named in meta.json with VERIF_REPO pointing at the worktree, records the outcome in
seeded/<name>/result.json and removes the worktree.  --demo also runs the demonstration test with and
without the patch (it must fail with, pass without)."""
import argparse
import json
import os
import re
import shutil
import subprocess
import sys
import tempfile
import time

VERIF = os.path.dirname(os.path.dirname(os.path.abspath(__file__)))
GOENV = {"GOFLAGS": "-mod=mod", "GOPROXY": "off", "GOSUMDB": "off", "GOTOOLCHAIN": "local", "MOCKEY_CHECK_GCFLAGS": "false"}


def sh(cmd, cwd=None, env=None, timeout=3600):
    e = dict(os.environ)
    e.update(GOENV)
    e.update(env or {})
    p = subprocess.run(cmd, shell=True, cwd=cwd, env=e, stdout=subprocess.PIPE, stderr=subprocess.STDOUT, timeout=timeout)
    return p.returncode, p.stdout.decode(errors="replace")


def demo_pkg(path):
    first = open(path).readline()
    m = re.search(r"([\w./-]+/[\w./-]+|\butil\b|\bmysql\b|\bbackend\b|\bmodels\b|\bparser\b)", first.replace("//", " ", 1))
    return m.group(1).strip("./") if m else None


def main():
    ap = argparse.ArgumentParser()
    ap.add_argument("dir")
    ap.add_argument("--tier", default="quick")
    ap.add_argument("--demo", action="store_true")
    ap.add_argument("--pkgtests", action="store_true", help="run the existing tests of the touched packages with the patch and compare with BASELINE.json")
    ap.add_argument("--nocheck", action="store_true", help="only confirm the seeded change (demo / package tests), do not run the checks")
    ap.add_argument("--ref", default="HEAD", help="git ref of /repo the scratch worktree is created from")
    ap.add_argument("--props", default=None, help="comma list of property ids to run (default: meta.json property)")
    a = ap.parse_args()
    d = os.path.abspath(a.dir)
    meta = json.load(open(os.path.join(d, "meta.json")))
    props = a.props.split(",") if a.props else [meta["property"]]
    wt = tempfile.mkdtemp(prefix="seedwt-")
    os.rmdir(wt)
    rc, out = sh("git -C /repo worktree add -q --detach %s %s" % (wt, a.ref))
    if rc != 0:
        print(out)
        sys.exit(2)
    res = {"tier": a.tier, "at": time.strftime("%Y-%m-%dT%H:%M:%S"), "checks": {}}
    try:
        if a.demo and os.path.exists(os.path.join(d, "demo_test.go")):
            pkg = meta.get("demo_pkg") or demo_pkg(os.path.join(d, "demo_test.go"))
            dst = os.path.join(wt, pkg, "zz_seed_demo_test.go")
            shutil.copy(os.path.join(d, "demo_test.go"), dst)
            names = re.findall(r"^func (Test\w+)\(", open(os.path.join(d, "demo_test.go")).read(), re.M)
            run = meta.get("demo_run") or ("^(" + "|".join(names) + ")$" if names else ".")
            rc0, o0 = sh("go test -vet=off -count=1 -run '%s' ./%s/" % (run, pkg), cwd=wt)
            res["demo_without_patch"] = "pass" if rc0 == 0 else "FAIL"
        rc, out = sh("git apply --whitespace=nowarn %s" % os.path.join(d, "patch.diff"), cwd=wt)
        if rc != 0:
            print("patch does not apply:", out)
            res["error"] = "patch does not apply"
            sys.exit(2)
        rc, out = sh("go build ./...", cwd=wt)
        res["builds"] = rc == 0
        if a.demo and os.path.exists(os.path.join(d, "demo_test.go")):
            rc1, o1 = sh("go test -vet=off -count=1 -run '%s' ./%s/" % (run, pkg), cwd=wt)
            res["demo_with_patch"] = "pass" if rc1 == 0 else "FAIL"
            os.remove(dst)
        if a.pkgtests:
            pkgs = sorted(set(os.path.dirname(l[6:].strip()) for l in open(os.path.join(d, "patch.diff")) if l.startswith("+++ b/") and l.strip().endswith(".go")))
            base = json.load(open("/root/.vp/BASELINE.json"))["stable_pass"]
            seen = {}
            for pk in pkgs:
                rc, out = sh("go test -json -vet=off -count=1 -timeout 20m ./%s/" % pk, cwd=wt)
                for line in out.splitlines():
                    try:
                        o = json.loads(line)
                    except Exception:
                        continue
                    if o.get("Test") and o.get("Action") in ("pass", "fail", "skip"):
                        seen[o["Package"] + "::" + o["Test"]] = o["Action"]
            want = [t for t in base if any(t.startswith("github.com/XiaoMi/Gaea/" + pk + "::") for pk in pkgs)]
            bad = [t for t in want if seen.get(t) != "pass"]
            res["existing_tests"] = {"packages": pkgs, "baseline_tests": len(want), "not_passing": bad[:20]}
            print("existing tests of", pkgs, ":", len(want) - len(bad), "of", len(want), "baseline tests pass with the patch")
        for pid in ([] if a.nocheck else props):
            t0 = time.time()
            rc, out = sh("python3 tools/vcheck.py %s --tier %s" % (pid, a.tier), cwd=VERIF, env={"VERIF_REPO": wt})
            viol = [l for l in out.splitlines() if l.startswith("VIOLATION")]
            sigs = [l.strip() for l in out.splitlines() if l.strip().startswith("signature:")]
            res["checks"][pid] = {"exit": rc, "violation_lines": viol[:5], "signatures": sigs[:5], "wall_s": round(time.time() - t0, 1),
                                  "detected": rc == 1 and bool(viol)}
            print(pid, "exit", rc, "detected" if rc == 1 and viol else "NOT detected", sigs[:2])
            if rc == 2:
                print(out[-1500:])
    finally:
        sh("git -C /repo worktree remove --force %s" % wt)
        shutil.rmtree(wt, ignore_errors=True)
        rp = os.path.join(d, "result.json")
        old = {}
        if os.path.exists(rp):
            try:
                old = json.load(open(rp))
            except Exception:
                old = {}
        if a.demo or a.pkgtests:
            conf = {k: res[k] for k in ("demo_without_patch", "demo_with_patch", "existing_tests", "builds", "at") if k in res}
            rc_, head = sh("git -C /repo rev-parse --short %s" % a.ref)
            conf["tree"] = "/repo " + head.strip()
            with open(os.path.join(d, "confirm.json"), "w") as f:
                json.dump(conf, f, indent=1)
                f.write("\n")
        prev = old.get(a.tier, {})
        for k in ("demo_without_patch", "demo_with_patch", "existing_tests", "builds"):
            if k not in res and k in prev:
                res[k] = prev[k]
        merged = dict(prev.get("checks", {}))
        merged.update(res.get("checks", {}))
        res["checks"] = merged
        old[a.tier] = res
        with open(rp, "w") as f:
            json.dump(old, f, indent=1)
            f.write("\n")


if __name__ == "__main__":
    main()
