package util

// Conformance harness for spec/TimeWheel.tla (property C37).
// Direction G: TLC-generated behaviours (events + the set the specification fires at each tick)
// are replayed on the real TimeWheel, (a) directly through add/remove/handleTick and (b) through
// the real goroutine loop start() with the tick gate hook, producers calling Add/Remove.
// The harness also records what the implementation did as a trace for TLC (direction V).

import (
	"encoding/json"
	"fmt"
	"runtime"
	"sort"
	"sync"
	"testing"
	"time"

	"github.com/XiaoMi/Gaea/internal/verifkit"
)

type twEvent struct {
	Ev    string   `json:"ev"`
	Key   string   `json:"key,omitempty"`
	D     int      `json:"d,omitempty"`
	Fires []string `json:"fires,omitempty"`
	Now   int      `json:"now,omitempty"`
}

type twCase struct {
	N       int       `json:"n"`
	Pending []string  `json:"pending"` // keys the specification still has registered at the end
	Events  []twEvent `json:"events"`
}

type twTraceEv struct {
	T     int      `json:"t"` // trace id
	Ev    string   `json:"ev"`
	Key   string   `json:"key"`
	D     int      `json:"d"`
	Fires []string `json:"fires"`
	N     int      `json:"n"`
	Cur   int      `json:"cur"`
}

type fireLog struct {
	mu    sync.Mutex
	fired []string
}

func (f *fireLog) cb(k string) func() {
	return func() {
		f.mu.Lock()
		f.fired = append(f.fired, k)
		f.mu.Unlock()
	}
}

func (f *fireLog) take(expect int) []string {
	// callbacks run in their own goroutines (go callback()): wait for the expected number,
	// then a short grace period so that surplus callbacks are seen as well.
	deadline := time.Now().Add(2 * time.Second)
	for spins := 0; ; spins++ {
		f.mu.Lock()
		n := len(f.fired)
		f.mu.Unlock()
		if n >= expect && spins >= 24 {
			break
		}
		if spins > 1000 {
			if time.Now().After(deadline) {
				break
			}
			time.Sleep(100 * time.Microsecond)
		}
		runtime.Gosched()
	}
	f.mu.Lock()
	out := f.fired
	f.fired = nil
	f.mu.Unlock()
	sort.Strings(out)
	return out
}

func sameSet(a, b []string) bool {
	if len(a) != len(b) {
		return false
	}
	for i := range a {
		if a[i] != b[i] {
			return false
		}
	}
	return true
}

func twSig(mode string, c *twCase, i int, want, got []string) string {
	// classify: early / late / spurious / missing relative to the specification
	kind := "wrong-set"
	if len(got) > len(want) {
		kind = "fires-not-due"
	} else if len(got) < len(want) {
		kind = "due-not-fired"
	}
	return fmt.Sprintf("C37 %s tick %s", mode, kind)
}

// replayDirect drives add/remove/handleTick in the wheel goroutine's own order.
func replayDirect(c *twCase, id int, res *verifkit.Result, trace *verifkit.Out) {
	tw, err := NewTimeWheel(time.Second, c.N)
	if err != nil {
		res.Dev("C37 harness new-wheel-failed", "%v", err)
		return
	}
	fl := &fireLog{}
	for i, e := range c.Events {
		switch e.Ev {
		case "add":
			tw.add(&Task{delay: time.Duration(e.D) * time.Second, key: e.Key, callback: fl.cb(e.Key)})
			if trace != nil {
				trace.Write(twTraceEv{T: id, Ev: "add", Key: e.Key, D: e.D, N: c.N, Cur: tw.currentIndex, Fires: []string{}})
			}
		case "del":
			tw.remove(e.Key)
			if trace != nil {
				trace.Write(twTraceEv{T: id, Ev: "del", Key: e.Key, N: c.N, Cur: tw.currentIndex, Fires: []string{}})
			}
		case "tick":
			tw.handleTick()
			want := append([]string{}, e.Fires...)
			sort.Strings(want)
			got := fl.take(len(want))
			if trace != nil {
				f := got
				if f == nil {
					f = []string{}
				}
				trace.Write(twTraceEv{T: id, Ev: "tick", Fires: f, N: c.N, Cur: tw.currentIndex})
			}
			if !sameSet(want, got) {
				res.Dev(twSig("direct", c, i, want, got), "event %d tick now=%d: specification fires %v, implementation fired %v", i, e.Now, want, got)
				return
			}
		}
	}
	// registered set at the end: a surplus (early) fire or a lost registration shows here even
	// when its callback goroutine has not run yet
	var have []string
	for k, idx := range tw.bucketIndexes {
		have = append(have, k.(string))
		if _, ok := tw.buckets[idx][k]; !ok {
			res.Dev("C37 direct index-without-task", "key %v indexed in bucket %d without a task", k, idx)
		}
	}
	sort.Strings(have)
	want := append([]string{}, c.Pending...)
	sort.Strings(want)
	if !sameSet(want, have) {
		res.Dev("C37 direct registered-set-differs", "at the end the specification has %v registered, the wheel has %v", want, have)
	}
	if extra := fl.take(0); len(extra) > 0 {
		res.Dev("C37 direct late-surplus-fire", "callbacks ran that no tick accounted for: %v", extra)
	}
}

var twGateMu sync.Mutex

// replayLoop runs the real start() loop; the tick gate hook replaces the sleep.
func replayLoop(c *twCase, id int, res *verifkit.Result) {
	tw, err := NewTimeWheel(time.Second, c.N)
	if err != nil {
		res.Dev("C37 harness new-wheel-failed", "%v", err)
		return
	}
	arrived := make(chan struct{})
	release := make(chan struct{})
	twGateMu.Lock()
	defer twGateMu.Unlock()
	VerifTickGate = func(w *TimeWheel) {
		if w != tw {
			time.Sleep(time.Hour)
		}
		arrived <- struct{}{}
		<-release
	}
	defer func() { VerifTickGate = nil }()
	tw.Start()
	wait := func() bool {
		select {
		case <-arrived:
			return true
		case <-time.After(5 * time.Second):
			return false
		}
	}
	if !wait() {
		res.Dev("C37 harness loop-did-not-reach-gate", "wheel goroutine never asked for its first tick")
		return
	}
	fl := &fireLog{}
	for i, e := range c.Events {
		switch e.Ev {
		case "add":
			// a delay that is not a whole number of ticks is rounded down by the wheel; a timeout
			// shorter than one tick is a zero-tick delay (Add itself rejects delay <= 0)
			delay := time.Duration(e.D)*time.Second + time.Duration(e.D%2)*300*time.Millisecond
			if e.D == 0 {
				delay = 500 * time.Millisecond
			}
			if err := tw.Add(delay, e.Key, fl.cb(e.Key)); err != nil {
				res.Dev("C37 loop add-rejected", "Add(%v): %v", delay, err)
				return
			}
		case "del":
			tw.Remove(e.Key)
		case "tick":
			release <- struct{}{}
			if !wait() {
				res.Dev("C37 loop tick-hang", "event %d: iteration did not complete", i)
				return
			}
			want := append([]string{}, e.Fires...)
			sort.Strings(want)
			got := fl.take(len(want))
			if !sameSet(want, got) {
				res.Dev(twSig("loop", c, i, want, got), "event %d tick now=%d: specification fires %v, implementation fired %v", i, e.Now, want, got)
				// stop the wheel
				tw.Stop()
				release <- struct{}{}
				return
			}
		}
	}
	tw.Stop()
	release <- struct{}{} // the loop drains "stop" and returns
}

func TestVerifTimeWheelReplay(t *testing.T) {
	out, err := verifkit.OpenOut()
	if err != nil {
		t.Fatal(err)
	}
	var trace *verifkit.Out
	if p := verifkit.TraceOutPath(); p != "" {
		trace, err = verifkit.OpenOutPath(p)
		if err != nil {
			t.Fatal(err)
		}
	}
	loopEvery := verifkit.EnvInt("VERIF_TW_LOOP_EVERY", 1)
	nloop, nticks, nfires := 0, 0, 0
	ndev, nskipped, maxDev := 0, 0, verifkit.EnvInt("VERIF_MAX_DEVS", 12)
	n, err := verifkit.EachCase(func(i int, raw json.RawMessage) error {
		var c twCase
		if err := json.Unmarshal(raw, &c); err != nil {
			return err
		}
		res := &verifkit.Result{Case: i}
		if ndev >= maxDev {
			nskipped++ // enough deviating behaviours to report; do not spend 2 s per missing callback on the rest
			return nil
		}
		for _, e := range c.Events {
			if e.Ev == "tick" {
				nticks++
				nfires += len(e.Fires)
			}
		}
		pan, msg, _ := verifkit.Catch(func() { replayDirect(&c, i, res, trace) })
		if pan {
			res.Dev("C37 direct panic", "%s", msg)
		}
		if loopEvery > 0 && i%loopEvery == 0 && len(res.Devs) == 0 {
			nloop++
			pan, msg, _ = verifkit.Catch(func() { replayLoop(&c, i, res) })
			if pan {
				res.Dev("C37 loop panic", "%s", msg)
			}
		}
		if len(res.Devs) > 0 {
			ndev++
			res.Obs = c
			out.Write(res)
		}
		return nil
	})
	if err != nil {
		t.Fatal(err)
	}
	if trace != nil {
		trace.Close(n, nil)
	}
	out.Close(n, map[string]interface{}{"loop_replays": nloop, "ticks": nticks, "expected_fires": nfires, "skipped_after_deviations": nskipped})
}
