package util

// Conformance harness for spec/ResourcePool.tla + spec/ResourcePoolP.tla (property C24).
//
// G  (TestVerifResourcePool, kinds "candidate" / "ordinary" / "replay"): a gate scheduler imposes
//    TLC-generated schedules (sequences of <process, label, choice>) on real goroutines that use the
//    real ResourcePool.  Every goroutine parks in the verifStep hook before each atomic step; the
//    scheduler releases exactly one step at a time.  After every step the P-level monitors run
//    (hand-outs <= max, one holder, Put never panics, quiescent accounting); the counters are also
//    compared with what the I-level specification expects (a difference there is MODEL-DRIFT, never
//    a violation).  An I-level counterexample is only a candidate: it counts when the real pool
//    shows the P-level bad state.
// V  kind "random": the same gate, but the scheduler itself draws a seeded random schedule among the
//    steps that are enabled in the real pool (lock free, channel non-empty ...), so interleavings the
//    model does not have (mutated code) are reached too; kind "free": really concurrent goroutines
//    with the hook used for random yields.  Both record resource-level events (Got/Put/PutDone/GetErr/
//    Panic/Quiescent) for TLC validation against ResourcePoolP_trace, and the gated runs record step
//    traces for validation against ResourcePool_trace.

import (
	"context"
	"encoding/json"
	"errors"
	"fmt"
	"math/rand"
	"runtime"
	"strings"
	"sync"
	"sync/atomic"
	"testing"
	"time"

	"github.com/XiaoMi/Gaea/internal/verifkit"
	"github.com/XiaoMi/Gaea/util/timer"
)

// ---------------------------------------------------------------------------------- case format

type rpCfg struct {
	Clients []string `json:"clients"`
	Max     int      `json:"max"`
	Init    int      `json:"init"`
	Rounds  int      `json:"rounds"`
	Sweeps  int      `json:"sweeps"`
	Ticks   int      `json:"ticks"`
	Setcap  int      `json:"setcap"`
	Close   bool     `json:"close"`
	// random / free modes only
	FactoryFails bool `json:"ff,omitempty"`
	PutNil       bool `json:"putnil,omitempty"`
	Timeouts     bool `json:"timeouts,omitempty"`
}

type rpStep struct {
	P string `json:"p"`
	L string `json:"l"`
	A int    `json:"a"`
	R int    `json:"r"`
	O []int  `json:"o,omitempty"` // chLen, capacity, available, inUse after the step
}

type rpCase struct {
	Kind       string   `json:"kind"` // candidate | ordinary | replay | random | free
	Cfg        rpCfg    `json:"cfg"`
	Bad        []string `json:"bad,omitempty"`
	Stale      string   `json:"stale,omitempty"`
	Sched      []rpStep `json:"sched,omitempty"`
	Seed       int64    `json:"seed,omitempty"`
	Runs       int      `json:"runs,omitempty"`
	Fam        string   `json:"fam,omitempty"`
	ProbeEvery int      `json:"probe_every,omitempty"`
}

// resource-level event (P-level vocabulary)
type rpEvent struct {
	T    string `json:"t"`
	Max  int    `json:"max"`
	Ev   string `json:"ev"`
	C    string `json:"c"`
	R    int    `json:"r"`
	Ok   bool   `json:"ok"`
	What string `json:"what"`
	Idle int    `json:"idle"`
	Cap  int    `json:"cap"`
	InU  int    `json:"inuse"`
	Av   int    `json:"avail"`
}

type rpStepEv struct {
	T string `json:"t"`
	P string `json:"p"`
	L string `json:"l"`
	A int    `json:"a"`
	O []int  `json:"o"`
}

type rpObs struct {
	Kind     string    `json:"kind"`
	Cfg      rpCfg     `json:"cfg"`
	Sched    []rpStep  `json:"sched,omitempty"` // the schedule actually executed (replayable)
	Events   []rpEvent `json:"events,omitempty"`
	Causes   []string  `json:"causes,omitempty"`
	Symptoms []string  `json:"symptoms,omitempty"`
	Drift    string    `json:"drift,omitempty"`
	Probe    string    `json:"probe,omitempty"`
	Imposed  bool      `json:"imposed"`
	Trace    string    `json:"trace,omitempty"`
	Fam      string    `json:"fam,omitempty"`
}

// ---------------------------------------------------------------------------------- resources

type rpRes struct {
	id     int
	closed int32
}

func (r *rpRes) Close() { atomic.StoreInt32(&r.closed, 1) }

type rpAbort struct{}

func rpGoid() uint64 {
	var b [64]byte
	n := runtime.Stack(b[:], false)
	// "goroutine 123 [running]:"
	var id uint64
	for _, c := range b[len("goroutine "):n] {
		if c < '0' || c > '9' {
			break
		}
		id = id*10 + uint64(c-'0')
	}
	return id
}

func rpPanicClass(msg string) string {
	switch {
	case strings.Contains(msg, "send on closed channel"):
		return "send-on-closed-channel"
	case strings.Contains(msg, "close of closed channel"):
		return "close-of-closed-channel"
	case strings.Contains(msg, "Put into a full"):
		return "full-pool"
	}
	return "other"
}

// ---------------------------------------------------------------------------------- gate scheduler

type gproc struct {
	name     string
	role     string // client | sweep | tick | worker | setcap | closer
	release  chan int
	parked   string // label the process is parked at ("" while running)
	last     string // label of the step being executed / executed last
	finished bool
	dead     bool // panicked
	started  bool
	cancel   context.CancelFunc
	putNil   bool
	holding  int
	runsLeft int
}

type garrival struct {
	p        *gproc
	label    string
	finished bool
}

type gsched struct {
	cfg      rpCfg
	rp       *ResourcePool
	procs    map[string]*gproc
	order    []string
	byGoid   sync.Map
	events   chan garrival
	mu       sync.Mutex // protects ledger fields written by process goroutines
	held     map[int]string
	lastGot  map[string]int
	evs      []rpEvent
	symptoms []string
	causes   []string
	tid      string

	nextRes     int
	factoryFail bool
	factoryHang bool            // the next factory call blocks until the f1 step releases it
	lateGates   []chan struct{} // factory calls in flight whose get has given up
	lateArrived chan struct{}
	foreignHits int64 // hook points passed by goroutines the scheduler does not know
	closedSeen  bool
	stopSweep   bool
	stopTick    bool
	capAtG4     map[string]int64
	lastCapW    string
	executed    []rpStep
	steps       []rpStepEv
	stuck       bool
	probing     bool
	probed      string
	aborted     int32
}

var rpCur atomic.Value // *gsched (nil-able through a wrapper)

type rpCurBox struct{ s *gsched }

func rpInstallHook() {
	VerifStepHook = func(rp *ResourcePool, point string) {
		b, _ := rpCur.Load().(rpCurBox)
		if b.s == nil || b.s.rp != rp {
			if f, _ := rpFree.Load().(rpFreeBox); f.f != nil && f.f.rp == rp {
				f.f.yield()
			}
			return
		}
		b.s.hook(point)
	}
}

func (s *gsched) hook(point string) {
	gid := rpGoid()
	var p *gproc
	if v, ok := s.byGoid.Load(gid); ok {
		p = v.(*gproc)
	} else if point == "w1" {
		// the goroutine spawned by scaleInResources
		p = s.procs["worker"]
		s.byGoid.Store(gid, p)
	} else {
		// not one of ours: a goroutine the pool created outside the specification runs free.  It cannot be given a
		// recover(): when it stands immediately before an operation that is certain to panic, the panic is recorded
		// instead of executed (it would kill the test process).
		atomic.AddInt64(&s.foreignHits, 1)
		ch := s.rp.resources
		msg := ""
		switch {
		case point == "p2" && s.closedSeen, (point == "s4" || point == "g10" || point == "i4") && s.closedSeen:
			msg = "send on closed channel"
		case point == "p2" && len(ch) >= cap(ch):
			msg = "attempt to Put into a full ResourcePool"
		case point == "s5" && s.closedSeen:
			msg = "close of closed channel"
		}
		if msg != "" {
			s.mu.Lock()
			s.ev(rpEvent{Ev: "Panic", C: "foreign", What: msg + " (certain: a goroutine outside the specification stands immediately before the operation)"})
			s.addSymptom(fmt.Sprintf("panic foreign:%s %s", point, rpPanicClass(msg)))
			s.mu.Unlock()
			atomic.AddInt64(&s.foreignHits, 1)
			select {}
		}
		return
	}
	s.events <- garrival{p: p, label: point}
	cmd := <-p.release
	if cmd != 0 {
		if p.role == "worker" {
			select {} // cannot unwind a goroutine the pool itself created
		}
		panic(rpAbort{})
	}
}

func (s *gsched) addSymptom(sym string) {
	for _, x := range s.symptoms {
		if x == sym {
			return
		}
	}
	s.symptoms = append(s.symptoms, sym)
}

func (s *gsched) addCause(c string) {
	for _, x := range s.causes {
		if x == c {
			return
		}
	}
	s.causes = append(s.causes, c)
}

func (s *gsched) ev(e rpEvent) {
	e.T = s.tid
	e.Max = s.cfg.Max
	s.evs = append(s.evs, e)
}

func (s *gsched) obs() []int {
	rp := s.rp
	return []int{len(rp.resources), int(rp.capacity.Get()), int(rp.available.Get()), int(rp.inUse.Get())}
}

func (s *gsched) factory() (Resource, error) {
	// runs in a goroutine created by createResourceWithRetry; exactly one call is active at a time
	if s.factoryFail {
		return nil, errors.New("verif: factory failure")
	}
	if s.factoryHang {
		s.factoryHang = false
		g := make(chan struct{})
		s.mu.Lock()
		s.lateGates = append(s.lateGates, g)
		s.mu.Unlock()
		s.lateArrived <- struct{}{}
		<-g // released by the f1 step (or never, when the run is abandoned)
		s.mu.Lock()
		s.nextRes++
		id := s.nextRes
		s.mu.Unlock()
		return &rpRes{id: id}, nil
	}
	s.mu.Lock()
	s.nextRes++
	id := s.nextRes
	s.mu.Unlock()
	return &rpRes{id: id}, nil
}

// run wraps a process body: registration of the goroutine, abort sentinel, panic capture.
func (s *gsched) spawn(p *gproc, body func()) {
	ready := make(chan struct{})
	go func() {
		s.byGoid.Store(rpGoid(), p)
		close(ready)
		defer func() {
			if r := recover(); r != nil {
				if _, ok := r.(rpAbort); ok {
					return
				}
				// a panic that the body did not classify itself
				s.mu.Lock()
				msg := fmt.Sprint(r)
				s.ev(rpEvent{Ev: "Panic", C: p.name, What: msg})
				s.addSymptom(fmt.Sprintf("panic %s:%s %s", p.role, p.last, rpPanicClass(msg)))
				s.mu.Unlock()
				p.dead = true
			}
			if atomic.LoadInt32(&s.aborted) == 0 {
				s.events <- garrival{p: p, finished: true}
			}
		}()
		body()
	}()
	<-ready
}

func (s *gsched) clientBody(p *gproc) func() {
	return func() {
		for round := 0; round < s.cfg.Rounds; round++ {
			ctx, cancel := context.WithCancel(context.Background())
			p.cancel = cancel
			r, err := s.rp.Get(ctx)
			cancel()
			if err != nil {
				what := "other"
				if err == ErrClosed {
					what = "closed"
				} else if err == ErrTimeout {
					what = "timeout"
				} else if strings.Contains(err.Error(), "factory failure") {
					what = "factory"
				}
				s.mu.Lock()
				s.ev(rpEvent{Ev: "GetErr", C: p.name, What: what})
				s.mu.Unlock()
				continue
			}
			res := r.(*rpRes)
			s.mu.Lock()
			if _, dup := s.held[res.id]; dup {
				s.addSymptom("double-issue")
			}
			s.held[res.id] = p.name
			if len(s.held) > s.cfg.Max {
				s.addSymptom("over-allocation")
			}
			s.ev(rpEvent{Ev: "Got", C: p.name, R: res.id})
			s.lastGot[p.name] = res.id
			p.holding = res.id
			nilPut := p.putNil
			s.mu.Unlock()
			// the hold lasts until the scheduler releases the p2 step of this Put (see step)
			ok, msg := true, ""
			func() {
				defer func() {
					if r := recover(); r != nil {
						if _, ab := r.(rpAbort); ab {
							panic(r)
						}
						ok, msg = false, fmt.Sprint(r)
					}
				}()
				if nilPut {
					res.Close()
					s.rp.Put(nil)
				} else {
					s.rp.Put(res)
				}
			}()
			s.mu.Lock()
			s.ev(rpEvent{Ev: "PutDone", C: p.name, R: res.id, Ok: ok, What: msg})
			if !ok {
				s.addSymptom("put-panic " + rpPanicClass(msg))
			}
			s.mu.Unlock()
			if !ok {
				p.dead = true
				return
			}
		}
	}
}

func newGsched(cfg rpCfg, tid string) (*gsched, error) {
	s := &gsched{cfg: cfg, procs: map[string]*gproc{}, events: make(chan garrival, 16), held: map[int]string{}, lastGot: map[string]int{},
		capAtG4: map[string]int64{}, tid: tid, lateArrived: make(chan struct{}, 8)}
	rp, err := NewResourcePool(s.factory, cfg.Init, cfg.Max, 0)
	if err != nil {
		return nil, err
	}
	rp.capTimer.Stop() // ticks are processes of the schedule, not wall-clock events
	s.rp = rp
	add := func(name, role string) *gproc {
		p := &gproc{name: name, role: role, release: make(chan int)}
		s.procs[name] = p
		s.order = append(s.order, name)
		return p
	}
	for _, c := range cfg.Clients {
		add(c, "client")
	}
	add("sweep", "sweep").runsLeft = cfg.Sweeps
	add("tick", "tick").runsLeft = cfg.Ticks
	add("worker", "worker")
	add("setcap", "setcap")
	add("closer", "closer")
	add("factory", "factory").parked = "f1" // environment: completion of factory calls whose get gave up
	return s, nil
}

// start launches the process goroutines and waits until each is parked at its first label.
func (s *gsched) start() bool {
	n := 0
	for _, c := range s.cfg.Clients {
		p := s.procs[c]
		if s.cfg.Rounds > 0 {
			p.started = true
			s.spawn(p, s.clientBody(p))
			n++
		} else {
			p.finished = true
		}
	}
	// sweep / tick: a harness-level label (i0 / t0) before each run of the timer callback
	loop := func(p *gproc, first string, call func()) {
		if p.runsLeft <= 0 {
			p.finished = true
			return
		}
		p.started = true
		runs := p.runsLeft
		s.spawn(p, func() {
			for i := 0; i < runs; i++ {
				s.events <- garrival{p: p, label: first}
				if cmd := <-p.release; cmd != 0 {
					panic(rpAbort{})
				}
				call()
			}
		})
		n++
	}
	loop(s.procs["sweep"], "i0", func() { s.rp.closeIdleResources() })
	loop(s.procs["tick"], "t0", func() { s.rp.scaleInResources() })
	s.procs["worker"].finished = true // "off" until a tick spawns it
	if s.cfg.Setcap > 0 {
		p := s.procs["setcap"]
		p.started = true
		s.spawn(p, func() { _ = s.rp.SetCapacity(s.cfg.Setcap) })
		n++
	} else {
		s.procs["setcap"].finished = true
	}
	if s.cfg.Close {
		p := s.procs["closer"]
		p.started = true
		s.spawn(p, func() { s.rp.Close() })
		n++
	} else {
		s.procs["closer"].finished = true
	}
	for i := 0; i < n; i++ {
		if !s.wait1() {
			return false
		}
	}
	return true
}

var rpWatchdog = 4 * time.Second

func (s *gsched) wait1() bool {
	select {
	case a := <-s.events:
		if a.finished {
			a.p.finished = true
			a.p.parked = ""
		} else {
			a.p.parked = a.label
			if a.p.role == "worker" {
				a.p.finished = false
			}
		}
		return true
	case <-time.After(s.patience()):
		if !s.probing {
			s.stuck = true
		}
		return false
	}
}

// patience: a released step normally comes back within microseconds; the watchdog is generous.  A probe
// (releasing a step the harness believes to block) is expected to block and gets a short wait.
func (s *gsched) patience() time.Duration {
	if s.probing {
		return rpProbeWait
	}
	return rpWatchdog
}

var rpProbeWait = 80 * time.Millisecond

// blockedByPrimitive: p is parked before a channel operation or lock acquisition that, by Go semantics,
// blocks in the pool's current state.
func (s *gsched) blockedByPrimitive(p *gproc) bool {
	if p.finished || p.parked == "" {
		return false
	}
	switch p.parked {
	case "g2", "t1", "g7", "s3", "s4", "g10", "i4":
		return !s.enabled(p, 0)
	}
	return false
}

func (s *gsched) lockFree() bool {
	if s.rp.lock.TryLock() {
		s.rp.lock.Unlock()
		return true
	}
	return false
}

// enabled reports whether releasing p (with choice a) lets it reach its next park without blocking,
// judged from the real pool's state.
func (s *gsched) enabled(p *gproc, a int) bool {
	if p.finished || p.parked == "" {
		return false
	}
	ch := s.rp.resources
	if p.role == "factory" {
		return len(s.lateGates) > 0 && a == 0
	}
	switch p.parked {
	case "g2", "t1":
		return s.lockFree()
	case "g7":
		if a == 1 {
			return len(ch) == 0 && !s.closedSeen
		}
		return len(ch) > 0 || s.closedSeen
	case "s3":
		return len(ch) > 0 || s.closedSeen
	case "s4", "g10", "i4":
		return s.closedSeen || len(ch) < cap(ch)
	case "k1":
		q := s.procs["sweep"]
		return q.finished || q.parked == "i0"
	case "k2":
		q := s.procs["tick"]
		return q.finished || q.parked == "t0"
	case "t0":
		return !s.stopTick
	case "i0":
		return !s.stopSweep
	}
	return true
}

// step releases p for one step (choice a) and waits until it parks again or finishes.
func (s *gsched) step(p *gproc, a int) bool {
	label := p.parked
	rp := s.rp
	rec := rpStep{P: p.name, L: label, A: a, R: -1}
	expectSpawn := false
	switch label {
	case "g4":
		s.capAtG4[p.name] = rp.capacity.Get()
	case "g9":
		s.factoryFail = a == 1
		if a == 2 {
			// the caller's context expires while the factory call is in flight
			s.factoryHang = true
			if p.cancel != nil {
				p.cancel()
			}
		}
	case "g7":
		if a == 1 && p.cancel != nil {
			p.cancel()
		}
	case "p2":
		// the hold ends when Put is entered
		s.mu.Lock()
		s.ev(rpEvent{Ev: "Put", C: p.name, R: p.holding})
		if s.held[p.holding] == p.name {
			delete(s.held, p.holding)
		}
		s.mu.Unlock()
	case "i0":
		if a == 1 {
			rp.idleTimeout.Set(time.Nanosecond)
		} else {
			rp.idleTimeout.Set(time.Hour)
		}
	case "t2":
		if a == 1 {
			rp.scaleOutTime = 0
		} else {
			rp.scaleOutTime = time.Now().Unix() + 3600
		}
	case "t3":
		expectSpawn = len(rp.scaleInTodo) == 0
	case "k1":
		s.stopSweep = true
	case "k2":
		s.stopTick = true
	}
	if p.role == "factory" {
		// f1: the oldest factory call still in flight returns its resource; nobody is waiting for it.  Anything the
		// pool does with it happens in goroutines outside the specification: let that settle before observing.
		s.mu.Lock()
		g := s.lateGates[0]
		s.lateGates = s.lateGates[1:]
		s.mu.Unlock()
		close(g)
		s.settle()
		rec.O = s.obs()
		s.executed = append(s.executed, rec)
		s.steps = append(s.steps, rpStepEv{T: s.tid, P: p.name, L: label, A: a, O: rec.O})
		return true
	}
	// a goroutine created by the pool itself cannot be given a recover(): when it is parked right
	// before an operation that is certain to panic, the panic is recorded instead of executed
	if p.role == "worker" && s.closedSeen && (label == "s4" || label == "s5") {
		msg := "send on closed channel"
		if label == "s5" {
			msg = "close of closed channel"
		}
		s.mu.Lock()
		s.ev(rpEvent{Ev: "Panic", C: p.name, What: msg + " (certain: parked immediately before the operation on a closed channel)"})
		s.addSymptom(fmt.Sprintf("panic worker:%s %s", label, rpPanicClass(msg)))
		s.mu.Unlock()
		p.dead, p.finished, p.parked = true, true, ""
		rec.O = s.obs()
		s.executed = append(s.executed, rec)
		s.steps = append(s.steps, rpStepEv{T: s.tid, P: p.name, L: label, A: a, O: rec.O})
		return true
	}
	p.last = label
	capBefore := rp.capacity.Get()
	pendingAtG5 := ""
	if label == "g5" {
		for _, n := range []string{"worker", "setcap", "closer"} {
			if s.procs[n].parked == "s3" {
				pendingAtG5 = n
			}
		}
	}
	pendingShrink := ""
	if label == "s2" {
		for _, n := range []string{"worker", "setcap", "closer"} {
			if n != p.name && s.procs[n].parked == "s3" {
				pendingShrink = n
			}
		}
	}
	p.parked = ""
	p.release <- 0
	if p.role == "worker" && label == "w2" {
		// the pool's own goroutine ends after <-scaleInTodo without passing another hook
		deadline := time.Now().Add(rpWatchdog)
		for len(rp.scaleInTodo) > 0 {
			if time.Now().After(deadline) {
				s.stuck = true
				return false
			}
			runtime.Gosched()
		}
		p.finished = true
	} else {
		need := 1
		if expectSpawn {
			need = 2
		}
		for need > 0 {
			if !s.wait1() {
				return false
			}
			need--
		}
	}
	if label == "g5" && rp.capacity.Get() == capBefore+1 {
		// the scale-out incremented the capacity: was that increment legitimate?
		switch {
		case capBefore == 0 && s.capAtG4[p.name] == 0:
			s.addCause("scale-out-at-capacity-0 by " + s.lastCapW)
		case capBefore == 0:
			s.addCause("scale-out-raced-to-0 by " + s.lastCapW)
		case capBefore >= int64(cap(rp.resources)):
			s.addCause("scale-out-raced-to-max by " + s.lastCapW)
		case pendingAtG5 != "":
			s.addCause("scale-out-during-pending-shrink by " + pendingAtG5 + ":s3")
		}
	}
	if label == "g9" && a == 2 {
		select {
		case <-s.lateArrived:
		case <-time.After(rpWatchdog):
			s.stuck = true
			return false
		}
	}
	if rp.capacity.Get() != capBefore {
		s.lastCapW = p.role + ":" + label
		if label == "s2" && p.role == "worker" && rp.capacity.Get() < rp.baseCapacity.Get() {
			s.addCause("scale-in-below-base by worker:s2")
		} else if label == "s2" && pendingShrink != "" {
			if rp.capacity.Get() == 0 {
				s.addCause("close-during-pending-shrink by " + pendingShrink + ":s3")
			} else if rp.capacity.Get() > capBefore {
				s.addCause("grow-during-pending-shrink by " + pendingShrink + ":s3")
			}
		}
	}
	if label == "s5" && !p.dead {
		s.closedSeen = true
	}
	rec.O = s.obs()
	s.executed = append(s.executed, rec)
	s.steps = append(s.steps, rpStepEv{T: s.tid, P: p.name, L: label, A: a, O: rec.O})
	return true
}

// settle waits until goroutines outside the schedule have stopped passing hook points (2 ms of silence).
func (s *gsched) settle() {
	last := atomic.LoadInt64(&s.foreignHits)
	quiet := time.Now()
	deadline := quiet.Add(rpWatchdog)
	for time.Since(quiet) < 2*time.Millisecond && time.Now().Before(deadline) {
		runtime.Gosched()
		if n := atomic.LoadInt64(&s.foreignHits); n != last {
			last, quiet = n, time.Now()
		}
	}
}

func (s *gsched) allFinished() bool {
	for _, n := range s.order {
		p := s.procs[n]
		if p.finished || (p.role == "factory" && len(s.lateGates) == 0) {
			continue
		}
		if (p.parked == "t0" && s.stopTick) || (p.parked == "i0" && s.stopSweep) {
			continue
		}
		return false
	}
	return true
}

func (s *gsched) quiescent() bool {
	for _, n := range s.order {
		p := s.procs[n]
		if p.finished || p.parked == "t0" || p.parked == "i0" || p.role == "factory" {
			continue
		}
		return false
	}
	return true
}

// checkQuiescent is the fourth clause of the property, evaluated when no operation is in progress.
func (s *gsched) checkQuiescent() {
	if !s.quiescent() {
		return
	}
	for _, n := range s.order {
		if s.procs[n].dead {
			return // a panicked operation never completed; the clause speaks about completed operations
		}
	}
	o := s.obs()
	s.mu.Lock()
	held := len(s.held)
	s.ev(rpEvent{Ev: "Quiescent", Idle: o[0], Cap: o[1], InU: o[3], Av: o[2]})
	if o[0]+held != o[1] {
		s.addSymptom("quiescent-accounting")
	}
	s.mu.Unlock()
}

func (s *gsched) abortAll() {
	atomic.StoreInt32(&s.aborted, 1)
	for _, n := range s.order {
		p := s.procs[n]
		if p.parked != "" && !p.finished && p.role != "factory" {
			select {
			case p.release <- 1:
			case <-time.After(200 * time.Millisecond):
			}
		}
	}
	// drain late arrivals so that aborted goroutines never block on the event channel
	go func(ch chan garrival) {
		for {
			select {
			case <-ch:
			case <-time.After(2 * time.Second):
				return
			}
		}
	}(s.events)
}

// ---------------------------------------------------------------------------------- running a gated case

type rpRun struct {
	obs  rpObs
	devs []verifkit.Dev
	nstp int
}

func rpSignature(symptom string, causes []string) string {
	// the first root cause observed in the run: once it has happened the pool's slot accounting is
	// corrupt and everything later is its consequence
	c := "none"
	if len(causes) > 0 {
		c = causes[0]
	}
	return fmt.Sprintf("C24 %s | cause=%s", symptom, c)
}

// runGated executes one schedule: imposed (sched != nil) or drawn at random.
func runGated(c *rpCase, tid string, sched []rpStep, rng *rand.Rand) (*rpRun, *gsched) {
	out := &rpRun{obs: rpObs{Kind: c.Kind, Cfg: c.Cfg, Trace: tid, Fam: c.Fam}}
	s, err := newGsched(c.Cfg, tid)
	if err != nil {
		out.obs.Drift = "cannot build pool: " + err.Error()
		return out, nil
	}
	rpCur.Store(rpCurBox{s})
	defer rpCur.Store(rpCurBox{nil})
	defer s.abortAll()
	if !s.start() {
		out.obs.Drift = "processes did not reach their first step"
		return out, s
	}
	finish := func() {
		s.mu.Lock()
		out.obs.Sched = s.executed
		out.obs.Events = s.evs
		out.obs.Causes = s.causes
		out.obs.Symptoms = s.symptoms
		s.mu.Unlock()
		out.nstp = len(s.executed)
	}
	if sched != nil {
		out.obs.Imposed = true
		for i, st := range sched {
			p := s.procs[st.P]
			if p == nil {
				out.obs.Drift = fmt.Sprintf("step %d: unknown process %s", i, st.P)
				out.obs.Imposed = false
				break
			}
			if c.Kind == "regression" && (p.parked != st.L || !s.enabled(p, st.A)) {
				out.obs.Imposed = false // the repaired code no longer follows the old schedule here: skip the step
				continue
			}
			if p.parked != st.L {
				out.obs.Drift = fmt.Sprintf("step %d: %s is at %q, schedule expects %q", i, st.P, p.parked, st.L)
				out.obs.Imposed = false
				break
			}
			if !s.enabled(p, st.A) {
				out.obs.Drift = fmt.Sprintf("step %d: %s:%s is not enabled in the real pool", i, st.P, st.L)
				out.obs.Imposed = false
				break
			}
			if st.L == "g12" {
				// Put(nil) or Put(resource) is decided by the caller before p2: look ahead
				for _, nx := range sched[i+1:] {
					if nx.P == st.P && nx.L == "p2" {
						p.putNil = nx.A == 1
						break
					}
				}
			}
			if !s.step(p, st.A) {
				out.obs.Drift = fmt.Sprintf("step %d: %s:%s did not return to the gate (blocked)", i, st.P, st.L)
				out.obs.Imposed = false
				break
			}
			if st.O != nil {
				got := s.obs()
				same := len(got) == len(st.O)
				for k := 0; same && k < len(got); k++ {
					same = got[k] == st.O[k]
				}
				if !same && out.obs.Drift == "" {
					out.obs.Drift = fmt.Sprintf("step %d %s:%s: specification expects (chLen,cap,avail,inUse)=%v, pool has %v", i, st.P, st.L, st.O, got)
				}
				if st.L == "g12" && st.R > 0 {
					if r := s.lastGot[st.P]; r != st.R && out.obs.Drift == "" {
						out.obs.Drift = fmt.Sprintf("step %d %s:g12: specification hands out resource %d, pool handed out %d", i, st.P, st.R, r)
					}
				}
			}
			s.checkQuiescent()
		}
		if c.Kind == "regression" && out.obs.Drift == "" {
			// let the remaining operations finish (first enabled process, in a fixed order)
			for n := 0; n < 400; n++ {
				var next *gproc
				for _, name := range s.order {
					if p := s.procs[name]; s.enabled(p, 0) {
						next = p
						break
					}
				}
				if next == nil || !s.step(next, 0) {
					break
				}
				s.checkQuiescent()
			}
		}
	} else {
		pe := c.ProbeEvery
		if pe <= 0 {
			pe = 8
		}
		probeRun := rng.Intn(pe) == 0
		for n := 0; n < 400; n++ {
			type cand struct {
				p *gproc
				a int
			}
			var cs []cand
			for _, name := range s.order {
				p := s.procs[name]
				if p.finished || p.parked == "" {
					continue
				}
				a := 0
				switch p.parked {
				case "g7":
					if c.Cfg.Timeouts && len(s.rp.resources) == 0 && !s.closedSeen && rng.Intn(3) == 0 {
						a = 1
					}
				case "g9":
					if c.Cfg.FactoryFails && rng.Intn(5) == 0 {
						a = 1
					} else if c.Cfg.Timeouts && rng.Intn(5) == 0 {
						a = 2
					}
				case "i0":
					a = rng.Intn(2)
				case "p2":
					if p.putNil {
						a = 1
					}
				case "t2":
					if s.rp.capacity.Get() > s.rp.baseCapacity.Get() && rng.Intn(5) != 0 {
						a = 1
					}
				}
				if s.enabled(p, a) {
					cs = append(cs, cand{p, a})
				}
			}
			if probeRun && s.probed == "" && rng.Intn(2) == 0 {
				// the code is expected to block here; a version that does not (a blocking operation turned
				// non-blocking) continues, and the run goes on from a state the scheduler would otherwise never reach
				var bl []*gproc
				for _, name := range s.order {
					if p := s.procs[name]; s.blockedByPrimitive(p) && p.role != "worker" {
						bl = append(bl, p)
					}
				}
				if len(bl) > 0 {
					p := bl[rng.Intn(len(bl))]
					s.probed = p.name + ":" + p.parked
					s.probing = true
					ok := s.step(p, 0)
					s.probing = false
					if !ok {
						out.obs.Probe = s.probed + " blocks (as the specification says)"
						break
					}
					out.obs.Probe = s.probed + " did NOT block"
					s.checkQuiescent()
					continue
				}
			}
			if len(cs) == 0 {
				break
			}
			ch := cs[rng.Intn(len(cs))]
			if ch.p.parked == "g12" {
				ch.p.putNil = c.Cfg.PutNil && rng.Intn(4) == 0
			}
			if !s.step(ch.p, ch.a) {
				out.obs.Drift = fmt.Sprintf("%s:%s did not return to the gate (blocked)", ch.p.name, ch.p.parked)
				break
			}
			s.checkQuiescent()
		}
		if !s.allFinished() && out.obs.Drift == "" && !strings.HasSuffix(out.obs.Probe, "says)") {
			var w []string
			for _, name := range s.order {
				if p := s.procs[name]; !p.finished && p.parked != "" {
					w = append(w, name+":"+p.parked)
				}
			}
			out.obs.Drift = "no enabled step while operations are pending: " + strings.Join(w, ",")
		}
	}
	finish()
	for _, sym := range out.obs.Symptoms {
		out.devs = append(out.devs, verifkit.Dev{Sig: rpSignature(sym, out.obs.Causes),
			What: fmt.Sprintf("real pool, %s schedule of %d steps: %s (root causes observed: %v)", c.Kind, out.nstp, sym, out.obs.Causes)})
	}
	return out, s
}

// ---------------------------------------------------------------------------------- free-running driver (V)

type rpFreeRun struct {
	rp   *ResourcePool
	ctr  uint32
	seed uint32
}

type rpFreeBox struct{ f *rpFreeRun }

var rpFree atomic.Value

// yield perturbs the real interleaving at every hook point (pseudo-random, seeded).
func (f *rpFreeRun) yield() {
	n := atomic.AddUint32(&f.ctr, 1)
	x := n*2654435761 ^ f.seed
	x ^= x >> 13
	x *= 2246822519
	x ^= x >> 16
	if x%3 == 0 {
		runtime.Gosched()
	}
}

func rpWaitTimeout(f func(), d time.Duration) bool {
	done := make(chan struct{})
	go func() {
		defer func() { recover() }()
		f()
		close(done)
	}()
	select {
	case <-done:
		return true
	case <-time.After(d):
		return false
	}
}

func runFree(c *rpCase, tid string, rng *rand.Rand) *rpRun {
	cfg := c.Cfg
	out := &rpRun{obs: rpObs{Kind: c.Kind, Cfg: cfg, Trace: tid, Fam: c.Fam}}
	var mu sync.Mutex
	held := map[int]string{}
	var evs []rpEvent
	var symptoms []string
	sym := func(x string) {
		for _, y := range symptoms {
			if y == x {
				return
			}
		}
		symptoms = append(symptoms, x)
	}
	ev := func(e rpEvent) {
		e.T, e.Max = tid, cfg.Max
		evs = append(evs, e)
	}
	var nextRes, ncalls int64
	ffEvery := int64(5 + rng.Intn(5))
	factory := func() (Resource, error) {
		if cfg.FactoryFails && atomic.AddInt64(&ncalls, 1)%ffEvery == 0 {
			return nil, errors.New("verif: factory failure")
		}
		return &rpRes{id: int(atomic.AddInt64(&nextRes, 1))}, nil
	}
	rp, err := NewResourcePool(factory, cfg.Init, cfg.Max, 0)
	if err != nil {
		out.obs.Drift = "cannot build pool: " + err.Error()
		return out
	}
	rp.capTimer.Stop()
	fr := &rpFreeRun{rp: rp, seed: uint32(rng.Int63())}
	rpFree.Store(rpFreeBox{fr})
	defer rpFree.Store(rpFreeBox{nil})
	var opDead int32
	guard := func(role string, f func()) func() {
		return func() {
			defer func() {
				if r := recover(); r != nil {
					msg := fmt.Sprint(r)
					mu.Lock()
					ev(rpEvent{Ev: "Panic", C: role, What: msg})
					sym(fmt.Sprintf("panic %s %s", role, rpPanicClass(msg)))
					mu.Unlock()
					atomic.StoreInt32(&opDead, 1)
				}
			}()
			f()
		}
	}
	if cfg.Sweeps > 0 {
		rp.idleTimeout.Set(time.Duration(20+rng.Intn(200)) * time.Microsecond)
		rp.idleTimer = timer.NewTimer(time.Duration(50+rng.Intn(300)) * time.Microsecond)
		rp.idleTimer.Start(guard("sweep", rp.closeIdleResources))
	}
	if cfg.Ticks > 0 {
		rp.capTimer = timer.NewTimer(time.Duration(50+rng.Intn(400)) * time.Microsecond)
		rp.capTimer.Start(guard("tick", func() {
			rp.lock.Lock()
			rp.scaleOutTime = 0 // the 60 s cool-down has elapsed
			rp.lock.Unlock()
			rp.scaleInResources()
		}))
	}
	var wg, side sync.WaitGroup
	for i, name := range cfg.Clients {
		wg.Add(1)
		hold := 1 + rng.Intn(6)
		nilEvery := 0
		if cfg.PutNil {
			nilEvery = 3 + rng.Intn(4)
		}
		go func(i int, name string) {
			defer wg.Done()
			for round := 0; round < cfg.Rounds; round++ {
				ctx, cancel := context.WithTimeout(context.Background(), 2*time.Second)
				var r Resource
				var err error
				pan := ""
				func() {
					defer func() {
						if x := recover(); x != nil {
							pan = fmt.Sprint(x)
						}
					}()
					r, err = rp.Get(ctx)
				}()
				cancel()
				if pan != "" {
					mu.Lock()
					ev(rpEvent{Ev: "Panic", C: name, What: pan})
					sym("panic client:get " + rpPanicClass(pan))
					mu.Unlock()
					atomic.StoreInt32(&opDead, 1)
					return
				}
				if err != nil {
					mu.Lock()
					ev(rpEvent{Ev: "GetErr", C: name, What: err.Error()})
					mu.Unlock()
					continue
				}
				res := r.(*rpRes)
				mu.Lock()
				if _, dup := held[res.id]; dup {
					sym("double-issue")
				}
				held[res.id] = name
				if len(held) > cfg.Max {
					sym("over-allocation")
				}
				ev(rpEvent{Ev: "Got", C: name, R: res.id})
				mu.Unlock()
				for k := 0; k < hold; k++ {
					runtime.Gosched()
				}
				mu.Lock()
				ev(rpEvent{Ev: "Put", C: name, R: res.id})
				if held[res.id] == name {
					delete(held, res.id)
				}
				mu.Unlock()
				ok, msg := true, ""
				func() {
					defer func() {
						if x := recover(); x != nil {
							ok, msg = false, fmt.Sprint(x)
						}
					}()
					if nilEvery > 0 && (round+i)%nilEvery == 0 {
						res.Close()
						rp.Put(nil)
					} else {
						rp.Put(res)
					}
				}()
				mu.Lock()
				ev(rpEvent{Ev: "PutDone", C: name, R: res.id, Ok: ok, What: msg})
				if !ok {
					sym("put-panic " + rpPanicClass(msg))
				}
				mu.Unlock()
				if !ok {
					atomic.StoreInt32(&opDead, 1)
					return
				}
			}
		}(i, name)
	}
	delay := func() {
		for k, n := 0, rng.Intn(200); k < n; k++ {
			runtime.Gosched()
		}
	}
	if cfg.Setcap > 0 {
		side.Add(1)
		go func() {
			defer side.Done()
			delay()
			guard("setcap", func() { _ = rp.SetCapacity(cfg.Setcap) })()
		}()
	}
	if cfg.Close {
		side.Add(1)
		go func() {
			defer side.Done()
			delay()
			guard("closer", rp.Close)()
		}()
	}
	if !rpWaitTimeout(wg.Wait, 20*time.Second) {
		out.obs.Drift = "free run: clients did not finish"
		mu.Lock()
		out.obs.Events, out.obs.Symptoms = evs, symptoms
		mu.Unlock()
		return out
	}
	quiet := rpWaitTimeout(side.Wait, 3*time.Second)
	if !cfg.Close {
		quiet = rpWaitTimeout(func() {
			if rp.idleTimer != nil {
				rp.idleTimer.Stop()
			}
			rp.capTimer.Stop()
		}, 3*time.Second) && quiet
	}
	for k := 0; quiet && len(rp.scaleInTodo) > 0; k++ { // the goroutine of the last tick
		if k > 20000 {
			quiet = false
		}
		time.Sleep(50 * time.Microsecond)
	}
	mu.Lock()
	if quiet && atomic.LoadInt32(&opDead) == 0 {
		idle, capn := len(rp.resources), int(rp.capacity.Get())
		ev(rpEvent{Ev: "Quiescent", Idle: idle, Cap: capn, InU: int(rp.inUse.Get()), Av: int(rp.available.Get())})
		if idle+len(held) != capn {
			sym("quiescent-accounting")
		}
	} else if !quiet {
		out.obs.Drift = "free run: pool did not become quiescent"
	}
	out.obs.Events, out.obs.Symptoms = evs, symptoms
	mu.Unlock()
	if !cfg.Close {
		go func() {
			defer func() { recover() }()
			rp.Close()
		}()
	}
	for _, s := range symptoms {
		out.devs = append(out.devs, verifkit.Dev{Sig: fmt.Sprintf("C24 free:%s %s", c.Fam, s),
			What: fmt.Sprintf("real pool under really concurrent goroutines (%s family): %s", c.Fam, s)})
	}
	return out
}

// ---------------------------------------------------------------------------------- test entry

func TestVerifResourcePool(t *testing.T) {
	out, err := verifkit.OpenOut()
	if err != nil {
		t.Fatal(err)
	}
	var trace, steps *verifkit.Out
	if p := verifkit.TraceOutPath(); p != "" {
		if trace, err = verifkit.OpenOutPath(p); err != nil {
			t.Fatal(err)
		}
		if steps, err = verifkit.OpenOutPath(p + ".steps"); err != nil {
			t.Fatal(err)
		}
	}
	rpInstallHook() // stays installed: goroutines of finished runs may still pass hook points
	nruns, nsteps, nstuck, nskipped, nev := 0, 0, 0, 0, 0
	emit := func(i int, r *rpRun, s *gsched) {
		nruns++
		nsteps += r.nstp
		res := &verifkit.Result{Case: i, Devs: r.devs}
		if trace != nil {
			for _, e := range r.obs.Events {
				trace.Write(e)
				nev++
			}
			if s != nil && r.obs.Kind == "random" {
				for _, e := range s.steps {
					steps.Write(e)
				}
			}
		}
		o := r.obs
		if len(r.devs) == 0 && o.Drift == "" {
			o.Sched, o.Events = nil, nil // keep the output small; nothing to replay
		}
		res.Obs = o
		out.Write(res)
	}
	n, err := verifkit.EachCase(func(i int, raw json.RawMessage) error {
		var c rpCase
		if err := json.Unmarshal(raw, &c); err != nil {
			return err
		}
		if nstuck >= 4 {
			nskipped++
			return nil
		}
		switch c.Kind {
		case "candidate", "ordinary", "replay", "regression":
			r, s := runGated(&c, fmt.Sprintf("g%d", i), c.Sched, nil)
			if s != nil && s.stuck {
				nstuck++
			}
			emit(i, r, s)
		case "random":
			for k := 0; k < c.Runs && nstuck < 4; k++ {
				rng := rand.New(rand.NewSource(c.Seed*1000003 + int64(k)))
				r, s := runGated(&c, fmt.Sprintf("r%d.%d", i, k), nil, rng)
				if s != nil && s.stuck {
					nstuck++
				}
				emit(i, r, s)
			}
		case "free":
			for k := 0; k < c.Runs; k++ {
				rng := rand.New(rand.NewSource(c.Seed*1000003 + int64(k)))
				emit(i, runFree(&c, fmt.Sprintf("f%d.%d", i, k), rng), nil)
			}
		default:
			return fmt.Errorf("unknown case kind %q", c.Kind)
		}
		return nil
	})
	if err != nil {
		t.Fatal(err)
	}
	if trace != nil {
		trace.Close(n, nil)
		steps.Close(n, nil)
	}
	out.Close(n, map[string]interface{}{"runs": nruns, "steps": nsteps, "stuck": nstuck, "skipped": nskipped, "events": nev})
}
