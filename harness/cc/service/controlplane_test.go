package service

// Conformance harness for spec/ControlPlane.tla (property C32).
//
// The real service.ModifyNamespace / service.DelNamespace run against
//   - an in-process coordinator: an HTTP server that speaks the etcd v2 keys API (the real
//     models.NewClient("etcd", ...) / coreos etcd client / models.Store are used unchanged; the repository's
//     file client cannot write (models/file: Update/Delete are no-ops) and no etcd binary exists offline);
//   - 1..3 proxies: httptest servers that implement the admin API of proxy/server/admin.go (basic auth, ping,
//     config/prepare, config/commit, namespace/delete) on top of the specification's proxy P-level (active
//     version + prepared slot; prepare loads the namespace from the coordinator with the real models.Store) and
//     inject the scripted outcome of each RPC attempt: ok / fail (not applied, error) / tapply (applied, reply lost).
// G, one operation: every fault placement TLC enumerates is replayed; the final coordinator content and every
//     proxy's active version are compared with the specification and judged by the property.
// G, two concurrent operations: a TLC counterexample (a schedule of store accesses and RPCs of two operations)
//     is imposed by parking every coordinator / proxy request of the two operations (they are told apart by
//     their credentials) and releasing them in the schedule's order.

import (
	"encoding/json"
	"fmt"
	"net"
	"net/http"
	"net/http/httptest"
	"net/url"
	"sort"
	"strconv"
	"strings"
	"sync"
	"testing"
	"time"

	"github.com/XiaoMi/Gaea/internal/verifkit"
	"github.com/XiaoMi/Gaea/log"
	"github.com/XiaoMi/Gaea/models"
)

// ---------------------------------------------------------------- quiet logger

type cpNullLogger struct{}

func (cpNullLogger) SetLevel(name, level string) error                { return nil }
func (cpNullLogger) Debug(format string, a ...interface{}) error       { return nil }
func (cpNullLogger) Trace(format string, a ...interface{}) error       { return nil }
func (cpNullLogger) Notice(format string, a ...interface{}) error      { return nil }
func (cpNullLogger) Warn(format string, a ...interface{}) error        { return nil }
func (cpNullLogger) Fatal(format string, a ...interface{}) error       { return nil }
func (cpNullLogger) Debugx(id, format string, a ...interface{}) error  { return nil }
func (cpNullLogger) Tracex(id, format string, a ...interface{}) error  { return nil }
func (cpNullLogger) Noticex(id, format string, a ...interface{}) error { return nil }
func (cpNullLogger) Warnx(id, format string, a ...interface{}) error   { return nil }
func (cpNullLogger) Fatalx(id, format string, a ...interface{}) error  { return nil }
func (cpNullLogger) Close()                                            {}
func (cpNullLogger) Dropped(i int) uint64                              { return 0 }

// ---------------------------------------------------------------- gate (concurrent schedules)

type cpParked struct {
	op, act string
	p       int
	release chan string   // outcome
	applied chan struct{} // closed by the server when the effect of the request is in place
	once    sync.Once
}

// finish tells the scheduler that the effect of the released request has been applied.
func (k *cpParked) finish() {
	if k != nil {
		k.once.Do(func() { close(k.applied) })
	}
}

type cpGate struct {
	mu      sync.Mutex
	on      bool
	parked  []*cpParked
	arrived chan struct{}
}

// enter parks the request of operation op until the schedule releases it; returns the outcome to apply
// ("" = not scheduled: use the script) and the handle on which the server reports that the effect is in place.
func (g *cpGate) enter(op, act string, p int) (string, *cpParked) {
	if g == nil || (op != "A" && op != "B") {
		return "", nil
	}
	g.mu.Lock()
	if !g.on {
		g.mu.Unlock()
		return "", nil
	}
	k := &cpParked{op: op, act: act, p: p, release: make(chan string, 1), applied: make(chan struct{})}
	g.parked = append(g.parked, k)
	g.mu.Unlock()
	select {
	case g.arrived <- struct{}{}:
	default:
	}
	select {
	case oc := <-k.release:
		return oc, k
	case <-time.After(8 * time.Second):
		return "", k
	}
}

func (g *cpGate) take(op, act string, p int, timeout time.Duration) *cpParked {
	deadline := time.Now().Add(timeout)
	for {
		g.mu.Lock()
		for i, k := range g.parked {
			if k.op == op && k.act == act && (p == 0 || k.p == p) {
				g.parked = append(g.parked[:i], g.parked[i+1:]...)
				g.mu.Unlock()
				return k
			}
		}
		g.mu.Unlock()
		if time.Now().After(deadline) {
			return nil
		}
		select {
		case <-g.arrived:
		case <-time.After(20 * time.Millisecond):
		}
	}
}

func (g *cpGate) flush() {
	g.mu.Lock()
	g.on = false
	for _, k := range g.parked {
		k.release <- ""
	}
	g.parked = nil
	g.mu.Unlock()
}

// ---------------------------------------------------------------- coordinator: etcd v2 keys API in memory

type cpEtcd struct {
	mu    sync.Mutex
	files map[string]string
	dirs  map[string]bool
	index uint64
	srv   *httptest.Server
	gate  *cpGate
	nsKey string // key of the namespace under test (gated accesses)
	done  chan struct{}
	seen  map[string]int
}

type cpNode struct {
	Key           string    `json:"key"`
	Value         string    `json:"value,omitempty"`
	Dir           bool      `json:"dir,omitempty"`
	Nodes         []*cpNode `json:"nodes,omitempty"`
	ModifiedIndex uint64    `json:"modifiedIndex"`
	CreatedIndex  uint64    `json:"createdIndex"`
}

func newCpEtcd(gate *cpGate) *cpEtcd {
	e := &cpEtcd{files: map[string]string{}, dirs: map[string]bool{}, index: 10, gate: gate, seen: map[string]int{}}
	e.srv = httptest.NewServer(e)
	return e
}

func (e *cpEtcd) addr() string { return strings.TrimPrefix(e.srv.URL, "http://") }

func (e *cpEtcd) isDir(key string) bool {
	if e.dirs[key] || key == "/" || key == "" {
		return true
	}
	pre := strings.TrimSuffix(key, "/") + "/"
	for k := range e.files {
		if strings.HasPrefix(k, pre) {
			return true
		}
	}
	for k := range e.dirs {
		if strings.HasPrefix(k, pre) {
			return true
		}
	}
	return false
}

func (e *cpEtcd) node(key string, recursive bool, depth int) *cpNode {
	if v, ok := e.files[key]; ok {
		return &cpNode{Key: key, Value: v, ModifiedIndex: e.index, CreatedIndex: e.index}
	}
	n := &cpNode{Key: key, Dir: true, ModifiedIndex: e.index, CreatedIndex: e.index}
	if depth > 0 && !recursive {
		return n
	}
	pre := strings.TrimSuffix(key, "/") + "/"
	kids := map[string]bool{}
	for _, m := range []map[string]bool{e.dirs} {
		for k := range m {
			if strings.HasPrefix(k, pre) {
				kids[pre+strings.SplitN(k[len(pre):], "/", 2)[0]] = true
			}
		}
	}
	for k := range e.files {
		if strings.HasPrefix(k, pre) {
			kids[pre+strings.SplitN(k[len(pre):], "/", 2)[0]] = true
		}
	}
	names := make([]string, 0, len(kids))
	for k := range kids {
		names = append(names, k)
	}
	sort.Strings(names)
	for _, k := range names {
		n.Nodes = append(n.Nodes, e.node(k, recursive, depth+1))
	}
	return n
}

func (e *cpEtcd) ServeHTTP(w http.ResponseWriter, r *http.Request) {
	w.Header().Set("Content-Type", "application/json")
	if r.URL.Path == "/version" {
		fmt.Fprint(w, `{"etcdserver":"2.3.8","etcdcluster":"2.3.0"}`)
		return
	}
	if !strings.HasPrefix(r.URL.Path, "/v2/keys") {
		w.WriteHeader(404)
		fmt.Fprint(w, `{"errorCode":100,"message":"Key not found","cause":"`+r.URL.Path+`","index":1}`)
		return
	}
	key := strings.TrimPrefix(r.URL.Path, "/v2/keys")
	if key == "" {
		key = "/"
	}
	op, _, _ := r.BasicAuth()
	q := r.URL.Query()
	recursive := q.Get("recursive") == "true"
	r.ParseForm()
	// gate the accesses of the operations under test to the namespace key
	if key == e.nsKey {
		act := ""
		switch r.Method {
		case "GET":
			if !recursive {
				act = "Load"
			}
		case "PUT", "DELETE":
			act = "Write"
		}
		if act != "" {
			_, k := e.gate.enter(op, act, 0)
			defer k.finish()
		}
	}
	e.mu.Lock()
	defer e.mu.Unlock()
	e.seen[r.Method]++
	w.Header().Set("X-Etcd-Index", strconv.FormatUint(e.index, 10))
	notFound := func() {
		w.WriteHeader(404)
		b, _ := json.Marshal(map[string]interface{}{"errorCode": 100, "message": "Key not found", "cause": key, "index": e.index})
		w.Write(b)
	}
	switch r.Method {
	case "GET":
		if _, ok := e.files[key]; !ok && !e.isDir(key) {
			notFound()
			return
		}
		b, _ := json.Marshal(map[string]interface{}{"action": "get", "node": e.node(key, recursive, 0)})
		w.Write(b)
	case "PUT":
		e.index++
		if q.Get("dir") == "true" || r.Form.Get("dir") == "true" {
			if q.Get("prevExist") == "false" && e.isDir(key) {
				w.WriteHeader(412)
				b, _ := json.Marshal(map[string]interface{}{"errorCode": 105, "message": "Key already exists", "cause": key, "index": e.index})
				w.Write(b)
				return
			}
			e.dirs[key] = true
			b, _ := json.Marshal(map[string]interface{}{"action": "set", "node": e.node(key, false, 1)})
			w.WriteHeader(201)
			w.Write(b)
			return
		}
		_, existed := e.files[key]
		if q.Get("prevExist") == "false" && existed {
			w.WriteHeader(412)
			b, _ := json.Marshal(map[string]interface{}{"errorCode": 105, "message": "Key already exists", "cause": key, "index": e.index})
			w.Write(b)
			return
		}
		e.files[key] = r.PostForm.Get("value")
		if !existed {
			w.WriteHeader(201)
		}
		b, _ := json.Marshal(map[string]interface{}{"action": "set", "node": e.node(key, false, 0)})
		w.Write(b)
	case "DELETE":
		if _, ok := e.files[key]; !ok {
			notFound()
			return
		}
		e.index++
		prev := e.node(key, false, 0)
		delete(e.files, key)
		b, _ := json.Marshal(map[string]interface{}{"action": "delete", "node": &cpNode{Key: key, ModifiedIndex: e.index, CreatedIndex: prev.CreatedIndex}, "prevNode": prev})
		w.Write(b)
	default:
		w.WriteHeader(405)
	}
}

// ---------------------------------------------------------------- proxies: admin API over the P-level

const (
	cpProxyPassword = "verif-proxy-pw"
	cpKey           = "1234abcd5678efg*"
	cpCluster       = "verif_cluster"
	cpNsName        = "ns_under_test"
	cpBystander     = "ns_bystander" // another namespace, version 7 everywhere: a change of cpNsName must not touch it
)

type cpProxy struct {
	mu       sync.Mutex
	id       int
	active   map[string]int
	prepared map[string]int
	script   map[string][]string // "prepare" / "commit" / "delete" -> outcomes of the successive attempts of the operation under test
	used     map[string]int
	variant  int // how a "fail" is delivered: 0 = HTTP error status, 1 = connection closed without a reply
	srv      *httptest.Server
	w        *cpWorld
	authFail int
	unknown  []string
	loadErrs []string
}

func (p *cpProxy) next(phase, op string) string {
	if op != "A" && op != "B" {
		return "ok" // set-up traffic
	}
	p.mu.Lock()
	defer p.mu.Unlock()
	i := p.used[phase]
	p.used[phase]++
	if s := p.script[phase]; i < len(s) {
		return s[i]
	}
	return "ok"
}

func cpDrop(w http.ResponseWriter) {
	if hj, ok := w.(http.Hijacker); ok {
		if c, _, err := hj.Hijack(); err == nil {
			c.Close()
			return
		}
	}
	w.WriteHeader(599)
}

func (p *cpProxy) ServeHTTP(w http.ResponseWriter, r *http.Request) {
	op, pw, ok := r.BasicAuth()
	if !ok || pw != cpProxyPassword {
		p.mu.Lock()
		p.authFail++
		p.mu.Unlock()
		w.WriteHeader(401)
		return
	}
	path := r.URL.Path
	reply := func(oc string, applied bool, err error) {
		switch {
		case oc == "tapply":
			cpDrop(w)
		case oc == "fail":
			if p.variant == 1 {
				cpDrop(w)
			} else {
				w.WriteHeader(800)
				json.NewEncoder(w).Encode("verif: scripted failure")
			}
		case err != nil:
			w.WriteHeader(800)
			json.NewEncoder(w).Encode(err.Error())
		default:
			w.WriteHeader(200)
			json.NewEncoder(w).Encode("OK")
		}
	}
	switch {
	case r.Method == "GET" && path == "/api/proxy/ping":
		w.WriteHeader(200)
		json.NewEncoder(w).Encode("OK")
	case r.Method == "PUT" && strings.HasPrefix(path, "/api/proxy/config/prepare/"):
		name := strings.TrimPrefix(path, "/api/proxy/config/prepare/")
		oc, k := p.w.gate.enter(op, "PrepareRPC", p.id)
		defer k.finish()
		if oc == "" {
			oc = p.next("prepare", op)
		}
		var err error
		if oc != "fail" {
			var v int
			v, err = p.w.loadVersion(name) // the proxy reads the namespace from the coordinator (server.go:203)
			if err == nil {
				p.mu.Lock()
				p.prepared[name] = v
				p.mu.Unlock()
			} else {
				p.mu.Lock()
				p.loadErrs = append(p.loadErrs, err.Error())
				p.mu.Unlock()
			}
		}
		reply(oc, err == nil, err)
	case r.Method == "PUT" && strings.HasPrefix(path, "/api/proxy/config/commit/"):
		name := strings.TrimPrefix(path, "/api/proxy/config/commit/")
		oc, k := p.w.gate.enter(op, "CommitRPC", p.id)
		defer k.finish()
		if oc == "" {
			oc = p.next("commit", op)
		}
		var err error
		if oc != "fail" {
			p.mu.Lock()
			if v, ok := p.prepared[name]; ok {
				p.active[name] = v
				delete(p.prepared, name)
			} else {
				err = fmt.Errorf("namespace not prepared")
			}
			p.mu.Unlock()
		}
		reply(oc, err == nil, err)
	case r.Method == "PUT" && strings.HasPrefix(path, "/api/proxy/namespace/delete/"):
		name := strings.TrimPrefix(path, "/api/proxy/namespace/delete/")
		oc, k := p.w.gate.enter(op, "DelRPC", p.id)
		defer k.finish()
		if oc == "" {
			oc = p.next("delete", op)
		}
		if oc != "fail" {
			p.mu.Lock()
			delete(p.active, name)
			p.mu.Unlock()
		}
		reply(oc, true, nil)
	default:
		p.mu.Lock()
		p.unknown = append(p.unknown, r.Method+" "+path)
		p.mu.Unlock()
		w.WriteHeader(404)
	}
}

// ---------------------------------------------------------------- world

type cpWorld struct {
	etcd        *cpEtcd
	proxies     []*cpProxy
	gate        *cpGate
	lastLoadErr string
}

const cpUnloadable = -1 // the stored document exists but cannot be loaded by a proxy

func (w *cpWorld) root() string { return "/" + cpCluster }

func (w *cpWorld) cfg(op string) *models.CCConfig {
	return &models.CCConfig{CoordinatorType: models.ConfigEtcd, CoordinatorAddr: w.etcd.addr(), UserName: op, Password: "etcd-pw",
		ProxyUserName: op, ProxyPassword: cpProxyPassword, EncryptKey: cpKey}
}

func (w *cpWorld) store(user string) (*models.Store, error) {
	c, err := models.NewClient(models.ConfigEtcd, w.etcd.addr(), user, "etcd-pw", w.root())
	if err != nil {
		return nil, err
	}
	return models.NewStore(c), nil
}

// loadVersion reads the namespace from the coordinator with the real store code; 0 = absent.
func (w *cpWorld) loadVersion(name string) (int, error) {
	st, err := w.store("proxy")
	if err != nil {
		return 0, err
	}
	defer st.Close()
	ns, err := st.LoadNamespace(cpKey, name)
	if err != nil {
		return 0, err
	}
	return cpVersionOf(ns)
}

func cpVersionOf(ns *models.Namespace) (int, error) {
	v, err := strconv.Atoi(ns.SlowSQLTime)
	if err != nil || v < 1000 {
		return 0, fmt.Errorf("verif: namespace without a version: %q", ns.SlowSQLTime)
	}
	if len(ns.Users) != 1 || ns.Users[0].Password != "pw-"+ns.SlowSQLTime || ns.Users[0].UserName != "u_"+ns.Name {
		return 0, fmt.Errorf("verif: namespace credentials damaged: %+v", ns.Users[0])
	}
	return v - 1000, nil
}

func cpNamespace(name string, version int) *models.Namespace {
	ver := strconv.Itoa(1000 + version)
	return &models.Namespace{
		Name: name, Online: true, AllowedDBS: map[string]bool{"db1": true}, SlowSQLTime: ver,
		Users:  []*models.User{{UserName: "u_" + name, Password: "pw-" + ver, Namespace: name, RWFlag: 2, RWSplit: 1}},
		Slices: []*models.Slice{{Name: "slice-0", UserName: "root", Password: "root-" + ver, Master: "127.0.0.1:1", Capacity: 4, MaxCapacity: 8, IdleTimeout: 60}},
		DefaultSlice: "slice-0",
	}
}

func newCpWorld(n int, variant int) (*cpWorld, error) {
	gate := &cpGate{arrived: make(chan struct{}, 64)}
	w := &cpWorld{gate: gate}
	w.etcd = newCpEtcd(gate)
	w.etcd.nsKey = w.root() + "/namespace/" + cpNsName
	st, err := w.store("setup")
	if err != nil {
		return nil, err
	}
	defer st.Close()
	for i := 1; i <= n; i++ {
		p := &cpProxy{id: i, active: map[string]int{}, prepared: map[string]int{}, script: map[string][]string{}, used: map[string]int{}, w: w, variant: variant}
		p.srv = httptest.NewServer(p)
		w.proxies = append(w.proxies, p)
		u, _ := url.Parse(p.srv.URL)
		host, port, _ := net.SplitHostPort(u.Host)
		if err := st.CreateProxy(&models.ProxyInfo{Token: u.Host, IP: host, AdminPort: port, ProxyPort: "0"}); err != nil {
			return nil, err
		}
	}
	return w, nil
}

var cpWorlds = map[int]*cpWorld{}

// getWorld returns a world with n registered proxies in its initial state (servers are reused between cases).
func getWorld(n int, variant int) (*cpWorld, error) {
	w := cpWorlds[n]
	if w == nil {
		var err error
		w, err = newCpWorld(n, variant)
		if err != nil {
			return nil, err
		}
		cpWorlds[n] = w
	}
	w.gate.flush()
	w.lastLoadErr = ""
	w.etcd.mu.Lock()
	for k := range w.etcd.files {
		if strings.HasPrefix(k, w.root()+"/namespace/") && k != w.root()+"/namespace/"+cpBystander {
			delete(w.etcd.files, k)
		}
	}
	_, haveBystander := w.etcd.files[w.root()+"/namespace/"+cpBystander]
	w.etcd.mu.Unlock()
	if !haveBystander {
		ns := cpNamespace(cpBystander, 7)
		if err := ns.Verify(); err != nil {
			return nil, err
		}
		if err := ns.Encrypt(cpKey); err != nil {
			return nil, err
		}
		st, err := w.store("setup")
		if err != nil {
			return nil, err
		}
		if err := st.UpdateNamespace(ns); err != nil {
			return nil, err
		}
		st.Close()
	}
	for _, p := range w.proxies {
		p.mu.Lock()
		p.active = map[string]int{cpBystander: 7}
		p.prepared = map[string]int{}
		p.script = map[string][]string{}
		p.used = map[string]int{}
		p.variant = variant
		p.authFail = 0
		p.unknown = nil
		p.loadErrs = nil
		p.mu.Unlock()
	}
	return w, nil
}

func (w *cpWorld) close() {
	w.gate.flush()
	for _, p := range w.proxies {
		p.srv.Close()
	}
	w.etcd.srv.Close()
}

type cpFinal struct {
	Store    int    `json:"store"`
	Active   []int  `json:"active"`
	Prepared []int  `json:"prepared"`
	Reported string `json:"reported"`
}

func (w *cpWorld) observe() (store int, active, prepared []int, err error) {
	store, err = w.loadVersion(cpNsName)
	if err != nil {
		if strings.Contains(err.Error(), "not exists") || strings.Contains(err.Error(), "Key not found") {
			store, err = 0, nil
		} else if _, verr := w.etcd.srv.Client().Get(w.etcd.srv.URL + "/version"); verr != nil {
			return // the coordinator itself is unreachable: a harness problem
		} else {
			// the coordinator holds a document for the namespace that a proxy cannot load (decode / verify /
			// decrypt fails, or the credentials in it are not the configuration's): not any version
			w.lastLoadErr = err.Error()
			store, err = cpUnloadable, nil
		}
	}
	for _, p := range w.proxies {
		p.mu.Lock()
		active = append(active, p.active[cpNsName])
		prepared = append(prepared, p.prepared[cpNsName])
		p.mu.Unlock()
	}
	return
}

// bystander reports whether the other namespace is still version 7 in the coordinator and on every proxy.
func (w *cpWorld) bystander() string {
	v, err := w.loadVersion(cpBystander)
	if err != nil || v != 7 {
		return fmt.Sprintf("coordinator holds version %d (%v)", v, err)
	}
	for _, p := range w.proxies {
		p.mu.Lock()
		a, pr := p.active[cpBystander], p.prepared[cpBystander]
		p.mu.Unlock()
		if a != 7 || pr != 0 {
			return fmt.Sprintf("proxy %d: active %d prepared %d", p.id, a, pr)
		}
	}
	return ""
}

// install brings the world to "old version stored and active on every proxy": through the real ModifyNamespace
// (real = true) or, to save round trips, by writing the encrypted namespace with the real store and setting the
// proxies' active version directly.
func (w *cpWorld) install(old int, real bool) error {
	if old == 0 {
		return nil
	}
	if real {
		if err := ModifyNamespace(cpNamespace(cpNsName, old), w.cfg("setup"), cpCluster); err != nil {
			return fmt.Errorf("set-up ModifyNamespace failed: %v", err)
		}
	} else {
		ns := cpNamespace(cpNsName, old)
		if err := ns.Verify(); err != nil {
			return err
		}
		if err := ns.Encrypt(cpKey); err != nil {
			return err
		}
		st, err := w.store("setup")
		if err != nil {
			return err
		}
		defer st.Close()
		if err := st.UpdateNamespace(ns); err != nil {
			return err
		}
		for _, p := range w.proxies {
			p.mu.Lock()
			p.active[cpNsName] = old
			p.mu.Unlock()
		}
	}
	st, act, _, err := w.observe()
	if err != nil {
		return err
	}
	if st != old {
		return fmt.Errorf("set-up: store holds %d, want %d", st, old)
	}
	for i, a := range act {
		if a != old {
			return fmt.Errorf("set-up: proxy %d runs %d, want %d", i+1, a, old)
		}
	}
	return nil
}

// ---------------------------------------------------------------- G: one operation, all fault placements

type cpPlacement struct {
	Pre []string `json:"pre"`
	Com []string `json:"com"`
}

type cpCase struct {
	Mode      string        `json:"mode"` // "single" or "schedule"
	Kind      string        `json:"kind"`
	Old       int           `json:"old"`
	Ver       int           `json:"ver"`
	N         int           `json:"n"`
	Placement []cpPlacement `json:"placement"`
	Allowed   []cpFinal     `json:"allowed"` // final states the protocol model reaches for this placement
	Atomic    bool          `json:"atomic"`  // the property holds on all of them
	Variant   int           `json:"variant"`
	// schedule mode
	KindB  string   `json:"kindb"`
	VerB   int      `json:"verb"`
	Steps  []cpStep `json:"steps"`
	Expect *cpSched `json:"expect"`
}

type cpStep struct {
	Act string `json:"act"`
	Op  string `json:"op"`
	P   int    `json:"p"`
	Oc  string `json:"oc"`
}

type cpSched struct {
	Store    int               `json:"store"`
	Active   []int             `json:"active"`
	Reported map[string]string `json:"reported"`
}

func cpClass(v, old, target int) string {
	switch {
	case v == old && v == target:
		return "old=new"
	case v == old:
		return "old"
	case v == target:
		return "new"
	case v == 0:
		return "none"
	case v == cpUnloadable:
		return "unloadable"
	}
	return "other"
}

func cpProxiesClass(active []int, old, target int) string {
	set := map[string]bool{}
	for _, a := range active {
		set[cpClass(a, old, target)] = true
	}
	if len(set) == 1 {
		for k := range set {
			return "all-" + k
		}
	}
	return "mixed"
}

func cpCause(c *cpCase) string {
	nonok := func(xs []string) (n int, kinds map[string]bool) {
		kinds = map[string]bool{}
		for _, x := range xs {
			if x != "ok" {
				n++
				kinds[x] = true
			}
		}
		return
	}
	name := func(k map[string]bool) string {
		var s []string
		for x := range k {
			s = append(s, x)
		}
		sort.Strings(s)
		return strings.Join(s, "+")
	}
	if c.Kind == "delete" {
		k := map[string]bool{}
		for _, pl := range c.Placement {
			for _, x := range pl.Com {
				if x != "ok" {
					k[x] = true
				}
			}
		}
		if len(k) == 0 {
			return "no-fault"
		}
		return "delete-" + name(k)
	}
	for _, pl := range c.Placement {
		if n, _ := nonok(pl.Pre); n >= 3 {
			return "prepare-exhausted"
		}
	}
	k := map[string]bool{}
	for _, pl := range c.Placement {
		_, kk := nonok(pl.Com)
		for x := range kk {
			k[x] = true
		}
	}
	if len(k) == 0 {
		return "no-fault"
	}
	return "commit-" + name(k)
}

type cpStats struct {
	cases, rpcs, drift, nonAtomicPredicted int
	notes                                  []string
}

func runSingle(c *cpCase, res *verifkit.Result, st *cpStats) {
	w, err := getWorld(c.N, c.Variant)
	if err != nil {
		res.Dev("C32 harness world", "%v", err)
		return
	}
	st.cases++
	if err := w.install(c.Old, st.cases%16 == 1); err != nil {
		res.Dev("C32 harness set-up", "%v", err)
		return
	}
	for i, p := range w.proxies {
		p.mu.Lock()
		if c.Kind == "modify" {
			p.script["prepare"] = c.Placement[i].Pre
			p.script["commit"] = c.Placement[i].Com
		} else {
			p.script["delete"] = c.Placement[i].Com
		}
		p.mu.Unlock()
	}
	var opErr error
	target := 0
	panicked, msg, _ := verifkit.Catch(func() {
		if c.Kind == "modify" {
			target = c.Ver
			opErr = ModifyNamespace(cpNamespace(cpNsName, c.Ver), w.cfg("A"), cpCluster)
		} else {
			opErr = DelNamespace(cpNsName, w.cfg("A"), cpCluster)
		}
	})
	if panicked {
		res.Dev("C32 "+c.Kind+" panicked", "%s", msg)
		return
	}
	store, active, prepared, err := w.observe()
	if err != nil {
		res.Dev("C32 harness observe", "%v", err)
		return
	}
	reported := "ok"
	if opErr != nil {
		reported = "fail"
	}
	for _, p := range w.proxies {
		for _, k := range []string{"prepare", "commit", "delete"} {
			st.rpcs += p.used[k]
		}
		if p.authFail > 0 || len(p.unknown) > 0 {
			res.Dev("C32 harness proxy-api", "proxy %d: %d unauthenticated requests, unknown requests %v", p.id, p.authFail, p.unknown)
		}
	}
	if b := w.bystander(); b != "" {
		res.Dev("C32 "+c.Kind+" touches another namespace", "%s of %s changed the bystander namespace: %s", c.Kind, cpNsName, b)
	}
	got := cpFinal{Store: store, Active: active, Prepared: prepared, Reported: reported}
	// the property, on the observation
	holds := true
	if reported == "ok" {
		holds = store == target
		for _, a := range active {
			holds = holds && a == target
		}
	} else {
		holds = store == c.Old
		for _, a := range active {
			holds = holds && a == c.Old
		}
	}
	predicted := false
	for _, f := range c.Allowed {
		if f.Store == got.Store && f.Reported == got.Reported && fmt.Sprint(f.Active) == fmt.Sprint(got.Active) {
			predicted = true
		}
	}
	if !holds {
		note := ""
		if !predicted {
			note = "unpredicted: "
		} else {
			st.nonAtomicPredicted++
		}
		sc, pcl := cpClass(store, c.Old, target), cpProxiesClass(active, c.Old, target)
		if c.Kind == "delete" {
			sc, pcl = strings.Replace(sc, "new", "deleted", 1), strings.Replace(pcl, "new", "deleted", 1)
		}
		res.Dev(fmt.Sprintf("C32 %s%s reported=%s store=%s proxies=%s cause=%s", note, c.Kind, reported, sc, pcl, cpCause(c)),
			"%s(old=%d,new=%d) on %d proxies with placement %+v reported %s (%v); store holds %d (-1 = a document no proxy can load: %s), proxies run %v",
			c.Kind, c.Old, target, c.N, c.Placement, reported, opErr, store, w.lastLoadErr, active)
	} else if !predicted {
		st.drift++
		if len(st.notes) < 5 {
			st.notes = append(st.notes, fmt.Sprintf("placement %+v: observed %+v, protocol model allows %+v", c.Placement, got, c.Allowed))
		}
	}
}

// ---------------------------------------------------------------- G: two concurrent operations, a TLC schedule

func runSchedule(c *cpCase, res *verifkit.Result, st *cpStats) {
	w, err := getWorld(c.N, 0)
	if err != nil {
		res.Dev("C32 harness world", "%v", err)
		return
	}
	if err := w.install(c.Old, true); err != nil {
		res.Dev("C32 harness set-up", "%v", err)
		return
	}
	w.gate.mu.Lock()
	w.gate.on = true
	w.gate.mu.Unlock()
	type opres struct {
		err error
		pan string
	}
	results := map[string]chan opres{}
	start := func(op, kind string, ver int) {
		ch := make(chan opres, 1)
		results[op] = ch
		go func() {
			var r opres
			p, msg, _ := verifkit.Catch(func() {
				if kind == "modify" {
					r.err = ModifyNamespace(cpNamespace(cpNsName, ver), w.cfg(op), cpCluster)
				} else {
					r.err = DelNamespace(cpNsName, w.cfg(op), cpCluster)
				}
			})
			if p {
				r.pan = msg
			}
			ch <- r
		}()
	}
	t0 := time.Now()
	start("A", c.Kind, c.Ver)
	start("B", c.KindB, c.VerB)
	imposed := true
	hasDel := false
	for i, s := range c.Steps {
		act := s.Act
		switch act {
		case "Load":
		case "Update", "Rollback", "DelStore":
			act = "Write"
		case "PrepareRPC", "CommitRPC", "DelRPC":
		default:
			continue // PrepareDone / CommitDone: internal to the operation
		}
		want := s.P
		if act == "DelRPC" {
			want = 0 // DelNamespace visits the proxies in Go map order: take the one it chose
			hasDel = true
		}
		k := w.gate.take(s.Op, act, want, 6*time.Second)
		if k == nil {
			imposed = false
			if len(st.notes) < 5 {
				st.notes = append(st.notes, fmt.Sprintf("schedule step %d (%+v) could not be imposed", i, s))
			}
			break
		}
		oc := s.Oc
		if oc == "" {
			oc = "ok"
		}
		k.release <- oc
		st.rpcs++
		select {
		case <-k.applied: // the server has applied the step's effect
		case <-time.After(6 * time.Second):
			imposed = false
		}
		if !imposed {
			break
		}
	}
	if time.Since(t0) > 4*time.Second {
		// parked requests time out (coordinator client: 10 s): a replay this slow is not the scheduled execution
		imposed = false
		if len(st.notes) < 5 {
			st.notes = append(st.notes, fmt.Sprintf("schedule replay took %v: not judged", time.Since(t0)))
		}
	}
	w.gate.flush()
	rep := map[string]string{}
	for op, ch := range results {
		select {
		case r := <-ch:
			if r.pan != "" {
				res.Dev("C32 concurrent panicked", "%s", r.pan)
				return
			}
			rep[op] = "ok"
			if r.err != nil {
				rep[op] = "fail"
			}
		case <-time.After(60 * time.Second):
			res.Dev("C32 harness schedule", "operation %s did not finish", op)
			return
		}
	}
	if !imposed {
		st.drift++
		return
	}
	store, active, _, err := w.observe()
	if err != nil {
		res.Dev("C32 harness observe", "%v", err)
		return
	}
	// AtomicConcurrent on the observation
	target := map[string]int{"A": 0, "B": 0}
	if c.Kind == "modify" {
		target["A"] = c.Ver
	}
	if c.KindB == "modify" {
		target["B"] = c.VerB
	}
	agree := true
	for _, a := range active {
		agree = agree && a == store
	}
	winner := false
	nwin := 0
	for op, r := range rep {
		if r == "ok" {
			nwin++
			if store == target[op] {
				winner = true
			}
		}
	}
	okState := agree && ((nwin == 0 && store == c.Old) || (nwin > 0 && winner))
	same := c.Expect != nil && c.Expect.Store == store && fmt.Sprint(c.Expect.Active) == fmt.Sprint(active) &&
		c.Expect.Reported["A"] == rep["A"] && c.Expect.Reported["B"] == rep["B"]
	if hasDel {
		same = true // the proxy order of the delete steps is the implementation's choice: only the property is judged
	}
	if !okState {
		what := "proxies-disagree-with-store"
		if agree {
			what = "common-state-is-no-winner"
		}
		faults := 0
		for _, s := range c.Steps {
			if s.Oc != "" && s.Oc != "ok" {
				faults++
			}
		}
		note := ""
		if !same {
			note = "unpredicted: "
		}
		res.Dev(fmt.Sprintf("C32 %sconcurrent %s+%s faults=%d reported=%s/%s: %s", note, c.Kind, c.KindB, faults, rep["A"], rep["B"], what),
			"old=%d A=%s(%d) B=%s(%d): reported %v; store holds %d, proxies run %v; schedule %+v", c.Old, c.Kind, c.Ver, c.KindB, c.VerB, rep, store, active, c.Steps)
	} else if !same {
		st.drift++
		if len(st.notes) < 5 {
			st.notes = append(st.notes, fmt.Sprintf("schedule: observed store=%d active=%v reported=%v, protocol model %+v", store, active, rep, c.Expect))
		}
	}
}

func TestVerifControlPlane(t *testing.T) {
	log.SetGlobalLogger(cpNullLogger{})
	out, err := verifkit.OpenOut()
	if err != nil {
		t.Fatalf("verif: %v", err)
	}
	st := &cpStats{}
	n, err := verifkit.EachCase(func(i int, raw json.RawMessage) error {
		var c cpCase
		if err := json.Unmarshal(raw, &c); err != nil {
			return err
		}
		res := &verifkit.Result{Case: i}
		if c.Mode == "schedule" {
			runSchedule(&c, res, st)
		} else {
			runSingle(&c, res, st)
		}
		if len(res.Devs) > 0 {
			res.Obs = c
			out.Write(res)
		}
		return nil
	})
	if err != nil {
		t.Fatalf("verif: %v", err)
	}
	for _, w := range cpWorlds {
		w.close()
	}
	out.Close(n, map[string]interface{}{"rpcs": st.rpcs, "drift": st.drift, "drift_notes": st.notes,
		"non_atomic_as_predicted": st.nonAtomicPredicted})
}
