package models

// Conformance harness for spec/ConfigStore.tla (property C33).
//
// G: cases enumerated by TLC (ConfigStore_gen) with the specification's expected outcome are replayed on the
// real functions:
//   path       Store.UpdateNamespace / LoadNamespace / DelNamespace over a real LocalClient whose storage root
//              lies three levels deep inside a scratch sandbox; the sandbox tree is walked before and after
//              every operation: a created / modified / deleted path outside the root is a violation
//              (observation by file system, expected location by the specification's Resolve);
//   roundtrip  Namespace.Verify -> Encrypt -> Encode -> Store.UpdateNamespace -> LoadNamespace (Decode, Verify,
//              Decrypt) over an in-memory Client, the LocalClient and the file client; the loaded namespace is
//              compared with the submitted one;
//   decrypt    ciphertext classes (bad base64, partial blocks, chosen last-byte padding values, wrong / invalid
//              keys) through models.decrypt, Namespace.Decrypt and crypto.DecryptECB; ciphertexts with a chosen
//              padding byte are built with the standard library's AES (the trusted base of this check).
// A panic anywhere is a violation.

import (
	"bytes"
	"crypto/aes"
	"crypto/sha256"
	"encoding/base64"
	"encoding/json"
	"fmt"
	"math/rand"
	"os"
	"path/filepath"
	"reflect"
	"sort"
	"strings"
	"testing"
	"time"

	"github.com/XiaoMi/Gaea/internal/verifkit"
	"github.com/XiaoMi/Gaea/log"
	fileclient "github.com/XiaoMi/Gaea/models/file"
	"github.com/XiaoMi/Gaea/util/crypto"
)

type csNullLogger struct{}

func (csNullLogger) SetLevel(name, level string) error                { return nil }
func (csNullLogger) Debug(format string, a ...interface{}) error       { return nil }
func (csNullLogger) Trace(format string, a ...interface{}) error       { return nil }
func (csNullLogger) Notice(format string, a ...interface{}) error      { return nil }
func (csNullLogger) Warn(format string, a ...interface{}) error        { return nil }
func (csNullLogger) Fatal(format string, a ...interface{}) error       { return nil }
func (csNullLogger) Debugx(id, format string, a ...interface{}) error  { return nil }
func (csNullLogger) Tracex(id, format string, a ...interface{}) error  { return nil }
func (csNullLogger) Noticex(id, format string, a ...interface{}) error { return nil }
func (csNullLogger) Warnx(id, format string, a ...interface{}) error   { return nil }
func (csNullLogger) Fatalx(id, format string, a ...interface{}) error  { return nil }
func (csNullLogger) Close()                                            {}
func (csNullLogger) Dropped(i int) uint64                              { return 0 }

// ---------------------------------------------------------------- case format

type csLoc struct {
	Ok   bool     `json:"ok"`
	Why  string   `json:"why"`
	Up   int      `json:"up"`
	Dir  []string `json:"dir"`
	Base string   `json:"base"`
}

type csCaseIn struct {
	Kind  string            `json:"kind"`
	Pre   string            `json:"pre"`
	Name  []string          `json:"name"`
	Key   string            `json:"key"`
	Key2  string            `json:"key2"`
	Cfg   map[string]string `json:"cfg"`
	Other string            `json:"other"`
	Cls   string            `json:"cls"`
	N     int               `json:"n"`
	U     int               `json:"u"`
}

type csExpect struct {
	Loc    *csLoc `json:"loc"`
	Inside bool   `json:"inside"`
	Save   string `json:"save"`
	Equal  bool   `json:"equal"`
	St     string `json:"st"`
	Len    int    `json:"len"`
}

type csCase struct {
	Case   csCaseIn `json:"case"`
	Expect csExpect `json:"expect"`
	Seed   int64    `json:"seed"`
}

type csStats struct {
	drift, fileOps, saved, refused int
	notes                          []string
	byKind                         map[string]int
}

func (st *csStats) driftf(format string, a ...interface{}) {
	st.drift++
	if len(st.notes) < 6 {
		st.notes = append(st.notes, fmt.Sprintf(format, a...))
	}
}

// ---------------------------------------------------------------- helpers

var csKeys = map[string]string{
	"k16": "1234abcd5678efg*", "k24": "1234abcd5678efg*ABCDEFGH", "k32": "1234abcd5678efg*ABCDEFGH87654321",
	"k0": "", "k5": "short", "k17": "1234abcd5678efg*X", "k33": "1234abcd5678efg*ABCDEFGH87654321Y",
}

func csField(cls string, rng *rand.Rand, tag string) string {
	letters := "abcdefghijklmnopqrstuvwxyzABCDEFGHIJKLMNOPQRSTUVWXYZ0123456789"
	rs := func(n int) string {
		b := make([]byte, n)
		for i := range b {
			b[i] = letters[rng.Intn(len(letters))]
		}
		return string(b)
	}
	switch cls {
	case "empty":
		return ""
	case "len15":
		return tag + rs(15-len(tag))
	case "len16":
		return tag + rs(16-len(tag))
	case "len17":
		return tag + rs(17-len(tag))
	case "nonutf8":
		return tag + string([]byte{0xff, 0xfe, 0x80, 0xc3, 0x28, 0x00, 0x01}) + rs(3)
	case "quote":
		return tag + `pa"ss'w` + "`" + rs(2)
	case "backslash":
		return tag + `a\b\\c\n` + rs(2)
	case "ws":
		return " \t" + tag + rs(4) + " \n"
	case "long":
		return tag + rs(300+rng.Intn(40))
	default:
		return tag + "plain" + rs(3)
	}
}

func csNamespace(name string, marker string) *Namespace {
	return &Namespace{
		Name: name, Online: true, AllowedDBS: map[string]bool{"db1": true}, SlowSQLTime: "1000",
		DefaultPhyDBS: map[string]string{"db1": "phy_" + marker},
		Users:         []*User{{UserName: "u_" + marker, Password: "pw_" + marker, Namespace: name, RWFlag: 2, RWSplit: 1}},
		Slices:        []*Slice{{Name: "slice-0", UserName: "root", Password: "rootpw", Master: "127.0.0.1:1", Capacity: 4, MaxCapacity: 8, IdleTimeout: 60}},
		DefaultSlice:  "slice-0",
	}
}

func csClone(n *Namespace) *Namespace {
	b, _ := json.Marshal(n)
	out := &Namespace{}
	json.Unmarshal(b, out)
	// json replaces invalid UTF-8: copy the strings that may hold arbitrary bytes by hand
	for i := range n.Users {
		out.Users[i].UserName, out.Users[i].Password, out.Users[i].Namespace = n.Users[i].UserName, n.Users[i].Password, n.Users[i].Namespace
	}
	for i := range n.Slices {
		out.Slices[i].UserName, out.Slices[i].Password, out.Slices[i].InitConnect = n.Slices[i].UserName, n.Slices[i].Password, n.Slices[i].InitConnect
	}
	out.BlackSQL = append([]string(nil), n.BlackSQL...)
	out.Name = n.Name
	return out
}

// in-memory coordinator client
type csMem struct {
	files  map[string][]byte
	prefix string
}

func (m *csMem) Create(path string, data []byte) error { m.files[path] = append([]byte(nil), data...); return nil }
func (m *csMem) Update(path string, data []byte) error { m.files[path] = append([]byte(nil), data...); return nil }
func (m *csMem) UpdateWithTTL(path string, data []byte, ttl time.Duration) error {
	return m.Update(path, data)
}
func (m *csMem) Delete(path string) error { delete(m.files, path); return nil }
func (m *csMem) Read(path string) ([]byte, error) {
	if b, ok := m.files[path]; ok {
		return b, nil
	}
	return nil, nil
}
func (m *csMem) List(path string) ([]string, error) {
	var out []string
	for k := range m.files {
		if strings.HasPrefix(k, path+"/") {
			out = append(out, k)
		}
	}
	sort.Strings(out)
	return out, nil
}
func (m *csMem) ListWithValues(path string) (map[string]string, error) {
	out := map[string]string{}
	for k, v := range m.files {
		if strings.HasPrefix(k, path+"/") {
			out[k] = string(v)
		}
	}
	return out, nil
}
func (m *csMem) Close() error       { return nil }
func (m *csMem) BasePrefix() string { return m.prefix }

// ---------------------------------------------------------------- path cases

type csSnap map[string]string // path -> kind:size:hash

func csWalk(root string) csSnap {
	s := csSnap{}
	filepath.Walk(root, func(p string, info os.FileInfo, err error) error {
		if err != nil || info == nil {
			return nil
		}
		if info.IsDir() {
			s[p] = "dir"
			return nil
		}
		b, _ := os.ReadFile(p)
		s[p] = fmt.Sprintf("file:%d:%x", len(b), sha256.Sum256(b))
		return nil
	})
	return s
}

func csDiff(a, b csSnap) (changed []string) {
	for p, v := range b {
		if a[p] != v {
			changed = append(changed, p)
		}
	}
	for p := range a {
		if _, ok := b[p]; !ok {
			changed = append(changed, p)
		}
	}
	sort.Strings(changed)
	return
}

func csSegment(s string) string {
	if s == "LONG" {
		return strings.Repeat("a", 1100)
	}
	return s
}

var csPrefix = map[string]string{"none": "", "abs": "/gaea", "rel": "gaea", "deep": "/gaea/c1"}

func csOutsideClass(root, p string) string {
	if p == root+".json" {
		return "the sibling file <root>.json"
	}
	if strings.HasPrefix(p, filepath.Dir(root)+string(os.PathSeparator)) {
		return "the parent directory of the root"
	}
	return "elsewhere"
}

func runPath(sandboxBase string, idx int, c *csCase, res *verifkit.Result, st *csStats) {
	sandbox := filepath.Join(sandboxBase, fmt.Sprintf("sb%d", idx%8))
	os.RemoveAll(sandbox)
	root := filepath.Join(sandbox, "outer", "inner", "root")
	if err := os.MkdirAll(root, 0755); err != nil {
		res.Dev("C33 harness sandbox", "%v", err)
		return
	}
	defer os.RemoveAll(sandbox)
	canaryNs := csNamespace("canary", "CANARY")
	canary := canaryNs.Encode()
	for _, p := range []string{filepath.Join(sandbox, "outer", "inner", "canary.json"), filepath.Join(sandbox, "outer", "canary.json"),
		filepath.Join(sandbox, "canary.json"), filepath.Join(sandbox, "outer", "inner", "namespace.json")} {
		os.WriteFile(p, canary, 0644)
	}
	segs := make([]string, len(c.Case.Name))
	for i, s := range c.Case.Name {
		segs[i] = csSegment(s)
	}
	name := strings.Join(segs, "/")
	prefix := csPrefix[c.Case.Pre]
	lc, err := NewLocalClient(root, prefix)
	if err != nil {
		res.Dev("C33 harness local-client", "%v", err)
		return
	}
	store := NewStore(lc)
	marker := fmt.Sprintf("M%d", idx)
	ns := csNamespace(name, marker)
	if err := ns.Encrypt(csKeys["k16"]); err != nil {
		res.Dev("C33 harness encrypt", "%v", err)
		return
	}
	inRoot := func(p string) bool { return p == root || strings.HasPrefix(p, root+string(os.PathSeparator)) }
	where := "name=" + strings.Join(c.Case.Name, "/") + " prefix=" + prefix
	expected := ""
	if c.Expect.Loc != nil && c.Expect.Loc.Ok {
		if c.Expect.Loc.Up == 1 {
			expected = root + ".json"
		} else {
			parts := append([]string{root}, c.Expect.Loc.Dir...)
			expected = filepath.Join(append(parts, c.Expect.Loc.Base)...) + ".json"
		}
	}
	step := func(op string, fn func() error) (err error, changed []string, ok bool) {
		before := csWalk(sandbox)
		p, msg, _ := verifkit.Catch(func() { err = fn() })
		st.fileOps++
		if p {
			res.Dev("C33 panic in local "+op, "%s: %s", where, msg)
			return nil, nil, false
		}
		changed = csDiff(before, csWalk(sandbox))
		for _, ch := range changed {
			if !inRoot(ch) {
				res.Dev(fmt.Sprintf("C33 local %s touches %s", op, csOutsideClass(root, ch)),
					"%s: %s changed %s, outside the storage root %s (all changes: %v)", where, op, ch, root, changed)
				break
			}
		}
		return err, changed, true
	}
	// write
	werr, changed, ok := step("update", func() error { return store.UpdateNamespace(ns) })
	if !ok {
		return
	}
	if werr == nil {
		st.saved++
		found := false
		for _, ch := range changed {
			if ch == expected {
				found = true
			}
		}
		if expected == "" {
			st.driftf("%s: the specification rejects the path (%s), the implementation wrote %v", where, c.Expect.Loc.Why, changed)
		} else if !found {
			hasFile := false
			for _, ch := range changed {
				if strings.HasSuffix(ch, ".json") {
					hasFile = true
				}
			}
			if !hasFile {
				res.Dev("C33 local update reports success but no file appears in the observed tree",
					"%s: UpdateNamespace returned nil; expected %s; changes %v", where, expected, changed)
			} else {
				st.driftf("%s: specification resolves to %s, implementation changed %v", where, expected, changed)
			}
		}
	} else {
		st.refused++
		if len(changed) > 0 {
			st.driftf("%s: update failed (%v) but changed %v", where, werr, changed)
		}
		if expected != "" && !strings.Contains(werr.Error(), "too long") && !strings.Contains(werr.Error(), "invalid argument") {
			st.driftf("%s: specification resolves to %s, implementation refuses: %v", where, expected, werr)
		}
	}
	// read back
	var got *Namespace
	rerr, _, ok := step("load", func() error {
		var e error
		got, e = store.LoadNamespace(csKeys["k16"], name)
		return e
	})
	if !ok {
		return
	}
	if rerr == nil && got != nil {
		if len(got.Users) == 1 && got.Users[0].UserName == "u_CANARY" {
			res.Dev("C33 local load reads a file outside the storage root", "%s: LoadNamespace returned the canary namespace planted outside %s", where, root)
		} else if werr == nil && (len(got.Users) != 1 || got.Users[0].UserName != "u_"+marker || got.Name != name) {
			res.Dev("C33 local round trip returns another namespace", "%s: wrote marker %s, loaded %+v", where, marker, got.Users)
		}
	} else if werr == nil && name != "" {
		// saved but cannot be loaded back: Verify of the loaded copy (empty name) is the only accepted reason
		st.driftf("%s: saved but not loadable: %v", where, rerr)
	}
	// list
	if p, msg, _ := verifkit.Catch(func() { store.ListNamespaceName() }); p {
		res.Dev("C33 panic in local list", "%s: %s", where, msg)
	}
	// delete
	derr, changed, ok := step("delete", func() error { return store.DelNamespace(name) })
	if !ok {
		return
	}
	_ = derr
	for _, p := range []string{filepath.Join(sandbox, "outer", "inner", "canary.json"), filepath.Join(sandbox, "outer", "canary.json"), filepath.Join(sandbox, "canary.json")} {
		if b, err := os.ReadFile(p); err != nil || !bytes.Equal(b, canary) {
			res.Dev("C33 local delete removes or changes a file outside the storage root", "%s: canary %s damaged", where, p)
		}
	}
}

// ---------------------------------------------------------------- round-trip cases

func csGet(n *Namespace, field string) string {
	switch field {
	case "user.name":
		return n.Users[0].UserName
	case "user.password":
		return n.Users[0].Password
	case "slice.user":
		return n.Slices[0].UserName
	case "slice.password":
		return n.Slices[0].Password
	case "black_sql":
		return n.BlackSQL[0]
	case "init_connect":
		return n.Slices[0].InitConnect
	}
	return ""
}

func runRoundTrip(scratch string, idx int, c *csCase, res *verifkit.Result, st *csStats) {
	rng := rand.New(rand.NewSource(c.Seed + int64(idx)))
	key := csKeys[c.Case.Key]
	name := fmt.Sprintf("ns_rt_%d", idx)
	ns := csNamespace(name, "rt")
	ns.Users[0].UserName = csField(c.Case.Cfg["user.name"], rng, "u")
	ns.Users[0].Password = csField(c.Case.Cfg["user.password"], rng, "p")
	ns.Slices[0].UserName = csField(c.Case.Cfg["slice.user"], rng, "s")
	ns.Slices[0].Password = csField(c.Case.Cfg["slice.password"], rng, "q")
	ns.BlackSQL = []string{csField(c.Case.Other, rng, "select ")}
	ns.Slices[0].InitConnect = csField(c.Case.Other, rng, "set ")
	submitted := csClone(ns)
	where := fmt.Sprintf("key=%s cfg=%v other=%s", c.Case.Key, c.Case.Cfg, c.Case.Other)
	var outcome string
	var verified *Namespace
	p, msg, _ := verifkit.Catch(func() {
		if err := ns.Verify(); err != nil {
			outcome = "verify-error"
			return
		}
		verified = csClone(ns)
		if err := ns.Encrypt(key); err != nil {
			outcome = "encrypt-error"
			return
		}
		outcome = "saved"
	})
	if p {
		res.Dev("C33 panic in Verify/Encrypt", "%s: %s", where, msg)
		return
	}
	if outcome != c.Expect.Save {
		st.driftf("%s: specification expects %s, implementation %s", where, c.Expect.Save, outcome)
	}
	if outcome != "saved" {
		st.refused++
		return
	}
	st.saved++
	// three backends
	mem := &csMem{files: map[string][]byte{}, prefix: "/gaea"}
	localRoot := filepath.Join(scratch, fmt.Sprintf("rt%d", idx%8))
	os.RemoveAll(localRoot)
	defer os.RemoveAll(localRoot)
	lc, err := NewLocalClient(filepath.Join(localRoot, "local"), "/gaea")
	if err != nil {
		res.Dev("C33 harness local-client", "%v", err)
		return
	}
	fileDir := filepath.Join(localRoot, "file")
	os.MkdirAll(filepath.Join(fileDir, "namespace"), 0755)
	fc, err := fileclient.New(fileDir)
	if err != nil {
		res.Dev("C33 harness file-client", "%v", err)
		return
	}
	type backend struct {
		name  string
		write func() error
		store *Store
	}
	backends := []backend{
		{"memory", func() error { return NewStore(mem).UpdateNamespace(ns) }, NewStore(mem)},
		{"local", func() error { return NewStore(lc).UpdateNamespace(ns) }, NewStore(lc)},
		// the file client cannot write (Update is a no-op): the encoded namespace is placed where it reads
		{"file", func() error { return os.WriteFile(filepath.Join(fileDir, "namespace", name), ns.Encode(), 0644) }, NewStore(fc)},
	}
	for _, b := range backends {
		var loaded *Namespace
		var lerr error
		p, msg, _ := verifkit.Catch(func() {
			if lerr = b.write(); lerr != nil {
				return
			}
			loaded, lerr = b.store.LoadNamespace(key, name)
		})
		st.fileOps++
		if p {
			res.Dev("C33 panic in store round trip ("+b.name+")", "%s: %s", where, msg)
			continue
		}
		if lerr != nil || loaded == nil {
			res.Dev("C33 round trip ("+b.name+"): saved namespace cannot be loaded", "%s: %v", where, lerr)
			continue
		}
		// the protected fields against what was submitted
		for _, f := range []string{"user.name", "user.password", "slice.user", "slice.password"} {
			if got, want := csGet(loaded, f), csGet(submitted, f); got != want {
				cls := c.Case.Cfg[f]
				why := "changed"
				if got == strings.TrimSpace(want) {
					why = "trimmed by Verify"
				}
				res.Dev(fmt.Sprintf("C33 round trip: %s of class %s %s", f, cls, why), "%s (%s): submitted %q, loaded %q", where, b.name, want, got)
			}
		}
		for _, f := range []string{"black_sql", "init_connect"} {
			if got, want := csGet(loaded, f), csGet(submitted, f); got != want {
				res.Dev(fmt.Sprintf("C33 round trip: unprotected text field of class %s changed", c.Case.Other), "%s (%s): %s submitted %q, loaded %q", where, b.name, f, want, got)
			}
		}
		// everything else against the validated form
		l2, v2 := csClone(loaded), csClone(verified)
		l2.IsEncrypt, v2.IsEncrypt = false, false
		for _, x := range []*Namespace{l2, v2} {
			x.Users[0].UserName, x.Users[0].Password, x.Slices[0].UserName, x.Slices[0].Password = "", "", "", ""
			x.BlackSQL, x.Slices[0].InitConnect = nil, ""
			if len(x.AllowedSessionVariables) == 0 {
				x.AllowedSessionVariables = nil
			}
		}
		if !reflect.DeepEqual(l2, v2) {
			lb, _ := json.Marshal(l2)
			vb, _ := json.Marshal(v2)
			res.Dev("C33 round trip: other fields differ", "%s (%s): validated %s, loaded %s", where, b.name, vb, lb)
		}
		// wrong key / invalid key on the stored copy: any outcome but a crash
		for _, k2 := range []string{csKeys["k24"], csKeys["k5"], csKeys["k32"], csKeys["k16"]} {
			if k2 == key {
				continue
			}
			if p, msg, _ := verifkit.Catch(func() { b.store.LoadNamespace(k2, name) }); p {
				res.Dev("C33 panic in LoadNamespace with another key", "%s (%s): %s", where, b.name, msg)
			}
		}
	}
}

// ---------------------------------------------------------------- decrypt cases

func csRawECB(key string, plain []byte) []byte {
	blk, err := aes.NewCipher([]byte(key))
	if err != nil {
		return nil
	}
	out := make([]byte, len(plain))
	for i := 0; i+16 <= len(plain); i += 16 {
		blk.Encrypt(out[i:i+16], plain[i:i+16])
	}
	return out
}

func runDecrypt(idx int, c *csCase, res *verifkit.Result, st *csStats) {
	rng := rand.New(rand.NewSource(c.Seed + int64(idx)))
	key, key2 := csKeys[c.Case.Key], csKeys[c.Case.Key2]
	var inputs []string // base64 texts
	var raws [][]byte
	switch c.Case.Cls {
	case "pad":
		plain := make([]byte, c.Case.N)
		for i := range plain {
			plain[i] = byte(32 + rng.Intn(90))
		}
		plain[len(plain)-1] = byte(c.Case.U)
		raws = append(raws, csRawECB(key, plain))
	case "len":
		b := make([]byte, c.Case.N)
		rng.Read(b)
		raws = append(raws, b)
	case "bad64":
		inputs = []string{"!!!!", "QUJD!", "====", "YWJj\n", "YWJ", "*" + base64.StdEncoding.EncodeToString(make([]byte, 16)), "\xff\xfe"}
	case "wrongkey":
		ct, _ := crypto.EncryptECB(key, []byte("some secret value"))
		raws = append(raws, ct)
		ct2, _ := crypto.EncryptECB(key, []byte(""))
		raws = append(raws, ct2)
	case "badkey":
		ct, _ := crypto.EncryptECB(key, []byte("some secret value"))
		raws = append(raws, ct)
	case "empty":
		inputs = []string{""}
	}
	for _, r := range raws {
		inputs = append(inputs, base64.StdEncoding.EncodeToString(r))
	}
	where := fmt.Sprintf("class=%s n=%d last-byte=%d key=%s key2=%s", c.Case.Cls, c.Case.N, c.Case.U, c.Case.Key, c.Case.Key2)
	for _, in := range inputs {
		var out string
		var err error
		p, msg, _ := verifkit.Catch(func() { out, err = decrypt(key2, in) })
		st.fileOps++
		if p {
			res.Dev("C33 panic in decrypt: "+c.Case.Cls, "%s input %q: %s", where, in, msg)
			continue
		}
		switch c.Expect.St {
		case "err":
			if err == nil {
				st.driftf("%s: specification expects an error, decrypt returned %d bytes", where, len(out))
			}
		case "data":
			if err != nil {
				st.driftf("%s: specification expects %d bytes, decrypt failed: %v", where, c.Expect.Len, err)
			} else if len(out) != c.Expect.Len {
				st.driftf("%s: specification expects %d bytes, decrypt returned %d", where, c.Expect.Len, len(out))
			}
		}
		// the same through Namespace.Decrypt and the raw function
		n := &Namespace{IsEncrypt: true, Users: []*User{{UserName: in, Password: in}}, Slices: []*Slice{{UserName: in, Password: in}}}
		if p, msg, _ := verifkit.Catch(func() { n.Decrypt(key2) }); p {
			res.Dev("C33 panic in Namespace.Decrypt: "+c.Case.Cls, "%s input %q: %s", where, in, msg)
		}
		raw, _ := base64.StdEncoding.DecodeString(in)
		if p, msg, _ := verifkit.Catch(func() { crypto.DecryptECB(key2, raw) }); p {
			res.Dev("C33 panic in DecryptECB: "+c.Case.Cls, "%s input %q: %s", where, in, msg)
		}
	}
}

func TestVerifConfigStore(t *testing.T) {
	log.SetGlobalLogger(csNullLogger{})
	out, err := verifkit.OpenOut()
	if err != nil {
		t.Fatalf("verif: %v", err)
	}
	scratch := os.Getenv("VERIF_SCRATCH")
	if scratch == "" {
		t.Fatalf("verif: VERIF_SCRATCH not set")
	}
	st := &csStats{byKind: map[string]int{}}
	n, err := verifkit.EachCase(func(i int, raw json.RawMessage) error {
		var c csCase
		if err := json.Unmarshal(raw, &c); err != nil {
			return err
		}
		res := &verifkit.Result{Case: i}
		st.byKind[c.Case.Kind]++
		switch c.Case.Kind {
		case "path":
			runPath(scratch, i, &c, res, st)
		case "roundtrip":
			runRoundTrip(scratch, i, &c, res, st)
		case "decrypt":
			runDecrypt(i, &c, res, st)
		default:
			return fmt.Errorf("unknown case kind %q", c.Case.Kind)
		}
		if len(res.Devs) > 0 {
			res.Obs = c
			out.Write(res)
		}
		return nil
	})
	if err != nil {
		t.Fatalf("verif: %v", err)
	}
	out.Close(n, map[string]interface{}{"drift": st.drift, "drift_notes": st.notes, "operations": st.fileOps,
		"saved": st.saved, "refused": st.refused, "by_kind": st.byKind})
}
