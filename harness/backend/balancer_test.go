package backend

// Conformance harness for spec/Balancer.tla (property C25), direction V.
// TLC generates scenarios (replica list: weights, datacenter tags, statuses; a script of selections per
// local-read policy and of status changes).  The script is executed on the real code: NodeInfo list with
// scripted pools, DBInfo.InitBalancers, Slice.GetSlaveConn (-> getNodeFromBalancer -> balancer.next).
// What was selected is recorded as a trace and judged by TLC with spec/Balancer_trace.tla.
// Every third scenario takes the all-up selections of the "closed" policy directly from
// GlobalBalancer.next() / getNodeFromBalancer instead of GetSlaveConn.

import (
	"encoding/json"
	"fmt"
	"math"
	"reflect"
	"sync"
	"testing"

	"github.com/XiaoMi/Gaea/internal/verifkit"
	"github.com/XiaoMi/Gaea/models"
)

type vBalStep struct {
	Op   string `json:"op"`
	Pol  int    `json:"pol"`
	N    int    `json:"n"`
	Node int    `json:"node"`
	St   int    `json:"st"`
	G    int    `json:"g"`
}

type vBalCase struct {
	N     int        `json:"n"`
	W     []int      `json:"w"`
	DC    []int      `json:"dc"`
	St    []int      `json:"st"`
	Steps []vBalStep `json:"steps"`
}

type vBalEv struct {
	T      int         `json:"t"`
	Ev     string      `json:"ev"`
	N      int         `json:"n,omitempty"`
	W      []int       `json:"w,omitempty"`
	DC     []int       `json:"dc,omitempty"`
	St     interface{} `json:"st,omitempty"` // cfg: status vector; set: new status
	Node   int         `json:"node,omitempty"`
	Pol    *int        `json:"pol,omitempty"`
	Groups []vBalGroup `json:"groups,omitempty"` // picks: consecutive selections, grouped by policy
	Counts []int       `json:"counts,omitempty"`
	Errors *int        `json:"errors,omitempty"`
	Wrap   bool        `json:"wrapped,omitempty"` // a counter was moved next to its uint32 wrap-around before this line
	Via    string      `json:"via,omitempty"`
}

type vBalGroup struct {
	Pol   int    `json:"pol"`
	Nodes []int  `json:"nodes"`
	Via   string `json:"via"`
}

const vProxyDC = "dc-local"

func vDCName(d int) string {
	if d == 0 {
		return vProxyDC
	}
	return fmt.Sprintf("dc-remote-%d", d)
}

func replayBalCase(c *vBalCase, id int, trace *verifkit.Out, stats map[string]int) error {
	nodes := make([]*NodeInfo, c.N)
	byAddr := map[string]int{}
	for i := 0; i < c.N; i++ {
		addr := fmt.Sprintf("replica-%d:3306", i+1)
		p := newVPool(addr, vDCName(c.DC[i]), i+1)
		st := StatusDown
		if c.St[i] == 1 {
			st = StatusUp
		}
		nodes[i] = &NodeInfo{Address: addr, Datacenter: vDCName(c.DC[i]), Weight: c.W[i], ConnPool: p, Status: st}
		byAddr[addr] = i + 1
	}
	db := &DBInfo{Nodes: nodes}
	if err := db.InitBalancers(vProxyDC); err != nil {
		return fmt.Errorf("InitBalancers: %v", err)
	}
	s := &Slice{Namespace: "verif", Cfg: models.Slice{Name: "slice-0"}, Slave: db, ProxyDatacenter: vProxyDC}
	stv := append([]int{}, c.St...)
	trace.Write(vBalEv{T: id, Ev: "cfg", N: c.N, W: c.W, DC: c.DC, St: stv})

	pick := func(pol int) int {
		pc, err := s.GetSlaveConn(db, pol)
		if err != nil || pc == nil {
			return -1
		}
		return byAddr[pc.GetAddr()]
	}
	allUp := func() bool {
		for _, n := range nodes {
			if !n.IsStatusUp() {
				return false
			}
		}
		return true
	}
	wrapped := false
	var groups []vBalGroup
	flush := func() {
		if len(groups) > 0 {
			trace.Write(vBalEv{T: id, Ev: "picks", Groups: groups, Wrap: wrapped})
			groups = nil
		}
	}
	defer flush()
	for si, stp := range c.Steps {
		if stp.Op != "picks" {
			flush()
		}
		switch stp.Op {
		case "set":
			if stp.St == 1 {
				nodes[stp.Node-1].SetStatusUp()
			} else {
				nodes[stp.Node-1].SetStatusDown()
			}
			trace.Write(vBalEv{T: id, Ev: "set", Node: stp.Node, St: stp.St})
		case "picks":
			got := make([]int, 0, stp.N)
			via := "GetSlaveConn"
			direct := id%3 == 2 && (stp.Pol == 0 || stp.Pol == 3) && allUp() && db.GlobalBalancer != nil
			for k := 0; k < stp.N; k++ {
				if direct && (si+k)%2 == 0 {
					via = "balancer.next/getNodeFromBalancer"
					idx, err := db.GlobalBalancer.next()
					if err != nil {
						got = append(got, -1)
					} else {
						got = append(got, idx+1)
					}
				} else if direct {
					n, err := s.getNodeFromBalancer(db, db.GlobalBalancer)
					if err != nil || n == nil {
						got = append(got, -1)
					} else {
						got = append(got, byAddr[n.Address])
					}
				} else {
					got = append(got, pick(stp.Pol))
				}
			}
			stats["picks"] += stp.N
			groups = append(groups, vBalGroup{Pol: stp.Pol, Nodes: got, Via: via})
		case "cpicks":
			counts := make([]int, c.N)
			errs := 0
			var mu sync.Mutex
			var wg sync.WaitGroup
			g := stp.G
			if g < 1 {
				g = 1
			}
			start := make(chan struct{})
			for w := 0; w < g; w++ {
				share := stp.N / g
				if w < stp.N%g {
					share++
				}
				wg.Add(1)
				go func(share int) {
					defer wg.Done()
					<-start
					local := make([]int, c.N)
					le := 0
					for k := 0; k < share; k++ {
						r := pick(stp.Pol)
						if r < 1 {
							le++
						} else {
							local[r-1]++
						}
					}
					mu.Lock()
					for i := range local {
						counts[i] += local[i]
					}
					errs += le
					mu.Unlock()
				}(share)
			}
			close(start)
			wg.Wait()
			stats["concurrent_picks"] += stp.N
			p := stp.Pol
			trace.Write(vBalEv{T: id, Ev: "cpicks", Pol: &p, Counts: counts, Errors: &errs})
		case "wrap":
			// the selection counter is only ever incremented: move every counter to a value a few selections
			// before 2^32 (where a 32-bit counter wraps) that is congruent to its present value modulo the queue length, so that the sequence of
			// selections continues unchanged up to the wrap-around
			for _, b := range []*balancer{db.GlobalBalancer, db.LocalBalancer, db.RemoteBalancer} {
				if b != nil && len(b.roundRobinQ) > 1 {
					L := uint64(len(b.roundRobinQ))
					old := uint64(b.nextIndex)
					target := uint64(math.MaxUint32) - L/2 - 1
					target -= (target - old%L) % L
					// (the counter was a uint32 before fix d8d2069 and is a uint64 now: set it without naming its type)
					reflect.ValueOf(&b.nextIndex).Elem().SetUint(target)
				}
			}
			wrapped = true
		default:
			return fmt.Errorf("unknown step %q", stp.Op)
		}
	}
	return nil
}

func TestVerifBalancerRecord(t *testing.T) {
	vQuiet()
	out, err := verifkit.OpenOut()
	if err != nil {
		t.Fatal(err)
	}
	trace, err := verifkit.OpenOutPath(verifkit.TraceOutPath())
	if err != nil {
		t.Fatal(err)
	}
	stats := map[string]int{}
	var herrs []string
	n, err := verifkit.EachCase(func(i int, raw json.RawMessage) error {
		var c vBalCase
		if err := json.Unmarshal(raw, &c); err != nil {
			return err
		}
		var herr error
		pan, msg, stack := verifkit.Catch(func() { herr = replayBalCase(&c, i, trace, stats) })
		if pan {
			res := &verifkit.Result{Case: i, Obs: c}
			res.Dev("C25 panic", "%s\n%s", msg, stack)
			out.Write(res)
		}
		if herr != nil {
			herrs = append(herrs, fmt.Sprintf("case %d: %v", i, herr))
		}
		return nil
	})
	if err != nil {
		t.Fatal(err)
	}
	trace.Close(n, nil)
	out.Close(n, map[string]interface{}{"picks": stats["picks"], "concurrent_picks": stats["concurrent_picks"], "harness_errors": herrs})
}
