package backend

// Shared fakes of the backend conformance harnesses (properties C25-C28): virtual clock, scripted
// ConnectionPool / PooledConnect, silent logger.  Injected by `go test -overlay`, never committed.

import (
	"context"
	"errors"
	"fmt"
	"sync"
	"sync/atomic"
	"time"

	"github.com/XiaoMi/Gaea/log"
	"github.com/XiaoMi/Gaea/mysql"
	"github.com/XiaoMi/Gaea/util"
)

// ---------------------------------------------------------------- logger

type vNullLogger struct{}

func (vNullLogger) SetLevel(name, level string) error                    { return nil }
func (vNullLogger) Debug(format string, a ...interface{}) error          { return nil }
func (vNullLogger) Trace(format string, a ...interface{}) error          { return nil }
func (vNullLogger) Notice(format string, a ...interface{}) error         { return nil }
func (vNullLogger) Warn(format string, a ...interface{}) error           { return nil }
func (vNullLogger) Fatal(format string, a ...interface{}) error          { return nil }
func (vNullLogger) Debugx(logID, format string, a ...interface{}) error  { return nil }
func (vNullLogger) Tracex(logID, format string, a ...interface{}) error  { return nil }
func (vNullLogger) Noticex(logID, format string, a ...interface{}) error { return nil }
func (vNullLogger) Warnx(logID, format string, a ...interface{}) error   { return nil }
func (vNullLogger) Fatalx(logID, format string, a ...interface{}) error  { return nil }
func (vNullLogger) Close()                                               {}
func (vNullLogger) Dropped(i int) uint64                                 { return 0 }

var vQuietOnce sync.Once

func vQuiet() { vQuietOnce.Do(func() { log.SetGlobalLogger(vNullLogger{}) }) }

// ---------------------------------------------------------------- clock

type vClock struct{ sec int64 }

func (c *vClock) install() {
	VerifSetClock(func() time.Time { return time.Unix(atomic.LoadInt64(&c.sec), 0) })
}
func (c *vClock) set(t int64)     { atomic.StoreInt64(&c.sec, t) }
func (c *vClock) advance(d int64) { atomic.AddInt64(&c.sec, d) }
func (c *vClock) now() int64      { return atomic.LoadInt64(&c.sec) }
func vClockRestore()              { VerifSetClock(nil) }

// ---------------------------------------------------------------- scripted probe

// vProbe is one round's script of the health probe, in the vocabulary of spec/HealthCheck.tla:
//
//	gc    "ok" | "err" | "nil"        what GetCheck returns
//	k     first iteration (0..3) of the repeat loop that does not simply pass; 4 = all four pass
//	kind  what happens at iteration k: hs_ok, hs_shutdown, hs_tsmissing, hs_tsdiscarded, hs_timeout,
//	      ping_fail, sel_fail, allpass
//
// A passing iteration is: health SQL (if configured) fails with an ordinary SQL error, ping ok, select 1 ok.
type vProbe struct {
	GC   string `json:"gc"`
	K    int    `json:"k"`
	Kind string `json:"kind"`
}

const vHealthSQL = "select /* verif health */ 1"

var vErrOther = mysql.NewError(mysql.ErrNoSuchTable, "verif: table does not exist")

type vConn struct {
	PooledConnect // nil: any method the code under test is not expected to call panics
	pool          *vPool
	closed        bool
	probe         vProbe
	sync          string
	hsCalls       int
	pings         int
	sels          int
	log           []string
}

func (c *vConn) iter() int {
	// the iteration of checkInstanceStatus' loop we are in = number of completed "select 1" calls
	return c.sels
}

func (c *vConn) Close()                   { c.closed = true; c.log = append(c.log, "close") }
func (c *vConn) IsClosed() bool           { return c.closed }
func (c *vConn) Recycle()                 { c.log = append(c.log, "recycle") }
func (c *vConn) GetAddr() string          { return c.pool.addr }
func (c *vConn) GetConnectionID() int64   { return 1 }
func (c *vConn) GetReturnTime() time.Time { return time.Time{} }
func (c *vConn) Ping() error              { return c.PingWithTimeout(0) }
func (c *vConn) PingWithTimeout(d time.Duration) error {
	it := c.iter()
	c.pings++
	if it == c.probe.K && c.probe.Kind == "ping_fail" {
		return errors.New("verif: ping failed")
	}
	return nil
}

func (c *vConn) ExecuteWithTimeout(sql string, maxRows int, d time.Duration) (*mysql.Result, error) {
	it := c.iter()
	switch sql {
	case vHealthSQL:
		c.hsCalls++
		if it == c.probe.K {
			switch c.probe.Kind {
			case "hs_ok":
				return &mysql.Result{}, nil
			case "hs_shutdown":
				return nil, mysql.NewError(mysql.ErrServerShutdown, "verif: server shutdown in progress")
			case "hs_tsmissing":
				return nil, mysql.NewError(mysql.ErrTablespaceMissing, "verif: tablespace is missing")
			case "hs_tsdiscarded":
				return nil, mysql.NewError(mysql.ErrTablespaceDiscarded, "verif: tablespace has been discarded")
			case "hs_timeout":
				return nil, ErrExecuteTimeout
			}
		}
		return nil, vErrOther
	case "select 1":
		c.sels++
		if it == c.probe.K && c.probe.Kind == "sel_fail" {
			return nil, errors.New("verif: select 1 failed")
		}
		return &mysql.Result{}, nil
	}
	return nil, fmt.Errorf("verif: unexpected statement %q", sql)
}

var vSlaveFields = []*mysql.Field{
	{Name: []byte("Slave_IO_State"), Type: mysql.TypeVarString},
	{Name: []byte("Seconds_Behind_Master"), Type: mysql.TypeLonglong, Flag: uint16(mysql.UnsignedFlag)},
	{Name: []byte("Slave_IO_Running"), Type: mysql.TypeVarString},
	{Name: []byte("Slave_SQL_Running"), Type: mysql.TypeVarString},
	{Name: []byte("Master_Log_File"), Type: mysql.TypeVarString},
	{Name: []byte("Read_Master_Log_Pos"), Type: mysql.TypeLonglong, Flag: uint16(mysql.UnsignedFlag)},
}

// vSlaveStatus builds the result of "show slave status;" through the real text-row parser.
func vSlaveStatus(lag *uint64, io, sql *string) (*mysql.Result, error) {
	var row []byte
	put := func(s *string) {
		if s == nil {
			row = append(row, 0xfb)
		} else {
			row = mysql.AppendLenEncStringBytes(row, []byte(*s))
		}
	}
	state := "Waiting for master to send event"
	put(&state)
	if lag == nil {
		put(nil)
	} else {
		s := fmt.Sprint(*lag)
		put(&s)
	}
	put(io)
	put(sql)
	f := "mysql-bin.000001"
	put(&f)
	p := "4"
	put(&p)
	vals, err := mysql.RowData(row).ParseText(vSlaveFields)
	if err != nil {
		return nil, err
	}
	names := map[string]int{}
	for i, fd := range vSlaveFields {
		names[string(fd.Name)] = i
	}
	return &mysql.Result{Status: 2, Resultset: &mysql.Resultset{Fields: vSlaveFields, FieldNames: names,
		Values: [][]interface{}{vals}, RowDatas: []mysql.RowData{row}}}, nil
}

// Execute serves "show slave status;" according to the round's sync script (vocabulary of HealthCheck.tla).
func (c *vConn) Execute(sql string, maxRows int) (*mysql.Result, error) {
	if sql != "show slave status;" {
		return nil, fmt.Errorf("verif: unexpected statement %q", sql)
	}
	yes, no, conn := "Yes", "No", "Connecting"
	lim := uint64(c.pool.sbm)
	zero, over := uint64(0), lim+1
	switch c.sync {
	case "ok":
		return vSlaveStatus(&zero, &yes, &yes)
	case "lag_eq":
		return vSlaveStatus(&lim, &yes, &yes)
	case "lag_over":
		return vSlaveStatus(&over, &yes, &yes)
	case "lag_null":
		return vSlaveStatus(nil, &yes, &yes)
	case "io_stopped":
		return vSlaveStatus(&zero, &no, &yes)
	case "io_connecting":
		return vSlaveStatus(&zero, &conn, &yes)
	case "io_null":
		return vSlaveStatus(&zero, nil, &yes)
	case "sql_stopped":
		return vSlaveStatus(&zero, &yes, &no)
	case "priv":
		return nil, mysql.NewError(mysql.ErrSpecificAccessDenied, "verif: access denied; you need the SUPER, REPLICATION CLIENT privilege")
	case "empty":
		return &mysql.Result{Status: 2, Resultset: &mysql.Resultset{Fields: vSlaveFields, FieldNames: map[string]int{}}}, nil
	case "qerr":
		return nil, errors.New("verif: lost connection during query")
	}
	return nil, fmt.Errorf("verif: unknown sync script %q", c.sync)
}

// ---------------------------------------------------------------- scripted pool

// vPool is a ConnectionPool whose Get / GetCheck follow a script.  lastChecked lives in a real
// (never opened) connectionPoolImpl so that SetLastChecked / GetLastChecked are the real ones.
type vPool struct {
	ConnectionPool // real pool object: Addr, Datacenter, SetLastChecked, GetLastChecked
	addr           string
	node           int
	sbm            int

	mu       sync.Mutex
	probe    vProbe
	sync     string
	getErr   error // what Get returns (nil: a connection)
	gets     int64
	lastConn *vConn

	// gate: GetCheck announces itself and waits for the round's script (master loop replay)
	gated   bool
	entered chan struct{}
	release chan vRound
}

type vRound struct {
	probe vProbe
	sync  string
}

func newVPool(addr, dc string, node int) *vPool {
	real := NewConnectionPool(addr, "u", "p", "", 1, 1, time.Minute, "utf8mb4", 45, 0, "", dc, time.Second)
	return &vPool{ConnectionPool: real, addr: addr, node: node, sync: "ok",
		probe: vProbe{GC: "ok", K: 4, Kind: "allpass"}, entered: make(chan struct{}), release: make(chan vRound)}
}

func (p *vPool) setRound(pr vProbe, sync string) {
	p.mu.Lock()
	p.probe, p.sync = pr, sync
	p.mu.Unlock()
}

func (p *vPool) Open() error          { return nil }
func (p *vPool) Close()               {}
func (p *vPool) Put(pc PooledConnect) {}

func (p *vPool) Get(ctx context.Context) (PooledConnect, error) {
	atomic.AddInt64(&p.gets, 1)
	p.mu.Lock()
	err := p.getErr
	p.mu.Unlock()
	if err != nil {
		return nil, err
	}
	return &vConn{pool: p}, nil
}

func (p *vPool) GetCheck(ctx context.Context) (PooledConnect, error) {
	var r vRound
	if p.gated {
		p.entered <- struct{}{}
		r = <-p.release
	} else {
		p.mu.Lock()
		r = vRound{p.probe, p.sync}
		p.mu.Unlock()
	}
	switch r.probe.GC {
	case "err":
		return nil, errors.New("verif: get check conn failed")
	case "nil":
		return nil, nil
	}
	c := &vConn{pool: p, probe: r.probe, sync: r.sync}
	p.mu.Lock()
	p.lastConn = c
	p.mu.Unlock()
	return c, nil
}

// vErrOfKind instantiates an error kind of spec/Fuse.tla.
func vErrOfKind(kind, addr string) error {
	switch kind {
	case "conn":
		return mysql.NewConnTypeError(addr, "verif: dial tcp: connection refused")
	case "pool_timeout":
		return util.ErrTimeout
	case "nil":
		return nil
	case "sql":
		return mysql.NewError(mysql.ErrUnknown, "verif: sql error")
	case "plain":
		return errors.New("verif: plain error")
	case "ctx":
		return context.DeadlineExceeded
	}
	panic("verif: unknown error kind " + kind)
}
