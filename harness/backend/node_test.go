package backend

// Conformance harness for spec/Fuse.tla and spec/HealthCheck.tla (properties C26, C27, C28).
//
// Direction G.  TLC emits behaviours (connection errors of every kind, probe rounds with scripted
// outcomes, clock advances) together with, per event, the set of node statuses the properties allow.
// The behaviour is replayed on the real code under the virtual clock:
//   err     -> Slice.TryFuse(node, err) or Slice.getConnWithFuse(node) with a pool whose Get fails that way
//   rround  -> Slice.TryRecover(node, downAfter, secondsBehindMaster)  (dispatches to checkWith*Recovery)
//   mround  -> one iteration of the real checkBackendMasterStatus goroutine, driven through the ticker hook
//   tick    -> the virtual clock advances
// and NodeInfo.Status of both nodes is compared after every event (the node the event does not concern
// must keep its status: frame).

import (
	"context"
	"encoding/json"
	"fmt"
	"math/rand"
	"os"
	"sort"
	"testing"
	"time"

	"github.com/XiaoMi/Gaea/internal/verifkit"
	"github.com/XiaoMi/Gaea/models"
)

type vNodeEvent struct {
	Ev    string  `json:"ev"`
	Kind  string  `json:"kind,omitempty"`
	Ok    bool    `json:"ok,omitempty"`
	D     int64   `json:"d,omitempty"`
	T     int64   `json:"t"`
	Pr    *vProbe `json:"pr,omitempty"`
	Sy    string  `json:"sy,omitempty"`
	I     int     `json:"i"`
	P     *int    `json:"p,omitempty"`
	Al    []int   `json:"al,omitempty"`
	Why   string  `json:"why"`
	Other *int    `json:"other,omitempty"`
	Count int     `json:"count,omitempty"`
}

type vNodeCase struct {
	W         int64        `json:"w"`
	Min       int64        `json:"min"`
	Policy    string       `json:"policy"`
	Cool      int64        `json:"cool"`
	T0        int64        `json:"t0"`
	DownAfter *int         `json:"downafter,omitempty"`
	SBM       int          `json:"sbm"`
	HealthSQL bool         `json:"healthsql"`
	HasMaster *bool        `json:"hasmaster,omitempty"`
	Events    []vNodeEvent `json:"events"`
}

func (e *vNodeEvent) allowed() []int {
	if len(e.Al) > 0 {
		return e.Al
	}
	if e.P != nil {
		return []int{*e.P}
	}
	return nil
}

func vIn(x int, s []int) bool {
	for _, y := range s {
		if x == y {
			return true
		}
	}
	return false
}

func vStatusName(s []int) string {
	s = append([]int{}, s...)
	sort.Ints(s)
	out := ""
	for i, x := range s {
		if i > 0 {
			out += "|"
		}
		if x == 1 {
			out += "up"
		} else {
			out += "down"
		}
	}
	return out
}

// masterLoop runs the real checkBackendMasterStatus goroutine; ticks are handed to it one by one.
type vMasterLoop struct {
	tick    chan time.Time
	pool    *vPool
	cancel  context.CancelFunc
	done    chan struct{}
	primed  bool // the goroutine is parked inside GetCheck of its next round
	started bool
}

var vErrHang = fmt.Errorf("master loop did not reach the expected point within 20s")

func vWait(ch <-chan struct{}) error {
	select {
	case <-ch:
		return nil
	case <-time.After(20 * time.Second):
		return vErrHang
	}
}

func (l *vMasterLoop) start(s *Slice, downAfter int) {
	l.tick = make(chan time.Time)
	l.done = make(chan struct{})
	tk := l.tick
	VerifSetTicker(func(d time.Duration) *time.Ticker { return &time.Ticker{C: tk} })
	ctx, cancel := context.WithCancel(context.Background())
	l.cancel = cancel
	l.pool.gated = true
	l.started = true
	go func() {
		defer close(l.done)
		s.checkBackendMasterStatus(ctx, downAfter)
	}()
}

func (l *vMasterLoop) sendTick() error {
	select {
	case l.tick <- time.Time{}:
		return nil
	case <-time.After(20 * time.Second):
		return vErrHang
	}
}

// round runs exactly one iteration of the loop with the given probe script and returns when it is complete.
func (l *vMasterLoop) round(pr vProbe) error {
	if !l.primed {
		if err := l.sendTick(); err != nil {
			return err
		}
		if err := vWait(l.pool.entered); err != nil {
			return err
		}
		l.primed = true
	}
	select {
	case l.pool.release <- vRound{probe: pr, sync: "ok"}:
	case <-time.After(20 * time.Second):
		return vErrHang
	}
	// the loop accepts the next tick only after the iteration is complete; it then parks in GetCheck again
	if err := l.sendTick(); err != nil {
		return err
	}
	return vWait(l.pool.entered)
}

func (l *vMasterLoop) stop() error {
	if !l.started {
		return nil
	}
	defer VerifSetTicker(nil)
	l.cancel()
	if l.primed {
		select {
		case l.pool.release <- vRound{probe: vProbe{GC: "err"}}:
		case <-time.After(20 * time.Second):
			return vErrHang
		}
	}
	return vWait(l.done)
}

type vNodeStats struct {
	events, errs, rrounds, mrounds, corners, drift int
}

func replayNodeCase(c *vNodeCase, id int, pid string, base int64, res *verifkit.Result, st *vNodeStats) (harnessErr error) {
	clk := &vClock{}
	clk.set(base + c.T0)
	clk.install()
	defer vClockRestore()

	downAfter := 1 << 30
	if c.DownAfter != nil {
		downAfter = *c.DownAfter
	}
	hasMaster := c.HasMaster == nil || *c.HasMaster
	hsql := ""
	if c.HealthSQL {
		hsql = vHealthSQL
	}
	s := &Slice{Namespace: "verif", Cfg: models.Slice{Name: "slice-0"}, HealthCheckSql: hsql,
		FuseEnabled: "ON", FuseWindowSize: c.W, FuseMinErrorCount: c.Min, FuseCooldownPeriod: c.Cool}
	if c.Policy == "off" {
		s.FuseEnabled = "OFF"
	}
	mpool := newVPool("master:3306", "dc0", 0)
	mpool.sbm = c.SBM
	rpool := newVPool("replica:3306", "dc0", 0)
	rpool.sbm = c.SBM
	master := &NodeInfo{Address: mpool.addr, Datacenter: "dc0", Weight: 1, ConnPool: mpool, Status: StatusUp}
	replica := &NodeInfo{Address: rpool.addr, Datacenter: "dc0", Weight: 1, ConnPool: rpool, Status: StatusUp}
	s.Master = &DBInfo{Nodes: []*NodeInfo{}}
	if hasMaster {
		s.Master.Nodes = append(s.Master.Nodes, master)
	}
	s.Slave = &DBInfo{Nodes: []*NodeInfo{replica}}
	// proxy/server/namespace.go: the strategies are installed only when the breaker is switched on
	if s.IsFuseEnabled() {
		if err := s.InitFuseRecoveryPolicy(s.Slave); err != nil {
			return fmt.Errorf("InitFuseRecoveryPolicy: %v", err)
		}
		switch replica.RecoveryStrategy.(type) {
		case *HardCoolDownStrategy:
			if c.Policy != "hard" {
				return fmt.Errorf("case says policy %s, cool=%d selected the hard strategy", c.Policy, c.Cool)
			}
		case *GradualRecoveryStrategy:
			if c.Policy != "gradual" {
				return fmt.Errorf("case says policy %s, cool=%d selected the gradual strategy", c.Policy, c.Cool)
			}
		}
	}
	loop := &vMasterLoop{pool: mpool}
	defer func() {
		if err := loop.stop(); err != nil && harnessErr == nil {
			harnessErr = err
		}
	}()

	for i := range c.Events {
		e := &c.Events[i]
		st.events++
		mBefore, rBefore := int(master.Status), int(replica.Status)
		var subject, other *NodeInfo = replica, master
		subjBefore, otherBefore := rBefore, mBefore
		switch e.Ev {
		case "tick":
			clk.advance(e.D)
		case "err":
			st.errs++
			err := vErrOfKind(e.Kind, replica.Address)
			if (id+i)%2 == 0 {
				s.TryFuse(replica, err)
			} else {
				rpool.mu.Lock()
				rpool.getErr = err
				rpool.mu.Unlock()
				pc, gerr := s.getConnWithFuse(replica)
				if (err == nil) != (gerr == nil) || (err == nil && pc == nil) {
					res.Dev(pid+" harness getConnWithFuse-result", "event %d: pool.Get error %v, getConnWithFuse returned (%v, %v)", i, err, pc, gerr)
				}
			}
		case "probe", "rround":
			st.rrounds++
			pr, sy := vProbe{GC: "ok", K: 4, Kind: "allpass"}, "ok"
			if e.Ev == "probe" && !e.Ok {
				pr = vProbe{GC: "err"}
			}
			if e.Pr != nil {
				pr = *e.Pr
			}
			if e.Sy != "" {
				sy = e.Sy
			}
			rpool.setRound(pr, sy)
			if err := s.TryRecover(replica, downAfter, c.SBM); err != nil {
				res.Dev(pid+" harness TryRecover-error", "event %d: %v", i, err)
				return nil
			}
		case "mround":
			st.mrounds++
			subject, other, subjBefore, otherBefore = master, replica, mBefore, rBefore
			if !loop.started {
				loop.start(s, downAfter)
			}
			if err := loop.round(*e.Pr); err != nil {
				return fmt.Errorf("event %d (mround): %v", i, err)
			}
		default:
			return fmt.Errorf("unknown event %q", e.Ev)
		}
		if got := clk.now() - base; got != e.T {
			return fmt.Errorf("event %d: virtual clock %d, specification clock %d", i, got, e.T)
		}
		got := int(subject.Status)
		al := e.allowed()
		if int(other.Status) != otherBefore {
			res.Dev(fmt.Sprintf("%s frame %s changed-the-other-node", pid, e.Ev),
				"event %d (%s, t=%d): the node the event does not concern went from %s to %s", i, e.Ev, e.T,
				vStatusName([]int{otherBefore}), vStatusName([]int{int(other.Status)}))
			return nil
		}
		if !vIn(got, al) {
			detail := ""
			if e.Ev == "err" {
				detail = " kind=" + e.Kind
			}
			res.Dev(fmt.Sprintf("%s %s policy=%s rule=%s%s: status %s, specification allows %s", pid, e.Ev, c.Policy, e.Why, detail,
				vStatusName([]int{got}), vStatusName(al)),
				"event %d at t=%d (base %d): %s; status before %s; implementation %s; allowed %s; code-level model predicts %s",
				i, e.T, base, vDescribe(e), vStatusName([]int{subjBefore}),
				vStatusName([]int{got}), vStatusName(al), vStatusName([]int{e.I}))
			if got != e.I {
				return nil // unknown divergence: later expectations are meaningless
			}
			st.corners++
			continue // the code-level model predicted this status: the remaining events stay comparable
		}
		if got != e.I {
			// allowed by the properties but not what the code-level model predicted: model drift, not a verdict
			st.drift++
			res.Tag(fmt.Sprintf("drift: event %d %s rule=%s implementation %s model %s", i, e.Ev, e.Why, vStatusName([]int{got}), vStatusName([]int{e.I})))
			return nil
		}
	}
	return nil
}

func vDescribe(e *vNodeEvent) string {
	b, _ := json.Marshal(e)
	return string(b)
}

// replayNodeBoth replays one behaviour at the specification's own epoch and at a realistic, seed-dependent
// one (the properties are invariant under translation of the clock; the bucket phase is not).
func replayNodeBoth(c *vNodeCase, i int, pid string, rng *rand.Rand, st *vNodeStats) (*verifkit.Result, []string) {
	var herrs []string
	bases := []int64{0, 1700000000 + rng.Int63n(1000003)}
	for _, base := range bases {
		res := &verifkit.Result{Case: i}
		var herr error
		pan, msg, stack := verifkit.Catch(func() { herr = replayNodeCase(c, i, pid, base, res, st) })
		if pan {
			res.Dev(pid+" panic", "%s\n%s", msg, stack)
		}
		if herr != nil {
			herrs = append(herrs, fmt.Sprintf("case %d: %v", i, herr))
		}
		if len(res.Devs) > 0 || len(res.Tags) > 0 {
			res.Obs = map[string]interface{}{"case": c, "base": base}
			return res, herrs
		}
	}
	return nil, herrs
}

// TestVerifHealthReplay replays a mixed case file: {"kind":"window",...} histories for SlidingWindow.Trigger and
// {"kind":"node",...} behaviours for TryFuse / probe rounds.
func TestVerifHealthReplay(t *testing.T) {
	vQuiet()
	out, err := verifkit.OpenOut()
	if err != nil {
		t.Fatal(err)
	}
	pid := os.Getenv("VERIF_PID")
	if pid == "" {
		pid = "C28"
	}
	rng := verifkit.Rand()
	st := &vNodeStats{}
	calls, fired, nwin, nnode := 0, 0, 0, 0
	ndev, maxDev := 0, verifkit.EnvInt("VERIF_MAX_DEVS", 60)
	var harnessErrs []string
	n, err := verifkit.EachCase(func(i int, raw json.RawMessage) error {
		var k struct {
			Kind     string `json:"kind"`
			SelfTest bool   `json:"selftest"`
		}
		if err := json.Unmarshal(raw, &k); err != nil {
			return err
		}
		if ndev >= maxDev && !k.SelfTest {
			return nil
		}
		switch k.Kind {
		case "window":
			var c vWinCase
			if err := json.Unmarshal(raw, &c); err != nil {
				return err
			}
			nwin++
			res := &verifkit.Result{Case: i}
			cl, f := replayWindowCase(&c, rng, res)
			calls += cl
			fired += f
			if len(res.Devs) > 0 {
				if !k.SelfTest {
					ndev++
				}
				res.Obs = map[string]interface{}{"case": c}
				out.Write(res)
			}
		default:
			var c vNodeCase
			if err := json.Unmarshal(raw, &c); err != nil {
				return err
			}
			nnode++
			res, herrs := replayNodeBoth(&c, i, pid, rng, st)
			harnessErrs = append(harnessErrs, herrs...)
			if res != nil {
				if len(res.Devs) > 0 && !k.SelfTest {
					ndev++
				}
				out.Write(res)
			}
		}
		return nil
	})
	if err != nil {
		t.Fatal(err)
	}
	out.Close(n, map[string]interface{}{"events": st.events, "errs": st.errs, "rrounds": st.rrounds, "mrounds": st.mrounds,
		"corner_events": st.corners, "drift": st.drift, "harness_errors": harnessErrs,
		"window_cases": nwin, "node_cases": nnode, "trigger_calls": calls, "expected_fires": fired})
}
