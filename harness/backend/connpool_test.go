package backend

// Conformance harness for spec/ConnPool.tla (property C24 at the backend layer): the real
// connectionPoolImpl + pooledConnectImpl.Recycle on top of the real util.ResourcePool, connections being
// in-memory pipes.  Processes (clients doing Get/Recycle rounds, one closer) are real goroutines; they park
// at harness gates before each wrapper call and at the inner pool's verifStep hooks g1 / p2 / k1 / s3 / s5,
// which delimit the actions of ConnPool.tla (get1 get2 put1 put2 cl1 cl2 cl3 cl4).  Kinds of cases:
//   ordinary / candidate / replay : a TLC-generated schedule is imposed; counters compared after every step
//   random                        : seeded random schedules among the steps enabled in the real pool
// P-level monitors (Put never fails, hand-outs <= capacity, one holder, quiescent accounting) run on the
// ledger; the same events are written out for TLC (ResourcePoolP_trace).

import (
	"context"
	"encoding/json"
	"fmt"
	"math/rand"
	"net"
	"runtime"
	"strings"
	"sync"
	"testing"
	"time"

	"github.com/XiaoMi/Gaea/internal/verifkit"
	"github.com/XiaoMi/Gaea/mysql"
	"github.com/XiaoMi/Gaea/util"
)

type c24Step struct {
	P     string `json:"p"`
	L     string `json:"l"`
	Idle  int    `json:"idle"`
	Cap   int    `json:"cap"`
	NHeld int    `json:"nheld"`
	After string `json:"after"`
}

type c24Case struct {
	Kind    string    `json:"kind"`
	Layer   string    `json:"layer"`
	Clients []string  `json:"clients"`
	Cap     int       `json:"cap"`
	Rounds  int       `json:"rounds"`
	Sched   []c24Step `json:"sched,omitempty"`
	Seed    int64     `json:"seed,omitempty"`
	Runs    int       `json:"runs,omitempty"`
}

type c24Event struct {
	T    string `json:"t"`
	Max  int    `json:"max"`
	Ev   string `json:"ev"`
	C    string `json:"c"`
	R    int    `json:"r"`
	Ok   bool   `json:"ok"`
	What string `json:"what"`
	Idle int    `json:"idle"`
	Cap  int    `json:"cap"`
	InU  int    `json:"inuse"`
	Av   int    `json:"avail"`
}

type c24Obs struct {
	Kind     string     `json:"kind"`
	Layer    string     `json:"layer"`
	Clients  []string   `json:"clients"`
	Cap      int        `json:"cap"`
	Rounds   int        `json:"rounds"`
	Sched    []c24Step  `json:"sched,omitempty"`
	Events   []c24Event `json:"events,omitempty"`
	Symptoms []string   `json:"symptoms,omitempty"`
	Drift    string     `json:"drift,omitempty"`
	Trace    string     `json:"trace"`
}

type c24Abort struct{}

func c24Goid() uint64 {
	var b [64]byte
	n := runtime.Stack(b[:], false)
	var id uint64
	for _, c := range b[len("goroutine "):n] {
		if c < '0' || c > '9' {
			break
		}
		id = id*10 + uint64(c-'0')
	}
	return id
}

type c24Proc struct {
	name     string
	release  chan int
	parked   string // model label the process is parked at
	finished bool
	dead     bool
	holding  int
}

type c24Arrival struct {
	p        *c24Proc
	label    string
	finished bool
}

type c24Sched struct {
	c        *c24Case
	cp       *connectionPoolImpl
	rp       *util.ResourcePool
	procs    map[string]*c24Proc
	order    []string
	byGoid   sync.Map
	events   chan c24Arrival
	mu       sync.Mutex
	held     map[int]string
	evs      []c24Event
	symptoms []string
	tid      string
	nextID   int
	ids      map[*pooledConnectImpl]int
	closed   bool
	executed []c24Step
	stuck    bool
	pipes    []net.Conn
}

var c24Cur struct {
	sync.Mutex
	s *c24Sched
}

// inner hook label -> label of the ConnPool.tla action that starts there
var c24Boundary = map[string]string{"g1": "get2", "p2": "put2", "k1": "cl2", "s3": "cl3", "s5": "cl4"}

func c24InstallHook() {
	util.VerifStepHook = func(rp *util.ResourcePool, point string) {
		c24Cur.Lock()
		s := c24Cur.s
		c24Cur.Unlock()
		if s == nil || s.rp != rp {
			return
		}
		lbl, ok := c24Boundary[point]
		if !ok {
			return
		}
		v, ok := s.byGoid.Load(c24Goid())
		if !ok {
			return
		}
		s.gate(v.(*c24Proc), lbl)
	}
}

func (s *c24Sched) gate(p *c24Proc, label string) {
	s.events <- c24Arrival{p: p, label: label}
	if cmd := <-p.release; cmd != 0 {
		panic(c24Abort{})
	}
}

func (s *c24Sched) sym(x string) {
	for _, y := range s.symptoms {
		if y == x {
			return
		}
	}
	s.symptoms = append(s.symptoms, x)
}

func (s *c24Sched) ev(e c24Event) {
	e.T, e.Max = s.tid, s.c.Cap
	s.evs = append(s.evs, e)
}

func c24PanicClass(msg string) string {
	switch {
	case strings.Contains(msg, "connection pool is closed"):
		return "pool-closed"
	case strings.Contains(msg, "send on closed channel"):
		return "send-on-closed-channel"
	case strings.Contains(msg, "Put into a full"):
		return "full-pool"
	}
	return "other"
}

func (s *c24Sched) spawn(p *c24Proc, body func()) {
	ready := make(chan struct{})
	go func() {
		s.byGoid.Store(c24Goid(), p)
		close(ready)
		defer func() {
			if r := recover(); r != nil {
				if _, ok := r.(c24Abort); ok {
					return
				}
				msg := fmt.Sprint(r)
				s.mu.Lock()
				s.ev(c24Event{Ev: "Panic", C: p.name, What: msg})
				s.sym("panic " + p.name + " " + c24PanicClass(msg))
				s.mu.Unlock()
				p.dead = true
			}
			s.events <- c24Arrival{p: p, finished: true}
		}()
		body()
	}()
	<-ready
}

func newC24Sched(c *c24Case, tid string) (*c24Sched, error) {
	s := &c24Sched{c: c, procs: map[string]*c24Proc{}, events: make(chan c24Arrival, 16), held: map[int]string{},
		tid: tid, ids: map[*pooledConnectImpl]int{}}
	cp := NewConnectionPool("127.0.0.1:0", "u", "p", "", c.Cap, c.Cap, 0, "utf8mb4",
		mysql.CollationNames["utf8mb4_general_ci"], 0, "", "", 0).(*connectionPoolImpl)
	factory := func() (util.Resource, error) {
		cli, srv := net.Pipe()
		s.pipes = append(s.pipes, cli, srv)
		dc := &DirectConnection{conn: mysql.NewConn(cli), status: mysql.ServerStatusAutocommit,
			sessionVariables: mysql.NewSessionVariables()}
		pc := &pooledConnectImpl{directConnection: dc, pool: cp}
		s.nextID++
		s.ids[pc] = s.nextID
		return pc, nil
	}
	rp, err := util.NewResourcePool(factory, c.Cap, c.Cap, 0)
	if err != nil {
		return nil, err
	}
	cp.connections = rp
	s.cp, s.rp = cp, rp
	for _, n := range append(append([]string{}, c.Clients...), "closer") {
		s.procs[n] = &c24Proc{name: n, release: make(chan int)}
		s.order = append(s.order, n)
	}
	return s, nil
}

func (s *c24Sched) clientBody(p *c24Proc) func() {
	return func() {
		for round := 0; round < s.c.Rounds; round++ {
			s.gate(p, "get1")
			conn, err := s.cp.Get(context.Background())
			if err != nil {
				s.mu.Lock()
				s.ev(c24Event{Ev: "GetErr", C: p.name, What: err.Error()})
				s.mu.Unlock()
				continue
			}
			pc := conn.(*pooledConnectImpl)
			s.mu.Lock()
			id := s.ids[pc]
			if _, dup := s.held[id]; dup {
				s.sym("double-issue")
			}
			s.held[id] = p.name
			if len(s.held) > s.c.Cap {
				s.sym("over-allocation")
			}
			s.ev(c24Event{Ev: "Got", C: p.name, R: id})
			p.holding = id
			s.mu.Unlock()
			s.gate(p, "put1") // the hold ends when the scheduler releases this gate (see step)
			ok, msg := true, ""
			func() {
				defer func() {
					if r := recover(); r != nil {
						if _, ab := r.(c24Abort); ab {
							panic(r)
						}
						ok, msg = false, fmt.Sprint(r)
					}
				}()
				pc.Recycle()
			}()
			s.mu.Lock()
			s.ev(c24Event{Ev: "PutDone", C: p.name, R: id, Ok: ok, What: msg})
			if !ok {
				s.sym("put-panic " + c24PanicClass(msg))
			}
			s.mu.Unlock()
			if !ok {
				p.dead = true
				return
			}
		}
	}
}

var c24Watchdog = 4 * time.Second

func (s *c24Sched) wait1() bool {
	select {
	case a := <-s.events:
		if a.finished {
			a.p.finished, a.p.parked = true, ""
		} else {
			a.p.parked = a.label
		}
		return true
	case <-time.After(c24Watchdog):
		s.stuck = true
		return false
	}
}

func (s *c24Sched) start() bool {
	for _, n := range s.c.Clients {
		p := s.procs[n]
		s.spawn(p, s.clientBody(p))
	}
	cl := s.procs["closer"]
	s.spawn(cl, func() {
		s.gate(cl, "cl1")
		s.cp.Close()
	})
	for range s.order {
		if !s.wait1() {
			return false
		}
	}
	return true
}

func (s *c24Sched) enabled(p *c24Proc) bool {
	if p.finished || p.parked == "" {
		return false
	}
	switch p.parked {
	case "get2":
		return s.rp.Available() > 0 || s.closed
	case "cl3":
		return s.rp.Available() > 0
	}
	return true
}

func (s *c24Sched) step(p *c24Proc) bool {
	label := p.parked
	if label == "put1" {
		s.mu.Lock()
		s.ev(c24Event{Ev: "Put", C: p.name, R: p.holding})
		if s.held[p.holding] == p.name {
			delete(s.held, p.holding)
		}
		s.mu.Unlock()
	}
	p.parked = ""
	p.release <- 0
	if !s.wait1() {
		return false
	}
	if label == "cl4" && !p.dead {
		s.closed = true
	}
	after := p.parked
	if p.finished {
		after = "done"
		if p.dead {
			after = "dead"
		}
	}
	s.mu.Lock()
	n := len(s.held)
	s.mu.Unlock()
	s.executed = append(s.executed, c24Step{P: p.name, L: label, Idle: int(s.rp.Available()), Cap: int(s.rp.Capacity()), NHeld: n, After: after})
	return true
}

func (s *c24Sched) checkQuiescent() {
	for _, n := range s.order {
		p := s.procs[n]
		if p.dead {
			return
		}
		if !(p.finished || p.parked == "get1" || p.parked == "cl1") {
			return
		}
	}
	idle, capn := int(s.rp.Available()), int(s.rp.Capacity())
	s.mu.Lock()
	s.ev(c24Event{Ev: "Quiescent", Idle: idle, Cap: capn, InU: int(s.rp.InUse()), Av: idle})
	if idle+len(s.held) != capn {
		s.sym("quiescent-accounting")
	}
	s.mu.Unlock()
}

func (s *c24Sched) abortAll() {
	for _, n := range s.order {
		p := s.procs[n]
		if p.parked != "" && !p.finished {
			select {
			case p.release <- 1:
			case <-time.After(200 * time.Millisecond):
			}
		}
	}
	go func(ch chan c24Arrival) {
		for {
			select {
			case <-ch:
			case <-time.After(2 * time.Second):
				return
			}
		}
	}(s.events)
	for _, c := range s.pipes {
		c.Close()
	}
}

func c24Run(c *c24Case, tid string, sched []c24Step, rng *rand.Rand) (*c24Obs, []verifkit.Dev, bool) {
	o := &c24Obs{Kind: c.Kind, Layer: "backend", Clients: c.Clients, Cap: c.Cap, Rounds: c.Rounds, Trace: tid}
	s, err := newC24Sched(c, tid)
	if err != nil {
		o.Drift = "cannot build pool: " + err.Error()
		return o, nil, false
	}
	c24Cur.Lock()
	c24Cur.s = s
	c24Cur.Unlock()
	defer func() {
		c24Cur.Lock()
		c24Cur.s = nil
		c24Cur.Unlock()
		s.abortAll()
	}()
	if !s.start() {
		o.Drift = "processes did not reach their first gate"
		return o, nil, true
	}
	if sched != nil {
		for i, st := range sched {
			p := s.procs[st.P]
			if p == nil || p.parked != st.L {
				at := "?"
				if p != nil {
					at = p.parked
				}
				o.Drift = fmt.Sprintf("step %d: %s is at %q, schedule expects %q", i, st.P, at, st.L)
				break
			}
			if !s.enabled(p) {
				o.Drift = fmt.Sprintf("step %d: %s:%s is not enabled in the real pool", i, st.P, st.L)
				break
			}
			if !s.step(p) {
				o.Drift = fmt.Sprintf("step %d: %s:%s did not come back (blocked)", i, st.P, st.L)
				break
			}
			got := s.executed[len(s.executed)-1]
			if st.After != "" && (got.Idle != st.Idle || got.Cap != st.Cap || got.NHeld != st.NHeld || got.After != st.After) && o.Drift == "" {
				o.Drift = fmt.Sprintf("step %d %s:%s: specification expects idle=%d cap=%d held=%d next=%s, real pool idle=%d cap=%d held=%d next=%s",
					i, st.P, st.L, st.Idle, st.Cap, st.NHeld, st.After, got.Idle, got.Cap, got.NHeld, got.After)
			}
			s.checkQuiescent()
		}
	} else {
		for n := 0; n < 300; n++ {
			var cs []*c24Proc
			for _, name := range s.order {
				if p := s.procs[name]; s.enabled(p) {
					cs = append(cs, p)
				}
			}
			if len(cs) == 0 {
				break
			}
			if !s.step(cs[rng.Intn(len(cs))]) {
				o.Drift = "a released step did not come back (blocked)"
				break
			}
			s.checkQuiescent()
		}
		pending := []string{}
		for _, name := range s.order {
			if p := s.procs[name]; !p.finished {
				pending = append(pending, name+":"+p.parked)
			}
		}
		if len(pending) > 0 && o.Drift == "" {
			o.Drift = "no enabled step while operations are pending: " + strings.Join(pending, ",")
		}
	}
	s.mu.Lock()
	o.Sched, o.Events, o.Symptoms = s.executed, s.evs, s.symptoms
	s.mu.Unlock()
	var devs []verifkit.Dev
	for _, sy := range o.Symptoms {
		devs = append(devs, verifkit.Dev{Sig: "C24 backend " + sy,
			What: fmt.Sprintf("real connectionPoolImpl, %s schedule of %d steps: %s", c.Kind, len(o.Sched), sy)})
	}
	return o, devs, s.stuck
}

func TestVerifConnPool(t *testing.T) {
	out, err := verifkit.OpenOut()
	if err != nil {
		t.Fatal(err)
	}
	var trace *verifkit.Out
	if p := verifkit.TraceOutPath(); p != "" {
		if trace, err = verifkit.OpenOutPath(p); err != nil {
			t.Fatal(err)
		}
	}
	c24InstallHook()
	nruns, nsteps, nstuck, nskipped := 0, 0, 0, 0
	emit := func(i int, o *c24Obs, devs []verifkit.Dev) {
		nruns++
		nsteps += len(o.Sched)
		if trace != nil {
			for _, e := range o.Events {
				trace.Write(e)
			}
		}
		if len(devs) == 0 && o.Drift == "" {
			o.Sched, o.Events = nil, nil
		}
		out.Write(&verifkit.Result{Case: i, Devs: devs, Obs: o})
	}
	n, err := verifkit.EachCase(func(i int, raw json.RawMessage) error {
		var c c24Case
		if err := json.Unmarshal(raw, &c); err != nil {
			return err
		}
		if nstuck >= 4 {
			nskipped++
			return nil
		}
		switch c.Kind {
		case "ordinary", "candidate", "replay":
			o, devs, stuck := c24Run(&c, fmt.Sprintf("bg%d", i), c.Sched, nil)
			if stuck {
				nstuck++
			}
			emit(i, o, devs)
		case "random":
			for k := 0; k < c.Runs && nstuck < 4; k++ {
				rng := rand.New(rand.NewSource(c.Seed*1000003 + int64(k)))
				o, devs, stuck := c24Run(&c, fmt.Sprintf("br%d.%d", i, k), nil, rng)
				if stuck {
					nstuck++
				}
				emit(i, o, devs)
			}
		default:
			return fmt.Errorf("unknown case kind %q", c.Kind)
		}
		return nil
	})
	if err != nil {
		t.Fatal(err)
	}
	if trace != nil {
		trace.Close(n, nil)
	}
	out.Close(n, map[string]interface{}{"runs": nruns, "steps": nsteps, "stuck": nstuck, "skipped": nskipped})
}
