package backend

// Conformance harness for the sliding window of spec/Fuse.tla (property C26), direction G:
// TLC enumerates non-decreasing timestamp sequences with, after every error, the reference count of
// errors in (t-W, t] and the reference Trigger result for every threshold; each sequence is replayed
// on the real SlidingWindow.Trigger for every threshold and at several clock offsets (the reference is
// translation invariant, the bucket ring's phase is not).

import (
	"math/rand"

	"github.com/XiaoMi/Gaea/internal/verifkit"
)

type vWinCase struct {
	W      int64    `json:"w"`
	Ts     []int64  `json:"ts"`
	Counts []int64  `json:"counts"`
	Trig   [][]bool `json:"trig"` // Trig[m-1][i]: reference Trigger result of the i-th error for threshold m
}

// replayWindowCase replays one history for every threshold at three clock offsets.
func replayWindowCase(c *vWinCase, rng *rand.Rand, res *verifkit.Result) (calls, fired int) {
	bases := []int64{0, c.W * (1 + rng.Int63n(1000)), 1700000000 + rng.Int63n(1000003)}
	for _, base := range bases {
		for m := 1; m <= len(c.Trig); m++ {
			var fs FuseStrategy = NewSlidingWindow(c.W, int64(m))
			for i, ts := range c.Ts {
				var got bool
				pan, msg, _ := verifkit.Catch(func() { got = fs.Trigger(base + ts) })
				calls++
				if pan {
					res.Dev("C26 window panic", "w=%d min=%d base=%d ts=%v: Trigger panicked at error %d: %s", c.W, m, base, c.Ts, i, msg)
					return
				}
				want := c.Trig[m-1][i]
				if want {
					fired++
				}
				if got != want {
					kind := "fires-below-threshold"
					if want {
						kind = "does-not-fire-at-threshold"
					}
					sw := fs.(*SlidingWindow)
					res.Dev("C26 window "+kind, "w=%d min=%d base=%d ts=%v: error %d at t=%d: reference count in (t-W,t] is %d, Trigger returned %v (ring total %d)",
						c.W, m, base, c.Ts, i, ts, c.Counts[i], got, sw.allErrorCount)
					return
				}
			}
		}
		// a window created with a non-positive size or threshold is disabled and never fires
		for _, d := range [][2]int64{{0, 1}, {c.W, 0}, {-1, 2}, {c.W, -3}} {
			fs := NewSlidingWindow(d[0], d[1])
			for i, ts := range c.Ts {
				calls++
				if fs.Trigger(base + ts) {
					res.Dev("C26 window disabled-window-fires", "NewSlidingWindow(%d,%d) fired at error %d of %v", d[0], d[1], i, c.Ts)
					return
				}
			}
		}
	}
	return
}
