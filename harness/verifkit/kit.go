// Package verifkit is injected into the repository through `go test -overlay` (it is never
// committed to /repo).  It is the shared plumbing of the conformance harnesses: NDJSON case
// input, NDJSON result output, seeds, panic capture.
package verifkit

import (
	"bufio"
	"encoding/json"
	"fmt"
	"math/rand"
	"os"
	"runtime/debug"
	"strconv"
	"sync"
)

// Dev is one deviation of the implementation from what the specification allows.
type Dev struct {
	Sig  string `json:"sig"`  // classifying signature (matched against known_findings.json)
	What string `json:"what"` // human readable: expected vs observed
}

// Result is written once per case.
type Result struct {
	Case int         `json:"case"`
	Devs []Dev       `json:"devs,omitempty"`
	Obs  interface{} `json:"obs,omitempty"`
	Tags []string    `json:"tags,omitempty"` // free-form classification used for coverage accounting
}

func (r *Result) Dev(sig, format string, a ...interface{}) {
	r.Devs = append(r.Devs, Dev{Sig: sig, What: fmt.Sprintf(format, a...)})
}

func (r *Result) Tag(t string) { r.Tags = append(r.Tags, t) }

// Seed returns VERIF_SEED (default 1).
func Seed() int64 {
	s, err := strconv.ParseInt(os.Getenv("VERIF_SEED"), 10, 64)
	if err != nil || s == 0 {
		return 1
	}
	return s
}

func Rand() *rand.Rand { return rand.New(rand.NewSource(Seed())) }

func Thorough() bool { return os.Getenv("VERIF_TIER") == "thorough" }

// EachCase calls fn for every NDJSON line of $VERIF_CASES.
func EachCase(fn func(i int, raw json.RawMessage) error) (int, error) {
	p := os.Getenv("VERIF_CASES")
	if p == "" {
		return 0, fmt.Errorf("VERIF_CASES not set")
	}
	f, err := os.Open(p)
	if err != nil {
		return 0, err
	}
	defer f.Close()
	sc := bufio.NewScanner(f)
	sc.Buffer(make([]byte, 1<<20), 1<<28)
	n := 0
	for sc.Scan() {
		line := sc.Bytes()
		if len(line) == 0 {
			continue
		}
		cp := make([]byte, len(line))
		copy(cp, line)
		if err := fn(n, json.RawMessage(cp)); err != nil {
			return n, err
		}
		n++
	}
	return n, sc.Err()
}

// Out writes NDJSON lines to $VERIF_OUT (or an explicit path).
type Out struct {
	mu sync.Mutex
	f  *os.File
	w  *bufio.Writer
	n  int
}

func OpenOut() (*Out, error) { return OpenOutPath(os.Getenv("VERIF_OUT")) }

func OpenOutPath(p string) (*Out, error) {
	if p == "" {
		return nil, fmt.Errorf("output path not set")
	}
	f, err := os.Create(p)
	if err != nil {
		return nil, err
	}
	return &Out{f: f, w: bufio.NewWriterSize(f, 1<<20)}, nil
}

func (o *Out) Write(v interface{}) {
	b, err := json.Marshal(v)
	if err != nil {
		b, _ = json.Marshal(map[string]string{"marshal_error": err.Error()})
	}
	o.mu.Lock()
	o.w.Write(b)
	o.w.WriteByte('\n')
	o.n++
	o.mu.Unlock()
}

// Flush makes everything written so far durable (call before an operation that may kill the process).
func (o *Out) Flush() {
	o.mu.Lock()
	o.w.Flush()
	o.mu.Unlock()
}

// Close writes the summary line the driver requires and closes the file.
func (o *Out) Close(cases int, extra map[string]interface{}) {
	s := map[string]interface{}{"summary": true, "cases": cases}
	for k, v := range extra {
		s[k] = v
	}
	o.Write(s)
	o.mu.Lock()
	o.w.Flush()
	o.f.Close()
	o.mu.Unlock()
}

// Catch runs fn and reports a panic instead of propagating it.
func Catch(fn func()) (panicked bool, msg string, stack string) {
	defer func() {
		if r := recover(); r != nil {
			panicked = true
			msg = fmt.Sprint(r)
			stack = string(debug.Stack())
		}
	}()
	fn()
	return
}

// TraceOutPath is where a harness records implementation traces for TLC trace validation.
func TraceOutPath() string { return os.Getenv("VERIF_TRACE_OUT") }

func EnvInt(name string, def int) int {
	v, err := strconv.Atoi(os.Getenv(name))
	if err != nil {
		return def
	}
	return v
}
