package parser

// Conformance harness for spec/SqlLex.tla in package parser (properties C17 and the scanner
// cross-check used by C14/C17).
//
// Every case is a text enumerated by TLC with the specification's answer: offsets of the
// parameter markers (m), offsets of the statement separators (sp), the non-blank pieces as
// [start,end) offsets (pc) and whether the text ends outside every string / block comment (wf).
//
//  1. cross-check of the specification: the repository's own scanner (scan(), in-package) is
//     run over the text; the offsets of its '?' and ';' tokens must be m and sp.  A disagreement
//     is reported with an "XCHECK" signature: it is a defect of the specification to resolve,
//     never a verdict about the implementation.
//  2. C17: SplitStatementToPieces(text) must return exactly the pieces of the specification.

import (
	"encoding/json"
	"fmt"
	"os"
	"strings"
	"testing"
	"time"

	"github.com/XiaoMi/Gaea/internal/verifkit"
)

type lexCase struct {
	S  string   `json:"s"`
	M  []int    `json:"m"`
	Sp []int    `json:"sp"`
	Pc [][2]int `json:"pc"`
	Wf bool     `json:"wf"`
}

type lexObs struct {
	S       string   `json:"s"`
	Exp     []string `json:"exp,omitempty"`
	Got     []string `json:"got,omitempty"`
	Err     string   `json:"err,omitempty"`
	ScanQ   []int    `json:"scan_q,omitempty"`
	ScanSep []int    `json:"scan_sep,omitempty"`
}

// scanAll runs the repository scanner. stuck = offset of a byte on which the scanner makes no progress (-1: none).
func scanAll(s string) (qs, seps []int, bad bool, stuck int) {
	sc := NewScanner(s)
	stuck = -1
	last := -1
	for n := 0; n < 4*len(s)+8; n++ {
		tok, pos, _ := sc.scan()
		if tok == 0 {
			break
		}
		if tok == invalid && pos.Offset == last {
			stuck = pos.Offset
			return
		}
		last = pos.Offset
		switch tok {
		case paramMarker:
			qs = append(qs, pos.Offset)
		case int(';'):
			seps = append(seps, pos.Offset)
		case 0xFFFD: // unicode.ReplacementChar: unterminated string / quoted identifier
			bad = true
		}
	}
	if len(sc.errs) > 0 {
		bad = true
	}
	return
}

func sameInts(a, b []int) bool {
	if len(a) != len(b) {
		return false
	}
	for i := range a {
		if a[i] != b[i] {
			return false
		}
	}
	return true
}

func sameStrings(a, b []string) bool {
	if len(a) != len(b) {
		return false
	}
	for i := range a {
		if a[i] != b[i] {
			return false
		}
	}
	return true
}

func isPrefix(a, b string) bool { return len(a) < len(b) && b[:len(a)] == a }

func splitSig(text string, exp, got []string) string {
	if len(got) == len(exp)-1 && len(exp) > 0 && len(exp[len(exp)-1]) >= 1 {
		same := true
		for i := range got {
			if got[i] != exp[i] {
				same = false
			}
		}
		// the text after the last separator is exactly one byte long
		if same && len(text) >= 2 && text[len(text)-2] == ';' {
			return "C17 split: one-character last statement dropped"
		}
	}
	n := len(exp)
	if len(got) < n {
		n = len(got)
	}
	for i := 0; i < n; i++ {
		if exp[i] == got[i] {
			continue
		}
		switch {
		case isPrefix(got[i], exp[i]):
			return "C17 split: split inside a statement"
		case isPrefix(exp[i], got[i]):
			return "C17 split: separator not honoured"
		default:
			return "C17 split: statement text changed or dropped"
		}
	}
	if len(got) > len(exp) {
		return "C17 split: extra piece"
	}
	return "C17 split: statement dropped"
}

func TestVerifSqlLexSplit(t *testing.T) {
	out, err := verifkit.OpenOut()
	if err != nil {
		t.Fatal(err)
	}
	hangs := 0
	xcheckOnly := os.Getenv("VERIF_LEX_MODE") == "xcheck"
	stats := map[string]int{}
	n, err := verifkit.EachCase(func(i int, raw json.RawMessage) error {
		var c lexCase
		if err := json.Unmarshal(raw, &c); err != nil {
			return err
		}
		res := verifkit.Result{Case: i}
		obs := lexObs{S: c.S}

		// 1. scanner cross-check (well-formed texts; on others the scanner stops at the open construct)
		qs, seps, bad, stuck := scanAll(c.S)
		if stuck < 0 {
			if c.Wf && bad {
				res.Dev("XCHECK wellformed", "specification says well formed, scanner reports an unterminated construct")
			} else if !c.Wf && !bad {
				res.Dev("XCHECK illformed", "specification says the text ends inside a string/comment, scanner reports nothing")
			}
			if c.Wf && !bad {
				if !sameInts(qs, c.M) {
					res.Dev("XCHECK markers", "specification markers %v, scanner '?' tokens %v", c.M, qs)
				}
				if !sameInts(seps, c.Sp) {
					res.Dev("XCHECK separators", "specification separators %v, scanner ';' tokens %v", c.Sp, seps)
				}
				stats["xchecked"]++
			}
			obs.ScanQ, obs.ScanSep = qs, seps
		} else {
			stats["scanner_no_rule_byte"]++
		}

		if xcheckOnly {
			if len(res.Devs) > 0 {
				res.Obs = obs
				out.Write(res)
			}
			return nil
		}
		// 2. SplitStatementToPieces
		exp := make([]string, 0, len(c.Pc))
		for _, p := range c.Pc {
			exp = append(exp, c.S[p[0]:p[1]])
		}
		obs.Exp = exp
		var got []string
		var serr error
		if stuck >= 0 {
			// the scanner makes no progress on this byte: the splitter may never return.  Run it under a watchdog;
			// at most two such cases per run (a spinning goroutine cannot be stopped).
			if hangs >= 2 {
				stats["unexamined_after_hang"]++
				return nil
			}
			type ret struct {
				p []string
				e error
			}
			ch := make(chan ret, 1)
			go func() {
				p, e := SplitStatementToPieces(c.S)
				ch <- ret{p, e}
			}()
			select {
			case r := <-ch:
				got, serr = r.p, r.e
			case <-time.After(4 * time.Second):
				hangs++
				res.Dev("C17 split: does not terminate on a byte the scanner has no rule for",
					"SplitStatementToPieces(%q) did not return within 4s (scanner makes no progress at offset %d)", c.S, stuck)
				res.Obs = obs
				out.Write(res)
				return nil
			}
		} else {
			got, serr = SplitStatementToPieces(c.S)
		}
		obs.Got = got
		switch {
		case serr != nil:
			obs.Err = serr.Error()
			if c.Wf {
				stats["rejected_wellformed"]++
			} else {
				stats["rejected_illformed"]++
			}
		case len(exp) == 0 && len(got) == 1 && (got[0] == c.S || got[0]+";" == c.S):
			stats["blank_text_passed_through"]++ // nothing can be executed either way
		case !c.Wf:
			// the text ends inside a string / quoted identifier / block comment: the grammar has no reading of it
			stats["illformed_accepted_not_judged"]++
		default:
			same := sameStrings(exp, got)
			if !same && len(exp) > 0 && len(exp) == len(got) {
				// a well-formed text whose last ';' is not a separator ends in a line comment; dropping that ';'
				// (and only that) changes a comment, not a statement
				e2 := append([]string{}, exp...)
				g2 := append([]string{}, got...)
				e2[len(e2)-1] = strings.TrimRight(e2[len(e2)-1], ";")
				g2[len(g2)-1] = strings.TrimRight(g2[len(g2)-1], ";")
				if sameStrings(e2, g2) && strings.HasSuffix(c.S, ";") && (len(c.Sp) == 0 || c.Sp[len(c.Sp)-1] != len(c.S)-1) {
					same = true
					stats["trailing_semicolon_inside_comment_trimmed"]++
				}
			}
			if !same {
				res.Dev(splitSig(c.S, exp, got), "text %q: specification pieces %q, SplitStatementToPieces %q", c.S, exp, got)
			}
			stats["compared"]++
			if len(exp) > 1 {
				stats["multi"]++
			}
		}
		if len(res.Devs) > 0 {
			res.Obs = obs
			out.Write(res)
		}
		return nil
	})
	if err != nil {
		t.Fatal(err)
	}
	extra := map[string]interface{}{}
	for k, v := range stats {
		extra[k] = v
	}
	out.Close(n, extra)
	fmt.Println("verif sqllex split cases:", n)
}
