package plan

// Conformance harness for spec/Routing*.tla (properties C01, C03, C04).
// Direction G: TLC emits input cases together with the specification's expected result
//   rule : a rule instance with its tables, table->slice map, literal universe and the placement of every literal
//   cond : a condition tree with MustRoute (C01)
//   ins  : an INSERT (rows of sharding-value classes) with InsertEffect (C03)
//   glob : a global-table layout and statement form with the set of physical copies (C04)
// The harness builds a real models.Namespace -> router.NewRouter, renders the case to SQL, checks that the
// repository's parser reads it as intended, calls plan.BuildPlan and compares the per-slice SQL map /
// route result with the expectation.  No expected value is computed here.

import (
	"encoding/json"
	"fmt"
	"math/rand"
	"os"
	"sort"
	"strconv"
	"strings"
	"testing"

	"github.com/XiaoMi/Gaea/internal/verifkit"
	"github.com/XiaoMi/Gaea/models"
	"github.com/XiaoMi/Gaea/parser"
	"github.com/XiaoMi/Gaea/parser/ast"
	"github.com/XiaoMi/Gaea/parser/opcode"
	types "github.com/XiaoMi/Gaea/parser/tidb-types"
	driver "github.com/XiaoMi/Gaea/parser/tidb-types/parser_driver"
	"github.com/XiaoMi/Gaea/proxy/router"
	"github.com/XiaoMi/Gaea/proxy/sequence"
)

const (
	rtDB     = "db_v"
	rtTable  = "t_sh"
	rtLinked = "t_ln"
	rtGlobal = "t_gl"
	rtKey    = "k"
	rtLKey   = "lk"
	rtOther  = "o"
)

// ---------------------------------------------------------------- case records

type rtRule struct {
	Kind     string          `json:"kind"`
	ID       string          `json:"id"`
	Type     string          `json:"type"`
	Locs     []int           `json:"locs"`
	Limit    int             `json:"limit"`
	Spans    [][]int         `json:"spans"`
	Desc     bool            `json:"desc"`
	Tables   []int           `json:"tables"`
	SliceOf  [][]int         `json:"slice_of"`
	Lits     []int           `json:"lits"`
	Keys     []int           `json:"keys"`
	Place    [][]interface{} `json:"place"`
	LitClass [][]interface{} `json:"litclass"`
}

type rtNode struct {
	K   string  `json:"k"`
	Col string  `json:"col,omitempty"`
	Op  string  `json:"op,omitempty"`
	Neg bool    `json:"neg,omitempty"`
	A   int     `json:"a"`
	B   int     `json:"b"`
	S   []int   `json:"s,omitempty"`
	W   string  `json:"w,omitempty"`
	L   *rtNode `json:"l,omitempty"`
	R   *rtNode `json:"r,omitempty"`
	X   *rtNode `json:"x,omitempty"`
}

type rtCond struct {
	Kind   string  `json:"kind"`
	Rule   string  `json:"rule"`
	Shape  string  `json:"shape"`
	Tree   *rtNode `json:"tree"`
	Must   []int   `json:"must"`
	Pruned struct {
		Rej bool  `json:"rej"`
		Set []int `json:"set"`
	} `json:"pruned"`
	LeafMust [][]int  `json:"leafmust"`
	Sp       uint64   `json:"sp"`
	Forms    []string `json:"forms"`
}

type rtVal struct {
	Cls string `json:"cls"`
	V   int    `json:"v"`
}

type rtIns struct {
	Kind   string  `json:"kind"`
	Rule   string  `json:"rule"`
	Form   string  `json:"form"`
	Seqm   string  `json:"seqm"`
	Rows   []rtVal `json:"rows"`
	RowOK  []bool  `json:"rowok"` // the specification's RoutableVal per row
	Expect struct {
		Rej bool    `json:"rej"`
		Put [][]int `json:"put"`
	} `json:"expect"`
	Sp uint64 `json:"sp"`
}

type rtLayout struct {
	ID   string `json:"id"`
	NS   int    `json:"ns"`
	RS   []int  `json:"rs"`
	Locs []int  `json:"locs"`
	DBs  string `json:"dbs"`
}

type rtGlob struct {
	Kind   string   `json:"kind"`
	Layout rtLayout `json:"layout"`
	Stmt   struct {
		Kind  string `json:"kind"`
		Two   bool   `json:"two"`
		Qual  bool   `json:"qual"`
		Alias bool   `json:"alias"`
		Cond  string `json:"cond"`
	} `json:"stmt"`
	Write  bool    `json:"write"`
	Copies [][]int `json:"copies"`
	Sp     uint64  `json:"sp"`
}

// ---------------------------------------------------------------- deterministic spelling choices

type rtSpell struct {
	x     uint64
	fixed bool // canonical spelling: no variant is ever selected
}

func (s *rtSpell) n(k int) int {
	if s.fixed {
		return k - 1
	}
	s.x += 0x9e3779b97f4a7c15
	z := s.x
	z = (z ^ (z >> 30)) * 0xbf58476d1ce4e5b9
	z = (z ^ (z >> 27)) * 0x94d049bb133111eb
	z ^= z >> 31
	return int(z % uint64(k))
}
func (s *rtSpell) bit() bool { return !s.fixed && s.n(2) == 1 }

// ---------------------------------------------------------------- fake global sequence

type rtSeq struct {
	pk   string
	next int64
}

func (s *rtSeq) GetPKName() string { return s.pk }
func (s *rtSeq) NextSeq() (int64, error) {
	v := s.next
	s.next++
	return v, nil
}

// ---------------------------------------------------------------- environment of one rule instance

type rtEnv struct {
	rule     *rtRule
	rt       *router.Router
	family   string
	isDate   bool
	sliceOf  map[int]int
	place    map[int]int // literal -> table index computed by the specification (-1: error)
	litclass map[int]string
	isTable  map[int]bool
	bad      []string // placement / layout disagreements between specification and router
	leafMemo map[string]*rtObs
}

type rtObs struct {
	rejected bool
	panicked bool
	err      string
	routed   []int
	problems []string // wrong slice / db / inconsistent rewrite
}

func rtSpan(ty string, sp []int, desc bool) string {
	a, b := sp[0], sp[1]
	if a == b {
		return strconv.Itoa(a)
	}
	if desc {
		a, b = b, a
	}
	return fmt.Sprintf("%d-%d", a, b)
}

func rtNamespace(nslices int, rules []map[string]interface{}, seqs []map[string]interface{}) (*models.Namespace, error) {
	var slices []map[string]interface{}
	for i := 0; i < nslices; i++ {
		slices = append(slices, map[string]interface{}{
			"name": fmt.Sprintf("slice-%d", i), "user_name": "root", "password": "root",
			"master": fmt.Sprintf("127.0.0.1:%d", 3306+i), "capacity": 8, "max_capacity": 16, "idle_timeout": 3600,
		})
	}
	ns := map[string]interface{}{
		"name": "verif_ns", "online": true, "read_only": false,
		"allowed_dbs":      map[string]bool{rtDB: true},
		"default_phy_dbs":  map[string]string{rtDB: rtDB},
		"slices":           slices,
		"shard_rules":      rules,
		"global_sequences": seqs,
		"users":            []map[string]interface{}{{"user_name": "u", "password": "p", "namespace": "verif_ns", "rw_flag": 2, "rw_split": 1}},
		"default_slice":    "slice-0",
	}
	b, err := json.Marshal(ns)
	if err != nil {
		return nil, err
	}
	m := &models.Namespace{}
	if err := json.Unmarshal(b, m); err != nil {
		return nil, err
	}
	if err := m.Verify(); err != nil {
		return nil, fmt.Errorf("namespace verify: %v", err)
	}
	return m, nil
}

func rtNewEnv(r *rtRule) (*rtEnv, error) {
	e := &rtEnv{rule: r, sliceOf: map[int]int{}, place: map[int]int{}, litclass: map[int]string{}, isTable: map[int]bool{},
		leafMemo: map[string]*rtObs{}}
	e.isDate = strings.HasPrefix(r.Type, "date_")
	e.family = r.Type
	if e.isDate {
		e.family = "date"
	}
	nsl := len(r.Locs)
	if e.isDate {
		nsl = len(r.Spans)
	}
	var sl []string
	for i := 0; i < nsl; i++ {
		sl = append(sl, fmt.Sprintf("slice-%d", i))
	}
	main := map[string]interface{}{"db": rtDB, "table": rtTable, "type": r.Type, "key": rtKey, "slices": sl}
	if e.isDate {
		var dr []string
		for _, sp := range r.Spans {
			dr = append(dr, rtSpan(r.Type, sp, r.Desc))
		}
		main["date_range"] = dr
	} else {
		main["locations"] = r.Locs
		if r.Type == "range" {
			main["table_row_limit"] = r.Limit
		}
	}
	linked := map[string]interface{}{"db": rtDB, "table": rtLinked, "type": "linked", "key": rtLKey, "parent_table": rtTable}
	// a global table with one copy on every slice (joined with the sharded table in the gjoin forms)
	ones := make([]int, nsl)
	for i := range ones {
		ones[i] = 1
	}
	global := map[string]interface{}{"db": rtDB, "table": rtGlobal, "type": "global", "locations": ones, "slices": sl}
	ns, err := rtNamespace(nsl, []map[string]interface{}{main, linked, global}, nil)
	if err != nil {
		return nil, err
	}
	rt, err := router.NewRouter(ns)
	if err != nil {
		return nil, fmt.Errorf("NewRouter: %v", err)
	}
	e.rt = rt
	for _, p := range r.SliceOf {
		e.sliceOf[p[0]] = p[1]
	}
	for _, t := range r.Tables {
		e.isTable[t] = true
	}
	for _, p := range r.LitClass {
		e.litclass[int(p[0].(float64))] = p[1].(string)
	}
	// cross-check of the specification's layout and placement with the real router
	rule, ok := rt.GetShardRule(rtDB, rtTable)
	if !ok {
		return nil, fmt.Errorf("rule not found in router")
	}
	got := append([]int{}, rule.GetSubTableIndexes()...)
	sort.Ints(got)
	if !rtSameInts(got, r.Tables) {
		e.bad = append(e.bad, fmt.Sprintf("tables: specification %v, router %v", r.Tables, got))
	}
	for _, t := range r.Tables {
		if si := rule.GetSliceIndexFromTableIndex(t); si != e.sliceOf[t] {
			e.bad = append(e.bad, fmt.Sprintf("slice of table %d: specification %d, router %d", t, e.sliceOf[t], si))
		}
	}
	for _, p := range r.Place {
		v := int(p[0].(float64))
		idx := int(p[1].(float64))
		okSpec := p[2].(bool)
		if !okSpec {
			idx = -1
		}
		e.place[v] = idx
		for _, spelled := range e.keyValues(v) {
			var gi int
			var gerr error
			pan, msg, _ := verifkit.Catch(func() { gi, gerr = rule.FindTableIndex(spelled) })
			switch {
			case pan:
				e.bad = append(e.bad, fmt.Sprintf("FindTableIndex(%#v) panics: %s", spelled, msg))
			case okSpec && (gerr != nil || gi != idx):
				e.bad = append(e.bad, fmt.Sprintf("FindTableIndex(%#v): specification %d, router %d err=%v", spelled, idx, gi, gerr))
			case !okSpec && gerr == nil:
				e.bad = append(e.bad, fmt.Sprintf("FindTableIndex(%#v): specification rejects, router gives %d", spelled, gi))
			}
		}
	}
	return e, nil
}

// the Go values the planner hands to FindTableIndex for literal v (every spelling the harness uses)
func (e *rtEnv) keyValues(v int) []interface{} {
	if e.isDate {
		out := []interface{}{rtDateFull(v)}
		if alt := rtDateAlt(v); alt != out[0] {
			out = append(out, alt)
		}
		return out
	}
	return []interface{}{int64(v), strconv.Itoa(v)}
}

func rtDateShort(k int) string {
	d := k / 10
	return fmt.Sprintf("%04d-%02d-%02d", d/10000, (d/100)%100, d%100)
}

func rtDateFull(k int) string {
	tod := map[int]string{0: "00:00:00", 1: "00:00:00.5", 5: "12:00:00", 8: "23:59:58.999999", 9: "23:59:59"}[k%10]
	return rtDateShort(k) + " " + tod
}

// the other accepted spelling of the same instant: date only for midnight, padded fraction for fractional seconds
func rtDateAlt(k int) string {
	switch k % 10 {
	case 0:
		return rtDateShort(k)
	case 1:
		return rtDateShort(k) + " 00:00:00.500000"
	}
	return rtDateFull(k)
}

func rtSameInts(a, b []int) bool {
	if len(a) != len(b) {
		return false
	}
	for i := range a {
		if a[i] != b[i] {
			return false
		}
	}
	return true
}

func rtMinus(a, b []int) []int {
	in := map[int]bool{}
	for _, x := range b {
		in[x] = true
	}
	var out []int
	for _, x := range a {
		if !in[x] {
			out = append(out, x)
		}
	}
	return out
}

// ---------------------------------------------------------------- rendering

// literal v of the sharding column; w = "expr": same value written as an expression
func (e *rtEnv) lit(v int, w string, quoted bool, short bool) string {
	if e.isDate {
		s := "'" + rtDateFull(v) + "'"
		if short {
			s = "'" + rtDateAlt(v) + "'"
		}
		if w == "expr" {
			return "TIMESTAMP(" + s + ")"
		}
		return s
	}
	if v < 0 {
		return strconv.Itoa(v) // unary minus
	}
	if w == "expr" {
		return fmt.Sprintf("(%d+0)", v)
	}
	if quoted {
		return "'" + strconv.Itoa(v) + "'"
	}
	return strconv.Itoa(v)
}

type rtCols struct{ k, o string }

var rtFlip = map[string]string{"=": "=", "<>": "<>", "<": ">", "<=": ">=", ">": "<", ">=": "<="}

func (e *rtEnv) renderNode(n *rtNode, c rtCols, sp *rtSpell, top bool) string {
	col := func() string {
		if n.Col == "k" {
			return c.k
		}
		return c.o
	}
	l := func(v int) string {
		if n.Col == "o" {
			return strconv.Itoa(v)
		}
		return e.lit(v, n.W, sp.n(4) == 0, sp.bit())
	}
	switch n.K {
	case "cmp":
		op := n.Op
		if op == "<>" && sp.bit() {
			op = "!="
		}
		if sp.n(4) == 0 {
			f := rtFlip[n.Op]
			return l(n.A) + " " + f + " " + col()
		}
		return col() + " " + op + " " + l(n.A)
	case "in":
		var vs []string
		for _, v := range n.S {
			vs = append(vs, l(v))
		}
		if len(vs) == 2 && sp.bit() {
			vs[0], vs[1] = vs[1], vs[0]
		}
		kw := " IN ("
		if n.Neg {
			kw = " NOT IN ("
		}
		return col() + kw + strings.Join(vs, ", ") + ")"
	case "btw":
		kw := " BETWEEN "
		if n.Neg {
			kw = " NOT BETWEEN "
		}
		return col() + kw + l(n.A) + " AND " + l(n.B)
	case "not":
		return "NOT (" + e.renderNode(n.X, c, sp, false) + ")"
	case "and", "or":
		kw := " AND "
		if n.K == "or" {
			kw = " OR "
		}
		sub := func(x *rtNode) string {
			s := e.renderNode(x, c, sp, false)
			leaf := x.K == "cmp" || x.K == "in" || x.K == "btw"
			// BETWEEN ... AND needs no parentheses for the parser, composite children always get them
			if !leaf || sp.n(3) == 0 {
				return "(" + s + ")"
			}
			return s
		}
		return sub(n.L) + kw + sub(n.R)
	}
	return "?"
}

// shape of the tree / of the parsed expression, for the "parses as intended" check
func rtShape(n *rtNode) string {
	switch n.K {
	case "cmp":
		return "cmp"
	case "in":
		if n.Neg {
			return "notin"
		}
		return "in"
	case "btw":
		if n.Neg {
			return "notbtw"
		}
		return "btw"
	case "not":
		return "not(" + rtShape(n.X) + ")"
	default:
		return n.K + "(" + rtShape(n.L) + "," + rtShape(n.R) + ")"
	}
}

func rtExprShape(x ast.ExprNode) string {
	switch v := x.(type) {
	case *ast.ParenthesesExpr:
		return rtExprShape(v.Expr)
	case *ast.BinaryOperationExpr:
		switch v.Op {
		case opcode.LogicAnd:
			return "and(" + rtExprShape(v.L) + "," + rtExprShape(v.R) + ")"
		case opcode.LogicOr:
			return "or(" + rtExprShape(v.L) + "," + rtExprShape(v.R) + ")"
		case opcode.EQ, opcode.NE, opcode.LT, opcode.LE, opcode.GT, opcode.GE:
			return "cmp"
		}
		return "binop?"
	case *ast.UnaryOperationExpr:
		if v.Op == opcode.Not {
			return "not(" + rtExprShape(v.V) + ")"
		}
		return "unop?"
	case *ast.PatternInExpr:
		if v.Not {
			return "notin"
		}
		return "in"
	case *ast.BetweenExpr:
		if v.Not {
			return "notbtw"
		}
		return "btw"
	}
	return fmt.Sprintf("%T", x)
}

// render the tree as a statement of the given form; returns SQL and a function extracting the
// expression that carries the tree from the parsed statement
func (e *rtEnv) renderStmt(tree *rtNode, form string, sp *rtSpell) (string, func(ast.StmtNode) ast.ExprNode) {
	tbl := rtTable
	if sp.n(3) == 0 {
		tbl = rtDB + "." + rtTable
	}
	qual := func(t string) rtCols {
		switch sp.n(3) {
		case 0:
			return rtCols{rtKey, rtOther}
		case 1:
			return rtCols{t + "." + rtKey, t + "." + rtOther}
		default:
			return rtCols{rtDB + "." + t + "." + rtKey, rtDB + "." + t + "." + rtOther}
		}
	}
	selWhere := func(s ast.StmtNode) ast.ExprNode {
		if x, ok := s.(*ast.SelectStmt); ok {
			return x.Where
		}
		return nil
	}
	switch form {
	case "select":
		fields := "*"
		if sp.n(3) == 0 {
			fields = rtKey + ", " + rtOther
		}
		return "SELECT " + fields + " FROM " + tbl + " WHERE " + e.renderNode(tree, qual(rtTable), sp, true), selWhere
	case "select-alias":
		as := " AS a"
		if sp.bit() {
			as = " a"
		}
		return "SELECT * FROM " + tbl + as + " WHERE " + e.renderNode(tree, rtCols{"a." + rtKey, "a." + rtOther}, sp, true), selWhere
	case "update":
		return "UPDATE " + tbl + " SET " + rtOther + " = 7 WHERE " + e.renderNode(tree, qual(rtTable), sp, true),
			func(s ast.StmtNode) ast.ExprNode {
				if x, ok := s.(*ast.UpdateStmt); ok {
					return x.Where
				}
				return nil
			}
	case "delete":
		return "DELETE FROM " + tbl + " WHERE " + e.renderNode(tree, qual(rtTable), sp, true),
			func(s ast.StmtNode) ast.ExprNode {
				if x, ok := s.(*ast.DeleteStmt); ok {
					return x.Where
				}
				return nil
			}
	case "linked":
		c := rtCols{rtLKey, rtOther}
		if sp.bit() {
			c = rtCols{rtLinked + "." + rtLKey, rtLinked + "." + rtOther}
		}
		return "SELECT * FROM " + rtLinked + " WHERE " + e.renderNode(tree, c, sp, true), selWhere
	case "join-on":
		// the tree is the ON condition of an inner join with the linked table
		c := rtCols{rtTable + "." + rtKey, rtTable + "." + rtOther}
		if sp.bit() {
			c.k = rtLinked + "." + rtLKey // the linked table's sharding column routes the same way
		}
		return "SELECT * FROM " + rtTable + " JOIN " + rtLinked + " ON " + e.renderNode(tree, c, sp, true) +
				" WHERE " + rtTable + "." + rtKey + " = " + rtLinked + "." + rtLKey,
			func(s ast.StmtNode) ast.ExprNode {
				if x, ok := s.(*ast.SelectStmt); ok && x.From != nil && x.From.TableRefs != nil && x.From.TableRefs.On != nil {
					return x.From.TableRefs.On.Expr
				}
				return nil
			}
	case "gjoin-where", "gjoin-on":
		// the sharded table joined with a global table; the tree's other column is the GLOBAL table's column,
		// so its predicates restrict the global rows only and MustRoute is the same
		c := rtCols{"a." + rtKey, "g." + rtOther}
		from := rtTable + " a JOIN " + rtGlobal + " g"
		switch sp.n(3) {
		case 0:
			c = rtCols{rtTable + "." + rtKey, rtGlobal + "." + rtOther}
			from = rtTable + " JOIN " + rtGlobal
		case 1:
			if form == "gjoin-where" {
				from = rtTable + " a, " + rtGlobal + " g"
			}
		}
		if form == "gjoin-where" {
			return "SELECT * FROM " + from + " WHERE " + e.renderNode(tree, c, sp, true), selWhere
		}
		return "SELECT * FROM " + from + " ON " + e.renderNode(tree, c, sp, true),
			func(s ast.StmtNode) ast.ExprNode {
				if x, ok := s.(*ast.SelectStmt); ok && x.From != nil && x.From.TableRefs != nil && x.From.TableRefs.On != nil {
					return x.From.TableRefs.On.Expr
				}
				return nil
			}
	case "join-where":
		c := rtCols{"a." + rtKey, "a." + rtOther}
		if sp.bit() {
			c.k = "b." + rtLKey
		}
		return "SELECT * FROM " + rtTable + " a JOIN " + rtLinked + " b ON a." + rtKey + " = b." + rtLKey +
			" WHERE " + e.renderNode(tree, c, sp, true), selWhere
	}
	return "", nil
}

// ---------------------------------------------------------------- observation of a plan

func rtSQLsOf(p Plan) (map[string]map[string][]string, []int, bool) {
	switch x := p.(type) {
	case *SelectPlan:
		return x.sqls, x.result.indexes, true
	case *UpdatePlan:
		return x.sqls, x.result.indexes, true
	case *DeletePlan:
		return x.sqls, x.result.indexes, true
	case *InsertPlan:
		return x.sqls, x.result.indexes, true
	}
	return nil, nil, false
}

// physical table indexes named in a rewritten statement: `t_sh_0001`, `t_ln_201611`
func rtTableIndexes(sql string) ([]int, bool) {
	seen := map[int]bool{}
	ok := true
	for _, base := range []string{rtTable, rtLinked} {
		rest := sql
		pat := "`" + base
		for {
			i := strings.Index(rest, pat)
			if i < 0 {
				break
			}
			rest = rest[i+len(pat):]
			if strings.HasPrefix(rest, "`") { // the logical name survived the rewrite
				ok = false
				continue
			}
			if !strings.HasPrefix(rest, "_") {
				continue
			}
			j := 1
			for j < len(rest) && rest[j] >= '0' && rest[j] <= '9' {
				j++
			}
			if j == 1 || j >= len(rest) || rest[j] != '`' {
				ok = false
				continue
			}
			n, _ := strconv.Atoi(rest[1:j])
			seen[n] = true
		}
	}
	var out []int
	for k := range seen {
		out = append(out, k)
	}
	sort.Ints(out)
	return out, ok
}

func (e *rtEnv) build(sql string, stmt ast.StmtNode, seqs *sequence.SequenceManager) (p Plan, obs *rtObs) {
	obs = &rtObs{}
	if seqs == nil {
		seqs = sequence.NewSequenceManager()
	}
	var err error
	pan, msg, _ := verifkit.Catch(func() {
		p, err = BuildPlan(stmt, map[string]string{rtDB: rtDB}, rtDB, sql, e.rt, seqs, nil)
	})
	if pan {
		obs.panicked = true
		obs.err = msg
		return nil, obs
	}
	if err != nil {
		obs.rejected = true
		obs.err = err.Error()
		return nil, obs
	}
	return p, obs
}

func (e *rtEnv) observe(p Plan, obs *rtObs) {
	sqls, idx, ok := rtSQLsOf(p)
	if !ok {
		obs.problems = append(obs.problems, fmt.Sprintf("unexpected plan type %T", p))
		return
	}
	seen := map[int]int{}
	for slice, dbs := range sqls {
		for db, list := range dbs {
			for _, s := range list {
				ts, clean := rtTableIndexes(s)
				if !clean || len(ts) != 1 {
					obs.problems = append(obs.problems, fmt.Sprintf("statement does not name exactly one physical table index: %s", s))
					continue
				}
				t := ts[0]
				seen[t]++
				if !e.isTable[t] {
					obs.problems = append(obs.problems, fmt.Sprintf("statement names unconfigured table %d: %s", t, s))
					continue
				}
				if want := fmt.Sprintf("slice-%d", e.sliceOf[t]); slice != want {
					obs.problems = append(obs.problems, fmt.Sprintf("table %d sent to %s, its slice is %s", t, slice, want))
				}
				if db != rtDB {
					obs.problems = append(obs.problems, fmt.Sprintf("table %d sent to database %s", t, db))
				}
			}
		}
	}
	for t, n := range seen {
		obs.routed = append(obs.routed, t)
		if n != 1 {
			obs.problems = append(obs.problems, fmt.Sprintf("table %d receives %d statements", t, n))
		}
	}
	sort.Ints(obs.routed)
	ix := append([]int{}, idx...)
	sort.Ints(ix)
	if !rtSameInts(ix, obs.routed) {
		obs.problems = append(obs.problems, fmt.Sprintf("route result %v differs from the tables named in the SQL map %v", ix, obs.routed))
	}
}

// ---------------------------------------------------------------- C01

type rtStats struct {
	counts map[string]int
}

func (s *rtStats) inc(k string) { s.counts[k]++ }

func rtLeaves(n *rtNode, out *[]*rtNode) {
	switch n.K {
	case "cmp", "in", "btw":
		*out = append(*out, n)
	case "not":
		rtLeaves(n.X, out)
	default:
		rtLeaves(n.L, out)
		rtLeaves(n.R, out)
	}
}

// the leaf alone as SELECT ... WHERE leaf (canonical spelling), memoised per rule
func (e *rtEnv) leafAlone(n *rtNode, form string) *rtObs {
	gj := strings.HasPrefix(form, "gjoin")
	kb, _ := json.Marshal(n)
	key := string(kb)
	if gj {
		key = form + "|" + key
	}
	if o, ok := e.leafMemo[key]; ok {
		return o
	}
	sql := "SELECT * FROM " + rtTable + " WHERE " + e.renderNodeCanon(n, rtCols{rtKey, rtOther})
	if gj {
		// the leaf alone in the same join with the global table
		sql, _ = e.renderStmt(n, form, &rtSpell{fixed: true})
	}
	stmt, err := parser.ParseSQL(sql)
	var o *rtObs
	if err != nil {
		o = &rtObs{rejected: true, err: "parse: " + err.Error()}
	} else {
		var p Plan
		p, o = e.build(sql, stmt, nil)
		if p != nil {
			e.observe(p, o)
		}
	}
	e.leafMemo[key] = o
	return o
}

func (e *rtEnv) renderNodeCanon(n *rtNode, c rtCols) string {
	// spelling choices fixed: plain literals, column on the left, full date strings
	return e.renderNode(n, c, &rtSpell{fixed: true}, true)
}

func (e *rtEnv) idxOf(v int) (int, bool) {
	i, ok := e.place[v]
	return i, ok && i >= 0
}

// signature of a leaf that drops must-tables on its own
func (e *rtEnv) leafSig(n *rtNode, missing []int, form string) string {
	if n.Col == "o" {
		// only possible in the forms that join a global table: a predicate on the global table's column prunes
		kind := "op=" + n.Op
		switch {
		case n.K == "in" && n.Neg:
			kind = "not-in"
		case n.K == "in":
			kind = "in"
		case n.K == "btw" && n.Neg:
			kind = "not-between"
		case n.K == "btw":
			kind = "between"
		}
		return fmt.Sprintf("C01 %s join-with-global %s global-column %s drops=tables", e.family, strings.TrimPrefix(form, "gjoin-"), kind)
	}
	cls := func(v int) string {
		if c, ok := e.litclass[v]; ok {
			return c
		}
		return "?"
	}
	only := func(v int) bool {
		i, ok := e.idxOf(v)
		return ok && len(missing) == 1 && missing[0] == i
	}
	switch n.K {
	case "cmp":
		d := "other"
		if only(n.A) {
			d = "own-table"
		}
		return fmt.Sprintf("C01 %s op=%s lit=%s drops=%s", e.family, n.Op, cls(n.A), d)
	case "in":
		kind := "in"
		if n.Neg {
			kind = "not-in"
		}
		var cs []string
		for _, v := range n.S {
			cs = append(cs, cls(v))
		}
		sort.Strings(cs)
		return fmt.Sprintf("C01 %s %s lit=%s drops=tables", e.family, kind, strings.Join(cs, ","))
	case "btw":
		kind := "between"
		if n.Neg {
			kind = "not-between"
		}
		if n.A > n.B {
			kind += " reversed-bounds"
		}
		ia, oka := e.idxOf(n.A)
		ib, okb := e.idxOf(n.B)
		switch {
		case only(n.A):
			return fmt.Sprintf("C01 %s %s lit=%s drops=own-table(low)", e.family, kind, cls(n.A))
		case only(n.B):
			return fmt.Sprintf("C01 %s %s lit=%s drops=own-table(high)", e.family, kind, cls(n.B))
		}
		if oka && okb {
			lo, hi := ia, ib
			if lo > hi {
				lo, hi = hi, lo
			}
			inner := true
			for _, t := range missing {
				if !(t > lo && t < hi) {
					inner = false
				}
			}
			if inner {
				return fmt.Sprintf("C01 %s %s drops=tables-strictly-between-the-bounds", e.family, kind)
			}
			if n.A > n.B {
				return fmt.Sprintf("C01 %s %s drops=bound-and-inner-tables", e.family, kind)
			}
		}
		return fmt.Sprintf("C01 %s %s lit=%s,%s drops=other", e.family, kind, cls(n.A), cls(n.B))
	}
	return "C01 " + e.family + " leaf?"
}

func (h *rtHarness) runCond(raw json.RawMessage, res *verifkit.Result) {
	var c rtCond
	if err := json.Unmarshal(raw, &c); err != nil {
		res.Dev("harness bad-case", "%v", err)
		return
	}
	e := h.env
	if e == nil || e.rule.ID != c.Rule {
		res.Dev("harness no-rule", "cond case for rule %s without its rule record", c.Rule)
		return
	}
	if len(e.bad) > 0 {
		h.st.inc("skipped-placement-mismatch")
		return
	}
	sort.Ints(c.Must)
	wantShape := rtShape(c.Tree)
	nontrivial := len(c.Must) > 0 && len(c.Must) < len(e.rule.Tables)
	var leaves []*rtNode
	rtLeaves(c.Tree, &leaves)
	sp := &rtSpell{x: c.Sp}
	for _, form := range c.Forms {
		sql, pick := e.renderStmt(c.Tree, form, sp)
		if sql == "" {
			res.Dev("harness unknown-form", "%s", form)
			continue
		}
		stmt, err := parser.ParseSQL(sql)
		if err != nil {
			res.Dev("harness render-unparsable", "%s: %v", sql, err)
			continue
		}
		if x := pick(stmt); x == nil || rtExprShape(x) != wantShape {
			got := "<nil>"
			if x != nil {
				got = rtExprShape(x)
			}
			res.Dev("harness render-misparsed", "%s parsed as %s, intended %s", sql, got, wantShape)
			continue
		}
		h.st.inc("plans")
		p, obs := e.build(sql, stmt, nil)
		if obs.panicked {
			res.Dev(fmt.Sprintf("C01 %s planner-panic form=%s", e.family, form), "%s: panic %s", sql, obs.err)
			continue
		}
		if obs.rejected {
			h.st.inc("rejected")
			if !c.Pruned.Rej && !strings.HasPrefix(form, "gjoin") {
				h.st.inc("model-drift:rejected-but-model-accepts")
				h.drift(sql + " rejected: " + obs.err)
			}
			continue
		}
		e.observe(p, obs)
		h.st.inc("accepted")
		if nontrivial {
			h.st.inc("accepted-nontrivial")
			h.nontriv[c.Rule+"|"+string(mustJSON(c.Tree))] = true
		}
		for _, pr := range obs.problems {
			res.Dev(fmt.Sprintf("C01 %s inconsistent-plan form=%s", e.family, form), "%s: %s", sql, pr)
		}
		if strings.HasPrefix(form, "gjoin") {
			// the I-level pruning model has no global table: nothing to compare the routed set with
		} else if c.Pruned.Rej {
			h.st.inc("model-drift:accepted-but-model-rejects")
			h.drift(sql + " accepted, model predicts rejection")
		} else {
			ps := append([]int{}, c.Pruned.Set...)
			sort.Ints(ps)
			if !rtSameInts(ps, obs.routed) {
				h.st.inc("model-drift:routed-set-differs")
				h.drift(fmt.Sprintf("%s routed %v, model predicts %v", sql, obs.routed, ps))
			}
		}
		missing := rtMinus(c.Must, obs.routed)
		if len(missing) == 0 {
			continue
		}
		h.st.inc("deviating-plans")
		// attribute the loss to leaves that lose tables on their own
		explainedBy := map[string][]string{}
		covered := map[int]bool{}
		for j, lf := range leaves {
			if j >= len(c.LeafMust) {
				break
			}
			lo := e.leafAlone(lf, form)
			if lo.rejected || lo.panicked {
				continue
			}
			lm := append([]int{}, c.LeafMust[j]...)
			sort.Ints(lm)
			lmiss := rtMinus(lm, lo.routed)
			if len(lmiss) == 0 {
				continue
			}
			hit := false
			for _, t := range lmiss {
				for _, m := range missing {
					if t == m {
						covered[t] = true
						hit = true
					}
				}
			}
			if hit {
				sig := e.leafSig(lf, lmiss, form)
				explainedBy[sig] = append(explainedBy[sig], e.renderNodeCanon(lf, rtCols{rtKey, rtOther}))
			}
		}
		all := true
		for _, m := range missing {
			if !covered[m] {
				all = false
			}
		}
		if all {
			for sig, lfs := range explainedBy {
				res.Dev(sig, "%s -> tables %v, but tables %v can hold matching rows (MustRoute %v); leaf %s alone already loses them",
					sql, obs.routed, missing, c.Must, lfs[0])
			}
		} else {
			res.Dev(fmt.Sprintf("C01 %s form=%s shape=%s drops tables although each leaf alone is routed soundly", e.family, rtFormClass(form), rtShapeClass(c.Tree)),
				"%s -> tables %v, but tables %v can hold matching rows (MustRoute %v)", sql, obs.routed, missing, c.Must)
		}
	}
	if len(res.Devs) > 0 {
		res.Obs = map[string]interface{}{"rule": c.Rule, "shape": c.Shape}
	}
}

func rtFormClass(f string) string {
	if strings.HasPrefix(f, "select") {
		return "select"
	}
	return f
}

// top connective and whether a NOT / unroutable expression is involved
func rtShapeClass(n *rtNode) string {
	switch n.K {
	case "and", "or", "not":
		return n.K
	}
	return "leaf"
}

func mustJSON(v interface{}) []byte {
	b, _ := json.Marshal(v)
	return b
}

// ---------------------------------------------------------------- C03

func (e *rtEnv) insValue(x rtVal, sp *rtSpell) string {
	switch x.Cls {
	case "int":
		return e.lit(x.V, "lit", false, false)
	case "str":
		return e.lit(x.V, "lit", true, true)
	case "null":
		return "NULL"
	case "neg":
		return "-" + strconv.Itoa(x.V)
	case "arith":
		if e.isDate {
			return "DATE_ADD('" + rtDateFull(x.V) + "', INTERVAL 0 DAY)"
		}
		a := x.V / 2
		return fmt.Sprintf("%d+%d", a, x.V-a)
	case "func":
		if e.isDate {
			return "TIMESTAMP('" + rtDateFull(x.V) + "')"
		}
		return fmt.Sprintf("ABS(%d)", x.V)
	case "seq":
		if sp.bit() {
			return "NEXTVAL()"
		}
		return "nextval()"
	case "short":
		return e.lit(x.V, "lit", false, false)
	}
	return "?"
}

type rtInsRow struct {
	table int
	tag   int
	key   string
	slice string
	db    string
}

func (h *rtHarness) runIns(raw json.RawMessage, res *verifkit.Result) {
	var c rtIns
	if err := json.Unmarshal(raw, &c); err != nil {
		res.Dev("harness bad-case", "%v", err)
		return
	}
	e := h.env
	if e == nil || e.rule.ID != c.Rule {
		res.Dev("harness no-rule", "ins case for rule %s without its rule record", c.Rule)
		return
	}
	if len(e.bad) > 0 {
		h.st.inc("skipped-placement-mismatch")
		return
	}
	sp := &rtSpell{x: c.Sp}
	seqs := sequence.NewSequenceManager()
	switch c.Seqm {
	case "col":
		seqs.SetSequence(rtDB, rtTable, &rtSeq{pk: "sid", next: 1000})
	case "key":
		seqs.SetSequence(rtDB, rtTable, &rtSeq{pk: rtKey, next: 1})
	}
	verb := "INSERT INTO "
	if sp.n(3) == 0 {
		verb = "REPLACE INTO "
	}
	tbl := rtTable
	if sp.n(3) == 0 {
		tbl = rtDB + "." + rtTable
	}
	keyFirst := sp.bit()
	hasShort := false
	for _, r := range c.Rows {
		if r.Cls == "short" {
			hasShort = true
		}
	}
	// spelling of the separate sequence column: omitted (appended by the planner) / nextval() / NULL
	sidMode := 0
	if c.Seqm == "col" {
		sidMode = sp.n(3)
		if hasShort {
			sidMode = 0
		}
	}
	var sql string
	tagOf := func(i int) int { return 101 + i }
	if c.Form == "set" {
		r := c.Rows[0]
		parts := []string{rtKey + " = " + e.insValue(r, sp), rtOther + " = " + strconv.Itoa(tagOf(0))}
		if !keyFirst {
			parts[0], parts[1] = parts[1], parts[0]
		}
		if sidMode == 1 {
			parts = append(parts, "sid = nextval()")
		}
		sql = verb + tbl + " SET " + strings.Join(parts, ", ")
	} else {
		cols := []string{rtKey, rtOther}
		if !keyFirst {
			cols = []string{rtOther, rtKey}
		}
		if sidMode > 0 {
			cols = append(cols, "sid")
		}
		var rows []string
		for i, r := range c.Rows {
			kv := e.insValue(r, sp)
			tv := strconv.Itoa(tagOf(i))
			var vals []string
			if r.Cls == "short" {
				// the row lacks its last value
				if keyFirst {
					vals = []string{kv}
				} else {
					vals = []string{tv}
				}
			} else {
				vals = []string{kv, tv}
				if !keyFirst {
					vals = []string{tv, kv}
				}
				if sidMode == 1 {
					vals = append(vals, "nextval()")
				} else if sidMode == 2 {
					vals = append(vals, "NULL")
				}
			}
			rows = append(rows, "("+strings.Join(vals, ", ")+")")
		}
		sql = verb + tbl + " (" + strings.Join(cols, ", ") + ") VALUES " + strings.Join(rows, ", ")
	}
	stmt, err := parser.ParseSQL(sql)
	if err != nil {
		res.Dev("harness render-unparsable", "%s: %v", sql, err)
		return
	}
	if is, ok := stmt.(*ast.InsertStmt); !ok || (c.Form == "values" && len(is.Lists) != len(c.Rows)) || (c.Form == "set" && len(is.Setlist) < 2) {
		res.Dev("harness render-misparsed", "%s", sql)
		return
	}
	h.st.inc("plans")
	// class of the first row the specification calls unroutable (for signatures)
	badCls := ""
	unplaceable := "out-of-range"
	if e.isDate {
		unplaceable = "period-not-configured"
	}
	hasUnplaceable := false
	if len(c.RowOK) != len(c.Rows) {
		res.Dev("harness bad-case", "rowok missing")
		return
	}
	// class of row i when the specification calls it unroutable, "" otherwise
	rowClass := func(i int) string {
		if c.RowOK[i] {
			return ""
		}
		switch c.Rows[i].Cls {
		case "int", "str", "seq":
			return unplaceable
		}
		return c.Rows[i].Cls
	}
	for i := range c.Rows {
		cl := rowClass(i)
		if cl == unplaceable {
			hasUnplaceable = true
		}
		if cl != "" && badCls == "" {
			badCls = cl
		}
	}
	p, obs := e.build(sql, stmt, seqs)
	if obs.panicked {
		sig := fmt.Sprintf("C03 %s planner-panic row=%s", c.Form, rtOr(badCls, "routable"))
		switch {
		case hasShort:
			sig = fmt.Sprintf("C03 %s planner-panic row-with-wrong-arity", c.Form)
		case hasUnplaceable:
			sig = fmt.Sprintf("C03 %s %s planner-panic row=%s", e.family, c.Form, unplaceable)
		}
		res.Dev(sig, "%s: panic %s", sql, obs.err)
		res.Obs = sql
		return
	}
	if obs.rejected {
		h.st.inc("rejected")
		if !c.Expect.Rej {
			h.st.inc("rejected-although-routable")
			h.drift(sql + " rejected although every row is routable: " + obs.err)
		}
		return
	}
	h.st.inc("accepted")
	ip, ok := p.(*InsertPlan)
	if !ok {
		res.Dev("C03 unexpected-plan-type", "%s: %T", sql, p)
		return
	}
	// collect the rows of every rewritten statement
	var got []rtInsRow
	for slice, dbs := range ip.sqls {
		for db, list := range dbs {
			for _, s := range list {
				ts, clean := rtTableIndexes(s)
				st2, perr := parser.ParseSQL(s)
				is2, isIns := st2.(*ast.InsertStmt)
				if perr != nil || !isIns || !clean || len(ts) != 1 {
					res.Dev(fmt.Sprintf("C03 %s rewritten-statement-unusable", c.Form), "%s -> %s (%v)", sql, s, perr)
					continue
				}
				t := ts[0]
				if c.Form == "set" || len(is2.Setlist) > 0 {
					row := rtInsRow{table: t, tag: -1, slice: slice, db: db}
					for _, a := range is2.Setlist {
						if a.Column.Name.L == rtOther {
							row.tag = rtIntOf(a.Expr)
						}
						if a.Column.Name.L == rtKey {
							row.key = rtRestore(a.Expr)
						}
					}
					got = append(got, row)
					continue
				}
				oi, ki := -1, -1
				for i, cn := range is2.Columns {
					if cn.Name.L == rtOther {
						oi = i
					}
					if cn.Name.L == rtKey {
						ki = i
					}
				}
				for _, vl := range is2.Lists {
					row := rtInsRow{table: t, tag: -1, slice: slice, db: db}
					if len(vl) != len(is2.Columns) {
						// a short row: identify it by whatever value it carries
						row.tag = -2
						if len(vl) > 0 {
							if keyFirst {
								row.key = rtRestore(vl[0])
							} else {
								row.tag = rtIntOf(vl[0])
							}
						}
						res.Dev(fmt.Sprintf("C03 %s row-with-wrong-arity accepted", c.Form), "%s -> %s: a row has %d values for %d columns", sql, s, len(vl), len(is2.Columns))
					} else {
						if oi >= 0 {
							row.tag = rtIntOf(vl[oi])
						}
						if ki >= 0 {
							row.key = rtRestore(vl[ki])
						}
					}
					got = append(got, row)
				}
			}
		}
	}
	// where did each row of the statement go
	where := map[int][]rtInsRow{}
	for _, g := range got {
		where[g.tag] = append(where[g.tag], g)
	}
	if c.Expect.Rej {
		// accepted although the specification rejects: say what happened to each unroutable row
		for i, r := range c.Rows {
			cl := rowClass(i)
			if cl == "" || cl == "short" {
				continue
			}
			fate := "dropped"
			if ws := where[tagOf(i)]; len(ws) > 0 {
				fate = "stored-unevaluated"
			}
			single := ""
			if len(e.rule.Tables) == 1 {
				single = " single-table-rule"
			}
			fam := ""
			if cl == "out-of-range" || cl == "period-not-configured" {
				fam = e.family + " "
			}
			res.Dev(fmt.Sprintf("C03 %s%s row=%s %s, statement accepted%s", fam, c.Form, cl, fate, single),
				"%s accepted; row %d (%s) %s; rewritten: %v", sql, i+1, e.insValue(r, &rtSpell{fixed: true}), fate, ip.sqls)
		}
		if len(res.Devs) == 0 {
			res.Dev(fmt.Sprintf("C03 %s accepted-although-unroutable", c.Form), "%s accepted: %v", sql, ip.sqls)
		}
		res.Obs = sql
		return
	}
	// accepted and routable: every row exactly once in its table
	want := map[int]int{}
	for _, pr := range c.Expect.Put {
		want[tagOf(pr[1]-1)] = pr[0]
	}
	for tag, t := range want {
		ws := where[tag]
		switch {
		case len(ws) == 0:
			res.Dev(fmt.Sprintf("C03 %s %s routable-row lost", e.family, c.Form), "%s: row tagged %d is in no rewritten statement: %v", sql, tag, ip.sqls)
		case len(ws) > 1:
			res.Dev(fmt.Sprintf("C03 %s %s routable-row stored-more-than-once", e.family, c.Form), "%s: row tagged %d stored %d times: %v", sql, tag, len(ws), ip.sqls)
		case ws[0].table != t:
			res.Dev(fmt.Sprintf("C03 %s %s routable-row in-wrong-table", e.family, c.Form), "%s: row tagged %d stored in table %d, its key lives in table %d", sql, tag, ws[0].table, t)
		default:
			if wantSlice := fmt.Sprintf("slice-%d", e.sliceOf[t]); ws[0].slice != wantSlice || ws[0].db != rtDB {
				res.Dev(fmt.Sprintf("C03 %s %s row sent-to-wrong-slice", e.family, c.Form), "%s: table %d sent to %s/%s, want %s/%s", sql, t, ws[0].slice, ws[0].db, wantSlice, rtDB)
			}
			// the insert table is the table a point query on the stored key is routed to
			q := "SELECT * FROM " + rtTable + " WHERE " + rtKey + " = " + ws[0].key
			if qs, qerr := parser.ParseSQL(q); qerr == nil {
				qp, qo := e.build(q, qs, nil)
				if qp != nil {
					e.observe(qp, qo)
					h.st.inc("point-queries")
					if !rtSameInts(qo.routed, []int{t}) {
						res.Dev(fmt.Sprintf("C03 %s point-query does not find the inserted row", e.family), "%s stores key %s in table %d, %s is routed to %v", sql, ws[0].key, t, q, qo.routed)
					}
				} else if !qo.panicked {
					h.st.inc("point-query-rejected")
				}
			}
		}
	}
	for tag, ws := range where {
		if _, ok := want[tag]; !ok && tag != -2 {
			res.Dev(fmt.Sprintf("C03 %s %s unexpected-row", e.family, c.Form), "%s: rewritten statements contain a row tagged %d: %v", sql, tag, ws)
		}
	}
	if len(res.Devs) > 0 {
		res.Obs = sql
	} else {
		h.nontriv[c.Rule+"|"+sql] = true
	}
}

func rtOr(a, b string) string {
	if a == "" {
		return b
	}
	return a
}

func rtIntOf(x ast.ExprNode) int {
	if v, ok := x.(*driver.ValueExpr); ok {
		switch v.Kind() {
		case types.KindInt64:
			return int(v.GetInt64())
		case types.KindUint64:
			return int(v.GetUint64())
		}
	}
	return -1
}

func rtRestore(x ast.ExprNode) string {
	s, err := parser.NodeToStringWithoutQuote(x)
	if err != nil {
		return "?"
	}
	if v, ok := x.(*driver.ValueExpr); ok && (v.Kind() == types.KindString || v.Kind() == types.KindBytes) {
		return "'" + v.GetString() + "'"
	}
	return s
}

// ---------------------------------------------------------------- C04

type rtGEnv struct {
	id string
	rt *router.Router
}

func rtGDBName(n int) string {
	if n < 0 {
		return rtDB
	}
	return fmt.Sprintf("pdb_%d", n)
}

func rtNewGEnv(ly *rtLayout) (*rtGEnv, error) {
	var sl []string
	for _, s := range ly.RS {
		sl = append(sl, fmt.Sprintf("slice-%d", s-1))
	}
	total := 0
	for _, l := range ly.Locs {
		total += l
	}
	mk := func(table string) map[string]interface{} {
		m := map[string]interface{}{"db": rtDB, "table": table, "type": "global", "locations": ly.Locs, "slices": sl}
		if ly.DBs == "explicit" {
			if total >= 2 && total%2 == 0 {
				m["databases"] = []string{fmt.Sprintf("pdb_[0-%d]", total-1)}
			} else {
				var dbs []string
				for i := 0; i < total; i++ {
					dbs = append(dbs, rtGDBName(i))
				}
				m["databases"] = dbs
			}
		}
		return m
	}
	ns, err := rtNamespace(ly.NS, []map[string]interface{}{mk("t_g1"), mk("t_g2")}, nil)
	if err != nil {
		return nil, err
	}
	rt, err := router.NewRouter(ns)
	if err != nil {
		return nil, err
	}
	return &rtGEnv{id: ly.ID, rt: rt}, nil
}

func (h *rtHarness) runGlob(raw json.RawMessage, res *verifkit.Result) {
	var c rtGlob
	if err := json.Unmarshal(raw, &c); err != nil {
		res.Dev("harness bad-case", "%v", err)
		return
	}
	if h.genv == nil || h.genv.id != c.Layout.ID {
		g, err := rtNewGEnv(&c.Layout)
		if err != nil {
			res.Dev("harness layout-rejected", "layout %s: %v", c.Layout.ID, err)
			return
		}
		h.genv = g
	}
	sp := &rtSpell{x: c.Sp}
	q := ""
	if c.Stmt.Qual {
		q = rtDB + "."
	}
	t1 := q + "t_g1"
	ref := "t_g1"
	as := ""
	if c.Stmt.Alias {
		ref = "a"
		as = " AS a"
		if sp.bit() {
			as = " a"
		}
	}
	col := "id"
	switch {
	case c.Stmt.Alias:
		col = "a.id"
	case c.Stmt.Qual:
		col = rtDB + ".t_g1.id"
	case c.Stmt.Two || sp.bit():
		col = "t_g1.id"
	}
	_ = ref
	cond := ""
	switch c.Stmt.Cond {
	case "eq":
		cond = " WHERE " + col + " = 1"
	case "in":
		cond = " WHERE " + col + " IN (1, 2)"
	case "btw":
		cond = " WHERE " + col + " BETWEEN 1 AND 3"
	}
	var sql string
	switch c.Stmt.Kind {
	case "insert":
		sql = "INSERT INTO " + t1 + " (id, name) VALUES (1, 'a'), (2, 'b')"
	case "replace":
		sql = "REPLACE INTO " + t1 + " (id, name) VALUES (1, 'a')"
	case "insertset":
		sql = "INSERT INTO " + t1 + " SET id = 1, name = 'a'"
	case "update":
		sql = "UPDATE " + t1 + as + " SET name = 'x'" + cond
	case "delete":
		sql = "DELETE FROM " + t1 + as + cond
	case "select":
		if c.Stmt.Two {
			bcol := "t_g2.id"
			bas := ""
			if c.Stmt.Alias {
				bcol = "b.id"
				bas = " AS b"
			} else if c.Stmt.Qual {
				bcol = rtDB + ".t_g2.id"
			}
			acol := col
			sql = "SELECT * FROM " + t1 + as + " JOIN " + q + "t_g2" + bas + " ON " + acol + " = " + bcol + cond
		} else {
			sql = "SELECT * FROM " + t1 + as + cond
		}
	}
	stmt, err := parser.ParseSQL(sql)
	if err != nil {
		h.st.inc("form-not-parsed")
		h.drift("global form not accepted by the parser: " + sql + ": " + err.Error())
		return
	}
	feat := ""
	multi := false
	for _, l := range c.Layout.Locs {
		if l > 1 {
			multi = true
		}
	}
	if multi && c.Layout.DBs == "implicit" {
		feat += " several-implicit-database-copies-per-slice"
	}
	for i, s := range c.Layout.RS {
		if s != i+1 {
			feat = " rule-slices-differ-from-namespace-slice-order" + feat
			break
		}
	}
	if feat == "" {
		feat = " plain-layout"
	}
	want := map[string]bool{}
	for _, cp := range c.Copies {
		want[fmt.Sprintf("slice-%d/%s", cp[0]-1, rtGDBName(cp[1]))] = true
	}
	rounds := 1
	if !c.Write {
		rounds = 6 * len(c.Copies)
	}
	seenCopies := map[string]bool{}
	for round := 0; round < rounds; round++ {
		st := stmt
		if round > 0 {
			st, _ = parser.ParseSQL(sql) // BuildPlan rewrites the AST in place
		}
		var p Plan
		var perr error
		pan, msg, _ := verifkit.Catch(func() {
			p, perr = BuildPlan(st, map[string]string{rtDB: rtDB}, rtDB, sql, h.genv.rt, sequence.NewSequenceManager(), nil)
		})
		h.st.inc("plans")
		if pan {
			res.Dev(fmt.Sprintf("C04 %s planner-panic layout=%s", c.Stmt.Kind, strings.TrimSpace(feat)), "%s: %s", sql, msg)
			break
		}
		if perr != nil {
			h.st.inc("rejected")
			h.drift("global statement rejected: " + sql + ": " + perr.Error())
			break
		}
		sqls, _, ok := rtSQLsOf(p)
		if !ok {
			res.Dev("C04 unexpected-plan-type", "%s: %T (a statement over global tables only must be planned by the shard planner)", sql, p)
			break
		}
		h.st.inc("accepted")
		count := map[string]int{}
		texts := map[string]bool{}
		total := 0
		for slice, dbs := range sqls {
			for db, list := range dbs {
				for _, s := range list {
					k := slice + "/" + db
					count[k]++
					total++
					// database names inside the statement are those of the copy it is sent to
					norm := s
					if c.Stmt.Qual {
						if !strings.Contains(s, "`"+db+"`.`t_g1`") || (db != rtDB && strings.Contains(s, "`"+rtDB+"`.")) {
							res.Dev(fmt.Sprintf("C04 %s database-name-not-rewritten", c.Stmt.Kind), "%s -> %s/%s: %s", sql, slice, db, s)
						}
						norm = strings.Replace(s, "`"+db+"`.", "`DB`.", -1)
					} else if strings.Contains(s, "`"+rtDB+"`.") || strings.Contains(s, "`pdb_") {
						res.Dev(fmt.Sprintf("C04 %s database-name-invented", c.Stmt.Kind), "%s -> %s/%s: %s", sql, slice, db, s)
					}
					texts[norm] = true
				}
			}
		}
		if c.Write {
			for k := range want {
				switch n := count[k]; {
				case n == 0:
					res.Dev(fmt.Sprintf("C04 write copy-not-written layout=%s", strings.TrimSpace(feat)), "%s: copy %s receives no statement; sent %v, copies %v", sql, k, count, rtKeys(want))
				case n > 1:
					res.Dev(fmt.Sprintf("C04 write copy-written-%d-times layout=%s", n, strings.TrimSpace(feat)), "%s: copy %s receives %d statements; sent %v", sql, k, n, count)
				}
			}
			for k := range count {
				if !want[k] {
					res.Dev(fmt.Sprintf("C04 write sent-to-unconfigured-copy layout=%s", strings.TrimSpace(feat)), "%s: %s is not a copy of the table; copies %v", sql, k, rtKeys(want))
				}
			}
			if len(texts) > 1 {
				res.Dev("C04 write copies-receive-different-statements", "%s: %v", sql, rtKeys(texts))
			}
		} else {
			if total != 1 {
				res.Dev(fmt.Sprintf("C04 read sent-to-%d-copies layout=%s", total, strings.TrimSpace(feat)), "%s: a read of global tables must touch exactly one copy; sent %v", sql, count)
			}
			for k := range count {
				seenCopies[k] = true
				if !want[k] {
					res.Dev(fmt.Sprintf("C04 read sent-to-unconfigured-copy layout=%s", strings.TrimSpace(feat)), "%s: %s is not a copy of the table; copies %v", sql, k, rtKeys(want))
				}
			}
		}
		if len(res.Devs) > 0 {
			break
		}
	}
	if !c.Write && len(res.Devs) == 0 {
		if len(seenCopies) == len(want) {
			h.st.inc("reads-every-copy-chosen")
		} else {
			h.st.inc("reads-not-every-copy-chosen")
		}
	}
	if len(res.Devs) > 0 {
		res.Obs = sql
	} else {
		h.nontriv[c.Layout.ID+"|"+sql] = true
	}
}

func rtKeys(m map[string]bool) []string {
	var out []string
	for k := range m {
		out = append(out, k)
	}
	sort.Strings(out)
	return out
}

// ---------------------------------------------------------------- driver

type rtHarness struct {
	env     *rtEnv
	genv    *rtGEnv
	st      *rtStats
	nontriv map[string]bool
	drifts  []string
}

func (h *rtHarness) drift(s string) {
	if len(h.drifts) < 40 {
		h.drifts = append(h.drifts, s)
	}
}

func TestVerifRouting(t *testing.T) {
	if os.Getenv("VERIF_CASES") == "" {
		t.Skip("driven by /verif checks C01, C03, C04")
	}
	out, err := verifkit.OpenOut()
	if err != nil {
		t.Fatalf("open out: %v", err)
	}
	rand.Seed(verifkit.Seed())
	h := &rtHarness{st: &rtStats{counts: map[string]int{}}, nontriv: map[string]bool{}}
	var mismatches []string
	n, err := verifkit.EachCase(func(i int, raw json.RawMessage) error {
		var head struct {
			Kind string `json:"kind"`
		}
		if err := json.Unmarshal(raw, &head); err != nil {
			return err
		}
		res := &verifkit.Result{Case: i}
		switch head.Kind {
		case "rule":
			var r rtRule
			if err := json.Unmarshal(raw, &r); err != nil {
				return err
			}
			sort.Ints(r.Tables)
			env, err := rtNewEnv(&r)
			if err != nil {
				res.Dev("harness rule-rejected", "rule %s: %v", r.ID, err)
				h.env = nil
			} else {
				h.env = env
				for _, b := range env.bad {
					res.Dev("placement-mismatch "+r.Type, "rule %s: %s", r.ID, b)
					mismatches = append(mismatches, r.ID+": "+b)
				}
			}
			h.st.inc("rules")
		case "cond":
			h.runCond(raw, res)
			h.st.inc("cond-cases")
		case "ins":
			h.runIns(raw, res)
			h.st.inc("ins-cases")
		case "glob":
			h.runGlob(raw, res)
			h.st.inc("glob-cases")
		default:
			res.Dev("harness unknown-kind", "%s", head.Kind)
		}
		if len(res.Devs) > 0 {
			res.Tags = []string{head.Kind}
			if res.Obs == nil {
				res.Obs = json.RawMessage(raw)
			}
			out.Write(res)
		}
		return nil
	})
	if err != nil {
		t.Fatalf("cases: %v", err)
	}
	out.Close(n, map[string]interface{}{
		"counts": h.st.counts, "distinct_nontrivial": len(h.nontriv), "drift": h.drifts, "placement_mismatches": mismatches,
	})
}
