package router

// Observation harness for spec/RoutingConfig*.tla (property C10).
// For every TLC-enumerated namespace configuration the real models.Namespace.Verify and the real
// router.NewRouter are run (on separately built, identical namespace objects) and what they did is
// recorded: verify / load outcome, and for each loaded rule the real subTableIndexes, tableToSlice,
// slices, physical databases, and what FindTableIndex returns on a key sample.  Nothing is judged
// here: TLC evaluates the property on the records (RoutingConfig_trace).

import (
	"encoding/json"
	"fmt"
	"math"
	"os"
	"sort"
	"strconv"
	"strings"
	"testing"

	"github.com/XiaoMi/Gaea/internal/verifkit"
	"github.com/XiaoMi/Gaea/models"
)

type rcRule struct {
	DB        string       `json:"db"`
	Table     string       `json:"table"`
	Parent    string       `json:"parent"`
	Type      string       `json:"type"`
	Locations []int        `json:"locations"`
	Slices    []string     `json:"slices"`
	Limit     int          `json:"limit"`
	Ranges    []plRange    `json:"ranges"`
	Databases []rcDb       `json:"databases"`
	PCount    []int        `json:"pcount"`
	PLength   []int        `json:"plength"`
	Hs        *plHashSlice `json:"hs"`
	Seed      int          `json:"seed"`
	Vbt       int          `json:"vbt"`
	Spell     string       `json:"spell"` // how textual lists are written: plain | sp-after | sp-before | sp-both | tab-after | outer | inner-and-outer
}

// rcSep writes a separator of a textual list (",", "-", ":") the way the configuration spells it.
func rcSep(sep, spell string) string {
	switch spell {
	case "sp-after", "inner-and-outer":
		return sep + " "
	case "sp-before":
		return " " + sep
	case "sp-both":
		return " " + sep + " "
	case "tab-after":
		return sep + "\t"
	}
	return sep
}

// rcWrap adds the blanks around a whole textual field.
func rcWrap(text, spell string) string {
	if spell == "outer" || spell == "inner-and-outer" {
		return " " + text + " "
	}
	return text
}

func rcJoinInts(a []int, spell string) string {
	s := make([]string, len(a))
	for i, v := range a {
		s[i] = strconv.Itoa(v)
	}
	return rcWrap(strings.Join(s, rcSep(",", spell)), spell)
}

func rcHashSlice(h *plHashSlice, spell string) string {
	if h.Form == "single" {
		return rcWrap(strconv.Itoa(h.A), spell)
	}
	a, b := "", ""
	if h.A != plNone {
		a = strconv.Itoa(h.A)
	}
	if h.B != plNone {
		b = strconv.Itoa(h.B)
	}
	return rcWrap(a+rcSep(":", spell)+b, spell)
}

// a database name, or the list prefix[lo-hi] when lo is set
type rcDb struct {
	Prefix string `json:"prefix"`
	Lo     int    `json:"lo"`
	Hi     int    `json:"hi"`
}

type rcCfg struct {
	NsSlices []string `json:"nsslices"`
	Default  string   `json:"default"`
	Rules    []rcRule `json:"rules"`
}

type rcCase struct {
	ID  int             `json:"id"`
	Cfg json.RawMessage `json:"cfg"`
}

type rcTable struct {
	Table     string   `json:"table"`
	Type      string   `json:"type"`
	SubTables []int    `json:"subtables"`
	T2S       [][2]int `json:"t2s"`
	Slices    []string `json:"slices"`
	Dbs       []string `json:"dbs"`
	Placed    []int    `json:"placed"`     // distinct table indexes returned for the ordinary key sample
	PlacedMin []int    `json:"placed_min"` // table index returned for the key -2^63 (empty if rejected)
	Crashed   bool     `json:"crashed"`    // FindTableIndex panicked with something else than a router.KeyError
	CrashMsg  string   `json:"crash_msg"`
	Rejected  int      `json:"rejected"`
}

type rcObs struct {
	ID        int             `json:"id"`
	Cfg       json.RawMessage `json:"cfg"`
	Verify    string          `json:"verify"` // ok | err | panic
	VerifyMsg string          `json:"verify_msg"`
	Load      string          `json:"load"` // ok | err | panic
	LoadMsg   string          `json:"load_msg"`
	Tables    []rcTable       `json:"tables"`
}

func rcShard(r *rcRule) *models.Shard {
	s := &models.Shard{DB: r.DB, Table: r.Table, ParentTable: r.Parent, Key: "id", Type: r.Type,
		Locations: r.Locations, Slices: r.Slices}
	for _, d := range r.Databases {
		if d.Lo == plNone {
			s.Databases = append(s.Databases, rcWrap(d.Prefix, r.Spell))
		} else {
			s.Databases = append(s.Databases, rcWrap(fmt.Sprintf("%s[%d%s%d]", d.Prefix, d.Lo, rcSep("-", r.Spell), d.Hi), r.Spell))
		}
	}
	if r.Type == "range" {
		s.TableRowLimit = r.Limit
	}
	for _, rg := range r.Ranges {
		if rg.Lo == rg.Hi {
			s.DateRange = append(s.DateRange, rcWrap(strconv.Itoa(rg.Lo), r.Spell))
		} else {
			s.DateRange = append(s.DateRange, rcWrap(strconv.Itoa(rg.Lo)+rcSep("-", r.Spell)+strconv.Itoa(rg.Hi), r.Spell))
		}
	}
	switch r.Type {
	case "mycat_long":
		s.PartitionCount, s.PartitionLength = rcJoinInts(r.PCount, r.Spell), rcJoinInts(r.PLength, r.Spell)
	case "mycat_string":
		s.PartitionCount, s.PartitionLength = rcJoinInts(r.PCount, r.Spell), rcJoinInts(r.PLength, r.Spell)
		s.HashSlice = rcHashSlice(r.Hs, r.Spell)
	case "mycat_murmur":
		s.Seed, s.VirtualBucketTimes = rcWrap(strconv.Itoa(r.Seed), r.Spell), rcWrap(strconv.Itoa(r.Vbt), r.Spell)
	}
	return s
}

func rcNamespace(c *rcCfg) *models.Namespace {
	shards := make([]*models.Shard, 0, len(c.Rules))
	for i := range c.Rules {
		shards = append(shards, rcShard(&c.Rules[i]))
	}
	return plNamespace(c.NsSlices, c.Default, shards)
}

func rcGuard(fn func() error) (status, msg string) {
	defer func() {
		if x := recover(); x != nil {
			status, msg = "panic", fmt.Sprint(x)
		}
	}()
	if err := fn(); err != nil {
		return "err", err.Error()
	}
	return "ok", ""
}

var rcSampleInts = []int64{-3, -2, -1, 0, 1, 2, 3, 4, 5, 6, 7, 8, 9, 10, 11, 12, 19, 20, 21, 29, 30, 31, 39, 40, 41, 59, 60, 61,
	255, 256, 511, 512, 1023, 1024, 1025, -1024, 12345678901, math.MaxInt64, math.MinInt64 + 1}
var rcSampleStrings = []string{"", "a", "abc", "hello, world", "12", "-7", "你好", "a\U0001f600b"}

func rcObserveRule(name string, br *BaseRule) rcTable {
	t := rcTable{Table: name, Type: br.ruleType, SubTables: append([]int{}, br.subTableIndexes...),
		Slices: append([]string{}, br.slices...), Dbs: append([]string{}, br.mycatDatabases...),
		T2S: [][2]int{}, Placed: []int{}, PlacedMin: []int{}}
	for k, v := range br.tableToSlice {
		t.T2S = append(t.T2S, [2]int{k, v})
	}
	sort.Slice(t.T2S, func(i, j int) bool { return t.T2S[i][0] < t.T2S[j][0] })
	if br.ruleType == GlobalTableRuleType || br.ruleType == DateYearRuleType || br.ruleType == DateMonthRuleType || br.ruleType == DateDayRuleType {
		return t // the property names the sharding function of hash, mod, range and mycat rules
	}
	seen := map[int]bool{}
	note := func(o plOutcome, into *[]int) {
		switch o.Class {
		case "table":
			if into == &t.PlacedMin {
				*into = append(*into, o.Idx)
			} else if !seen[o.Idx] {
				seen[o.Idx] = true
				*into = append(*into, o.Idx)
			}
		case "crash":
			if !t.Crashed {
				t.Crashed, t.CrashMsg = true, o.Msg
			}
		default:
			t.Rejected++
		}
	}
	for _, v := range rcSampleInts {
		note(plFind(br, v), &t.Placed)
	}
	for _, s := range rcSampleStrings {
		note(plFind(br, s), &t.Placed)
	}
	note(plFind(br, int64(math.MinInt64)), &t.PlacedMin)
	sort.Ints(t.Placed)
	return t
}

func TestVerifRouteConfig(t *testing.T) {
	out, err := verifkit.OpenOut()
	if err != nil {
		t.Fatalf("dead driver: %v", err)
	}
	rec, err := verifkit.OpenOutPath(verifkit.TraceOutPath())
	if err != nil {
		t.Fatalf("dead driver: %v", err)
	}
	counts := map[string]int{}
	n, err := verifkit.EachCase(func(i int, raw json.RawMessage) error {
		var c rcCase
		if err := json.Unmarshal(raw, &c); err != nil {
			return fmt.Errorf("case %d: %v", i, err)
		}
		var cfg rcCfg
		if err := json.Unmarshal(c.Cfg, &cfg); err != nil {
			return fmt.Errorf("case %d cfg: %v", i, err)
		}
		o := rcObs{ID: c.ID, Cfg: c.Cfg, Tables: []rcTable{}}
		o.Verify, o.VerifyMsg = rcGuard(func() error { return rcNamespace(&cfg).Verify() })
		var rt *Router
		o.Load, o.LoadMsg = rcGuard(func() error {
			var e error
			rt, e = NewRouter(rcNamespace(&cfg))
			return e
		})
		if o.Load == "ok" && rt != nil {
			var names []string
			byName := map[string]*BaseRule{}
			for db, m := range rt.GetAllRules() {
				for tb, ru := range m {
					if br, ok := ru.(*BaseRule); ok {
						names = append(names, db+"."+tb)
						byName[db+"."+tb] = br
					}
				}
			}
			sort.Strings(names)
			for _, nm := range names {
				o.Tables = append(o.Tables, rcObserveRule(nm, byName[nm]))
			}
		}
		counts["verify_"+o.Verify]++
		counts["load_"+o.Load]++
		if o.Verify == "ok" && o.Load == "ok" {
			counts["accepted_and_loaded"]++
		}
		rec.Write(o)
		return nil
	})
	if err != nil {
		t.Fatalf("dead driver: %v", err)
	}
	extra := map[string]interface{}{}
	for k, v := range counts {
		extra["n_"+k] = v
	}
	rec.Close(n, nil)
	out.Close(n, extra)
	if os.Getenv("VERIF_CASES") == "" {
		t.Fatalf("dead driver: no cases")
	}
}
