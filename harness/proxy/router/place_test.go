package router

// Conformance harness for spec/RoutingPlace.tla (properties C08, C09).
// Direction G: TLC emits (rule configuration, key, expected placement) cases; the rule is built
// through the real constructors (models.Namespace -> NewRouter -> GetShardRule) and the key is
// given to the real Rule.FindTableIndex in every Go type the planner passes (int64, uint64, int,
// string).  The expected value comes from the specification; nothing is recomputed here.
//
// Outcome classes of one call:
//   table(i)        FindTableIndex returned (i, nil)
//   error           it returned a non-nil error                                  -> "rejected with an error"
//   keyerror-panic  it panicked with a router.KeyError value (the package's own typed rejection,
//                   NumValue/GetString do this)                                  -> counted as rejected
//   crash           any other panic (runtime error: slice bounds, divide by zero) -> never allowed

import (
	"encoding/json"
	"fmt"
	"math/big"
	"os"
	"sort"
	"strconv"
	"strings"
	"testing"
	"time"

	"github.com/XiaoMi/Gaea/internal/verifkit"
	"github.com/XiaoMi/Gaea/models"
)

type plRange struct {
	Lo int `json:"lo"`
	Hi int `json:"hi"`
}

type plHashSlice struct {
	Form string `json:"form"`
	A    int    `json:"a"`
	B    int    `json:"b"`
}

type plDatabases struct {
	Form   string   `json:"form"`
	Names  []string `json:"names"`
	Prefix string   `json:"prefix"`
	Lo     int      `json:"lo"`
	Hi     int      `json:"hi"`
}

type plRule struct {
	Type      string       `json:"type"`
	Locations []int        `json:"locations"`
	Limit     int          `json:"limit"`
	Slices    []string     `json:"slices"`
	Ranges    []plRange    `json:"ranges"`
	Databases *plDatabases `json:"databases"`
	PCount    []int        `json:"pcount"`
	PLength   []int        `json:"plength"`
	Hs        *plHashSlice `json:"hs"`
	Seed      *int         `json:"seed"`
	Vbt       *int         `json:"vbt"`
}

type plKey struct {
	Kind   string `json:"kind"`
	Neg    bool   `json:"neg"`
	Digits []int  `json:"digits"`
	Cps    []int  `json:"cps"`
	Day    int64  `json:"day"`
	Sec    int64  `json:"sec"`
}

type plExp struct {
	T   string `json:"t"`
	Idx int    `json:"idx"`
}

type plLayout struct {
	SubTables []int    `json:"subtables"`
	T2S       []int    `json:"t2s"`
	Dbs       []string `json:"dbs"`
}

type plCase struct {
	ID     int             `json:"id"`
	Prop   string          `json:"prop"`
	Rule   json.RawMessage `json:"rule"`
	Tz     int             `json:"tz"`
	Item   string          `json:"item"` // "key" | "instant" | "layout"
	Key    *plKey          `json:"key"`
	Exp    *plExp          `json:"exp"`
	Cls    string          `json:"cls"`
	Slice  int             `json:"slice"`
	Db     string          `json:"db"`
	Layout *plLayout       `json:"layout"`
}

const plNone = -999999

func joinInts(a []int) string {
	s := make([]string, len(a))
	for i, v := range a {
		s[i] = strconv.Itoa(v)
	}
	return strings.Join(s, ",")
}

func renderHashSlice(h *plHashSlice) string {
	if h.Form == "single" {
		return strconv.Itoa(h.A)
	}
	a, b := "", ""
	if h.A != plNone {
		a = strconv.Itoa(h.A)
	}
	if h.B != plNone {
		b = strconv.Itoa(h.B)
	}
	return a + ":" + b
}

func renderDatabases(d *plDatabases) []string {
	if d == nil {
		return nil
	}
	if d.Form == "range" {
		return []string{fmt.Sprintf("%s[%d-%d]", d.Prefix, d.Lo, d.Hi)}
	}
	return d.Names
}

func plShardOf(r *plRule) *models.Shard {
	s := &models.Shard{DB: "db_verif", Table: "tbl_verif", Key: "id", Type: r.Type,
		Locations: r.Locations, Slices: r.Slices, TableRowLimit: r.Limit}
	for _, rg := range r.Ranges {
		if rg.Lo == rg.Hi {
			s.DateRange = append(s.DateRange, strconv.Itoa(rg.Lo))
		} else {
			s.DateRange = append(s.DateRange, strconv.Itoa(rg.Lo)+"-"+strconv.Itoa(rg.Hi))
		}
	}
	s.Databases = renderDatabases(r.Databases)
	if r.PCount != nil {
		s.PartitionCount = joinInts(r.PCount)
		s.PartitionLength = joinInts(r.PLength)
	}
	if r.Hs != nil {
		s.HashSlice = renderHashSlice(r.Hs)
	}
	if r.Seed != nil {
		s.Seed = strconv.Itoa(*r.Seed)
	}
	if r.Vbt != nil {
		s.VirtualBucketTimes = strconv.Itoa(*r.Vbt)
	}
	return s
}

func plNamespace(sliceNames []string, defaultSlice string, shards []*models.Shard) *models.Namespace {
	ns := &models.Namespace{
		Name:         "ns_verif",
		AllowedDBS:   map[string]bool{"db_verif": true},
		DefaultSlice: defaultSlice,
		ShardRules:   shards,
		Users: []*models.User{{UserName: "u", Password: "p", Namespace: "ns_verif",
			RWFlag: models.ReadWrite, RWSplit: models.NoReadWriteSplit}},
	}
	for _, n := range sliceNames {
		ns.Slices = append(ns.Slices, &models.Slice{Name: n, UserName: "root", Password: "x",
			Master: "127.0.0.1:3306", Capacity: 4, MaxCapacity: 8, IdleTimeout: 60})
	}
	return ns
}

// buildRule goes through the real constructors.
func plBuildRule(r *plRule) (rule Rule, err error) {
	defer func() {
		if x := recover(); x != nil {
			err = fmt.Errorf("panic while building the rule: %v", x)
		}
	}()
	ns := plNamespace(r.Slices, r.Slices[0], []*models.Shard{plShardOf(r)})
	rt, err := NewRouter(ns)
	if err != nil {
		return nil, err
	}
	ru, ok := rt.GetShardRule("db_verif", "tbl_verif")
	if !ok {
		return nil, fmt.Errorf("rule not found in the built router")
	}
	return ru, nil
}

type plOutcome struct {
	Class string `json:"class"` // table | error | keyerror-panic | crash
	Idx   int    `json:"idx,omitempty"`
	Msg   string `json:"msg,omitempty"`
}

func plFind(rule Rule, key interface{}) (o plOutcome) {
	defer func() {
		if x := recover(); x != nil {
			if ke, ok := x.(KeyError); ok {
				o = plOutcome{Class: "keyerror-panic", Msg: string(ke)}
			} else {
				o = plOutcome{Class: "crash", Msg: fmt.Sprint(x)}
			}
		}
	}()
	idx, err := rule.FindTableIndex(key)
	if err != nil {
		return plOutcome{Class: "error", Msg: err.Error()}
	}
	return plOutcome{Class: "table", Idx: idx}
}

type plVariant struct {
	GoType string
	Val    interface{}
}

func plString(cps []int) string {
	var b strings.Builder
	for _, c := range cps {
		b.WriteRune(rune(c))
	}
	return b.String()
}

func plBig(k *plKey) *big.Int {
	var sb strings.Builder
	if k.Neg {
		sb.WriteByte('-')
	}
	for _, d := range k.Digits {
		sb.WriteByte(byte('0' + d))
	}
	v, _ := new(big.Int).SetString(sb.String(), 10)
	return v
}

// every Go type in which the planner can hand this key to FindTableIndex
func plVariants(k *plKey) []plVariant {
	switch k.Kind {
	case "str":
		return []plVariant{{"string", plString(k.Cps)}}
	case "int", "ts":
		var v *big.Int
		if k.Kind == "int" {
			v = plBig(k)
		} else {
			v = big.NewInt(k.Day*86400 + k.Sec)
		}
		if !v.IsInt64() {
			return nil
		}
		i := v.Int64()
		out := []plVariant{{"int64", i}, {"int", int(i)}}
		if i >= 0 {
			out = append(out, plVariant{"uint64", uint64(i)})
		}
		return out
	}
	return nil
}

// feature of the input that classifies a deviation (signature vocabulary)
func plKeyClass(c *plCase, r *plRule) string {
	k := c.Key
	if strings.HasPrefix(r.Type, "date_") {
		if k.Kind == "ts" {
			return "timestamp"
		}
		return "string " + c.Cls
	}
	if k.Kind == "int" {
		v := plBig(k)
		if v.String() == "-9223372036854775808" {
			return "int key -2^63"
		}
		if v.BitLen() > 31 {
			return "int key beyond 32 bits"
		}
		return "int key"
	}
	supp, nonASCII := false, false
	for _, cp := range k.Cps {
		if cp >= 0x10000 {
			supp = true
		}
		if cp >= 0x80 {
			nonASCII = true
		}
	}
	switch {
	case supp:
		return "supplementary-plane char in key"
	case nonASCII:
		if r.Hs != nil {
			neg := (r.Hs.A != plNone && r.Hs.A < 0) || (r.Hs.Form == "pair" && r.Hs.B != plNone && r.Hs.B < 0)
			if neg {
				return "multi-byte key with negative hash-slice bound"
			}
		}
		return "multi-byte (BMP) key"
	}
	return "ascii string key"
}

type plBuilt struct {
	rule Rule
	cfg  *plRule
	err  error
}

func TestVerifPlace(t *testing.T) {
	out, err := verifkit.OpenOut()
	if err != nil {
		t.Fatalf("dead driver: %v", err)
	}
	cache := map[string]*plBuilt{}
	counts := map[string]int{}
	evals := 0
	savedLocal := time.Local
	defer func() { time.Local = savedLocal }()

	n, err := verifkit.EachCase(func(i int, raw json.RawMessage) error {
		var c plCase
		if err := json.Unmarshal(raw, &c); err != nil {
			return fmt.Errorf("case %d: %v", i, err)
		}
		res := &verifkit.Result{Case: c.ID}
		b, ok := cache[string(c.Rule)]
		if !ok {
			b = &plBuilt{cfg: &plRule{}}
			if err := json.Unmarshal(c.Rule, b.cfg); err != nil {
				return fmt.Errorf("case %d rule: %v", i, err)
			}
			b.rule, b.err = plBuildRule(b.cfg)
			cache[string(c.Rule)] = b
		}
		r := b.cfg
		if b.err != nil {
			res.Dev(fmt.Sprintf("%s %s valid rule not loaded", c.Prop, r.Type), "NewRouter failed on a valid configuration %s: %v", string(c.Rule), b.err)
			counts["rule-build-failed"]++
			out.Write(res)
			return nil
		}
		time.Local = time.FixedZone("verif", c.Tz)

		if c.Item == "layout" {
			evals++
			counts["layout"]++
			got := b.rule.GetSubTableIndexes()
			if fmt.Sprint(got) != fmt.Sprint(c.Layout.SubTables) {
				res.Dev(fmt.Sprintf("%s %s layout: sub-table list differs", c.Prop, r.Type),
					"specification lists tables %v, implementation %v", c.Layout.SubTables, got)
			} else {
				for j, tb := range c.Layout.SubTables {
					if s := b.rule.GetSliceIndexFromTableIndex(tb); s != c.Layout.T2S[j] {
						res.Dev(fmt.Sprintf("%s %s layout: table on another slice", c.Prop, r.Type),
							"table %d: specification slice %d, implementation %d", tb, c.Layout.T2S[j], s)
						break
					}
				}
			}
			if fmt.Sprint(b.rule.GetSlices()) != fmt.Sprint(r.Slices) {
				res.Dev(fmt.Sprintf("%s %s layout: slice names differ", c.Prop, r.Type), "%v vs %v", r.Slices, b.rule.GetSlices())
			}
			if len(c.Layout.Dbs) > 0 {
				if mr, ok := b.rule.(MycatRule); !ok || fmt.Sprint(mr.GetDatabases()) != fmt.Sprint(c.Layout.Dbs) {
					res.Dev(fmt.Sprintf("%s %s layout: database list differs", c.Prop, r.Type), "specification %v", c.Layout.Dbs)
				} else {
					// table index <-> physical database, both directions
					for j, db := range c.Layout.Dbs {
						got, err := b.rule.GetDatabaseNameByTableIndex(j)
						back, found := mr.GetTableIndexByDatabaseName(db)
						if err != nil || got != db || !found || back != j {
							res.Dev(fmt.Sprintf("%s %s layout: table index and database do not correspond", c.Prop, r.Type),
								"table %d: specification database %q; implementation database %q (%v), index of that database %d (%v)", j, db, got, err, back, found)
							break
						}
					}
				}
			}
			if len(res.Devs) > 0 {
				out.Write(res)
			}
			return nil
		}

		kc := plKeyClass(&c, r)
		obs := map[string]plOutcome{}
		seen := map[string]bool{}
		for _, v := range plVariants(c.Key) {
			evals++
			o := plFind(b.rule, v.Val)
			obs[v.GoType] = o
			counts[o.Class]++
			var kind, what string
			switch c.Exp.T {
			case "table":
				if o.Class == "crash" {
					kind = "crash"
				} else if o.Class != "table" {
					kind = "rejected"
				} else if o.Idx != c.Exp.Idx {
					kind = "wrong table"
				}
				what = fmt.Sprintf("specification places the key in table %d", c.Exp.Idx)
			case "reject":
				if o.Class == "crash" {
					kind = "crash"
				} else if o.Class == "table" {
					kind = "placed"
				}
				what = "specification rejects the key"
			case "lenient":
				if o.Class == "crash" {
					kind = "crash"
				} else if o.Class == "table" && o.Idx != c.Exp.Idx {
					kind = "wrong table"
				}
				what = fmt.Sprintf("specification allows table %d or a rejection", c.Exp.Idx)
			default:
				if o.Class == "crash" {
					kind = "crash"
				}
				what = "placement not specified"
			}
			if kind == "" && o.Class == "table" && c.Exp.T != "unspecified" {
				// slice lookup and physical database of the table the key was placed in
				if s := b.rule.GetSliceIndexFromTableIndex(o.Idx); s != c.Slice {
					kind, what = "wrong slice", fmt.Sprintf("table %d: specification slice index %d, implementation %d", o.Idx, c.Slice, s)
				} else if c.Db != "" {
					db, err := b.rule.GetDatabaseNameByTableIndex(o.Idx)
					if err != nil || db != c.Db {
						kind, what = "wrong database", fmt.Sprintf("table %d: specification database %q, implementation %q (%v)", o.Idx, c.Db, db, err)
					}
				}
			}
			if kind != "" {
				sig := fmt.Sprintf("%s %s %s: %s", c.Prop, r.Type, kc, kind)
				if !seen[sig] {
					seen[sig] = true
					res.Dev(sig, "%s; FindTableIndex(%s %v) -> %s idx=%d %s", what, v.GoType, plShow(v.Val), o.Class, o.Idx, o.Msg)
				}
			}
		}
		if len(res.Devs) > 0 {
			res.Obs = obs
			out.Write(res)
		}
		return nil
	})
	if err != nil {
		t.Fatalf("dead driver: %v", err)
	}
	extra := map[string]interface{}{"evaluations": evals, "rules_built": len(cache)}
	keys := make([]string, 0, len(counts))
	for k := range counts {
		keys = append(keys, k)
	}
	sort.Strings(keys)
	for _, k := range keys {
		extra["n_"+k] = counts[k]
	}
	out.Close(n, extra)
	if os.Getenv("VERIF_CASES") == "" {
		t.Fatalf("dead driver: no cases")
	}
}

func plShow(v interface{}) string {
	if s, ok := v.(string); ok {
		return strconv.QuoteToASCII(s)
	}
	return fmt.Sprint(v)
}
