package server

// Conformance harness for spec/StmtPolicy.tla (properties C21, C22, C06, C36).
//
// Direction G: TLC enumerates abstract statement descriptors together with the decision the
// specification requires (reject / master / any, fast path allowed or not, blacklisted or not).
// This file renders each descriptor to concrete SQL text (rendering is not an oracle), sends it through
// the real SessionExecutor (Session.execCommand -> ExecuteCommand: COM_QUERY, multi-statement COM_QUERY, COM_STMT_PREPARE +
// COM_STMT_EXECUTE) on a real Namespace whose node pools are replaced by recording fakes, and compares
// the observation (error before any pool Get / role of the pool a connection was taken from) with the
// expected decision that came out of TLC.

import (
	"context"
	"encoding/binary"
	"encoding/json"
	"fmt"
	"io"
	"net"
	"os"
	"strings"
	"sync"
	"testing"
	"time"

	"github.com/XiaoMi/Gaea/backend"
	"github.com/XiaoMi/Gaea/internal/verifkit"
	"github.com/XiaoMi/Gaea/models"
	"github.com/XiaoMi/Gaea/mysql"
	"github.com/XiaoMi/Gaea/parser"
	"github.com/XiaoMi/Gaea/proxy/plan"
	"github.com/XiaoMi/Gaea/util"
)

// ------------------------------------------------------------------------------------------------
// fixture: one real namespace, fake pools
// ------------------------------------------------------------------------------------------------

const polNsName = "verif_policy_ns"

const polNsCfg = `
{
    "name": "verif_policy_ns",
    "online": true,
    "read_only": false,
    "allowed_dbs": {"db_ks": true, "db_other": true},
    "default_phy_dbs": {"db_ks": "db_ks", "db_other": "db_other"},
    "slices": [
        {"name": "slice-0", "user_name": "root", "password": "root", "master": "127.0.0.1:3306",
         "slaves": ["127.0.0.1:3307"], "capacity": 8, "max_capacity": 16, "idle_timeout": 3600},
        {"name": "slice-1", "user_name": "root", "password": "root", "master": "127.0.0.1:13306",
         "slaves": ["127.0.0.1:13307"], "capacity": 8, "max_capacity": 16, "idle_timeout": 3600}
    ],
    "shard_rules": [
        {"db": "db_ks", "table": "tbl_ks", "type": "mod", "key": "id", "locations": [2, 2], "slices": ["slice-0", "slice-1"]},
        {"db": "db_ks", "table": "tbl_ks_child", "type": "linked", "key": "id", "parent_table": "tbl_ks"},
        {"db": "db_ks", "table": "tbl_global", "type": "global", "locations": [2, 2], "slices": ["slice-0", "slice-1"]}
    ],
    "users": [
        {"user_name": "u_rw",  "password": "p", "namespace": "verif_policy_ns", "rw_flag": 2, "rw_split": 0},
        {"user_name": "u_rws", "password": "p", "namespace": "verif_policy_ns", "rw_flag": 2, "rw_split": 1},
        {"user_name": "u_ro",  "password": "p", "namespace": "verif_policy_ns", "rw_flag": 1, "rw_split": 0},
        {"user_name": "u_ros", "password": "p", "namespace": "verif_policy_ns", "rw_flag": 1, "rw_split": 1}
    ],
    "default_slice": "slice-0",
    "support_multi_query": true,
    "max_sql_execute_time": 0
}`

// polLedger records every Get on a fake pool.
type polLedger struct {
	failExec bool // Execute records the statement and then fails (used where results would have to be merged)
	mu       sync.Mutex
	gets     []string // role of the pool of every Get, in order
	exec     []string // "role|sql" of every Execute
	events   []string // "get|role" and "exec|role|sql" in order
}

func (l *polLedger) reset() {
	l.mu.Lock()
	l.gets = nil
	l.exec = nil
	l.events = nil
	l.mu.Unlock()
}

// rolesAfterMarker returns the roles of the pools that served the statement under test: every Get and every
// Execute recorded after the last Execute whose text contains marker (the companion read of a multi-statement
// text), or all of them when there is no such Execute.
func (l *polLedger) rolesAfterMarker(marker string) []string {
	l.mu.Lock()
	defer l.mu.Unlock()
	from := 0
	if marker != "" {
		for i, e := range l.events {
			if strings.HasPrefix(e, "exec|") && strings.Contains(e, marker) {
				from = i + 1
			}
		}
	}
	out := []string{}
	for _, e := range l.events[from:] {
		f := strings.SplitN(e, "|", 3)
		out = append(out, f[1])
	}
	return out
}

func (l *polLedger) snapshot() ([]string, []string) {
	l.mu.Lock()
	defer l.mu.Unlock()
	return append([]string(nil), l.gets...), append([]string(nil), l.exec...)
}

type polPool struct {
	role   string // "master" | "replica"
	addr   string
	ledger *polLedger
}

func (p *polPool) Open() error        { return nil }
func (p *polPool) Addr() string       { return p.addr }
func (p *polPool) Datacenter() string { return "" }
func (p *polPool) Close()             {}
func (p *polPool) Get(ctx context.Context) (backend.PooledConnect, error) {
	p.ledger.mu.Lock()
	p.ledger.gets = append(p.ledger.gets, p.role)
	p.ledger.events = append(p.ledger.events, "get|"+p.role)
	p.ledger.mu.Unlock()
	return &polConn{pool: p}, nil
}

// GetCheck is the health checker's entry; it is not a statement reaching a backend.
func (p *polPool) GetCheck(ctx context.Context) (backend.PooledConnect, error) {
	return &polConn{pool: p, check: true}, nil
}
func (p *polPool) Put(pc backend.PooledConnect)         {}
func (p *polPool) SetCapacity(capacity int) (err error) { return nil }
func (p *polPool) SetIdleTimeout(idle time.Duration)    {}
func (p *polPool) StatsJSON() string                    { return "{}" }
func (p *polPool) Capacity() int64                      { return 8 }
func (p *polPool) Available() int64                     { return 8 }
func (p *polPool) Active() int64                        { return 0 }
func (p *polPool) InUse() int64                         { return 0 }
func (p *polPool) MaxCap() int64                        { return 16 }
func (p *polPool) WaitCount() int64                     { return 0 }
func (p *polPool) WaitTime() time.Duration              { return 0 }
func (p *polPool) IdleTimeout() time.Duration           { return time.Hour }
func (p *polPool) IdleClosed() int64                    { return 0 }
func (p *polPool) SetLastChecked()                      {}
func (p *polPool) GetLastChecked() int64                { return time.Now().Unix() }

type polConn struct {
	pool   *polPool
	closed bool
	check  bool // handed to the health checker: what it executes is not a client statement
}

func polEmptyResult() *mysql.Result {
	return &mysql.Result{Resultset: &mysql.Resultset{}}
}

func (c *polConn) Recycle()         {}
func (c *polConn) Reconnect() error { return nil }
func (c *polConn) Close()           { c.closed = true }
func (c *polConn) IsClosed() bool   { return c.closed }
func (c *polConn) UseDB(db string) error {
	return nil
}
func (c *polConn) Execute(sql string, maxRows int) (*mysql.Result, error) {
	if c.check {
		return polEmptyResult(), nil
	}
	c.pool.ledger.mu.Lock()
	c.pool.ledger.exec = append(c.pool.ledger.exec, c.pool.role+"|"+sql)
	c.pool.ledger.events = append(c.pool.ledger.events, "exec|"+c.pool.role+"|"+sql)
	fail := c.pool.ledger.failExec
	c.pool.ledger.mu.Unlock()
	if fail {
		return nil, fmt.Errorf("verif: fake backend refuses to execute")
	}
	return polEmptyResult(), nil
}
func (c *polConn) ExecuteWithTimeout(sql string, maxRows int, timeout time.Duration) (*mysql.Result, error) {
	return c.Execute(sql, maxRows)
}
func (c *polConn) SetAutoCommit(v uint8) error                 { return nil }
func (c *polConn) Begin() error                                { return nil }
func (c *polConn) Commit() error                               { return nil }
func (c *polConn) Rollback() error                             { return nil }
func (c *polConn) Ping() error                                 { return nil }
func (c *polConn) PingWithTimeout(timeout time.Duration) error { return nil }
func (c *polConn) SetCharset(charset string, collation mysql.CollationID) (bool, error) {
	return false, nil
}
func (c *polConn) FieldList(table string, wildcard string) ([]*mysql.Field, error) { return nil, nil }
func (c *polConn) GetAddr() string                                                 { return c.pool.addr }
func (c *polConn) SetSessionVariables(frontend *mysql.SessionVariables) (bool, error) {
	return false, nil
}
func (c *polConn) SyncSessionVariables(frontend *mysql.SessionVariables) error { return nil }
func (c *polConn) WriteSetStatement() error                                    { return nil }
func (c *polConn) GetConnectionID() int64                                      { return 1 }
func (c *polConn) GetReturnTime() time.Time                                    { return time.Now() }
func (c *polConn) MoreRowsExist() bool                                         { return false }
func (c *polConn) MoreResultsExist() bool                                      { return false }
func (c *polConn) FetchMoreRows(result *mysql.Result, maxRows int) error       { return nil }
func (c *polConn) ReadMoreResult(maxRows int) (*mysql.Result, error)           { return nil, nil }

// polNetConn is the client side socket of the fake session: writes are swallowed.
type polNetConn struct{}

func (polNetConn) Read(b []byte) (int, error)         { return 0, io.EOF }
func (polNetConn) Write(b []byte) (int, error)        { return len(b), nil }
func (polNetConn) Close() error                       { return nil }
func (polNetConn) LocalAddr() net.Addr                { return &net.TCPAddr{IP: net.IPv4(127, 0, 0, 1), Port: 13306} }
func (polNetConn) RemoteAddr() net.Addr               { return &net.TCPAddr{IP: net.IPv4(127, 0, 0, 1), Port: 40000} }
func (polNetConn) SetDeadline(t time.Time) error      { return nil }
func (polNetConn) SetReadDeadline(t time.Time) error  { return nil }
func (polNetConn) SetWriteDeadline(t time.Time) error { return nil }

type polFixture struct {
	blackSQL []string
	manager  *Manager
	ns       *Namespace
	ledger   *polLedger
	server   *Server
	logdir   string
}

// polInstallFakes replaces every node pool of the namespace by a recording fake.
func polInstallFakes(ns *Namespace, led *polLedger) error {
	for name, sl := range ns.slices {
		for _, dbi := range []*backend.DBInfo{sl.Master, sl.MonitorMaster} {
			if dbi == nil {
				continue
			}
			for _, n := range dbi.Nodes {
				n.ConnPool = &polPool{role: "master", addr: name + "/master/" + n.Address, ledger: led}
			}
		}
		for _, dbi := range []*backend.DBInfo{sl.Slave, sl.StatisticSlave, sl.MonitorSlave} {
			if dbi == nil {
				continue
			}
			for _, n := range dbi.Nodes {
				n.ConnPool = &polPool{role: "replica", addr: name + "/replica/" + n.Address, ledger: led}
			}
		}
		if sl.Slave == nil || len(sl.Slave.Nodes) == 0 || sl.Master == nil || len(sl.Master.Nodes) == 0 {
			return fmt.Errorf("fixture: slice %s has no master or no replica node", name)
		}
	}
	return nil
}

// polNsConfig returns the namespace configuration; flipRW gives every user the opposite rw_flag
// (the configuration "before the reload" of descriptors with priv = "reloaded").
func polNsConfig(blackSQL []string, flipRW bool) (*models.Namespace, error) {
	nsc := &models.Namespace{}
	if err := json.Unmarshal([]byte(polNsCfg), nsc); err != nil {
		return nil, err
	}
	nsc.BlackSQL = blackSQL
	if flipRW {
		for _, u := range nsc.Users {
			if u.RWFlag == models.ReadOnly {
				u.RWFlag = models.ReadWrite
			} else {
				u.RWFlag = models.ReadOnly
			}
		}
	}
	return nsc, nil
}

func polNewFixture(blackSQL []string) (*polFixture, error) {
	return polNewFixtureCfg(blackSQL, false)
}

func polNewFixtureCfg(blackSQL []string, flipRW bool) (*polFixture, error) {
	logdir, err := os.MkdirTemp("", "verif-policy-logs-")
	if err != nil {
		return nil, err
	}
	proxy := &models.Proxy{
		ConfigType: "file", Service: "gaea_proxy", Cluster: "gaea", Environ: "local",
		LogPath: logdir, LogLevel: "fatal", LogFileName: "gaea", LogOutput: "file",
		StatsEnabled: "true", EncryptKey: "1234abcd5678efg*", ServerIdc: "c3",
		SlowSQLTime: 100000, SessionTimeout: 3600,
	}
	nsc, err := polNsConfig(blackSQL, flipRW)
	if err != nil {
		return nil, err
	}
	m := NewManager()
	sm, err := CreateStatisticManager(proxy, m)
	if err != nil {
		return nil, err
	}
	m.statistics = sm
	ns, err := NewNamespace(nsc, "c3")
	if err != nil {
		return nil, err
	}
	// no ns.Init(): no health-check goroutines against the fake pools
	led := &polLedger{}
	if err := polInstallFakes(ns, led); err != nil {
		return nil, err
	}
	current, _, _ := m.switchIndex.Get()
	nm := NewNamespaceManager()
	nm.namespaces[ns.name] = ns
	nm.serverIDC = "c3"
	m.namespaces[current] = nm
	um, err := CreateUserManager(map[string]*models.Namespace{nsc.Name: nsc})
	if err != nil {
		return nil, err
	}
	m.users[current] = um
	srv := &Server{manager: m, ServerVersion: "5.7.25-gaea", ServerVersionCompareStatus: util.NewVersionCompareStatus("5.7.25-gaea")}
	return &polFixture{manager: m, ns: ns, ledger: led, server: srv, logdir: logdir, blackSQL: blackSQL}, nil
}

// reload performs a real namespace reload (Manager.ReloadNamespacePrepare / ReloadNamespaceCommit) to the
// configuration with the users' final flags; the prepared namespace gets the recording fake pools before it
// is committed.
func (f *polFixture) reload() error {
	nsc, err := polNsConfig(f.blackSQL, false)
	if err != nil {
		return err
	}
	if err := f.manager.ReloadNamespacePrepare(nsc); err != nil {
		return err
	}
	_, other, _ := f.manager.switchIndex.Get()
	prepared := f.manager.namespaces[other].GetNamespace(nsc.Name)
	if prepared == nil {
		return fmt.Errorf("fixture: prepared namespace missing")
	}
	if err := polInstallFakes(prepared, f.ledger); err != nil {
		return err
	}
	if err := f.manager.ReloadNamespaceCommit(nsc.Name); err != nil {
		return err
	}
	f.ns = f.manager.GetNamespace(nsc.Name)
	if f.ns != prepared {
		return fmt.Errorf("fixture: the committed namespace is not the prepared one")
	}
	return nil
}

func (f *polFixture) close() {
	if f.logdir != "" {
		os.RemoveAll(f.logdir)
	}
}

// newSession builds what Session.handshake builds, without the network.
func (f *polFixture) newSession(user, db string) *SessionExecutor {
	cc := new(Session)
	cc.c = NewClientConn(mysql.NewConn(polNetConn{}), f.manager)
	cc.c.capability = DefaultCapability
	cc.c.proxy = f.server
	cc.c.namespace = polNsName
	cc.proxy = f.server
	cc.manager = f.manager
	cc.namespace = polNsName
	cc.closed.Store(false)
	se := newSessionExecutor(f.manager)
	se.clientAddr = "127.0.0.1:40000"
	se.session = cc
	cc.executor = se
	se.user = user
	se.SetCollationID(mysql.CollationID(33))
	se.SetCharset("utf8")
	se.SetDatabase(db)
	se.namespace = polNsName
	se.SetContextNamespace()
	// Server.onConn, after the handshake
	ns := cc.getNamespace()
	se.keepSession = ns.setForKeepSession
	if up := ns.userProperties[user]; up != nil {
		se.userPriv = up.RWFlag
		se.userType = up.OtherProperty
	}
	return se
}

// polCommand does what Session.Run does around one client command: refresh the namespace of the session,
// drop keep-session connections of a changed namespace, dispatch (execCommand), and mark the read packet as
// recycled (the harness has no packet buffer).
func polCommand(se *SessionExecutor, cmd byte, data []byte) Response {
	cc := se.session
	se.nsChangeIndexOld = se.GetNamespace().namespaceChangeIndex
	se.SetContextNamespace()
	cc.clearKsConns(se.nsChangeIndexOld)
	cc.c.hasRecycledReadPacket.Set(true)
	return cc.execCommand(cmd, data)
}

// ------------------------------------------------------------------------------------------------
// C21 / C22: statement descriptors
// ------------------------------------------------------------------------------------------------

type polCase struct {
	P       string `json:"p"`
	Kind    string `json:"kind"`
	Lead    string `json:"lead"`
	Kwsep   string `json:"kwsep"`
	Cs      string `json:"cs"`
	Trail   string `json:"trail"`
	Lock    string `json:"lock"`
	Lockopt string `json:"lockopt"`
	Hint    string `json:"hint"`
	Probe   string `json:"probe"`
	Chan    string `json:"chan"`
	Intx    string `json:"intx"`
	Ro      bool   `json:"ro"`
	Split   bool   `json:"split"`
	Csl     bool   `json:"csl"`
	Sess    string `json:"sess"`          // plain | after_read | ks | ks_after_read   (keep-session namespace; a plain read earlier in the session)
	Priv    string `json:"priv"`          // static | reloaded  (the user's rw_flag was the opposite when the session connected)
	Expect  string `json:"expect"`        // reject | master | any   (from TLC)
	SQL     string `json:"sql,omitempty"` // filled by the harness (observation), ignored on input
}

type polObs struct {
	Case  polCase  `json:"case"`
	SQL   string   `json:"sql"`
	Err   string   `json:"err,omitempty"`
	Gets  []string `json:"gets"` // roles of the pools that served the statement under test (Get or Execute on a kept connection)
	Execs []string `json:"execs,omitempty"`
	Class string   `json:"class"` // reject-violated | master-violated | ok
}

// statement bodies: words in UPPER case are keywords (re-cased by the cs decoration).
var polBodies = map[string]string{
	"select":   "SELECT id, name FROM t1 WHERE id = 1",
	"show":     "SHOW TABLES",
	"insert":   "INSERT INTO t1 (id, name) VALUES (1, 'a')",
	"replace":  "REPLACE INTO t1 (id, name) VALUES (1, 'a')",
	"update":   "UPDATE t1 SET name = 'b' WHERE id = 1",
	"delete":   "DELETE FROM t1 WHERE id = 1",
	"create":   "CREATE TABLE t2 (id INT)",
	"alter":    "ALTER TABLE t1 ADD COLUMN c INT",
	"drop":     "DROP TABLE t1",
	"truncate": "TRUNCATE TABLE t1",
	"rename":   "RENAME TABLE t1 TO t3",
	"load":     "LOAD DATA LOCAL INFILE 'x.csv' INTO TABLE t1",
	"set":      "SET @verif_a = 1",
	"begin":    "BEGIN",
	"use":      "USE db_ks",
}

// bodies whose first keyword is directly followed by a back-quote or by punctuation
var polGluedBodies = map[string]string{
	"glued_bq/select":    "SELECT`id`, name FROM t1 WHERE id = 1",
	"glued_bq/update":    "UPDATE`t1` SET name = 'b' WHERE id = 1",
	"glued_bq/insert":    "INSERT`t1` (id, name) VALUES (1, 'a')",
	"glued_bq/replace":   "REPLACE`t1` (id, name) VALUES (1, 'a')",
	"glued_bq/truncate":  "TRUNCATE`t1`",
	"glued_punct/select": "SELECT*FROM t1 WHERE id = 1",
}

var polPreparedBodies = map[string]string{
	"select":  "SELECT id, name FROM t1 WHERE id = ?",
	"insert":  "INSERT INTO t1 (id, name) VALUES (?, 'a')",
	"replace": "REPLACE INTO t1 (id, name) VALUES (?, 'a')",
	"update":  "UPDATE t1 SET name = 'b' WHERE id = ?",
	"delete":  "DELETE FROM t1 WHERE id = ?",
}

func polRecase(s, cs string) string {
	// keywords are the all-upper-case words of the template
	var b strings.Builder
	i := 0
	inQuote := false
	for i < len(s) {
		ch := s[i]
		if ch == '\'' {
			inQuote = !inQuote
		}
		if !inQuote && ch >= 'A' && ch <= 'Z' && (i == 0 || (s[i-1] != '@' && s[i-1] != '.')) {
			j := i
			for j < len(s) && ((s[j] >= 'A' && s[j] <= 'Z') || s[j] == '_') {
				j++
			}
			w := s[i:j]
			switch cs {
			case "lower":
				w = strings.ToLower(w)
			case "mixed":
				r := []byte(strings.ToLower(w))
				for k := 0; k < len(r); k += 2 {
					if r[k] >= 'a' && r[k] <= 'z' {
						r[k] -= 32
					}
				}
				w = string(r)
			}
			b.WriteString(w)
			i = j
			continue
		}
		b.WriteByte(ch)
		i++
	}
	return b.String()
}

// polRender renders a descriptor to SQL text; nparams is the number of '?' markers (prepared channel).
func polRender(c *polCase) (sql string, nparams int, err error) {
	body, ok := polBodies[c.Kind]
	if !ok {
		return "", 0, fmt.Errorf("unknown kind %q", c.Kind)
	}
	switch c.Probe {
	case "", "none":
	case "var":
		body = "SELECT @@read_only"
	case "gvar":
		body = "SELECT @@global.read_only"
	case "var_upper":
		body = "SELECT @@READ_ONLY"
	case "mixvar":
		body = "SELECT 'a', @@read_only, 'b'"
	case "show":
		body = "SHOW VARIABLES LIKE 'read_only'"
	case "show_upper":
		body = "SHOW VARIABLES LIKE 'READ_ONLY'"
	case "gshow":
		body = "SHOW GLOBAL VARIABLES LIKE 'read_only'"
	default:
		return "", 0, fmt.Errorf("unknown probe %q", c.Probe)
	}
	if c.Chan == "prepared" && (c.Probe == "" || c.Probe == "none") {
		if pb, ok := polPreparedBodies[c.Kind]; ok {
			body = pb
			nparams = 1
		}
	}
	switch c.Lock {
	case "", "none":
	case "for_update":
		body += " FOR UPDATE"
	case "for_share":
		body += " FOR SHARE"
	case "lock_in_share_mode":
		body += " LOCK IN SHARE MODE"
	default:
		return "", 0, fmt.Errorf("unknown lock %q", c.Lock)
	}
	switch c.Lockopt {
	case "", "none":
	case "nowait":
		body += " NOWAIT"
	case "skip_locked":
		body += " SKIP LOCKED"
	case "of":
		body += " OF t1"
	case "of_nowait":
		body += " OF t1 NOWAIT"
	default:
		return "", 0, fmt.Errorf("unknown lockopt %q", c.Lockopt)
	}
	hint := "/*master*/"
	if c.Cs == "upper" {
		hint = "/*MASTER*/"
	} else if c.Cs == "mixed" {
		hint = "/*Master*/"
	}
	// separator after the first keyword
	sp := strings.IndexByte(body, ' ')
	first, rest := body, ""
	if sp > 0 {
		first, rest = body[:sp], body[sp+1:]
	}
	sep := " "
	switch c.Kwsep {
	case "", "space":
	case "tab":
		sep = "\t"
	case "newline":
		sep = "\n"
	case "comment":
		sep = "/**/"
	case "spcomment":
		sep = " /* c */ "
	case "glued_bq", "glued_punct":
		// nothing between the keyword and what follows: a back-quoted identifier / punctuation
		g, ok := polGluedBodies[c.Kwsep+"/"+c.Kind]
		if !ok {
			return "", 0, fmt.Errorf("kwsep %s not defined for kind %s", c.Kwsep, c.Kind)
		}
		if c.Chan == "prepared" {
			g = strings.Replace(g, "id = 1", "id = ?", 1)
			g = strings.Replace(g, "VALUES (1,", "VALUES (?,", 1)
		}
		tail := strings.TrimPrefix(body, polBodies[c.Kind])
		if pb, ok := polPreparedBodies[c.Kind]; ok && c.Chan == "prepared" {
			tail = strings.TrimPrefix(body, pb)
		}
		sp2 := strings.IndexAny(g, "`*(")
		first, rest, sep = g[:sp2], g[sp2:]+tail, ""
	default:
		return "", 0, fmt.Errorf("unknown kwsep %q", c.Kwsep)
	}
	if c.Hint == "afterkw" {
		if rest == "" {
			return "", 0, fmt.Errorf("hint afterkw on a one-word statement")
		}
		rest = hint + " " + rest
	}
	if rest != "" {
		body = first + sep + rest
	} else {
		body = first
	}
	body = polRecase(body, c.Cs)
	if c.Hint == "lead" {
		body = hint + " " + body
	} else if c.Hint == "lead_glued" {
		body = hint + body
	} else if c.Hint == "tail" {
		body = body + " " + hint
	} else if c.Hint != "" && c.Hint != "none" && c.Hint != "afterkw" {
		return "", 0, fmt.Errorf("unknown hint %q", c.Hint)
	}
	switch c.Lead {
	case "", "none":
	case "space":
		body = "  " + body
	case "tab":
		body = "\t" + body
	case "newline":
		body = "\n" + body
	case "comment":
		body = "/* c */ " + body
	case "comment_glued":
		body = "/*c*/" + body
	case "dash":
		body = "-- c\n" + body
	case "version_wrap":
		body = "/*!40000 " + body + " */"
	case "paren":
		body = "(" + body + ")"
	case "ws_300":
		body = strings.Repeat(" ", 300) + body
	case "pad_250", "pad_255", "pad_256", "pad_257", "pad_4096":
		// a leading comment so long that the first keyword starts at byte N
		var n int
		fmt.Sscanf(c.Lead, "pad_%d", &n)
		body = "/*" + strings.Repeat("x", n-5) + "*/ " + body
	default:
		return "", 0, fmt.Errorf("unknown lead %q", c.Lead)
	}
	switch c.Trail {
	case "", "none":
	case "semicolon":
		body += ";"
	case "space":
		body += "  "
	case "newline":
		body += "\n"
	case "comment":
		body += " /* c */"
	case "comment_glued":
		body += "/*c*/"
	case "trace":
		body += " /* traceparent=00-0af7651916cd43dd8448eb211c80319c-b7ad6b7169203331-01, app=svc */"
	case "dash":
		body += " -- c"
	case "hash":
		body += " # c"
	default:
		return "", 0, fmt.Errorf("unknown trail %q", c.Trail)
	}
	return body, nparams, nil
}

func polUser(c *polCase) string {
	switch {
	case c.Ro && c.Split:
		return "u_ros"
	case c.Ro:
		return "u_ro"
	case c.Split:
		return "u_rws"
	}
	return "u_rw"
}

func polRespErr(r Response) string {
	if r.RespType == RespError {
		if e, ok := r.Data.(error); ok && e != nil {
			return e.Error()
		}
		return fmt.Sprint(r.Data)
	}
	return ""
}

// the plain read that precedes the statement under test (same COM_QUERY, or an earlier command of the session);
// polMarker identifies it in the ledger
const polMarker = "424242"
const polCompanionRead = "select id from t1 where id = " + polMarker

// polExec sends one statement through the channel the descriptor names and returns the error text (if any).
func polExec(f *polFixture, se *SessionExecutor, c *polCase, sql string, nparams int) (errText string) {
	query := func(q string) string {
		return polRespErr(polCommand(se, mysql.ComQuery, []byte(q)))
	}
	switch c.Chan {
	case "", "query":
		return query(sql)
	case "multi_first":
		return query(sql + polPieceEnd(c) + "; set @verif_b = 2")
	case "multi_last":
		return query("set @verif_b = 2; " + sql)
	case "multi_mid":
		return query("set @verif_b = 2; " + sql + polPieceEnd(c) + "; set @verif_c = 3")
	case "multi_after_read":
		// a plain read precedes the statement under test in the same COM_QUERY
		return query(polCompanionRead + "; " + sql)
	case "prepared":
		r := polCommand(se, mysql.ComStmtPrepare, []byte(sql))
		if e := polRespErr(r); e != "" {
			return "prepare: " + e
		}
		st, ok := r.Data.(*Stmt)
		if !ok || st == nil {
			return "prepare: no statement returned"
		}
		data := make([]byte, 9)
		binary.LittleEndian.PutUint32(data[0:4], st.id)
		data[4] = 0
		binary.LittleEndian.PutUint32(data[5:9], 1)
		if st.paramCount > 0 {
			nb := (st.paramCount + 7) >> 3
			data = append(data, make([]byte, nb)...)
			data = append(data, 1)
			for i := 0; i < st.paramCount; i++ {
				data = append(data, byte(mysql.TypeLong), 0)
			}
			for i := 0; i < st.paramCount; i++ {
				v := make([]byte, 4)
				binary.LittleEndian.PutUint32(v, uint32(1+i))
				data = append(data, v...)
			}
		}
		return polRespErr(polCommand(se, mysql.ComStmtExecute, data))
	}
	return "harness: unknown channel " + c.Chan
}

// polPieceEnd ends a trailing line comment so that the next piece of a multi-statement text is not part of it.
func polPieceEnd(c *polCase) string {
	if c.Trail == "dash" || c.Trail == "hash" {
		return "\n"
	}
	return ""
}

// polConnect opens the session of a case (what the handshake and Server.onConn do).
func polConnect(f *polFixture, c *polCase) *SessionExecutor {
	f.ns.setForKeepSession = c.Sess == "ks" || c.Sess == "ks_after_read"
	return f.newSession(polUser(c), "db_ks")
}

func polRunCase(f *polFixture, c *polCase, se *SessionExecutor) (*polObs, error) {
	sql, np, err := polRender(c)
	if err != nil {
		return nil, err
	}
	f.ns.CheckSelectLock = c.Csl
	if se == nil {
		se = polConnect(f, c)
	}
	switch c.Sess {
	case "", "plain", "ks":
	case "after_read", "ks_after_read":
		if e := polRespErr(polCommand(se, mysql.ComQuery, []byte(polCompanionRead))); e != "" {
			return nil, fmt.Errorf("earlier read failed: %s", e)
		}
	default:
		return nil, fmt.Errorf("unknown sess %q", c.Sess)
	}
	switch c.Intx {
	case "", "no":
	case "begin":
		if e := polRespErr(polCommand(se, mysql.ComQuery, []byte("begin"))); e != "" {
			return nil, fmt.Errorf("begin failed: %s", e)
		}
	case "ac0":
		if e := polRespErr(polCommand(se, mysql.ComQuery, []byte("set autocommit=0"))); e != "" {
			return nil, fmt.Errorf("set autocommit=0 failed: %s", e)
		}
	default:
		return nil, fmt.Errorf("unknown intx %q", c.Intx)
	}
	f.ledger.reset()
	o := &polObs{Case: *c, SQL: sql}
	pan, msg, _ := verifkit.Catch(func() { o.Err = polExec(f, se, c, sql, np) })
	if pan {
		o.Err = "panic: " + msg
	}
	_, o.Execs = f.ledger.snapshot()
	marker := ""
	if c.Chan == "multi_after_read" {
		marker = polMarker
	}
	o.Gets = f.ledger.rolesAfterMarker(marker)
	if len(o.Execs) > 6 {
		o.Execs = o.Execs[:6]
	}
	o.Class = "ok"
	switch c.Expect {
	case "reject":
		if len(o.Gets) > 0 {
			o.Class = "reject-violated"
		}
	case "master":
		for _, g := range o.Gets {
			if g != "master" {
				o.Class = "master-violated"
			}
		}
	case "any":
	default:
		return nil, fmt.Errorf("unknown expectation %q", c.Expect)
	}
	return o, nil
}

func TestVerifStmtPolicy(t *testing.T) {
	out, err := verifkit.OpenOut()
	if err != nil {
		t.Fatal(err)
	}
	var cases []polCase
	nreload := 0
	if _, err := verifkit.EachCase(func(i int, raw json.RawMessage) error {
		var c polCase
		if err := json.Unmarshal(raw, &c); err != nil {
			return err
		}
		if c.Priv == "reloaded" {
			nreload++
		}
		cases = append(cases, c)
		return nil
	}); err != nil {
		t.Fatal(err)
	}
	// Descriptors with priv = "reloaded": the session connects while every user has the opposite rw_flag,
	// then the namespace is really reloaded (Manager.ReloadNamespacePrepare/Commit) to the final user flags.
	f, err := polNewFixtureCfg(nil, nreload > 0)
	if err != nil {
		t.Fatal(err)
	}
	defer f.close()
	early := map[int]*SessionExecutor{}
	if nreload > 0 {
		for i := range cases {
			if cases[i].Priv == "reloaded" {
				early[i] = polConnect(f, &cases[i])
			}
		}
		if err := f.reload(); err != nil {
			t.Fatal(err)
		}
	}
	all := os.Getenv("VERIF_POLICY_ALL") == "1"
	counts := map[string]int{}
	n := 0
	for i := range cases {
		c := cases[i]
		o, err := polRunCase(f, &c, early[i])
		if err != nil {
			t.Fatalf("case %d: %v", i, err)
		}
		n++
		role := "none"
		for _, g := range o.Gets {
			if role == "none" || role == g {
				role = g
			} else {
				role = "both"
			}
		}
		outcome := role
		if o.Err != "" && len(o.Gets) == 0 {
			outcome = "error"
		}
		counts[c.Expect+"/"+outcome]++
		if !c.Ro {
			counts["ctl/"+c.Kind+"/"+outcome]++
		}
		res := &verifkit.Result{Case: i, Obs: o}
		switch o.Class {
		case "reject-violated":
			res.Dev(c.P+" not-rejected", "read-only user statement reached a backend (%v): %q err=%q", o.Gets, o.SQL, o.Err)
		case "master-violated":
			res.Dev(c.P+" on-replica", "statement that must run on the master was served by %v: %q", o.Gets, o.SQL)
		}
		if len(res.Devs) > 0 || all {
			out.Write(res)
		}
	}
	extra := map[string]interface{}{}
	for k, v := range counts {
		extra["n:"+k] = v
	}
	out.Close(n, extra)
}

// ------------------------------------------------------------------------------------------------
// C06: token pre-check versus parser based analysis
// ------------------------------------------------------------------------------------------------

type unRef struct {
	Cls   string `json:"cls"`
	Cs    string `json:"cs"`
	Qual  string `json:"qual"`
	Bq    bool   `json:"bq"`
	Glue  string `json:"glue"`
	Pos   string `json:"pos"`
	Alias bool   `json:"alias"`
}

type unCase struct {
	Kind    string  `json:"kind"`
	Dbset   bool    `json:"dbset,omitempty"` // cases recorded before the session database became three-valued
	Sdb     string  `json:"sdb"`             // rule | other | none
	Refs    []unRef `json:"refs"`
	Sharded bool    `json:"sharded"` // ParserSaysSharded(d), from TLC
}

type unObs struct {
	Case          unCase   `json:"case"`
	SQL           string   `json:"sql"`
	ParseErr      string   `json:"parse_err,omitempty"`
	ParserSharded bool     `json:"parser_sharded"`
	DbInvalid     bool     `json:"db_invalid,omitempty"`
	Plan          string   `json:"plan"`
	Fast          bool     `json:"fast"`
	Forwarded     bool     `json:"forwarded_unrewritten"`
	Execs         []string `json:"execs,omitempty"`
}

func unName(r *unRef, nplain *int) string {
	var name string
	switch r.Cls {
	case "sharded":
		name = "tbl_ks"
	case "linked":
		name = "tbl_ks_child"
	case "global":
		name = "tbl_global"
	default:
		*nplain++
		name = fmt.Sprintf("t%d", *nplain)
	}
	switch r.Cs {
	case "upper":
		name = strings.ToUpper(name)
	case "mixed":
		b := []byte(name)
		for i := 0; i < len(b); i += 2 {
			if b[i] >= 'a' && b[i] <= 'z' {
				b[i] -= 32
			}
		}
		name = string(b)
	}
	q := func(x string) string {
		if r.Bq {
			return "`" + x + "`"
		}
		return x
	}
	switch r.Qual {
	case "db":
		return q("db_ks") + "." + q(name)
	case "other":
		return q("db_other") + "." + q(name)
	}
	return q(name)
}

// unAttach renders "<keyword-or-comma><gap><name>[ alias]<gap after>" for one reference.
// before is the text that precedes the name (e.g. "from", "join", ","), after is what follows ("" at the end).
func unAttach(before string, r *unRef, name, alias, after string) (string, error) {
	pre := " "
	post := " "
	switch r.Glue {
	case "", "none":
	case "cmt_before":
		pre = "/**/"
	case "spcmt_before":
		pre = " /* c */ "
	case "nl_before":
		pre = "\n"
	case "tab_before":
		pre = "\t"
	case "cmt_after":
		post = "/**/ "
	case "nl_after":
		post = "\n"
	case "paren_after":
		post = ""
	default:
		return "", fmt.Errorf("unknown glue %q", r.Glue)
	}
	s := before + pre + name
	if r.Alias && alias != "" {
		s += " " + alias
		post = " "
	}
	if after == "" {
		if r.Glue == "cmt_after" {
			return s + "/**/", nil
		}
		return s, nil
	}
	return s + post + after, nil
}

func unRender(c *unCase) (string, error) {
	if len(c.Refs) == 0 {
		return "", fmt.Errorf("no table reference")
	}
	nplain := 0
	names := make([]string, len(c.Refs))
	for i := range c.Refs {
		names[i] = unName(&c.Refs[i], &nplain)
	}
	alias := func(i int) string { return fmt.Sprintf("x%d", i+1) }
	var fromItems, subqs, unions []int
	for i := 1; i < len(c.Refs); i++ {
		switch c.Refs[i].Pos {
		case "comma", "join":
			fromItems = append(fromItems, i)
		case "subq":
			subqs = append(subqs, i)
		case "from2":
			unions = append(unions, i)
		default:
			return "", fmt.Errorf("ref %d: position %q", i, c.Refs[i].Pos)
		}
	}
	// table list: first reference introduced by `intro`, further ones by "," or "join"
	tableList := func(intro string, end string) (string, error) {
		out := ""
		prev := intro
		idx := append([]int{0}, fromItems...)
		for n, i := range idx {
			r := &c.Refs[i]
			last := n == len(idx)-1
			next := end
			if !last {
				if c.Refs[idx[n+1]].Pos == "join" {
					next = "join"
				} else {
					next = ","
				}
			}
			if r.Pos == "join" {
				// join needs its ON condition before whatever follows
				seg, err := unAttach(prev, r, names[i], alias(i), "on 1 = 1")
				if err != nil {
					return "", err
				}
				out += seg
				if next == "," {
					prev = ","
				} else if next == "" {
					prev = ""
				} else {
					prev = " " + next
				}
				if last && end != "" {
					out += " " + end
				}
				continue
			}
			if next == "," {
				// "a, b": the comma is glued to the preceding name, the gap follows it
				seg, err := unAttach(prev, r, names[i], alias(i), "")
				if err != nil {
					return "", err
				}
				out += seg
				prev = ","
				continue
			}
			seg, err := unAttach(prev, r, names[i], alias(i), next)
			if err != nil {
				return "", err
			}
			out += seg
			if next == "join" {
				out = strings.TrimSuffix(out, "join")
				prev = "join"
			} else {
				prev = ""
			}
		}
		return out, nil
	}
	tail := ""
	for _, i := range subqs {
		seg, err := unAttach(" and id in (select id from", &c.Refs[i], names[i], alias(i), "")
		if err != nil {
			return "", err
		}
		tail += seg + ")"
	}
	for _, i := range unions {
		seg, err := unAttach(" union select * from", &c.Refs[i], names[i], alias(i), "")
		if err != nil {
			return "", err
		}
		tail += seg
	}
	switch c.Kind {
	case "select":
		tl, err := tableList("select * from", "where 1 = 1")
		if err != nil {
			return "", err
		}
		return tl + tail, nil
	case "delete":
		if len(fromItems) > 0 {
			c.Refs[0].Alias = true
			tl, err := tableList("delete x1 from", "where 1 = 1")
			if err != nil {
				return "", err
			}
			return tl + tail, nil
		}
		tl, err := tableList("delete from", "where id = 1")
		if err != nil {
			return "", err
		}
		return tl + tail, nil
	case "update":
		tl, err := tableList("update", "set c_a = 'x' where 1 = 1")
		if err != nil {
			return "", err
		}
		return tl + tail, nil
	case "insert", "replace":
		if len(fromItems) > 0 || len(subqs) > 0 {
			return "", fmt.Errorf("%s takes only from2 references", c.Kind)
		}
		if len(unions) > 0 {
			seg, err := unAttach(c.Kind+" into", &c.Refs[0], names[0], "", "(id, name)")
			if err != nil {
				return "", err
			}
			i := unions[0]
			sel, err := unAttach(" select id, name from", &c.Refs[i], names[i], alias(i), "")
			if err != nil {
				return "", err
			}
			rest := ""
			for _, j := range unions[1:] {
				s2, err := unAttach(" union select id, name from", &c.Refs[j], names[j], alias(j), "")
				if err != nil {
					return "", err
				}
				rest += s2
			}
			return seg + sel + rest, nil
		}
		return unAttach(c.Kind+" into", &c.Refs[0], names[0], "", "(id, name) values (1, 'a')")
	}
	return "", fmt.Errorf("unknown kind %q", c.Kind)
}

func unRunCase(f *polFixture, c *unCase) (*unObs, error) {
	sql, err := unRender(c)
	if err != nil {
		return nil, err
	}
	db := ""
	switch c.Sdb {
	case "rule":
		db = "db_ks"
	case "other":
		db = "db_other"
	case "none":
	case "":
		if c.Dbset {
			db = "db_ks"
		}
	default:
		return nil, fmt.Errorf("unknown session database %q", c.Sdb)
	}
	o := &unObs{Case: *c, SQL: sql}
	se := f.newSession("u_rw", db)
	ns := se.GetNamespace()
	// reference: the parser based analysis (plan.Checker as used by plan.BuildPlan)
	stmt, perr := se.Parse(sql)
	if perr != nil {
		o.ParseErr = perr.Error()
	} else {
		ck := plan.NewChecker(db, ns.GetRouter())
		stmt.Accept(ck)
		o.ParserSharded = ck.IsShard()
		o.DbInvalid = ck.IsDatabaseInvalid()
		pan, msg, _ := verifkit.Catch(func() {
			p, err := plan.BuildPlan(stmt, ns.GetPhysicalDBs(), db, sql, ns.GetRouter(), ns.GetSequences(), nil)
			if err != nil {
				o.Plan = "error: " + err.Error()
			} else {
				o.Plan = fmt.Sprintf("%T", p)
			}
		})
		if pan {
			o.Plan = "panic: " + msg
		}
	}
	// the pre-check as doQuery/getPlan calls it
	reqCtx := util.NewRequestContext()
	reqCtx.SetStmtType(parser.Preview(sql))
	pan, msg, _ := verifkit.Catch(func() { _, o.Fast = se.preBuildUnshardPlan(reqCtx, db, sql) })
	if pan {
		return nil, fmt.Errorf("preBuildUnshardPlan panicked: %s", msg)
	}
	// end to end: is the original text forwarded unrewritten?
	f.ledger.reset()
	f.ledger.failExec = true
	se2 := f.newSession("u_rw", db)
	se2.session.c.hasRecycledReadPacket.Set(true)
	verifkit.Catch(func() { se2.ExecuteCommand(mysql.ComQuery, []byte(sql)) })
	f.ledger.failExec = false
	_, execs := f.ledger.snapshot()
	for _, e := range execs {
		if i := strings.IndexByte(e, '|'); i >= 0 && e[i+1:] == sql {
			o.Forwarded = true
		}
	}
	if len(execs) > 4 {
		execs = execs[:4]
	}
	o.Execs = execs
	return o, nil
}

func TestVerifUnshardPrecheck(t *testing.T) {
	out, err := verifkit.OpenOut()
	if err != nil {
		t.Fatal(err)
	}
	f, err := polNewFixture(nil)
	if err != nil {
		t.Fatal(err)
	}
	defer f.close()
	all := os.Getenv("VERIF_POLICY_ALL") == "1"
	counts := map[string]int{}
	n, err := verifkit.EachCase(func(i int, raw json.RawMessage) error {
		var c unCase
		if err := json.Unmarshal(raw, &c); err != nil {
			return err
		}
		o, err := unRunCase(f, &c)
		if err != nil {
			return fmt.Errorf("case %d: %v", i, err)
		}
		res := &verifkit.Result{Case: i, Obs: o}
		switch {
		case o.ParseErr != "":
			counts["unparsable"]++
			res.Dev("C06 harness unparsable", "rendered text does not parse: %q: %s", o.SQL, o.ParseErr)
		case o.ParserSharded != c.Sharded:
			counts["model-mismatch"]++
			res.Dev("C06 model-mismatch", "specification says sharded=%v, plan.Checker says %v for %q", c.Sharded, o.ParserSharded, o.SQL)
		case c.Sharded && (o.Fast || o.Forwarded):
			counts["sharded/fast"]++
			res.Dev("C06 fast-path", "parser based analysis: sharded (%s); pre-check: fast=%v forwarded-unrewritten=%v: %q", o.Plan, o.Fast, o.Forwarded, o.SQL)
		case c.Sharded:
			counts["sharded/full"]++
		case o.Fast:
			counts["unsharded/fast"]++
		default:
			counts["unsharded/full"]++
		}
		if o.Fast != o.Forwarded {
			counts["fast!=forwarded"]++
		}
		if len(res.Devs) > 0 || all {
			out.Write(res)
		}
		return nil
	})
	if err != nil {
		t.Fatal(err)
	}
	extra := map[string]interface{}{}
	for k, v := range counts {
		extra["n:"+k] = v
	}
	out.Close(n, extra)
}

// ------------------------------------------------------------------------------------------------
// C36: SQL blacklist
// ------------------------------------------------------------------------------------------------

type blCase struct {
	T        string     `json:"t"` // "blacklist" | "case"
	Stmts    [][]string `json:"stmts,omitempty"`
	Base     int        `json:"base"`
	Mutant   string     `json:"mutant"`
	Stmt     string     `json:"stmt"`
	Cs       string     `json:"cs"`
	Gap      string     `json:"gap"`
	Lit      int        `json:"lit"`
	Cm       string     `json:"cm"`
	Cmpos    int        `json:"cmpos"`
	Poscls   string     `json:"poscls"`
	Items    []string   `json:"items"`
	Rejected bool       `json:"rejected"` // Rejected(text, Blacklist), from TLC
}

type blObs struct {
	Case        blCase `json:"case"`
	SQL         string `json:"sql"`
	Rejected    bool   `json:"rejected"`     // checkSQLAllowed returned the blacklist error
	RejectedE2E bool   `json:"rejected_e2e"` // ExecuteCommand answered with the blacklist error and took no connection
	Fingerprint string `json:"fingerprint"`
	Err         string `json:"err,omitempty"`
}

func TestVerifBlacklist(t *testing.T) {
	out, err := verifkit.OpenOut()
	if err != nil {
		t.Fatal(err)
	}
	var f *polFixture
	defer func() {
		if f != nil {
			f.close()
		}
	}()
	all := os.Getenv("VERIF_POLICY_ALL") == "1"
	counts := map[string]int{}
	n, err := verifkit.EachCase(func(i int, raw json.RawMessage) error {
		var c blCase
		if err := json.Unmarshal(raw, &c); err != nil {
			return err
		}
		if c.T == "blacklist" {
			if f != nil {
				return fmt.Errorf("case %d: second blacklist", i)
			}
			var bl []string
			for _, items := range c.Stmts {
				bl = append(bl, strings.Join(items, ""))
			}
			f, err = polNewFixture(bl)
			if err != nil {
				return err
			}
			if len(f.ns.sqls) != len(bl) {
				return fmt.Errorf("namespace holds %d blacklist fingerprints for %d statements", len(f.ns.sqls), len(bl))
			}
			return nil
		}
		if f == nil {
			return fmt.Errorf("case %d before the blacklist", i)
		}
		sql := strings.Join(c.Items, "")
		o := &blObs{Case: c, SQL: sql, Fingerprint: mysql.GetFingerprint(sql)}
		o.Case.Items = nil
		se := f.newSession("u_rw", "db_ks")
		reqCtx := util.NewRequestContext()
		pan, msg, _ := verifkit.Catch(func() {
			if e := se.checkSQLAllowed(reqCtx, sql); e != nil {
				o.Err = e.Error()
				o.Rejected = strings.Contains(e.Error(), "sql in blacklist")
			}
		})
		if pan {
			o.Err = "panic: " + msg
		}
		f.ledger.reset()
		f.ledger.failExec = true
		se2 := f.newSession("u_rw", "db_ks")
		se2.session.c.hasRecycledReadPacket.Set(true)
		verifkit.Catch(func() {
			e := polRespErr(se2.ExecuteCommand(mysql.ComQuery, []byte(sql)))
			gets, _ := f.ledger.snapshot()
			o.RejectedE2E = strings.Contains(e, "sql in blacklist") && len(gets) == 0
		})
		f.ledger.failExec = false
		res := &verifkit.Result{Case: i, Obs: o}
		got := o.Rejected || o.RejectedE2E
		both := o.Rejected && o.RejectedE2E
		switch {
		case c.Rejected && !both:
			counts["must-reject/allowed"]++
			res.Dev("C36 not-rejected", "differs from a blacklisted statement only in literals/spacing/case/comments but is allowed (check=%v e2e=%v): %q fingerprint %q", o.Rejected, o.RejectedE2E, sql, o.Fingerprint)
		case !c.Rejected && got:
			counts["must-allow/rejected"]++
			res.Dev("C36 wrongly-rejected", "differs structurally from every blacklisted statement but is rejected: %q fingerprint %q", sql, o.Fingerprint)
		case c.Rejected:
			counts["must-reject/rejected"]++
		default:
			counts["must-allow/allowed"]++
		}
		if len(res.Devs) > 0 || all {
			out.Write(res)
		}
		return nil
	})
	if err != nil {
		t.Fatal(err)
	}
	extra := map[string]interface{}{}
	for k, v := range counts {
		extra["n:"+k] = v
	}
	out.Close(n, extra)
}
