package server

// Conformance harness for property C15 (binding preserves values and cannot change the statement),
// direction V: every case (template, sql_mode, wire-encoded parameter values) is executed on a real
// session - optional "set sql_mode=...", COM_STMT_PREPARE, optional COM_STMT_SEND_LONG_DATA,
// COM_STMT_EXECUTE - and the statement text that reaches the fake backend is written out as hex.
// The judgement (re-lexing the text under the session's sql_mode) is done by TLC with
// spec/SqlLex_trace.tla; this harness judges nothing.

import (
	"encoding/binary"
	"encoding/hex"
	"encoding/json"
	"fmt"
	"testing"

	"github.com/XiaoMi/Gaea/internal/verifkit"
	"github.com/XiaoMi/Gaea/mysql"
)

type c15Val struct {
	T    int    `json:"t"`    // wire type
	U    bool   `json:"u"`    // unsigned flag
	Null bool   `json:"null"` // null bit
	Wire string `json:"wire"` // hex of the value as it travels in the execute packet
	Long string `json:"long"` // hex of the bytes sent with COM_STMT_SEND_LONG_DATA instead (two chunks), "" = inline
	IsLD bool   `json:"is_long"`
	Twin string `json:"twin"` // hex of another value of the same wire type (used by the earlier execution of pre = "ok-reuse")
}

type c15Case struct {
	ID   int      `json:"id"`
	Tpl  string   `json:"tpl"`
	Mode string   `json:"mode"` // "" or a sql_mode to set first
	Pre  string   `json:"pre"`  // "" | "ok" | "failed": an earlier execution of the same statement with other values
	Vals []c15Val `json:"vals"`
}

type c15Obs struct {
	ID     int      `json:"id"`
	Status string   `json:"status"` // executed | refused | prepare-refused | set-refused | count
	Err    string   `json:"err,omitempty"`
	Out    []string `json:"out"` // hex of every statement the backend received for the execute
}

func TestVerifStmtBind(t *testing.T) {
	fix, err := stmtGetFixture()
	if err != nil {
		t.Fatal(err)
	}
	defer fix.cleanup()
	out, err := verifkit.OpenOut()
	if err != nil {
		t.Fatal(err)
	}
	stats := map[string]int{}
	n, err := verifkit.EachCase(func(ci int, raw json.RawMessage) error {
		var c c15Case
		if err := json.Unmarshal(raw, &c); err != nil {
			return err
		}
		obs := c15Obs{ID: c.ID, Out: []string{}}
		res := verifkit.Result{Case: ci}
		defer func() {
			res.Obs = obs
			out.Write(res)
			stats[obs.Status]++
		}()
		se := fix.newSession(false)
		if c.Mode != "" {
			r := fix.send(se, mysql.ComQuery, []byte("set session sql_mode='"+c.Mode+"'"))
			if r.RespType == RespError {
				obs.Status, obs.Err = "set-refused", fmt.Sprint(r.Data)
				return nil
			}
		}
		r := fix.send(se, mysql.ComStmtPrepare, []byte(c.Tpl))
		if r.RespType != RespPrepare {
			obs.Status, obs.Err = "prepare-refused", fmt.Sprint(r.Data)
			return nil
		}
		st := r.Data.(*Stmt)
		if st.paramCount != len(c.Vals) {
			obs.Status = "count"
			obs.Err = fmt.Sprintf("prepare reports %d parameters, case has %d", st.paramCount, len(c.Vals))
			return nil
		}
		np := len(c.Vals)
		if c.Pre == "ok-reuse" && np > 0 {
			// an earlier successful execution that carries THIS case's parameter types with other values, then another
			// packet of the connection; the judged execution below does not re-send the types (new-params-bound = 0)
			pd := make([]byte, 9)
			binary.LittleEndian.PutUint32(pd[0:4], st.id)
			binary.LittleEndian.PutUint32(pd[5:9], 1)
			nm := make([]byte, (np+7)/8)
			var tys, vs []byte
			for i, v := range c.Vals {
				flag := byte(0)
				if v.U {
					flag = 0x80
				}
				tys = append(tys, byte(v.T), flag)
				if v.Null {
					nm[i>>3] |= 1 << uint(i%8)
					continue
				}
				b, _ := hex.DecodeString(v.Twin)
				vs = append(vs, b...)
			}
			pd = append(pd, nm...)
			pd = append(pd, 1)
			pd = append(pd, tys...)
			pd = append(pd, vs...)
			if pr := fix.send(se, mysql.ComStmtExecute, pd); pr.RespType == RespError {
				obs.Status, obs.Err = "pre-refused", fmt.Sprint(pr.Data)
				return nil
			}
			fix.send(se, mysql.ComPing, nil)
		} else if c.Pre != "" && np > 0 {
			// an earlier execution of this statement with other values (LONG 1000+i), succeeding or failing at the backend
			pd := make([]byte, 9)
			binary.LittleEndian.PutUint32(pd[0:4], st.id)
			binary.LittleEndian.PutUint32(pd[5:9], 1)
			pd = append(pd, make([]byte, (np+7)/8)...)
			pd = append(pd, 1)
			for i := 0; i < np; i++ {
				pd = append(pd, mysql.TypeLong, 0)
			}
			for i := 0; i < np; i++ {
				v := make([]byte, 4)
				binary.LittleEndian.PutUint32(v, uint32(1000+i))
				pd = append(pd, v...)
			}
			fix.be.failNext = c.Pre == "failed"
			pr := fix.send(se, mysql.ComStmtExecute, pd)
			fix.be.failNext = false
			if (pr.RespType == RespError) != (c.Pre == "failed") {
				obs.Status, obs.Err = "pre-unexpected", fmt.Sprint(pr.Data)
				return nil
			}
		}
		data := make([]byte, 9)
		binary.LittleEndian.PutUint32(data[0:4], st.id)
		binary.LittleEndian.PutUint32(data[5:9], 1)
		nullmap := make([]byte, (np+7)/8)
		var types, values []byte
		for i, v := range c.Vals {
			flag := byte(0)
			if v.U {
				flag = 0x80
			}
			types = append(types, byte(v.T), flag)
			switch {
			case v.Null:
				nullmap[i>>3] |= 1 << uint(i%8)
			case v.IsLD:
				b, _ := hex.DecodeString(v.Long)
				half := len(b) / 2
				for _, chunk := range [][]byte{b[:half], b[half:]} {
					ld := make([]byte, 6)
					binary.LittleEndian.PutUint32(ld[0:4], st.id)
					binary.LittleEndian.PutUint16(ld[4:6], uint16(i))
					ld = append(ld, chunk...)
					if rr := fix.send(se, mysql.ComStmtSendLongData, ld); rr.RespType == RespError {
						obs.Status, obs.Err = "refused", fmt.Sprint(rr.Data)
						return nil
					}
				}
			default:
				b, _ := hex.DecodeString(v.Wire)
				values = append(values, b...)
			}
		}
		if np > 0 {
			data = append(data, nullmap...)
			if c.Pre == "ok-reuse" {
				data = append(data, 0) // the types of the previous execution apply
			} else {
				data = append(data, 1)
				data = append(data, types...)
			}
			data = append(data, values...)
		}
		fix.be.take()
		r = fix.send(se, mysql.ComStmtExecute, data)
		for _, s := range fix.be.take() {
			obs.Out = append(obs.Out, hex.EncodeToString([]byte(s)))
		}
		if fix.panicked != "" {
			obs.Status, obs.Err = "panicked", fix.panicked
		} else if r.RespType == RespError {
			obs.Status, obs.Err = "refused", fmt.Sprint(r.Data)
		} else {
			obs.Status = "executed"
		}
		return nil
	})
	if err != nil {
		t.Fatal(err)
	}
	extra := map[string]interface{}{}
	for k, v := range stats {
		extra[k] = v
	}
	out.Close(n, extra)
	fmt.Println("verif stmt bind cases:", n)
}
