package server

// Session-level extension of the C37 conformance harness (spec/TimeWheel.tla), direction V.
// A real Server on loopback (proto_common_test.go) runs its own idle-timer wheel; the verif tick
// gate (util.VerifTickGate) replaces the wheel's sleep, so the harness decides when a tick happens.
// A seeded driver lets 1..3 client connections connect (onConn: tw.Add), send commands (Session.Run:
// tw.Add on every command), quit (Run's defer: tw.Remove) and lets ticks happen.  Recorded in the
// vocabulary of TimeWheel_trace.tla: add(key, d = sessionTimeout in ticks), del(key), tick(fires, cur).
// Synchronisation is by state, never by sleeping: after every client action the harness waits until
// the wheel's pipeline holds the number of operations the action must have enqueued (the wheel
// goroutine is parked at the gate, so the length only grows); after a tick the wheel goroutine is
// parked again and its registered keys are read directly - a live session that is no longer
// registered was fired by this tick.  Session-level effects are asserted on the spot: a fired
// session's client connection reaches EOF, a session that was not fired still answers.

import (
	"encoding/json"
	"fmt"
	"math/rand"
	"os"
	"reflect"
	"runtime"
	"sort"
	"sync"
	"testing"
	"time"
	"unsafe"

	"github.com/XiaoMi/Gaea/internal/verifkit"
	"github.com/XiaoMi/Gaea/util"
)

type c37sCase struct {
	ID           int   `json:"id"`
	TimeoutTicks int   `json:"timeout_ticks"`
	Steps        int   `json:"steps"`
	Seed         int64 `json:"seed"`
}

type c37sEv struct {
	T     int      `json:"t"`
	Ev    string   `json:"ev"`
	Key   string   `json:"key"`
	D     int      `json:"d"`
	Fires []string `json:"fires"`
	N     int      `json:"n"`
	Cur   int      `json:"cur"`
}

type c37sSess struct {
	key   string
	cl    *pxClient
	local string
}

const (
	c37sWatchdog = 20 * time.Second
	c37sBuckets  = 3600
	c37sMaxKeys  = 24
)

// the wheel's unexported state, read only while its goroutine is parked at the tick gate
func c37sField(tw *util.TimeWheel, name string) reflect.Value {
	f := reflect.ValueOf(tw).Elem().FieldByName(name)
	return reflect.NewAt(f.Type(), unsafe.Pointer(f.UnsafeAddr())).Elem()
}

func c37sQueueLen(tw *util.TimeWheel) int { return c37sField(tw, "pipelineC").Len() }
func c37sCur(tw *util.TimeWheel) int      { return int(c37sField(tw, "currentIndex").Int()) }

// remote addresses of the sessions registered in the wheel
func c37sRegistered(tw *util.TimeWheel) map[string]bool {
	out := map[string]bool{}
	for _, k := range c37sField(tw, "bucketIndexes").MapKeys() {
		if s, ok := k.Interface().(*Session); ok && s.c != nil {
			out[s.c.RemoteAddr().String()] = true
		}
	}
	return out
}

func TestVerifSessionIdleTimer(t *testing.T) {
	out, err := verifkit.OpenOut()
	if err != nil {
		t.Fatalf("no output: %v", err)
	}
	trace, err := verifkit.OpenOutPath(verifkit.TraceOutPath())
	if err != nil {
		t.Fatalf("no trace output: %v", err)
	}
	var cases []c37sCase
	if _, err = verifkit.EachCase(func(i int, raw json.RawMessage) error {
		var c c37sCase
		if e := json.Unmarshal(raw, &c); e != nil {
			return e
		}
		cases = append(cases, c)
		return nil
	}); err != nil {
		t.Fatalf("cases: %v", err)
	}
	tmp, err := os.MkdirTemp("", "verif-c37s-")
	if err != nil {
		t.Fatal(err)
	}
	defer os.RemoveAll(tmp)
	var backends []*fakeBackend
	for i := 0; i < 2; i++ {
		fb, err := startFakeBackend(i)
		if err != nil {
			t.Fatalf("fake backend: %v", err)
		}
		backends = append(backends, fb)
	}
	arrived := make(chan *util.TimeWheel)
	var relMu sync.Mutex
	releases := map[*util.TimeWheel]chan struct{}{}
	release := func(w *util.TimeWheel) chan struct{} { // every wheel has its own release channel
		relMu.Lock()
		defer relMu.Unlock()
		if releases[w] == nil {
			releases[w] = make(chan struct{})
		}
		return releases[w]
	}
	util.VerifTickGate = func(w *util.TimeWheel) {
		arrived <- w
		<-release(w)
	}
	totals := map[string]int{}
	for ci := range cases {
		res := verifkit.Result{Case: ci}
		if ci > 0 { // a process can hold one proxy (the statistics backend registers itself once): one scenario per run
			res.Dev("C37 harness one-scenario-per-process", "scenario %d ignored", cases[ci].ID)
			out.Write(res)
			continue
		}
		c37sRun(&cases[ci], tmp, backends, arrived, release, &res, trace, totals)
		if len(res.Devs) > 0 {
			out.Write(res)
		}
	}
	trace.Close(len(cases), nil)
	extra := map[string]interface{}{}
	for k, v := range totals {
		extra[k] = v
	}
	out.Close(len(cases), extra)
}

func c37sRun(c *c37sCase, tmp string, backends []*fakeBackend, arrived chan *util.TimeWheel, release func(*util.TimeWheel) chan struct{},
	res *verifkit.Result, trace *verifkit.Out, totals map[string]int) {
	dir, err := os.MkdirTemp(tmp, "px")
	if err != nil {
		res.Dev("C37 harness tmpdir", "%v", err)
		return
	}
	user := fmt.Sprintf("u_c37s_%d", c.ID)
	px, err := startProxy(dir, backends, []pxNamespace{{Name: fmt.Sprintf("ns_c37s_%d", c.ID), User: user, Pass: "pw", MaxRes: -1}})
	if err != nil {
		res.Dev("C37 harness proxy", "%v", err)
		return
	}
	defer px.stop()
	tw := px.srv.tw
	px.srv.sessionTimeout = time.Duration(c.TimeoutTicks) * 5 * time.Second // no session exists yet
	waitParked := func() bool {
		deadline := time.After(c37sWatchdog)
		for {
			select {
			case w := <-arrived:
				if w == tw {
					return true
				}
				// the wheel of an earlier scenario: it stays parked on its own release channel
			case <-deadline:
				return false
			}
		}
	}
	if !waitParked() {
		res.Dev("C37 harness wheel-did-not-reach-gate", "the server's wheel goroutine never asked for a tick")
		return
	}
	// from here on the wheel goroutine is parked whenever the harness looks at the wheel
	expectQ := 0
	waitQueue := func(what string) bool {
		deadline := time.Now().Add(c37sWatchdog)
		for {
			l := c37sQueueLen(tw)
			if l == expectQ {
				return true
			}
			if l > expectQ {
				res.Dev("C37 session surplus-timer-operation", "after %s the wheel's pipeline holds %d operations, the session layer should have enqueued %d", what, l, expectQ)
				return false
			}
			if time.Now().After(deadline) {
				res.Dev("C37 session missing-timer-operation", "after %s the wheel's pipeline holds %d operations, the session layer should have enqueued %d", what, l, expectQ)
				return false
			}
			runtime.Gosched()
			time.Sleep(50 * time.Microsecond) // polling back-off on a monotone condition, not a timing assumption
		}
	}
	log := func(ev, key string, fires []string) {
		if fires == nil {
			fires = []string{}
		}
		trace.Write(c37sEv{T: c.ID, Ev: ev, Key: key, D: c.TimeoutTicks, Fires: fires, N: c37sBuckets, Cur: c37sCur(tw)})
	}
	expectEOF := func(s *c37sSess) bool {
		s.cl.c.SetReadDeadline(time.Now().Add(c37sWatchdog))
		for {
			if _, err := s.cl.readPacket(); err != nil {
				return !pxIsTimeout(err)
			}
		}
	}
	rng := rand.New(rand.NewSource(c.Seed))
	var live []*c37sSess
	keys := 0
	for step := 0; step < c.Steps; step++ {
		var acts []string
		if len(live) < 3 && keys < c37sMaxKeys {
			acts = append(acts, "connect")
		}
		if len(live) > 0 {
			acts = append(acts, "command", "command", "quit")
		}
		acts = append(acts, "tick", "tick", "tick")
		switch act := acts[rng.Intn(len(acts))]; act {
		case "connect":
			cl, err := pxConnect(px.addr, user, "pw", "db_ks")
			if err != nil {
				res.Dev("C37 harness connect", "%v", err)
				return
			}
			keys++
			s := &c37sSess{key: fmt.Sprintf("k%d", keys), cl: cl, local: cl.c.LocalAddr().String()}
			live = append(live, s)
			expectQ++ // Server.onConn: tw.Add after the handshake
			if !waitQueue("connect of " + s.key) {
				return
			}
			log("add", s.key, nil)
			totals["connects"]++
		case "command":
			s := live[rng.Intn(len(live))]
			s.cl.c.SetDeadline(time.Now().Add(c37sWatchdog))
			if err := s.cl.command(0x0e, nil); err != nil {
				res.Dev("C37 session active-session-closed", "session %s, not fired by any tick so far, refuses a command: %v", s.key, err)
				return
			}
			if r := s.cl.readResponse(nil); r.Kind != "ok" {
				res.Dev("C37 session active-session-closed", "session %s, not fired by any tick so far, does not answer a ping: %s", s.key, r)
				return
			}
			expectQ++ // Session.Run: tw.Add on every command
			if !waitQueue("a command of " + s.key) {
				return
			}
			log("add", s.key, nil)
			totals["commands"]++
		case "quit":
			i := rng.Intn(len(live))
			s := live[i]
			live = append(live[:i], live[i+1:]...)
			s.cl.c.SetDeadline(time.Now().Add(c37sWatchdog))
			if err := s.cl.command(0x01, nil); err != nil {
				res.Dev("C37 session active-session-closed", "session %s, not fired by any tick so far, refuses COM_QUIT: %v", s.key, err)
				return
			}
			expectEOF(s)
			s.cl.close()
			expectQ += 2 // the command's tw.Add, then Run's deferred tw.Remove
			if !waitQueue("quit of " + s.key) {
				return
			}
			log("add", s.key, nil)
			log("del", s.key, nil)
			totals["quits"]++
		case "tick":
			release(tw) <- struct{}{}
			if !waitParked() {
				res.Dev("C37 harness tick-hang", "step %d: the wheel did not complete its iteration", step)
				return
			}
			reg := c37sRegistered(tw)
			var fired []string
			var still []*c37sSess
			var gone []*c37sSess
			for _, s := range live {
				if reg[s.local] {
					still = append(still, s)
				} else {
					fired = append(fired, s.key)
					gone = append(gone, s)
				}
			}
			sort.Strings(fired)
			live = still
			log("tick", "", fired)
			totals["ticks"]++
			totals["fires"] += len(fired)
			expectQ = 0
			for _, s := range gone {
				// the callback is Session.Close: the client connection must reach EOF
				if !expectEOF(s) {
					res.Dev("C37 session fired-but-not-closed", "the wheel fired session %s but its client connection stays open", s.key)
					return
				}
				s.cl.close()
				expectQ++ // Run ends: its deferred tw.Remove
			}
			if !waitQueue(fmt.Sprintf("the close of fired sessions %v", fired)) {
				return
			}
			for _, s := range gone {
				log("del", s.key, nil)
			}
		}
	}
	for _, s := range live {
		s.cl.close()
	}
}
