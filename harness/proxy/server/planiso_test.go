package server

// Conformance harness for spec/PlanIsolation.tla (property C07), direction V.
// Every real planning call (SessionExecutor.getPlan = preBuildUnshardPlan + parse + plan.BuildPlan,
// and the rule lookup of COM_FIELD_LIST) is bracketed by a deep snapshot hash of the namespace's
// shared router (all rules and the default rule's fields, by reflection); the plan is rendered by
// executing it against a recording plan.Executor.  The recorded events are judged by TLC
// (spec/PlanIsolation_trace.tla).  Phase (a) replays TLC-generated workloads sequentially, phase (b)
// runs the same workloads on 16 goroutines (one session each) against the same router.

import (
	"crypto/sha1"
	"encoding/hex"
	"encoding/json"
	"errors"
	"fmt"
	"os"
	"reflect"
	"sort"
	"strings"
	"sync"
	"sync/atomic"
	"testing"

	"github.com/XiaoMi/Gaea/internal/verifkit"
	"github.com/XiaoMi/Gaea/models"
	"github.com/XiaoMi/Gaea/mysql"
	"github.com/XiaoMi/Gaea/parser"
	"github.com/XiaoMi/Gaea/parser/ast"
	"github.com/XiaoMi/Gaea/util"
)

// ---------------------------------------------------------------------------------------------
// canonical deep rendering of a value (unexported fields included), used for the router snapshot

func piCanon(sb *strings.Builder, v reflect.Value, path string, seen map[uintptr]bool, leaves map[string]string) {
	switch v.Kind() {
	case reflect.Invalid:
		sb.WriteString("nil")
		leaves[path] = "nil"
	case reflect.Ptr:
		if v.IsNil() {
			sb.WriteString("nil")
			leaves[path] = "nil"
			return
		}
		if seen[v.Pointer()] {
			sb.WriteString("<cycle>")
			return
		}
		seen[v.Pointer()] = true
		sb.WriteString("&")
		piCanon(sb, v.Elem(), path, seen, leaves)
		delete(seen, v.Pointer())
	case reflect.Interface:
		if v.IsNil() {
			sb.WriteString("nil")
			leaves[path] = "nil"
			return
		}
		sb.WriteString(v.Elem().Type().String())
		sb.WriteString(":")
		piCanon(sb, v.Elem(), path, seen, leaves)
	case reflect.Struct:
		sb.WriteString("{")
		for i := 0; i < v.NumField(); i++ {
			name := v.Type().Field(i).Name
			sb.WriteString(name)
			sb.WriteString("=")
			piCanon(sb, v.Field(i), path+"."+name, seen, leaves)
			sb.WriteString(";")
		}
		sb.WriteString("}")
	case reflect.Map:
		if v.IsNil() {
			sb.WriteString("nilmap")
			leaves[path] = "nilmap"
			return
		}
		type kv struct {
			k string
			v reflect.Value
		}
		var items []kv
		it := v.MapRange()
		for it.Next() {
			var kb strings.Builder
			piCanon(&kb, it.Key(), path+"#key", map[uintptr]bool{}, map[string]string{})
			items = append(items, kv{kb.String(), it.Value()})
		}
		sort.Slice(items, func(i, j int) bool { return items[i].k < items[j].k })
		sb.WriteString("map[")
		for _, e := range items {
			sb.WriteString(e.k)
			sb.WriteString(":")
			piCanon(sb, e.v, path+"["+e.k+"]", seen, leaves)
			sb.WriteString(",")
		}
		sb.WriteString("]")
		leaves[path+"#len"] = fmt.Sprint(len(items))
	case reflect.Slice, reflect.Array:
		if v.Kind() == reflect.Slice && v.IsNil() {
			sb.WriteString("nilslice")
			leaves[path] = "nilslice"
			return
		}
		sb.WriteString("[")
		for i := 0; i < v.Len(); i++ {
			piCanon(sb, v.Index(i), fmt.Sprintf("%s[%d]", path, i), seen, leaves)
			sb.WriteString(",")
		}
		sb.WriteString("]")
		leaves[path+"#len"] = fmt.Sprint(v.Len())
	case reflect.String:
		s := fmt.Sprintf("%q", v.String())
		sb.WriteString(s)
		leaves[path] = s
	case reflect.Bool:
		s := fmt.Sprint(v.Bool())
		sb.WriteString(s)
		leaves[path] = s
	case reflect.Int, reflect.Int8, reflect.Int16, reflect.Int32, reflect.Int64:
		s := fmt.Sprint(v.Int())
		sb.WriteString(s)
		leaves[path] = s
	case reflect.Uint, reflect.Uint8, reflect.Uint16, reflect.Uint32, reflect.Uint64, reflect.Uintptr:
		s := fmt.Sprint(v.Uint())
		sb.WriteString(s)
		leaves[path] = s
	case reflect.Float32, reflect.Float64:
		s := fmt.Sprint(v.Float())
		sb.WriteString(s)
		leaves[path] = s
	default: // func, chan, unsafe pointer: identity is not configuration
		sb.WriteString("<" + v.Kind().String() + ">")
	}
}

type piSnap struct {
	hash   string
	leaves map[string]string
}

func piSnapshot(x interface{}) piSnap {
	var sb strings.Builder
	leaves := map[string]string{}
	piCanon(&sb, reflect.ValueOf(x), "router", map[uintptr]bool{}, leaves)
	h := sha1.Sum([]byte(sb.String()))
	return piSnap{hash: hex.EncodeToString(h[:6]), leaves: leaves}
}

// piDiff names the leaves that differ (path relative to the router, map keys stripped of quotes)
func piDiff(a, b piSnap) []string {
	set := map[string]bool{}
	for k, v := range a.leaves {
		if b.leaves[k] != v {
			set[k] = true
		}
	}
	for k, v := range b.leaves {
		if a.leaves[k] != v {
			set[k] = true
		}
	}
	var out []string
	for k := range set {
		out = append(out, strings.TrimPrefix(k, "router."))
	}
	sort.Strings(out)
	return out
}

// ---------------------------------------------------------------------------------------------
// rendering of a plan: what it would send to which slice / database

var errPiRecorded = errors.New("recorded")

type piRecorder struct {
	calls []string
}

func (r *piRecorder) ExecuteSQL(ctx *util.RequestContext, slice, db, sql string) (*mysql.Result, error) {
	r.calls = append(r.calls, fmt.Sprintf("one|%s|%s|%s", slice, db, sql))
	return &mysql.Result{Resultset: &mysql.Resultset{}}, nil
}

func (r *piRecorder) ExecuteSQLs(ctx *util.RequestContext, sqls map[string]map[string][]string) ([]*mysql.Result, error) {
	for slice, dbs := range sqls {
		for db, list := range dbs {
			for i, sql := range list {
				r.calls = append(r.calls, fmt.Sprintf("many|%s|%s|%d|%s", slice, db, i, sql))
			}
		}
	}
	return nil, errPiRecorded
}

func (r *piRecorder) SetLastInsertID(uint64)   {}
func (r *piRecorder) GetLastInsertID() uint64 { return 0 }
func (r *piRecorder) HandleSet(*util.RequestContext, string, *ast.SetStmt) (*mysql.Result, error) {
	r.calls = append(r.calls, "set")
	return nil, nil
}

// ---------------------------------------------------------------------------------------------
// statement universe: abstract statement ids of the specification -> concrete SQL

var piStmts = map[string]string{
	"q1":  "select * from tbl_ks where id = 3",
	"q2":  "select * from tbl_ks",
	"q3":  "select id, count(*) from tbl_ks group by id order by id",
	"q4":  "select * from t_plain where a = 1",
	"q5":  "select * from db_b.t_other where a = 1",
	"q6":  "insert into tbl_ks (id, name) values (5, 'x')",
	"q7":  "insert into t_plain (a) values (1)",
	"q8":  "update tbl_ks set name = 'y' where id = 6",
	"q9":  "update t_plain set a = 2 where a = 1",
	"q10": "delete from tbl_ks where id in (1, 2, 3)",
	"q11": "select * from tbl_ks_child where id = 2",
	"q12": "update tbl_ks_global set name = 'g' where id = 2", // (a read of a global table picks its slice at random: not a function)
	"q13": "select * from tbl_ks_year where create_time = '2016-03-04'",
	"q14": "fieldlist:t_plain",
	"q15": "fieldlist:tbl_ks",
	"q16": "explain select * from tbl_ks where id = 1",
	"q17": "select * from tbl_ks_range where id between 50 and 150",
	"q18": "select * from db_ks.tbl_ks where id = 1",
	// mycat-style rules: routing by key, by the DATABASE() hint (physical db -> table index lookup on the rule),
	// through a linked rule, and through the trailing /* !mycat:sql=... */ hint statement
	"q19": "select * from tbl_mycat where id = 5",
	"q20": "select * from tbl_mycat where DATABASE() = 'db_mycat_2'",
	"q21": "select * from tbl_mycat_child where DATABASE() = db_mycat_1",
	"q22": "select * from tbl_mycat where a = 1 /* !mycat:sql=select 1 from tbl_mycat where id = 3 */",
	"q23": "insert into tbl_mycat (id, a) values (6, 'x')",
	"q24": "select * from db_mycat.tbl_mycat_long where DATABASE() = `db_mycat_3`",
	"q25": "select * from tbl_mycat_murmur where id = 7",
	"q26": "select * from tbl_mycat_string where id = 'abc'",
	"q27": "update tbl_mycat_global set a = 1 where id = 2",
	"q28": "fieldlist:tbl_mycat",
}

var piDbs = map[string]string{"d1": "db_ks", "d2": "db_b", "d3": "db_mycat"}

func piStmtClass(id string) string {
	sql := piStmts[id]
	switch {
	case strings.HasPrefix(sql, "fieldlist:"):
		return "field-list"
	case strings.Contains(sql, "mycat:sql="):
		return "mycat hint statement"
	case strings.Contains(sql, "DATABASE()"):
		return "DATABASE() hint select"
	case strings.Contains(sql, "t_plain") || strings.Contains(sql, "t_other"):
		return "unsharded " + strings.Fields(sql)[0]
	default:
		return "sharded " + strings.Fields(sql)[0]
	}
}

const piNsName = "ns_planiso"

// fake MySQL backends (proto_common_test.go) behind the two slices: COM_FIELD_LIST really travels to a backend
var piBackends []*fakeBackend
var piTokenSeq uint64

func piNamespaceConfig(variant int) *models.Namespace {
	slices := []string{"slice-0", "slice-1"}
	cfg := &models.Namespace{
		Name:           piNsName,
		Online:         true,
		AllowedDBS:     map[string]bool{"db_ks": true, "db_b": true, "db_mycat": true},
		DefaultPhyDBS:  map[string]string{"db_ks": "db_ks", "db_b": "db_b", "db_mycat": "db_mycat_0"},
		DefaultSlice:   "slice-0",
		DefaultCharset: "utf8",
		Users: []*models.User{{UserName: "u_pi", Password: "pw", Namespace: piNsName,
			RWFlag: models.ReadWrite, RWSplit: models.NoReadWriteSplit}},
		Slices: []*models.Slice{
			{Name: "slice-0", UserName: "root", Password: "root", Master: piBackends[0].addr() + "#c3", Capacity: 32, MaxCapacity: 64, IdleTimeout: 3600},
			{Name: "slice-1", UserName: "root", Password: "root", Master: piBackends[1].addr() + "#c3", Capacity: 32, MaxCapacity: 64, IdleTimeout: 3600},
		},
		ShardRules: []*models.Shard{
			{DB: "db_ks", Table: "tbl_ks", Type: "mod", Key: "id", Locations: []int{2, 2}, Slices: slices},
			{DB: "db_ks", Table: "tbl_ks_child", Type: "linked", Key: "id", ParentTable: "tbl_ks"},
			{DB: "db_ks", Table: "tbl_ks_global", Type: "global", Locations: []int{2, 2}, Slices: slices},
			{DB: "db_ks", Table: "tbl_ks_range", Type: "range", Key: "id", Locations: []int{2, 2}, Slices: slices, TableRowLimit: 100},
			{DB: "db_ks", Table: "tbl_ks_year", Type: "date_year", Key: "create_time", Slices: slices, DateRange: []string{"2014-2017", "2018-2019"}},
			{DB: "db_mycat", Table: "tbl_mycat", Type: "mycat_mod", Key: "id", Locations: []int{2, 2}, Slices: slices, Databases: []string{"db_mycat_[0-3]"}},
			{DB: "db_mycat", Table: "tbl_mycat_child", Type: "linked", Key: "id", ParentTable: "tbl_mycat"},
			{DB: "db_mycat", Table: "tbl_mycat_long", Type: "mycat_long", Key: "id", Locations: []int{2, 2}, Slices: slices,
				Databases: []string{"db_mycat_[0-3]"}, PartitionCount: "4", PartitionLength: "256"},
			{DB: "db_mycat", Table: "tbl_mycat_murmur", Type: "mycat_murmur", Key: "id", Locations: []int{2, 2}, Slices: slices,
				Databases: []string{"db_mycat_0", "db_mycat_1", "db_mycat_2", "db_mycat_3"}, Seed: "0", VirtualBucketTimes: "160"},
			{DB: "db_mycat", Table: "tbl_mycat_string", Type: "mycat_string", Key: "id", Locations: []int{2, 2}, Slices: slices,
				Databases: []string{"db_mycat_[0-3]"}, PartitionCount: "4", PartitionLength: "256", HashSlice: "20"},
			{DB: "db_mycat", Table: "tbl_mycat_global", Type: "global", Locations: []int{2, 2}, Slices: slices, Databases: []string{"db_mycat_[0-3]"}},
		},
	}
	if variant%2 == 1 { // the second configuration has one more rule, so that a load is visible in the snapshot
		cfg.ShardRules = append(cfg.ShardRules,
			&models.Shard{DB: "db_ks", Table: "tbl_ks_extra", Type: "hash", Key: "id", Locations: []int{1, 1}, Slices: slices})
	}
	return cfg
}

const piProxyIni = `
config_type=file
file_config_path=%s
cluster_name=gaea_verif
log_path=%s
log_level=fatal
log_filename=gaea
log_output=file
proto_type=tcp4
proxy_addr=127.0.0.1:0
admin_addr=127.0.0.1:0
slow_sql_time=100000
session_timeout=3600
stats_enabled=false
encrypt_key=1234abcd5678efg*
server_idc=c3
server_version=5.7.25-gaea
`

type piEnv struct {
	mgr   *Manager
	srv   *Server
	loads int
}

func piSetup(tmp string) (*piEnv, error) {
	iniPath := tmp + "/gaea_verif.ini"
	if err := os.WriteFile(iniPath, []byte(fmt.Sprintf(piProxyIni, tmp, tmp)), 0o644); err != nil {
		return nil, err
	}
	proxyCfg, err := models.ParseProxyConfigFromFile(iniPath)
	if err != nil {
		return nil, err
	}
	cfg := piNamespaceConfig(0)
	mgr, err := CreateManager(proxyCfg, map[string]*models.Namespace{piNsName: cfg})
	if err != nil {
		return nil, err
	}
	if mgr.GetNamespace(piNsName) == nil {
		return nil, errors.New("namespace was not created")
	}
	srv := &Server{manager: mgr, ServerVersion: "5.7.25-gaea", ServerVersionCompareStatus: util.NewVersionCompareStatus("5.7.25-gaea")}
	return &piEnv{mgr: mgr, srv: srv}, nil
}

// load installs a fresh namespace (fresh router) through the real reload path
func (e *piEnv) load() error {
	e.loads++
	cfg := piNamespaceConfig(e.loads)
	if err := e.mgr.ReloadNamespacePrepare(cfg); err != nil {
		return err
	}
	return e.mgr.ReloadNamespaceCommit(piNsName)
}

func (e *piEnv) session() *SessionExecutor {
	se := newSessionExecutor(e.mgr)
	se.namespace = piNsName
	se.user = "u_pi"
	se.db = "db_ks"
	se.SetCollationID(mysql.CollationID(33))
	se.SetCharset("utf8")
	cc := new(Session)
	cc.proxy = e.srv
	cc.manager = e.mgr
	cc.namespace = piNsName
	cc.c = &ClientConn{Conn: &mysql.Conn{}}
	se.session = cc
	cc.executor = se
	se.SetContextNamespace()
	return se
}

// piPlan is one real planning call and the rendering of its result
func piPlan(se *SessionExecutor, stmtID, dbID string) string {
	sql, ok := piStmts[stmtID]
	db, ok2 := piDbs[dbID]
	if !ok || !ok2 {
		return "harness: unknown statement or database " + stmtID + "/" + dbID
	}
	ns := se.GetNamespace()
	var out string
	panicked, msg, _ := verifkit.Catch(func() {
		if strings.HasPrefix(sql, "fieldlist:") {
			// the real COM_FIELD_LIST handler: rule lookup, backend connection of the rule's slice, physical database;
			// rendered as what reached which backend (the wildcard carries a token that identifies this call)
			table := strings.TrimPrefix(sql, "fieldlist:")
			token := fmt.Sprintf("tok%d", atomic.AddUint64(&piTokenSeq, 1))
			se.SetDatabase(db)
			_, err := se.handleFieldList(util.NewRequestContext(), []byte(table+"\x00"+token))
			if err != nil {
				out = "fieldlist|error|" + err.Error()
				return
			}
			out = "fieldlist|not seen by any backend"
			for _, b := range piBackends {
				if v, ok := b.fieldList(token); ok {
					out = "fieldlist|" + v
				}
			}
			return
		}
		reqCtx := util.NewRequestContext()
		reqCtx.SetStmtType(parser.Preview(sql))
		p, err := se.getPlan(reqCtx, ns, db, sql, true)
		if err != nil {
			out = "error|" + err.Error()
			return
		}
		reqCtx.SetDefaultSlice(ns.GetDefaultSlice())
		rec := &piRecorder{}
		_, xerr := p.ExecuteIn(reqCtx, rec)
		sort.Strings(rec.calls)
		out = fmt.Sprintf("%T|%s", p, strings.Join(rec.calls, "\n"))
		if xerr != nil && !strings.Contains(xerr.Error(), errPiRecorded.Error()) {
			out += "|exec-error:" + xerr.Error()
		}
	})
	if panicked {
		return "panic|" + msg
	}
	return out
}

func piShort(plan string) string {
	h := sha1.Sum([]byte(plan))
	return hex.EncodeToString(h[:6])
}

type piStep struct {
	S    string `json:"s"`
	Stmt string `json:"stmt"`
	Db   string `json:"db"`
}

type piCase struct {
	ID    string   `json:"id"`
	Steps []piStep `json:"steps"`
}

type piEvent struct {
	T       string   `json:"t"`
	Ev      string   `json:"ev"`
	S       string   `json:"s,omitempty"`
	Stmt    string   `json:"stmt,omitempty"`
	Db      string   `json:"db,omitempty"`
	Role    string   `json:"role,omitempty"`
	Router  string   `json:"router,omitempty"`
	Before  string   `json:"before,omitempty"`
	After   string   `json:"after,omitempty"`
	Plan    string   `json:"plan,omitempty"`
	Changed []string `json:"changed,omitempty"`
	Text    string   `json:"text,omitempty"`
	Class   string   `json:"class,omitempty"`
	N       int      `json:"n,omitempty"` // cplan: how many calls gave this (statement, database, plan)
}

func TestVerifPlanIsolation(t *testing.T) {
	out, err := verifkit.OpenOut()
	if err != nil {
		t.Fatalf("no output: %v", err)
	}
	trace, err := verifkit.OpenOutPath(verifkit.TraceOutPath())
	if err != nil {
		t.Fatalf("no trace output: %v", err)
	}
	var cases []piCase
	if _, err = verifkit.EachCase(func(i int, raw json.RawMessage) error {
		var c piCase
		if e := json.Unmarshal(raw, &c); e != nil {
			return e
		}
		cases = append(cases, c)
		return nil
	}); err != nil {
		t.Fatalf("cases: %v", err)
	}
	tmp, err := os.MkdirTemp("", "verif-c07-")
	if err != nil {
		t.Fatal(err)
	}
	defer os.RemoveAll(tmp)
	for i := 0; i < 2; i++ {
		fb, err := startFakeBackend(i)
		if err != nil {
			t.Fatalf("fake backend: %v", err)
		}
		piBackends = append(piBackends, fb)
	}
	env, err := piSetup(tmp)
	if err != nil {
		t.Fatalf("setup: %v", err)
	}
	repeats := verifkit.EnvInt("VERIF_PI_REPEATS", 4)
	sequential := os.Getenv("VERIF_PI_SEQUENTIAL") != "0"
	nplans, ncplans := 0, 0
	stmtIDs := make([]string, 0, len(piStmts))
	for id := range piStmts {
		stmtIDs = append(stmtIDs, id)
	}
	sort.Slice(stmtIDs, func(i, j int) bool {
		var a, b int
		fmt.Sscanf(stmtIDs[i], "q%d", &a)
		fmt.Sscanf(stmtIDs[j], "q%d", &b)
		return a < b
	})

	for ci, c := range cases {
		res := verifkit.Result{Case: ci}
		if err := env.load(); err != nil {
			res.Dev("C07 harness load-failed", "%v", err)
			out.Write(res)
			continue
		}
		rt := env.mgr.GetNamespace(piNsName).GetRouter()
		trace.Write(piEvent{T: c.ID, Ev: "load", Router: piSnapshot(rt).hash})

		bracket := func(se *SessionExecutor, s, stmt, db, role string) {
			before := piSnapshot(rt)
			plan := piPlan(se, stmt, db)
			after := piSnapshot(rt)
			ev := piEvent{T: c.ID, Ev: "plan", S: s, Stmt: stmt, Db: db, Role: role, Before: before.hash, After: after.hash,
				Plan: piShort(plan), Class: piStmtClass(stmt)}
			if before.hash != after.hash {
				ev.Changed = piDiff(before, after)
			}
			if strings.HasPrefix(plan, "harness:") || strings.HasPrefix(plan, "panic|") || role == "ref" {
				ev.Text = plan
				if len(ev.Text) > 400 {
					ev.Text = ev.Text[:400]
				}
			}
			trace.Write(ev)
			nplans++
		}
		// reference: every statement planned alone, right after the load (defines F)
		ref := env.session()
		for _, db := range []string{"d1", "d2", "d3"} {
			for _, id := range stmtIDs {
				bracket(ref, "ref", id, db, "ref")
			}
		}
		sessions := map[string]*SessionExecutor{}
		for _, st := range c.Steps {
			if sessions[st.S] == nil {
				sessions[st.S] = env.session()
			}
		}
		// (a) the workload, sequentially, every call bracketed by snapshots
		if sequential {
			for _, st := range c.Steps {
				bracket(sessions[st.S], st.S, st.Stmt, st.Db, "seq")
			}
		}
		// (b) the workload on one goroutine per session, repeated, all against the same router
		before := piSnapshot(rt)
		perSession := map[string][]piStep{}
		var order []string
		for _, st := range c.Steps {
			if _, ok := perSession[st.S]; !ok {
				order = append(order, st.S)
			}
			perSession[st.S] = append(perSession[st.S], st)
		}
		results := make(map[string][]piEvent, len(order))
		var mu sync.Mutex
		var wg sync.WaitGroup
		start := make(chan struct{})
		for _, s := range order {
			wg.Add(1)
			go func(s string, steps []piStep, se *SessionExecutor) {
				defer wg.Done()
				var evs []piEvent
				index := map[string]int{} // distinct (stmt, db, plan) of this session -> position in evs
				<-start
				for r := 0; r < repeats; r++ {
					for _, st := range steps {
						plan := piPlan(se, st.Stmt, st.Db)
						key := st.Stmt + "|" + st.Db + "|" + plan
						if i, ok := index[key]; ok {
							evs[i].N++
							continue
						}
						ev := piEvent{T: c.ID, Ev: "cplan", S: s, Stmt: st.Stmt, Db: st.Db, Plan: piShort(plan), Class: piStmtClass(st.Stmt), N: 1}
						if strings.HasPrefix(plan, "harness:") || strings.HasPrefix(plan, "panic|") {
							ev.Text = plan
						}
						index[key] = len(evs)
						evs = append(evs, ev)
					}
				}
				mu.Lock()
				results[s] = evs
				mu.Unlock()
			}(s, perSession[s], sessions[s])
		}
		close(start)
		wg.Wait()
		for _, s := range order {
			for _, ev := range results[s] {
				trace.Write(ev)
				ncplans += ev.N
			}
		}
		after := piSnapshot(rt)
		ce := piEvent{T: c.ID, Ev: "cend", Before: before.hash, After: after.hash}
		if before.hash != after.hash {
			ce.Changed = piDiff(before, after)
		}
		trace.Write(ce)
	}
	trace.Close(len(cases), nil)
	out.Close(len(cases), map[string]interface{}{"plans": nplans, "cplans": ncplans})
}
