package server

// Shared plumbing of the Protocol harnesses (properties C38, C39): an in-process fake MySQL
// backend speaking real protocol bytes over loopback TCP, a real proxy Server (real Manager,
// Namespace, Slice, connection pool, DirectConnection, Session, SessionExecutor) listening on
// loopback and accepting through the real Server.Run loop, and a small MySQL client that reads the
// proxy's response packets.  Nothing here uses the repository's own packet code, so the bytes on
// both sides of the proxy are produced and parsed independently of the code under test.

import (
	"bufio"
	"crypto/sha1"
	"encoding/binary"
	"encoding/json"
	"errors"
	"fmt"
	"io"
	"net"
	"os"
	"strings"
	"sync"
	"sync/atomic"
	"time"

	"github.com/XiaoMi/Gaea/models"
	"github.com/XiaoMi/Gaea/mysql"
	"github.com/XiaoMi/Gaea/util"
	"github.com/gin-gonic/gin"
)

const (
	pxMaxPacket = 1<<24 - 1
	pxIOTimeout = 60 * time.Second
)

// ---------------------------------------------------------------------------------------------
// raw MySQL packet framing (independent of mysql.Conn)

type pktConn struct {
	c   net.Conn
	br  *bufio.Reader
	seq byte
}

func newPktConn(c net.Conn) *pktConn {
	return &pktConn{c: c, br: bufio.NewReaderSize(c, 1<<16)}
}

// readPacket reads one logical packet (re-assembling 16 MiB continuation frames).  It does not
// insist on the sequence id (the caller may look at lastSeq) but follows it.
func (p *pktConn) readPacket() ([]byte, error) {
	var out []byte
	for {
		var h [4]byte
		if _, err := io.ReadFull(p.br, h[:]); err != nil {
			return nil, err
		}
		n := int(h[0]) | int(h[1])<<8 | int(h[2])<<16
		p.seq = h[3] + 1
		if n > 0 {
			start := len(out)
			if cap(out)-start < n {
				nb := make([]byte, start, start+n+(start>>1))
				copy(nb, out)
				out = nb
			}
			out = out[:start+n]
			if _, err := io.ReadFull(p.br, out[start:]); err != nil {
				return nil, err
			}
		}
		if n < pxMaxPacket {
			if out == nil {
				out = []byte{}
			}
			return out, nil
		}
	}
}

// writePacket frames payload (splitting at 16 MiB - 1, with the empty trailer when needed).
func (p *pktConn) writePacket(w io.Writer, payload []byte) error {
	for {
		n := len(payload)
		if n > pxMaxPacket {
			n = pxMaxPacket
		}
		h := [4]byte{byte(n), byte(n >> 8), byte(n >> 16), p.seq}
		p.seq++
		if _, err := w.Write(h[:]); err != nil {
			return err
		}
		if n > 0 {
			if _, err := w.Write(payload[:n]); err != nil {
				return err
			}
		}
		payload = payload[n:]
		if n < pxMaxPacket {
			return nil
		}
	}
}

func pxLenEnc(b []byte, v uint64) []byte {
	switch {
	case v < 251:
		return append(b, byte(v))
	case v < 1<<16:
		return append(b, 0xfc, byte(v), byte(v>>8))
	case v < 1<<24:
		return append(b, 0xfd, byte(v), byte(v>>8), byte(v>>16))
	default:
		return append(b, 0xfe, byte(v), byte(v>>8), byte(v>>16), byte(v>>24), byte(v>>32), byte(v>>40), byte(v>>48), byte(v>>56))
	}
}

func pxReadLenEnc(b []byte, pos int) (v uint64, np int, isNull bool, ok bool) {
	if pos >= len(b) {
		return 0, pos, false, false
	}
	switch c := b[pos]; {
	case c < 0xfb:
		return uint64(c), pos + 1, false, true
	case c == 0xfb:
		return 0, pos + 1, true, true
	case c == 0xfc:
		if pos+3 > len(b) {
			return 0, pos, false, false
		}
		return uint64(b[pos+1]) | uint64(b[pos+2])<<8, pos + 3, false, true
	case c == 0xfd:
		if pos+4 > len(b) {
			return 0, pos, false, false
		}
		return uint64(b[pos+1]) | uint64(b[pos+2])<<8 | uint64(b[pos+3])<<16, pos + 4, false, true
	default:
		if pos+9 > len(b) {
			return 0, pos, false, false
		}
		return binary.LittleEndian.Uint64(b[pos+1:]), pos + 9, false, true
	}
}

func pxLenEncStr(b []byte, s string) []byte {
	b = pxLenEnc(b, uint64(len(s)))
	return append(b, s...)
}

// dataLenForRowLen: a text row with one column whose packet payload is exactly rowLen bytes.
func pxDataLenForRowLen(rowLen int) (int, error) {
	for _, h := range []int{1, 3, 4, 9} {
		d := rowLen - h
		if d < 0 {
			continue
		}
		if len(pxLenEnc(nil, uint64(d))) == h {
			return d, nil
		}
	}
	return 0, fmt.Errorf("no single-column row has packet length %d", rowLen)
}

// pxRowData is the deterministic content of row idx of backend be: a header that identifies the
// row (when it fits) followed by a filler that depends on the row.
func pxRowData(be, idx, n int) []byte {
	d := make([]byte, n)
	fill := byte('a' + (idx+be*7)%26)
	for i := range d {
		d[i] = fill
	}
	h := fmt.Sprintf("B%dR%07d|", be, idx)
	copy(d, h)
	return d
}

// ---------------------------------------------------------------------------------------------
// fake MySQL backend

type fbScript struct {
	Rows   int         // rows of the scripted result set (statements that name no sub-table)
	RowLen int         // packet payload length of every row
	Sub    map[int]int // rows per sub-table index (statements on tbl_ks_NNNN); absent = Rows
	Multi  []int       // when set: a statement that names no sub-table is answered with len(Multi) result sets
	//                    (SERVER_MORE_RESULTS_EXISTS on all but the last), result set i has Multi[i] rows tagged i
}

// fbSubTable: the sub-table index a statement addresses (tbl_ks_0002 -> 2), or -1
func fbSubTable(sql string) int {
	i := strings.Index(sql, "tbl_ks_")
	if i < 0 || i+11 > len(sql) {
		return -1
	}
	n := 0
	for _, c := range sql[i+7 : i+11] {
		if c < '0' || c > '9' {
			return -1
		}
		n = n*10 + int(c-'0')
	}
	return n
}

type fakeBackend struct {
	id      int
	ln      net.Listener
	mu      sync.Mutex
	script  fbScript
	served  int      // scripted result sets fully written
	queries []string // marker queries seen (most recent last, bounded)
	fieldls map[string]string // COM_FIELD_LIST seen, by wildcard: "b<id>|<current db of the connection>|<table>"
	connSeq uint32
	closed  int32
}

func startFakeBackend(id int) (*fakeBackend, error) {
	ln, err := net.Listen("tcp4", "127.0.0.1:0")
	if err != nil {
		return nil, err
	}
	fb := &fakeBackend{id: id, ln: ln}
	go func() {
		for {
			c, err := ln.Accept()
			if err != nil {
				if atomic.LoadInt32(&fb.closed) != 0 {
					return
				}
				continue
			}
			go fb.serve(c)
		}
	}()
	return fb, nil
}

func (fb *fakeBackend) addr() string { return fb.ln.Addr().String() }

func (fb *fakeBackend) close() {
	atomic.StoreInt32(&fb.closed, 1)
	fb.ln.Close()
}

func (fb *fakeBackend) setScript(s fbScript) {
	fb.mu.Lock()
	fb.script = s
	fb.served = 0
	fb.queries = nil
	fb.mu.Unlock()
}

// fieldList returns (and forgets) what the backend recorded for the COM_FIELD_LIST with this wildcard.
func (fb *fakeBackend) fieldList(wildcard string) (string, bool) {
	fb.mu.Lock()
	defer fb.mu.Unlock()
	v, ok := fb.fieldls[wildcard]
	delete(fb.fieldls, wildcard)
	return v, ok
}

func (fb *fakeBackend) stats() (int, []string) {
	fb.mu.Lock()
	defer fb.mu.Unlock()
	return fb.served, append([]string{}, fb.queries...)
}

const fbCapLower = 0xa20f // LONG_PASSWORD FOUND_ROWS LONG_FLAG CONNECT_WITH_DB PROTOCOL_41 TRANSACTIONS SECURE_CONNECTION
const fbCapUpper = 0x000f // MULTI_STATEMENTS MULTI_RESULTS PS_MULTI_RESULTS PLUGIN_AUTH
const fbStatusAutocommit = 0x0002

func fbOK(status uint16) []byte {
	return []byte{0x00, 0x00, 0x00, byte(status), byte(status >> 8), 0x00, 0x00}
}

func fbEOF(status uint16) []byte {
	return []byte{0xfe, 0x00, 0x00, byte(status), byte(status >> 8)}
}

func fbErr(code uint16, msg string) []byte {
	b := []byte{0xff, byte(code), byte(code >> 8), '#', 'H', 'Y', '0', '0', '0'}
	return append(b, msg...)
}

func fbColDef(schema, table, name string, typ byte, collen uint32) []byte {
	b := pxLenEncStr(nil, "def")
	b = pxLenEncStr(b, schema)
	b = pxLenEncStr(b, table)
	b = pxLenEncStr(b, table)
	b = pxLenEncStr(b, name)
	b = pxLenEncStr(b, name)
	b = append(b, 0x0c, 33, 0) // fixed length marker, charset utf8_general_ci
	b = append(b, byte(collen), byte(collen>>8), byte(collen>>16), byte(collen>>24))
	b = append(b, typ, 0, 0, 0, 0, 0) // type, flags(2), decimals, filler(2)
	return b
}

// isMarkerQuery: statements of the harness' own tables get the scripted result; everything else
// (SET, USE, select 1 of the health check, KILL) gets a fixed small answer.
func fbIsMarker(sql string) bool {
	l := strings.ToLower(sql)
	return strings.HasPrefix(strings.TrimSpace(l), "select") && (strings.Contains(l, "tbl_") || strings.Contains(l, "t_plain"))
}

func (fb *fakeBackend) serve(c net.Conn) {
	defer c.Close()
	if tc, ok := c.(*net.TCPConn); ok {
		tc.SetNoDelay(true)
	}
	p := newPktConn(c)
	bw := bufio.NewWriterSize(c, 1<<16)
	id := atomic.AddUint32(&fb.connSeq, 1)
	// initial handshake v10
	hs := []byte{10}
	hs = append(hs, "5.7.25-fake"...)
	hs = append(hs, 0)
	hs = append(hs, byte(id), byte(id>>8), byte(id>>16), byte(id>>24))
	hs = append(hs, "abcdefgh"...) // salt part 1
	hs = append(hs, 0)
	hs = append(hs, byte(fbCapLower&0xff), byte(fbCapLower>>8))
	hs = append(hs, 33)
	hs = append(hs, byte(fbStatusAutocommit), 0)
	hs = append(hs, byte(fbCapUpper&0xff), byte(fbCapUpper>>8))
	hs = append(hs, 21)
	hs = append(hs, make([]byte, 10)...)
	hs = append(hs, "ijklmnopqrst"...) // salt part 2 (12) + NUL
	hs = append(hs, 0)
	hs = append(hs, "mysql_native_password"...)
	hs = append(hs, 0)
	p.seq = 0
	if p.writePacket(bw, hs) != nil || bw.Flush() != nil {
		return
	}
	if _, err := p.readPacket(); err != nil { // handshake response: any credentials are accepted
		return
	}
	if p.writePacket(bw, fbOK(fbStatusAutocommit)) != nil || bw.Flush() != nil {
		return
	}
	curDB := ""
	for {
		data, err := p.readPacket()
		if err != nil || len(data) == 0 {
			return
		}
		// response sequence continues after the command packet(s)
		switch data[0] {
		case 0x01: // COM_QUIT
			return
		case 0x02: // COM_INIT_DB
			curDB = string(data[1:])
			err = p.writePacket(bw, fbOK(fbStatusAutocommit))
		case 0x0e: // COM_PING
			err = p.writePacket(bw, fbOK(fbStatusAutocommit))
		case 0x04: // COM_FIELD_LIST: table NUL wildcard NUL
			parts := strings.SplitN(string(data[1:]), "\x00", 3)
			if len(parts) >= 2 && parts[1] != "" {
				fb.mu.Lock()
				if fb.fieldls == nil {
					fb.fieldls = map[string]string{}
				}
				fb.fieldls[parts[1]] = fmt.Sprintf("b%d|%s|%s", fb.id, curDB, parts[0])
				fb.mu.Unlock()
			}
			if err = p.writePacket(bw, fbColDef("db", "t", "v", 0xfd, 255)); err == nil {
				err = p.writePacket(bw, fbEOF(fbStatusAutocommit))
			}
		case 0x03: // COM_QUERY
			sql := string(data[1:])
			err = fb.answerQuery(p, bw, sql)
		default:
			err = p.writePacket(bw, fbErr(1047, "fake backend: unknown command"))
		}
		if err != nil || bw.Flush() != nil {
			return
		}
	}
}

func (fb *fakeBackend) answerQuery(p *pktConn, bw *bufio.Writer, sql string) error {
	l := strings.ToLower(strings.TrimSpace(sql))
	if fbIsMarker(sql) {
		fb.mu.Lock()
		sc := fb.script
		fb.queries = append(fb.queries, sql)
		if len(fb.queries) > 8 {
			fb.queries = fb.queries[len(fb.queries)-8:]
		}
		fb.mu.Unlock()
		tag := fb.id
		if sub := fbSubTable(sql); sub >= 0 {
			tag = sub
			if n, ok := sc.Sub[sub]; ok {
				sc.Rows = n
			}
		}
		if fbSubTable(sql) < 0 && len(sc.Multi) > 0 {
			for i, n := range sc.Multi {
				one := sc
				one.Rows = n
				status := uint16(fbStatusAutocommit)
				if i < len(sc.Multi)-1 {
					status |= 0x0008 // SERVER_MORE_RESULTS_EXISTS
				}
				if err := fb.writeResultStatus(p, bw, one, i, status); err != nil {
					return err
				}
			}
		} else if err := fb.writeResult(p, bw, sc, tag); err != nil {
			return err
		}
		fb.mu.Lock()
		fb.served++
		fb.mu.Unlock()
		return nil
	}
	if strings.HasPrefix(l, "select") {
		// constant select (health check `select 1`, healthy-session probes `select 'token'`)
		val := "1"
		if i := strings.IndexByte(sql, '\''); i >= 0 {
			if j := strings.LastIndexByte(sql, '\''); j > i {
				val = sql[i+1 : j]
			}
		}
		if err := p.writePacket(bw, []byte{1}); err != nil {
			return err
		}
		if err := p.writePacket(bw, fbColDef("", "", "c", 0xfd, 255)); err != nil {
			return err
		}
		if err := p.writePacket(bw, fbEOF(fbStatusAutocommit)); err != nil {
			return err
		}
		if err := p.writePacket(bw, pxLenEncStr(nil, val)); err != nil {
			return err
		}
		return p.writePacket(bw, fbEOF(fbStatusAutocommit))
	}
	return p.writePacket(bw, fbOK(fbStatusAutocommit))
}

func (fb *fakeBackend) writeResult(p *pktConn, bw *bufio.Writer, sc fbScript, tag int) error {
	return fb.writeResultStatus(p, bw, sc, tag, fbStatusAutocommit)
}

func (fb *fakeBackend) writeResultStatus(p *pktConn, bw *bufio.Writer, sc fbScript, tag int, status uint16) error {
	if err := p.writePacket(bw, []byte{1}); err != nil {
		return err
	}
	if err := p.writePacket(bw, fbColDef("db_ks", "t", "v", 0xfb, 0xffffffff)); err != nil { // LONG_BLOB
		return err
	}
	if err := p.writePacket(bw, fbEOF(status)); err != nil {
		return err
	}
	dl, err := pxDataLenForRowLen(sc.RowLen)
	if err != nil && sc.Rows > 0 {
		return err
	}
	for i := 0; i < sc.Rows; i++ {
		row := pxLenEnc(make([]byte, 0, sc.RowLen), uint64(dl))
		row = append(row, pxRowData(tag, i, dl)...)
		if err := p.writePacket(bw, row); err != nil {
			return err
		}
	}
	return p.writePacket(bw, fbEOF(status))
}

// ---------------------------------------------------------------------------------------------
// real proxy on loopback

type pxNamespace struct {
	Name   string
	User   string
	Pass   string
	MaxRes int // max_sql_result_size (-1 = unlimited)
}

type pxProxy struct {
	srv      *Server
	addr     string
	backends []*fakeBackend
}

const pxProxyIni = `
config_type=file
file_config_path=%s
cluster_name=gaea_verif
log_path=%s
log_level=fatal
log_filename=gaea
log_output=file
admin_addr=127.0.0.1:0
admin_user=admin
admin_password=admin
proto_type=tcp4
proxy_addr=127.0.0.1:0
slow_sql_time=100000
session_timeout=3600
stats_enabled=false
encrypt_key=1234abcd5678efg*
server_idc=c3
server_version=5.7.25-gaea
`

func pxNamespaceConfig(ns pxNamespace, backends []*fakeBackend) *models.Namespace {
	cfg := &models.Namespace{
		Name:             ns.Name,
		Online:           true,
		AllowedDBS:       map[string]bool{"db_ks": true},
		DefaultPhyDBS:    map[string]string{"db_ks": "db_ks"},
		DefaultSlice:     "slice-0",
		MaxSqlResultSize: ns.MaxRes,
		DefaultCharset:   "utf8",
		Users: []*models.User{{UserName: ns.User, Password: ns.Pass, Namespace: ns.Name,
			RWFlag: models.ReadWrite, RWSplit: models.NoReadWriteSplit}},
	}
	var sliceNames []string
	var locations []int
	for i, b := range backends {
		name := fmt.Sprintf("slice-%d", i)
		sliceNames = append(sliceNames, name)
		locations = append(locations, 2) // two sub-tables per slice: tbl_ks_0000/0001 on slice-0, 0002/0003 on slice-1
		cfg.Slices = append(cfg.Slices, &models.Slice{
			Name: name, UserName: "root", Password: "root", Master: b.addr() + "#c3",
			Capacity: 8, MaxCapacity: 16, IdleTimeout: 3600,
		})
	}
	cfg.ShardRules = []*models.Shard{{DB: "db_ks", Table: "tbl_ks", Type: "mod", Key: "id",
		Locations: locations, Slices: sliceNames}}
	return cfg
}

func startProxy(tmp string, backends []*fakeBackend, nss []pxNamespace) (*pxProxy, error) {
	gin.SetMode(gin.ReleaseMode)
	iniPath := tmp + "/gaea_verif.ini"
	if err := os.WriteFile(iniPath, []byte(fmt.Sprintf(pxProxyIni, tmp, tmp)), 0o644); err != nil {
		return nil, err
	}
	proxyCfg, err := models.ParseProxyConfigFromFile(iniPath)
	if err != nil {
		return nil, err
	}
	cfgs := map[string]*models.Namespace{}
	for _, ns := range nss {
		c := pxNamespaceConfig(ns, backends)
		if err := c.Verify(); err != nil {
			return nil, fmt.Errorf("namespace config %s: %v", ns.Name, err)
		}
		cfgs[ns.Name] = c
	}
	mgr, err := CreateManager(proxyCfg, cfgs)
	if err != nil {
		return nil, err
	}
	for _, ns := range nss {
		if mgr.GetNamespace(ns.Name) == nil {
			return nil, fmt.Errorf("namespace %s was not created", ns.Name)
		}
	}
	ln, err := net.Listen("tcp4", "127.0.0.1:0")
	if err != nil {
		return nil, err
	}
	aln, err := net.Listen("tcp4", "127.0.0.1:0")
	if err != nil {
		return nil, err
	}
	s := &Server{
		listener:                   ln,
		manager:                    mgr,
		ServerVersion:              util.CompactServerVersion("5.7.25-gaea"),
		ServerVersionCompareStatus: util.NewVersionCompareStatus("5.7.25-gaea"),
		AuthPlugin:                 mysql.MysqlNativePassword,
		ServerConfig:               proxyCfg,
		sessionTimeout:             time.Hour,
	}
	DefaultCapability |= mysql.ClientPluginAuth // what NewServer does when an auth plugin is configured
	s.tw, err = util.NewTimeWheel(time.Second*5, 3600)
	if err != nil {
		return nil, err
	}
	s.tw.Start()
	adm := &AdminServer{listener: aln, engine: gin.New(), proxy: s}
	adm.exit.C = make(chan struct{})
	s.adminServer = adm
	go s.Run() // the real accept loop
	return &pxProxy{srv: s, addr: ln.Addr().String(), backends: backends}, nil
}

func (p *pxProxy) stop() {
	p.srv.closed.Set(true)
	p.srv.listener.Close()
}

// ---------------------------------------------------------------------------------------------
// client side

type pxClient struct {
	*pktConn
	salt     []byte
	srvCap   uint32
	connID   uint32
	lastRead time.Time
}

func pxDial(addr string) (*pxClient, error) {
	c, err := net.DialTimeout("tcp4", addr, 10*time.Second)
	if err != nil {
		return nil, err
	}
	if tc, ok := c.(*net.TCPConn); ok {
		tc.SetNoDelay(true)
	}
	return &pxClient{pktConn: newPktConn(c)}, nil
}

func (c *pxClient) close() { c.c.Close() }

func (c *pxClient) send(payload []byte) error {
	c.c.SetWriteDeadline(time.Now().Add(pxIOTimeout))
	return c.writePacket(c.c, payload)
}

func (c *pxClient) recv() ([]byte, error) {
	c.c.SetReadDeadline(time.Now().Add(pxIOTimeout))
	return c.readPacket()
}

// sendRaw writes bytes as they are (header included by the caller).
func (c *pxClient) sendRaw(b []byte) error {
	c.c.SetWriteDeadline(time.Now().Add(pxIOTimeout))
	_, err := c.c.Write(b)
	return err
}

func pxScramble(salt []byte, password string) []byte {
	if password == "" {
		return nil
	}
	s1 := sha1.Sum([]byte(password))
	s2 := sha1.Sum(s1[:])
	h := sha1.New()
	h.Write(salt)
	h.Write(s2[:])
	s3 := h.Sum(nil)
	for i := range s3 {
		s3[i] ^= s1[i]
	}
	return s3
}

// readGreeting parses the proxy's initial handshake.
func (c *pxClient) readGreeting() error {
	d, err := c.recv()
	if err != nil {
		return err
	}
	if len(d) < 1 || d[0] != 10 {
		return fmt.Errorf("unexpected greeting % x", d[:pxMin(len(d), 16)])
	}
	pos := 1
	for pos < len(d) && d[pos] != 0 {
		pos++
	}
	pos++
	if pos+4+8+1+2+1+2+2+1+10 > len(d) {
		return errors.New("short greeting")
	}
	c.connID = binary.LittleEndian.Uint32(d[pos:])
	pos += 4
	c.salt = append([]byte{}, d[pos:pos+8]...)
	pos += 9
	c.srvCap = uint32(binary.LittleEndian.Uint16(d[pos:]))
	pos += 2 + 1 + 2
	c.srvCap |= uint32(binary.LittleEndian.Uint16(d[pos:])) << 16
	pos += 2 + 1 + 10
	if pos+12 > len(d) {
		return errors.New("short greeting (salt)")
	}
	c.salt = append(c.salt, d[pos:pos+12]...)
	return nil
}

const (
	pxCapLongPassword     = 0x00000001
	pxCapConnectWithDB    = 0x00000008
	pxCapProtocol41       = 0x00000200
	pxCapTransactions     = 0x00002000
	pxCapSecureConnection = 0x00008000
	pxCapPluginAuth       = 0x00080000
)

// pxHandshakeFields renders the well-formed HandshakeResponse41 as a list of fields, in the order
// of the specification's layout (spec/Protocol.tla, HandshakeLayout).
func pxHandshakeFields(salt []byte, user, pass, db string, withPlugin bool) [][]byte {
	capab := uint32(pxCapLongPassword | pxCapProtocol41 | pxCapTransactions | pxCapSecureConnection)
	if db != "" {
		capab |= pxCapConnectWithDB
	}
	if withPlugin {
		capab |= pxCapPluginAuth
	}
	f := [][]byte{}
	b4 := make([]byte, 4)
	binary.LittleEndian.PutUint32(b4, capab)
	f = append(f, b4)                           // capability flags
	f = append(f, []byte{0, 0, 0, 1})           // max packet size
	f = append(f, []byte{33})                   // collation utf8_general_ci
	f = append(f, make([]byte, 23))             // reserved
	f = append(f, append([]byte(user), 0))      // user NUL
	auth := pxScramble(salt, pass)
	f = append(f, []byte{byte(len(auth))})      // auth length
	f = append(f, auth)                         // auth response
	if db != "" {
		f = append(f, append([]byte(db), 0))
	}
	if withPlugin {
		f = append(f, append([]byte("mysql_native_password"), 0))
	}
	return f
}

func pxJoin(fields [][]byte) []byte {
	var b []byte
	for _, f := range fields {
		b = append(b, f...)
	}
	return b
}

func (c *pxClient) handshake(user, pass, db string) error {
	if err := c.readGreeting(); err != nil {
		return fmt.Errorf("greeting: %v", err)
	}
	if err := c.send(pxJoin(pxHandshakeFields(c.salt, user, pass, db, true))); err != nil {
		return err
	}
	d, err := c.recv()
	if err != nil {
		return fmt.Errorf("handshake answer: %v", err)
	}
	if len(d) == 0 || d[0] != 0x00 {
		return fmt.Errorf("handshake refused: %s", pxDescribe(d))
	}
	return nil
}

func pxConnect(addr, user, pass, db string) (*pxClient, error) {
	c, err := pxDial(addr)
	if err != nil {
		return nil, err
	}
	if err := c.handshake(user, pass, db); err != nil {
		c.close()
		return nil, err
	}
	return c, nil
}

func pxMin(a, b int) int {
	if a < b {
		return a
	}
	return b
}

func pxDescribe(d []byte) string {
	if len(d) == 0 {
		return "empty packet"
	}
	switch d[0] {
	case 0xff:
		if len(d) >= 3 {
			msg := d[3:]
			if len(msg) > 6 && msg[0] == '#' {
				msg = msg[6:]
			}
			if len(msg) > 160 {
				msg = msg[:160]
			}
			return fmt.Sprintf("ERR %d %s", binary.LittleEndian.Uint16(d[1:]), msg)
		}
		return "ERR (short)"
	case 0x00:
		return "OK"
	case 0xfe:
		if len(d) < 9 {
			return "EOF"
		}
	}
	return fmt.Sprintf("packet[%d] % x", len(d), d[:pxMin(len(d), 12)])
}

// pxResult is what the client saw as the answer to one command.
type pxResult struct {
	Kind    string // "ok", "err", "resultset", "closed", "timeout", "protocol"
	ErrCode uint16
	ErrMsg  string
	Cols    int
	Rows    int    // rows received before the terminator (or before the error)
	Term    string // for result sets: "eof", "err", "closed", "timeout"
	Status  uint16 // status flags of the terminating EOF (0x0008 = another result set follows)
	Detail  string
}

func (r pxResult) String() string {
	b, _ := json.Marshal(r)
	return string(b)
}

func pxIsTimeout(err error) bool {
	var ne net.Error
	return errors.As(err, &ne) && ne.Timeout() || errors.Is(err, os.ErrDeadlineExceeded)
}

func pxErrKind(err error) string {
	if pxIsTimeout(err) {
		return "timeout"
	}
	return "closed"
}

// readResponse reads the answer to a command that returns OK / ERR / result set.  onRow is called
// with the payload of every row packet.
func (c *pxClient) readResponse(onRow func(row []byte) error) pxResult {
	d, err := c.recv()
	if err != nil {
		return pxResult{Kind: pxErrKind(err), Detail: err.Error()}
	}
	if len(d) == 0 {
		return pxResult{Kind: "protocol", Detail: "empty packet"}
	}
	switch d[0] {
	case 0x00:
		return pxResult{Kind: "ok"}
	case 0xff:
		r := pxResult{Kind: "err"}
		if len(d) >= 3 {
			r.ErrCode = binary.LittleEndian.Uint16(d[1:])
			r.ErrMsg = pxDescribe(d)
		}
		return r
	case 0xfe:
		if len(d) < 9 {
			return pxResult{Kind: "eof"}
		}
	}
	n, _, _, ok := pxReadLenEnc(d, 0)
	if !ok || n == 0 || n > 4096 {
		return pxResult{Kind: "protocol", Detail: "bad column count: " + pxDescribe(d)}
	}
	r := pxResult{Kind: "resultset", Cols: int(n)}
	for i := 0; i < int(n); i++ {
		d, err = c.recv()
		if err != nil {
			r.Term = pxErrKind(err)
			r.Detail = "in column definitions: " + err.Error()
			return r
		}
		if len(d) > 0 && d[0] == 0xff {
			r.Term = "err"
			r.ErrMsg = pxDescribe(d)
			return r
		}
	}
	d, err = c.recv()
	if err != nil {
		r.Term = pxErrKind(err)
		return r
	}
	if len(d) == 0 || d[0] != 0xfe || len(d) >= 9 {
		r.Kind = "protocol"
		r.Detail = "expected EOF after column definitions: " + pxDescribe(d)
		return r
	}
	for {
		d, err = c.recv()
		if err != nil {
			r.Term = pxErrKind(err)
			r.Detail = err.Error()
			return r
		}
		if len(d) == 0 {
			r.Kind = "protocol"
			r.Detail = "empty packet among rows"
			return r
		}
		if d[0] == 0xfe && len(d) < 9 {
			r.Term = "eof"
			if len(d) >= 5 {
				r.Status = binary.LittleEndian.Uint16(d[3:])
			}
			return r
		}
		if d[0] == 0xff {
			r.Term = "err"
			if len(d) >= 3 {
				r.ErrCode = binary.LittleEndian.Uint16(d[1:])
			}
			r.ErrMsg = pxDescribe(d)
			return r
		}
		r.Rows++
		if onRow != nil {
			if e := onRow(d); e != nil && r.Detail == "" {
				r.Detail = e.Error()
			}
		}
	}
}

// readResults reads an answer and every further result set announced by SERVER_MORE_RESULTS_EXISTS; rows are summed,
// the outcome is that of the last answer read; nsets = result sets received completely.
func (c *pxClient) readResults(onRow func(row []byte) error) (pxResult, int) {
	total := 0
	nsets := 0
	for {
		r := c.readResponse(onRow)
		total += r.Rows
		r.Rows = total
		if r.Kind != "resultset" || r.Term != "eof" {
			return r, nsets
		}
		nsets++
		if r.Status&0x0008 == 0 {
			return r, nsets
		}
	}
}

func (c *pxClient) command(cmd byte, payload []byte) error {
	c.seq = 0
	b := make([]byte, 0, 1+len(payload))
	b = append(b, cmd)
	b = append(b, payload...)
	return c.send(b)
}

func (c *pxClient) query(sql string, onRow func([]byte) error) pxResult {
	if err := c.command(0x03, []byte(sql)); err != nil {
		return pxResult{Kind: "closed", Detail: "write: " + err.Error()}
	}
	return c.readResponse(onRow)
}

// prepare sends COM_STMT_PREPARE and reads the whole prepare response.
func (c *pxClient) prepare(sql string) (id uint32, params int, res pxResult) {
	if err := c.command(0x16, []byte(sql)); err != nil {
		return 0, 0, pxResult{Kind: "closed", Detail: err.Error()}
	}
	d, err := c.recv()
	if err != nil {
		return 0, 0, pxResult{Kind: pxErrKind(err), Detail: err.Error()}
	}
	if len(d) > 0 && d[0] == 0xff {
		return 0, 0, pxResult{Kind: "err", ErrMsg: pxDescribe(d)}
	}
	if len(d) < 12 || d[0] != 0 {
		return 0, 0, pxResult{Kind: "protocol", Detail: "prepare response " + pxDescribe(d)}
	}
	id = binary.LittleEndian.Uint32(d[1:])
	cols := int(binary.LittleEndian.Uint16(d[5:]))
	params = int(binary.LittleEndian.Uint16(d[7:]))
	for _, n := range []int{params, cols} {
		if n == 0 {
			continue
		}
		for i := 0; i <= n; i++ { // n definitions + EOF
			if _, err = c.recv(); err != nil {
				return 0, 0, pxResult{Kind: pxErrKind(err), Detail: err.Error()}
			}
		}
	}
	return id, params, pxResult{Kind: "ok"}
}

func (c *pxClient) executeNoParams(id uint32, onRow func([]byte) error) pxResult {
	p := make([]byte, 9)
	binary.LittleEndian.PutUint32(p, id)
	p[4] = 0
	binary.LittleEndian.PutUint32(p[5:], 1)
	if err := c.command(0x17, p); err != nil {
		return pxResult{Kind: "closed", Detail: err.Error()}
	}
	return c.readResponse(onRow)
}
