package server

// Shared by the Auth family harnesses (allow_test.go: C35, authcheck_test.go: C30): an in-memory net.Conn
// with a chosen remote address.

import (
	"fmt"
	"net"
	"time"
)

type alConn struct{ remote net.Addr }

func (c *alConn) Read(p []byte) (int, error)         { return 0, fmt.Errorf("closed") }
func (c *alConn) Write(p []byte) (int, error)        { return len(p), nil }
func (c *alConn) Close() error                       { return nil }
func (c *alConn) LocalAddr() net.Addr                { return c.remote }
func (c *alConn) RemoteAddr() net.Addr               { return c.remote }
func (c *alConn) SetDeadline(t time.Time) error      { return nil }
func (c *alConn) SetReadDeadline(t time.Time) error  { return nil }
func (c *alConn) SetWriteDeadline(t time.Time) error { return nil }
